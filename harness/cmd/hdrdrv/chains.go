package main

// C09: real chains of mixed order grown on an in-process prime/region/zone network. For every real child header:
// VerifyHeader at every context it is coincident with must accept it; the independent oracle recomputes every derived
// field; entropy / order are compared with the oracle, across repeated calls, across the three cores and against a cold
// core on a copy of the database; every single-field deviation, re-sealed, must be rejected.

import (
	"bufio"
	"encoding/json"
	"errors"
	"flag"
	"fmt"
	"math"
	"math/big"
	"math/rand"
	"os"
	"sort"
	"strings"
	"time"

	"github.com/dominant-strategies/go-quai/common"
	"github.com/dominant-strategies/go-quai/core"
	"github.com/dominant-strategies/go-quai/core/types"
	"github.com/dominant-strategies/go-quai/params"
	"verifharness/chain"
	"verifharness/mininet"
)

type problem struct {
	Kind string                 `json:"kind"`
	Info map[string]interface{} `json:"info"`
}

type blockRec struct {
	id      int
	hash    common.Hash
	parent  int // zone parent
	order   int
	phash   common.Hash // prime head when this block is the zone head
	rhash   common.Hash
	mined   *mininet.Mined
	wo      *types.WorkObject // zone view
	tot     *big.Int          // oracle total entropy as a zone node computes it (work-share entropy of the uncles included)
	totD    *big.Int          // ... as a region / prime node computes it (no uncles there)
	intr    *big.Int
	ws      *big.Int          // oracle work-share entropy of the uncles
	genesis bool
}

type profile struct {
	Name           string
	GenesisDiff    int64
	GasCeil        uint64
	TimeToStartTx  uint64
	BlocksPerMonth uint64 // 0: protocol value
	Fork           bool   // KawPowForkBlock = 1 (post-fork chain in the progpow transition window)
}

type runner struct {
	n       *mininet.Net
	R       *rand.Rand
	prof    profile
	blocks  []*blockRec
	byHash  map[common.Hash]int
	events  []map[string]interface{}
	probs   []problem
	cold    *core.Core // a core on a copy of the zone database (nil: none)
	coldOps int
	stats   map[string]int
	quickDev bool
	appendEvery int
	base    int // id offset for trace ids (tracereset separates runs)
	notes   []string
	noDev   bool // skip the deviations (scaffolding blocks of the climb scenario)
}

func (r *runner) problem(kind string, info map[string]interface{}) {
	if len(r.probs) < 200 {
		r.probs = append(r.probs, problem{kind, info})
	}
}

func applyProfile(p profile) {
	chain.FastParams()
	params.TimeToStartTx = p.TimeToStartTx
	if p.BlocksPerMonth != 0 {
		params.BlocksPerMonth = p.BlocksPerMonth
	}
	if p.Fork {
		params.KawPowForkBlock = 1
		// small share difficulties so that donor headers can be mined offline (used by the seal driver)
		params.InitialShaDiffMultiple = big.NewInt(1)
		params.InitialScryptDiffMultiple = big.NewInt(1)
	}
}

func newRunner(p profile, seed int64) (*runner, error) {
	n, err := mininet.New(mininet.Options{Quiet: true, MinerPreference: 0.5, GenesisDifficulty: p.GenesisDiff, GasCeil: p.GasCeil})
	if err != nil {
		return nil, err
	}
	r := &runner{n: n, R: rand.New(rand.NewSource(seed)), prof: p, byHash: map[common.Hash]int{}, stats: map[string]int{}}
	g := n.ZoneCore().GetBlockByHash(n.Gen)
	if g == nil {
		return nil, errors.New("no genesis block")
	}
	r.blocks = append(r.blocks, &blockRec{id: 0, hash: n.Gen, parent: -1, order: 0, phash: n.Gen, rhash: n.Gen, wo: g, tot: big.NewInt(0), totD: big.NewInt(0), intr: big.NewInt(0), ws: big.NewInt(0), genesis: true})
	r.byHash[n.Gen] = 0
	return r, nil
}

func (r *runner) close() {
	stopCore(r.cold)
	r.n.Close()
}

func (r *runner) head() int { return r.byHash[r.n.ZoneCore().CurrentHeader().Hash()] }

func (r *runner) setHead(b int) error {
	bi := r.blocks[b]
	return r.n.SetHead(bi.phash, bi.rhash, bi.hash)
}

var dtClasses = []string{"fast", "target", "slow"}

func dtSeconds(R *rand.Rand, class string) uint64 {
	if strings.HasPrefix(class, "=") { // exact number of seconds
		var v uint64
		fmt.Sscanf(class[1:], "%d", &v)
		return v
	}
	switch class {
	case "fast":
		return uint64(R.Intn(3)) // 0..2
	case "target":
		return uint64(4 + R.Intn(3)) // 4..6 (DurationLimit = 5)
	default:
		return []uint64{99, 100, 101, 150, 1000}[R.Intn(5)] // around and beyond the clamp at 100
	}
}

// assemble turns a sealed pending header (whose time we may have changed) into per-level blocks, the way
// Slice.ReceiveMinedHeader does (zone body = the pending body; dominant levels build their view themselves).
func (r *runner) assemble(ph *types.WorkObject) (*mininet.Mined, error) {
	n := r.n
	blk := types.NewWorkObject(ph.WorkObjectHeader(), ph.Body(), nil)
	_, order, err := n.ZoneCore().CalcOrder(blk)
	if err != nil {
		return nil, err
	}
	m := &mininet.Mined{Order: order, Hash: blk.Hash()}
	if m.Blocks[mininet.Zone], err = mininet.RoundTrip(blk, mininet.ZoneLoc); err != nil {
		return nil, err
	}
	if order <= mininet.Region {
		rb, err := n.RegionCore().ReceiveMinedHeader(types.CopyWorkObject(blk))
		if err != nil {
			return nil, fmt.Errorf("region ReceiveMinedHeader: %w", err)
		}
		if m.Blocks[mininet.Region], err = mininet.RoundTrip(rb, mininet.RegionLoc); err != nil {
			return nil, err
		}
		if order == mininet.Prime {
			pb, err := n.PrimeCore().ReceiveMinedHeader(types.CopyWorkObject(rb))
			if err != nil {
				return nil, fmt.Errorf("prime ReceiveMinedHeader: %w", err)
			}
			if m.Blocks[mininet.Prime], err = mininet.RoundTrip(pb, mininet.PrimeLoc); err != nil {
				return nil, err
			}
		}
	}
	return m, nil
}

// mineOn extends block `parent` by one block of the wanted order (-1: any), dt class for the timestamp.
// Before insertion: VerifyHeader at every level; oracle; deviations. After: entropy / order observations.
func (r *runner) mineOn(parent, wantOrder int, dtc string) (int, error) {
	n := r.n
	if r.head() != parent {
		if err := r.setHead(parent); err != nil {
			return -1, fmt.Errorf("sethead: %w", err)
		}
	}
	if err := n.Refill(); err != nil {
		return -1, fmt.Errorf("refill: %w", err)
	}
	ph, err := n.Pending()
	if err != nil {
		return -1, err
	}
	par := r.blocks[parent]
	if ph.ParentHash(common.ZONE_CTX) != par.hash {
		if err := r.setHead(parent); err != nil {
			return -1, err
		}
		if ph, err = n.Pending(); err != nil {
			return -1, err
		}
		if ph.ParentHash(common.ZONE_CTX) != par.hash {
			return -1, errors.New("pending header is not built on the requested parent")
		}
	}
	// choose the timestamp: parent time + dt, never in the future
	now := uint64(time.Now().Unix())
	t := par.wo.Time() + dtSeconds(r.R, dtc)
	if par.genesis {
		t = now - 100000 + uint64(r.R.Intn(10)) // the chain starts in the past so that slow blocks fit
	}
	if t > now {
		t = now
	}
	if t < par.wo.Time() {
		t = par.wo.Time()
	}
	ph.WorkObjectHeader().SetTime(t)
	if wantOrder == mininet.Prime && (par.genesis || par.order == mininet.Prime) {
		wantOrder = -1 // a prime block directly on a prime block needs twice the bits of work: not mineable here
	}
	if !fastSeal(ph, wantOrder, 1<<26, r.R.Uint64()>>8) {
		return -1, fmt.Errorf("no nonce found for order %d", wantOrder)
	}
	m, err := r.assemble(ph)
	if err != nil {
		return -1, err
	}
	id := len(r.blocks)
	rec := &blockRec{id: id, hash: m.Hash, parent: parent, order: m.Order, phash: par.phash, rhash: par.rhash, mined: m, wo: m.Blocks[mininet.Zone]}
	if m.Order <= mininet.Prime {
		rec.phash = m.Hash
	}
	if m.Order <= mininet.Region {
		rec.rhash = m.Hash
	}
	ev := map[string]interface{}{"op": "extend", "b": id, "p": parent, "dt": dtc, "ord": m.Order}

	// 0. order of the candidate: asked again (assemble asked once: the answer now comes through the calc-order cache), on a
	// transported copy, and from the oracle - before anything is stored
	if _, oo, oerr := oOrder(m.Blocks[mininet.Zone], m.Blocks[mininet.Zone].Hash()); oerr == nil {
		for k := 0; k < 2; k++ {
			_, o, err := n.ZoneCore().CalcOrder(m.Blocks[mininet.Zone])
			if err != nil {
				o = -1
			}
			r.stats["order_comparisons"]++
			if o != oo || o != m.Order {
				r.problem("order-unstable", map[string]interface{}{"block": id, "first": m.Order, "again": o, "oracle": oo, "call": k})
			}
		}
	}
	// 1. the node's own verdict on the honest header, at every level the block belongs to, BEFORE it is known
	acc := true
	for ctx := mininet.Zone; ctx >= m.Order; ctx-- {
		r.stats["verify_header_honest"]++
		if err := n.Cores[ctx].Slice().HeaderChain().VerifyHeader(m.Blocks[ctx]); err != nil {
			acc = false
			r.problem("honest-header-rejected", map[string]interface{}{"block": id, "ctx": ctx, "err": err.Error()})
		}
	}
	// 2. oracle: every derived field
	fieldsOK := r.checkDerived(rec)
	// 3. deviations (need the honest block NOT to be in the database yet: VerifyHeader short-cuts known hashes)
	if !r.noDev {
		r.deviations(rec)
	}

	if err := n.Insert(m); err != nil {
		return -1, r.appendFailed(id, acc, err)
	}
	if err := n.Advance(m); err != nil {
		return -1, r.appendFailed(id, acc, fmt.Errorf("advance: %w", err))
	}
	r.blocks = append(r.blocks, rec)
	r.byHash[m.Hash] = id

	// 4. entropy and order observations
	r.observe(rec, ev)
	ev["acc"] = acc
	ev["ok"] = fieldsOK
	r.events = append(r.events, ev)
	return id, nil
}

// appendFailed: the node did not append its own block. If one of verifyHeader's rules is named, that is C09's business;
// anything else (termini / pending-body / state processing, e.g. the asynchronous worker racing the synchronous driver)
// is not a header rule: the run ends here and the event is reported as such.
var errHarnessAppend = errors.New("append failed outside the header rules")

func (r *runner) appendFailed(id int, headerAccepted bool, err error) error {
	m := err.Error()
	headerRule := false
	for _, s := range []string{"invalid difficulty", "invalid parent entropy", "invalid parent delta entropy", "invalid parent uncled", "invalid gasLimit",
		"invalid gasUsed", "invalid StateLimit", "invalid stateUsed", "invalid baseFee", "invalid primeTerminus", "invalid expansion number", "invalid number",
		"timestamp older than parent", "invalid header hash", "invalid efficiency score", "invalid threshold count", "invalid etx eligible slices",
		"invalid miner difficulty", "invalid prime state root", "invalid region state root", "invalid sha", "invalid scrypt", "invalid kawpow", "before kawpow fork",
		"order of the block is greater", "same slice", "lock byte", "header data field", "out-of-scope", "extra-data too long", "invalid proof-of-work"} {
		if strings.Contains(m, s) {
			headerRule = true
		}
	}
	if headerRule || !headerAccepted {
		r.problem("honest-block-not-appended", map[string]interface{}{"block": id, "err": m})
		return fmt.Errorf("insert: %w", err)
	}
	r.stats["append_failed_outside_header_rules"]++
	r.notes = append(r.notes, fmt.Sprintf("block %d: %s", id, m))
	return fmt.Errorf("%w: %s", errHarnessAppend, m)
}

func (r *runner) rec(h common.Hash) *blockRec {
	if id, ok := r.byHash[h]; ok {
		return r.blocks[id]
	}
	return nil
}

// forkBlock as configured for this run (oracle input; the value the harness itself set)
func (r *runner) forkBlock() uint64 {
	if r.prof.Fork {
		return 1
	}
	return 1171500
}

func (r *runner) blocksPerMonth() uint64 {
	if r.prof.BlocksPerMonth != 0 {
		return r.prof.BlocksPerMonth
	}
	return 30 * oBlocksPerDay
}

// checkDerived recomputes every derived field of the child from the oracle's own view of the ancestors.
func (r *runner) checkDerived(b *blockRec) bool {
	ok := true
	bad := func(field string, have, want interface{}) {
		ok = false
		r.problem("derived-field-differs", map[string]interface{}{"block": b.id, "field": field, "have": fmt.Sprint(have), "want": fmt.Sprint(want)})
	}
	w := b.wo
	par := r.blocks[b.parent]
	r.stats["oracle_blocks"]++
	// hashes (C08 side condition of every C09 statement)
	if h := oHeaderHash(w.Body().Header()); h != w.HeaderHash() {
		bad("headerHash", w.HeaderHash(), h)
	}
	if h := oWoHash(w.WorkObjectHeader(), r.forkBlock(), params.KawPowTransitionPeriod); h != w.Hash() {
		bad("hash", w.Hash(), h)
	}
	// number in every context: one more than the context parent
	for ctx := 0; ctx < 3; ctx++ {
		cp := r.rec(w.ParentHash(ctx))
		if cp == nil {
			bad(fmt.Sprintf("parentHash[%d]", ctx), w.ParentHash(ctx), "a known block")
			continue
		}
		want := new(big.Int).Add(cp.wo.Number(ctx), big.NewInt(1))
		if cp.genesis {
			want = big.NewInt(1)
		}
		if w.Number(ctx).Cmp(want) != 0 {
			bad(fmt.Sprintf("number[%d]", ctx), w.Number(ctx), want)
		}
		// the context parent is the nearest ancestor-or-self of the zone parent coincident with ctx
		a := par
		for !a.genesis && a.order > ctx {
			a = r.blocks[a.parent]
		}
		if a.hash != cp.hash {
			bad(fmt.Sprintf("parentHash[%d]", ctx), w.ParentHash(ctx), a.hash)
		}
		// parent entropy fields: the zone chain counts the work-share entropy of uncles, the dominant chains do not
		wantE := cp.tot
		if ctx < common.ZONE_CTX {
			wantE = cp.totD
		}
		if w.ParentEntropy(ctx).Cmp(wantE) != 0 {
			bad(fmt.Sprintf("parentEntropy[%d]", ctx), w.ParentEntropy(ctx), wantE)
		}
		if ctx > 0 {
			wantD, wantU := big.NewInt(0), big.NewInt(0)
			if !cp.genesis && cp.order >= ctx {
				eff := cp.intr
				if ctx == common.ZONE_CTX {
					eff = new(big.Int).Add(cp.intr, cp.ws)
				}
				_, wantD, wantU = oEntropies(cp.wo, eff, cp.order, false)
			}
			if w.ParentDeltaEntropy(ctx).Cmp(wantD) != 0 {
				bad(fmt.Sprintf("parentDeltaEntropy[%d]", ctx), w.ParentDeltaEntropy(ctx), wantD)
			}
			if w.ParentUncledDeltaEntropy(ctx).Cmp(wantU) != 0 {
				bad(fmt.Sprintf("parentUncledDeltaEntropy[%d]", ctx), w.ParentUncledDeltaEntropy(ctx), wantU)
			}
		}
	}
	// time window
	now := uint64(time.Now().Unix())
	if w.Time() < par.wo.Time() || w.Time() > now+oAllowedFutureSeconds {
		bad("time", w.Time(), fmt.Sprintf("[%d, %d]", par.wo.Time(), now+oAllowedFutureSeconds))
	}
	// difficulty retarget
	var grand *types.WorkObjectHeader
	grandGen := false
	if !par.genesis {
		g := r.blocks[par.parent]
		grand, grandGen = g.wo.WorkObjectHeader(), g.genesis
	}
	if d := oDifficulty(par.wo.WorkObjectHeader(), grand, par.genesis, grandGen, big.NewInt(r.prof.GenesisDiff)); d.Cmp(w.Difficulty()) != 0 {
		bad("difficulty", w.Difficulty(), d)
	} else if !par.genesis && !grandGen {
		dt := int64(par.wo.Time()) - int64(grand.Time())
		switch {
		case dt > oMaxTimeDiffBetweenBlocks:
			r.stats["retarget_clamped"]++
			if d.Cmp(big.NewInt(r.prof.GenesisDiff)) > 0 {
				r.stats["retarget_clamped_above_floor"]++
			}
		case dt > oDurationLimit:
			r.stats["retarget_down"]++
			if d.Cmp(big.NewInt(r.prof.GenesisDiff)) > 0 {
				r.stats["retarget_down_above_floor"]++
			}
		case dt < oDurationLimit:
			r.stats["retarget_up"]++
		}
		if d.Cmp(big.NewInt(r.prof.GenesisDiff)) == 0 {
			r.stats["retarget_at_floor"]++
		}
	}
	// gas / state limit
	pn := par.wo.NumberU64(common.ZONE_CTX)
	if par.genesis {
		pn = 0
	}
	if g := oLimit(pn, par.wo.GasLimit(), r.prof.GasCeil, r.prof.TimeToStartTx, r.blocksPerMonth()); g != w.GasLimit() {
		bad("gasLimit", w.GasLimit(), g)
	} else {
		r.stats[fmt.Sprintf("gaslimit_%s", limitBranch(pn, par.wo.GasLimit(), r.prof.TimeToStartTx, r.blocksPerMonth(), g))]++
	}
	if s := oLimit(pn, par.wo.StateLimit(), oStateCeil, r.prof.TimeToStartTx, r.blocksPerMonth()); s != w.StateLimit() {
		bad("stateLimit", w.StateLimit(), s)
	}
	if w.GasUsed() > w.GasLimit() || w.StateUsed() > w.StateLimit() {
		bad("gasUsed/stateUsed", fmt.Sprint(w.GasUsed(), w.StateUsed()), "<= limits")
	}
	// base fee
	var rate *big.Int
	if !par.genesis {
		if r.blocks[par.parent].genesis {
			rate = big.NewInt(221077819000) // params.ExchangeRate as set by chain.FastParams
		} else if pt := r.rec(par.wo.PrimeTerminusHash()); pt != nil {
			rate = pt.wo.ExchangeRate()
		}
	}
	if par.genesis || rate != nil {
		if f := oBaseFee(par.wo, par.genesis, rate, r.forkBlock()); f.Cmp(w.BaseFee()) != 0 {
			bad("baseFee", w.BaseFee(), f)
		}
	} else {
		bad("baseFee", "prime terminus of parent unknown", par.wo.PrimeTerminusHash())
	}
	// prime terminus
	wantPT, wantPTN := par.wo.PrimeTerminusHash(), par.wo.PrimeTerminusNumber()
	if par.genesis || par.order == common.PRIME_CTX {
		wantPT, wantPTN = par.hash, par.wo.Number(common.PRIME_CTX)
		if par.genesis {
			wantPTN = big.NewInt(0)
		}
	}
	if w.PrimeTerminusHash() != wantPT {
		bad("primeTerminusHash", w.PrimeTerminusHash(), wantPT)
	}
	if w.PrimeTerminusNumber().Cmp(wantPTN) != 0 {
		bad("primeTerminusNumber", w.PrimeTerminusNumber(), wantPTN)
	}
	// expansion number: genesis prime terminus -> its expansion number; else the expansion number of the parent of
	// the prime terminus (+1 only when the threshold count completes the trigger window, impossible at this topology)
	pt := r.rec(wantPT)
	wantExp := uint8(0)
	if pt != nil && !pt.genesis {
		if ppt := r.rec(pt.wo.ParentHash(common.PRIME_CTX)); ppt != nil {
			wantExp = ppt.wo.ExpansionNumber()
		}
		if pt.wo.ThresholdCount() == 144+1024 {
			wantExp = pt.wo.ExpansionNumber() + 1
		}
	} else if pt != nil {
		wantExp = pt.wo.ExpansionNumber()
	}
	if w.ExpansionNumber() != wantExp {
		bad("expansionNumber", w.ExpansionNumber(), wantExp)
	}
	// pre-fork the share-difficulty fields do not exist
	if w.PrimeTerminusNumber().Uint64() < r.forkBlock() {
		wh := w.WorkObjectHeader()
		if wh.ShaDiffAndCount().Difficulty() != nil || wh.ScryptDiffAndCount().Difficulty() != nil || wh.ShaShareTarget() != nil || wh.ScryptShareTarget() != nil || wh.KawpowDifficulty() != nil || wh.AuxPow() != nil {
			bad("shareFieldsPreFork", "present", "nil")
		}
	} else {
		r.stats["post_fork_blocks"]++
	}
	// the block's own entropy and order (oracle), recorded for its children
	intr, ord, err := oOrder(w, w.Hash())
	if err != nil {
		bad("order", err.Error(), "computable")
		return false
	}
	if hashInt(w.Hash()).Cmp(oTarget(w.Difficulty())) > 0 {
		bad("seal", w.Hash(), "<= target")
	}
	b.intr = intr
	ws, supported := r.oWorkShareEntropy(w)
	if !supported {
		r.stats["oracle_workshare_unsupported"]++
		ws = big.NewInt(0)
		ok = false
		r.problem("driver-limit", map[string]interface{}{"block": b.id, "what": "uncle below the block target: work-share discount not transcribed"})
	}
	if len(w.Uncles()) > 0 {
		r.stats["blocks_with_uncles"]++
	}
	b.ws = ws
	b.tot, _, _ = oEntropies(w, new(big.Int).Add(intr, ws), ord, false)
	b.totD, _, _ = oEntropies(w, intr, ord, false)
	if ord != b.order {
		bad("order", b.order, ord)
	}
	return ok
}

// oWorkShareEntropy: poem.go WorkShareLogEntropy for the cases the chains produce: before the fork every uncle is a
// sibling BLOCK (hash <= the including block's target): entropy = intrinsic(uncle) - threshold, halved per block of
// distance; after the fork: log2(number of shares) / AlphaInverse(1).
func (r *runner) oWorkShareEntropy(w *types.WorkObject) (*big.Int, bool) {
	uncles := w.Uncles()
	if w.PrimeTerminusNumber().Uint64() >= r.forkBlock() {
		if len(uncles) == 0 {
			return big.NewInt(0), true
		}
		return oLog(big.NewInt(int64(len(uncles)))), true
	}
	total := big.NewInt(0)
	target := oTarget(w.Difficulty())
	thr := oLog(new(big.Int).Div(o2e256, target))
	for _, u := range uncles {
		h := oWoHash(u, r.forkBlock(), params.KawPowTransitionPeriod)
		if hashInt(h).Cmp(target) > 0 {
			return nil, false
		}
		c, err := oIntrinsic(h)
		if err != nil {
			return nil, false
		}
		e := new(big.Int).Sub(c, thr)
		// distance: ancestors = the 3 zone ancestors of w
		anc := map[common.Hash]bool{}
		cur := w
		for i := 0; i < 3; i++ {
			p := r.rec(cur.ParentHash(common.ZONE_CTX))
			if p == nil {
				return nil, false
			}
			anc[p.hash] = true
			cur = p.wo
		}
		dist := int64(0)
		ph := u.ParentHash()
		for {
			p := r.rec(ph)
			if p == nil {
				return nil, false
			}
			if anc[p.hash] {
				pn := p.wo.NumberU64(common.ZONE_CTX)
				if p.genesis {
					pn = 0
				}
				dist += int64(w.NumberU64(common.ZONE_CTX) - pn - 1)
				break
			}
			dist++
			if dist > 3 {
				return nil, false
			}
			ph = p.wo.ParentHash(common.ZONE_CTX)
		}
		e.Div(e, new(big.Int).Exp(big.NewInt(2), big.NewInt(dist), nil))
		total.Add(total, e)
	}
	return total, true
}

func limitBranch(pn, parentLimit, tts, bpm, got uint64) string {
	switch {
	case pn < tts:
		return "zero"
	case parentLimit == 0:
		return "first"
	case pn < 2*bpm && got == oMinGasLimit:
		return "ramp_min"
	case pn < 2*bpm:
		return "ramp"
	default:
		return "ceil"
	}
}

// observe: TotalLogEntropy / CalcOrder of the (now stored) block on the running cores, repeated, and on a cold core.
func (r *runner) observe(b *blockRec, ev map[string]interface{}) {
	n := r.n
	w := b.wo
	par := r.blocks[b.parent]
	hc := n.ZoneCore().Slice().HeaderChain()
	tot := hc.TotalLogEntropy(w)
	if tot.Cmp(b.tot) != 0 {
		r.problem("total-entropy-differs", map[string]interface{}{"block": b.id, "have": tot.String(), "want": b.tot.String()})
	}
	ptot := big.NewInt(0)
	if !par.genesis {
		ptot = hc.TotalLogEntropy(par.wo)
	}
	r.stats["entropy_comparisons"]++
	if tot.Cmp(ptot) <= 0 {
		r.problem("entropy-not-increasing", map[string]interface{}{"block": b.id, "child": tot.String(), "parent": ptot.String()})
	}
	// the dominant chains' own accounting for coincident blocks (no work-share entropy there)
	ev["ed_raw"] = b.totD.String()
	for ctx := mininet.Region; ctx >= b.order; ctx-- {
		dhc := n.Cores[ctx].Slice().HeaderChain()
		t2 := dhc.TotalLogEntropy(b.mined.Blocks[ctx])
		r.stats["entropy_comparisons"] += 2
		if t2.Cmp(b.totD) != 0 {
			r.problem("total-entropy-differs", map[string]interface{}{"block": b.id, "ctx": ctx, "have": t2.String(), "want": b.totD.String()})
		}
		if cp := n.Cores[ctx].GetBlockByHash(b.mined.Blocks[ctx].ParentHash(ctx)); cp != nil {
			pt := big.NewInt(0)
			if cp.Hash() != n.Gen {
				pt = dhc.TotalLogEntropy(cp)
			}
			if t2.Cmp(pt) <= 0 {
				r.problem("entropy-not-increasing", map[string]interface{}{"block": b.id, "ctx": ctx, "child": t2.String(), "parent": pt.String()})
			}
		}
	}
	ev["e_raw"] = tot.String()
	pe := []string{}
	for ctx := 0; ctx < 3; ctx++ {
		pe = append(pe, w.ParentEntropy(ctx).String())
	}
	ev["pe_raw"] = pe
	ev["n"] = []uint64{w.NumberU64(0), w.NumberU64(1), w.NumberU64(2)}
	if id, ok := r.byHash[w.PrimeTerminusHash()]; ok {
		ev["pt"] = id
	} else {
		ev["pt"] = -2
	}
	ev["ptn"] = w.PrimeTerminusNumber().Uint64()
	// order: warm (cache filled by Append), repeated, on a fresh round-tripped copy, across cores, oracle
	co := []int{}
	for i := 0; i < 2; i++ {
		_, o, err := n.ZoneCore().CalcOrder(w)
		if err != nil {
			o = -1
		}
		co = append(co, o)
	}
	for ctx := mininet.Region; ctx >= b.order; ctx-- {
		_, o, err := n.Cores[ctx].CalcOrder(b.mined.Blocks[ctx])
		if err != nil {
			o = -1
		}
		co = append(co, o)
	}
	_, oo, _ := oOrder(w, w.Hash())
	co = append(co, oo)
	r.stats["order_comparisons"] += len(co)
	ev["co"] = co
}

// coldCheck builds a fresh core on a copy of the zone database (what a restarted process would see) and asks it for
// order and entropy of every block - first call (cold cache) and second call (warm).
func (r *runner) coldCheck(tag string) error {
	db, nrec, err := copyDB(r.n.DBs[mininet.Zone], mininet.Zone)
	if err != nil {
		return err
	}
	var c *core.Core
	if p := protect(func() {
		c, _, err = newCore(mininet.Zone, db, nodeOpts{GenesisDifficulty: r.prof.GenesisDiff, GasCeil: r.prof.GasCeil})
	}); p != "" {
		return fmt.Errorf("cold core panicked: %s", p)
	}
	if err != nil {
		return err
	}
	defer stopCore(c)
	_ = nrec
	ids := r.R.Perm(len(r.blocks) - 1) // random order: a stale cache keyed by anything but the block shows up
	colds := map[int][]int{}
	for _, i := range ids {
		b := r.blocks[i+1]
		w, err := mininet.RoundTrip(b.wo, mininet.ZoneLoc)
		if err != nil {
			return err
		}
		for k := 0; k < 2; k++ {
			_, o, err := c.CalcOrder(w)
			if err != nil {
				o = -1
			}
			colds[b.id] = append(colds[b.id], o)
			r.stats["order_comparisons"]++
			if o != b.order {
				r.problem("order-differs-after-restart", map[string]interface{}{"block": b.id, "stored": b.order, "cold": o, "call": k, "tag": tag})
			}
		}
		tot := c.Slice().HeaderChain().TotalLogEntropy(w)
		r.stats["entropy_comparisons"]++
		if tot.Cmp(b.tot) != 0 {
			r.problem("entropy-differs-after-restart", map[string]interface{}{"block": b.id, "cold": tot.String(), "want": b.tot.String(), "tag": tag})
		}
		// the stored block read back from the copied database
		if sb := c.GetBlockByHash(b.hash); sb != nil {
			_, o, err := c.CalcOrder(sb)
			if err != nil || o != b.order {
				r.problem("order-differs-after-restart", map[string]interface{}{"block": b.id, "stored": b.order, "cold": o, "from": "database", "tag": tag})
			}
		}
	}
	for _, ev := range r.events {
		if ev["op"] == "extend" {
			if c, ok := colds[ev["b"].(int)]; ok {
				ev["cold"] = c
			}
		}
	}
	r.coldOps++
	return nil
}

// ---------------------------------------------------------------- deviations

type deviation struct {
	name string
	ctx  int
	mut  func(w *types.WorkObject, par *types.WorkObject) bool // false: not applicable to this block
}

func addBig(x *big.Int, d int64) *big.Int { return new(big.Int).Add(x, big.NewInt(d)) }

// mutation variant (bit-position class), chosen from the seed by the seal driver: 0 = low, 1 = first byte, 2 = last byte / high
var variant int

func flipHash(h common.Hash) common.Hash {
	switch variant % 3 {
	case 1:
		h[0] ^= 0x80
	case 2:
		h[31] ^= 0x01
	default:
		h[7] ^= 0x40
	}
	return h
}

func deviationList(fork bool, blocksPerMonth uint64) []deviation {
	Z, R, P := common.ZONE_CTX, common.REGION_CTX, common.PRIME_CTX
	hd := func(w *types.WorkObject) *types.Header { return w.Body().Header() }
	devs := []deviation{
		{"numberZ+1", Z, func(w, _ *types.WorkObject) bool { w.WorkObjectHeader().SetNumber(addBig(w.WorkObjectHeader().Number(), 1)); return true }},
		{"numberZ-1", Z, func(w, _ *types.WorkObject) bool { w.WorkObjectHeader().SetNumber(addBig(w.WorkObjectHeader().Number(), -1)); return true }},
		{"time-before-parent", Z, func(w, p *types.WorkObject) bool {
			if p.Time() == 0 {
				return false
			}
			w.WorkObjectHeader().SetTime(p.Time() - 1)
			return true
		}},
		{"time-future", Z, func(w, _ *types.WorkObject) bool { w.WorkObjectHeader().SetTime(uint64(time.Now().Unix()) + 1000); return true }},
		{"difficulty+1", Z, func(w, _ *types.WorkObject) bool { w.WorkObjectHeader().SetDifficulty(addBig(w.Difficulty(), 1)); return true }},
		{"difficulty-1", Z, func(w, _ *types.WorkObject) bool { w.WorkObjectHeader().SetDifficulty(addBig(w.Difficulty(), -1)); return true }},
		{"gasLimit+1", Z, func(w, _ *types.WorkObject) bool { hd(w).SetGasLimit(w.GasLimit() + 1); return true }},
		{"gasLimit-1", Z, func(w, _ *types.WorkObject) bool {
			if w.GasLimit() == 0 || w.GasUsed() >= w.GasLimit() {
				return false
			}
			hd(w).SetGasLimit(w.GasLimit() - 1)
			return true
		}},
		{"gasUsed>gasLimit", Z, func(w, _ *types.WorkObject) bool { hd(w).SetGasUsed(w.GasLimit() + 1); return true }},
		{"stateLimit+1", Z, func(w, _ *types.WorkObject) bool { hd(w).SetStateLimit(w.StateLimit() + 1); return true }},
		{"stateLimit-1", Z, func(w, _ *types.WorkObject) bool {
			if w.StateLimit() == 0 || w.StateUsed() >= w.StateLimit() {
				return false
			}
			hd(w).SetStateLimit(w.StateLimit() - 1)
			return true
		}},
		{"stateUsed>stateLimit", Z, func(w, _ *types.WorkObject) bool { hd(w).SetStateUsed(w.StateLimit() + 1); return true }},
		{"baseFee+1", Z, func(w, _ *types.WorkObject) bool { hd(w).SetBaseFee(addBig(w.BaseFee(), 1)); return true }},
		{"baseFee-1", Z, func(w, _ *types.WorkObject) bool {
			if w.BaseFee().Sign() == 0 {
				return false
			}
			hd(w).SetBaseFee(addBig(w.BaseFee(), -1))
			return true
		}},
		{"primeTerminusHash", Z, func(w, _ *types.WorkObject) bool { hd(w).SetPrimeTerminusHash(flipHash(w.PrimeTerminusHash())); return true }},
		{"primeTerminusHash=parent", Z, func(w, p *types.WorkObject) bool {
			if w.PrimeTerminusHash() == p.Hash() {
				return false
			}
			hd(w).SetPrimeTerminusHash(p.Hash())
			return true
		}},
		{"primeTerminusNumber+1", Z, func(w, _ *types.WorkObject) bool {
			w.WorkObjectHeader().SetPrimeTerminusNumber(addBig(w.PrimeTerminusNumber(), 1))
			return true
		}},
		{"primeTerminusNumber-1", Z, func(w, _ *types.WorkObject) bool {
			if w.PrimeTerminusNumber().Sign() == 0 {
				return false
			}
			w.WorkObjectHeader().SetPrimeTerminusNumber(addBig(w.PrimeTerminusNumber(), -1))
			return true
		}},
		{"expansionNumber+1", Z, func(w, _ *types.WorkObject) bool { hd(w).SetExpansionNumber(w.ExpansionNumber() + 1); return true }},
		{"parentEntropyZ+1", Z, func(w, _ *types.WorkObject) bool { hd(w).SetParentEntropy(addBig(w.ParentEntropy(Z), 1), Z); return true }},
		{"parentEntropyZ-1", Z, func(w, _ *types.WorkObject) bool {
			if w.ParentEntropy(Z).Sign() == 0 {
				return false
			}
			hd(w).SetParentEntropy(addBig(w.ParentEntropy(Z), -1), Z)
			return true
		}},
		{"parentEntropyZ=parentEntropyR", Z, func(w, _ *types.WorkObject) bool { // entropy taken from the wrong context
			if w.ParentEntropy(Z).Cmp(w.ParentEntropy(R)) == 0 {
				return false
			}
			hd(w).SetParentEntropy(new(big.Int).Set(w.ParentEntropy(R)), Z)
			return true
		}},
		{"parentDeltaEntropyZ+1", Z, func(w, _ *types.WorkObject) bool { hd(w).SetParentDeltaEntropy(addBig(w.ParentDeltaEntropy(Z), 1), Z); return true }},
		{"parentDeltaEntropyZ-1", Z, func(w, _ *types.WorkObject) bool {
			if w.ParentDeltaEntropy(Z).Sign() == 0 {
				return false
			}
			hd(w).SetParentDeltaEntropy(addBig(w.ParentDeltaEntropy(Z), -1), Z)
			return true
		}},
		{"parentUncledDeltaEntropyZ+1", Z, func(w, _ *types.WorkObject) bool {
			hd(w).SetParentUncledDeltaEntropy(addBig(w.ParentUncledDeltaEntropy(Z), 1), Z)
			return true
		}},
		{"location-other-zone", Z, func(w, _ *types.WorkObject) bool { w.WorkObjectHeader().SetLocation(common.Location{1, 0}); return true }},
		{"coinbase-out-of-scope", Z, func(w, _ *types.WorkObject) bool {
			b := w.PrimaryCoinbase().Bytes()
			b[0] = 0x11 // region 1 zone 1
			w.WorkObjectHeader().SetPrimaryCoinbase(common.BytesToAddress(b, common.Location{1, 1}))
			return true
		}},
		{"lock-byte-nonzero", Z, func(w, _ *types.WorkObject) bool { // only a rule during the first two months
			if w.NumberU64(Z) >= 2*blocksPerMonth {
				return false
			}
			w.WorkObjectHeader().SetLock(1)
			return true
		}},
		{"data-empty", Z, func(w, _ *types.WorkObject) bool { w.WorkObjectHeader().SetData([]byte{}); return true }},
		{"data-lock-invalid", Z, func(w, _ *types.WorkObject) bool {
			d := common.CopyBytes(w.Data())
			if len(d) == 0 {
				return false
			}
			d[0] = 9
			w.WorkObjectHeader().SetData(d)
			return true
		}},
		{"extra-too-long", Z, func(w, _ *types.WorkObject) bool { hd(w).SetExtra(make([]byte, 33)); return true }},
		// region context (blocks coincident with the region chain)
		{"numberR+1", R, func(w, _ *types.WorkObject) bool { hd(w).SetNumber(addBig(w.Number(R), 1), R); return true }},
		{"numberR-1", R, func(w, _ *types.WorkObject) bool { hd(w).SetNumber(addBig(w.Number(R), -1), R); return true }},
		{"parentEntropyR+1", R, func(w, _ *types.WorkObject) bool { hd(w).SetParentEntropy(addBig(w.ParentEntropy(R), 1), R); return true }},
		{"parentEntropyR=parentEntropyZ", R, func(w, _ *types.WorkObject) bool {
			if w.ParentEntropy(Z).Cmp(w.ParentEntropy(R)) == 0 {
				return false
			}
			hd(w).SetParentEntropy(new(big.Int).Set(w.ParentEntropy(Z)), R)
			return true
		}},
		{"parentDeltaEntropyR+1", R, func(w, _ *types.WorkObject) bool { hd(w).SetParentDeltaEntropy(addBig(w.ParentDeltaEntropy(R), 1), R); return true }},
		{"parentUncledDeltaEntropyR+1", R, func(w, _ *types.WorkObject) bool {
			hd(w).SetParentUncledDeltaEntropy(addBig(w.ParentUncledDeltaEntropy(R), 1), R)
			return true
		}},
		{"regionStateRoot", R, func(w, _ *types.WorkObject) bool { hd(w).SetRegionStateRoot(flipHash(w.RegionStateRoot())); return true }},
		// prime context
		{"numberP+1", P, func(w, _ *types.WorkObject) bool { hd(w).SetNumber(addBig(w.Number(P), 1), P); return true }},
		{"parentEntropyP+1", P, func(w, _ *types.WorkObject) bool { hd(w).SetParentEntropy(addBig(w.ParentEntropy(P), 1), P); return true }},
		{"parentEntropyP=parentEntropyR", P, func(w, _ *types.WorkObject) bool {
			if w.ParentEntropy(P).Cmp(w.ParentEntropy(R)) == 0 {
				return false
			}
			hd(w).SetParentEntropy(new(big.Int).Set(w.ParentEntropy(R)), P)
			return true
		}},
		{"efficiencyScore+1", P, func(w, _ *types.WorkObject) bool { hd(w).SetEfficiencyScore(w.EfficiencyScore() + 1); return true }},
		{"thresholdCount+1", P, func(w, _ *types.WorkObject) bool { hd(w).SetThresholdCount(w.ThresholdCount() + 1); return true }},
		{"etxEligibleSlices", P, func(w, _ *types.WorkObject) bool { hd(w).SetEtxEligibleSlices(flipHash(w.EtxEligibleSlices())); return true }},
		{"primeStateRoot", P, func(w, _ *types.WorkObject) bool { hd(w).SetPrimeStateRoot(flipHash(w.PrimeStateRoot())); return true }},
		{"minerDifficulty+1", P, func(w, _ *types.WorkObject) bool { hd(w).SetMinerDifficulty(addBig(w.MinerDifficulty(), 1)); return true }},
	}
	if fork {
		sh := func(name string, f func(wh *types.WorkObjectHeader)) deviation {
			return deviation{name, Z, func(w, _ *types.WorkObject) bool {
				if w.WorkObjectHeader().ShaDiffAndCount().Difficulty() == nil {
					return false
				}
				f(w.WorkObjectHeader())
				return true
			}}
		}
		devs = append(devs,
			sh("shaDiff+1", func(wh *types.WorkObjectHeader) {
				s := wh.ShaDiffAndCount()
				s.SetDifficulty(addBig(s.Difficulty(), 1))
				wh.SetShaDiffAndCount(s)
			}),
			sh("shaCount+1", func(wh *types.WorkObjectHeader) {
				s := wh.ShaDiffAndCount()
				s.SetCount(addBig(s.Count(), 1))
				wh.SetShaDiffAndCount(s)
			}),
			sh("shaUncled+1", func(wh *types.WorkObjectHeader) {
				s := wh.ShaDiffAndCount()
				s.SetUncled(addBig(s.Uncled(), 1))
				wh.SetShaDiffAndCount(s)
			}),
			sh("scryptDiff+1", func(wh *types.WorkObjectHeader) {
				s := wh.ScryptDiffAndCount()
				s.SetDifficulty(addBig(s.Difficulty(), 1))
				wh.SetScryptDiffAndCount(s)
			}),
			sh("scryptCount+1", func(wh *types.WorkObjectHeader) {
				s := wh.ScryptDiffAndCount()
				s.SetCount(addBig(s.Count(), 1))
				wh.SetScryptDiffAndCount(s)
			}),
			sh("scryptUncled+1", func(wh *types.WorkObjectHeader) {
				s := wh.ScryptDiffAndCount()
				s.SetUncled(addBig(s.Uncled(), 1))
				wh.SetScryptDiffAndCount(s)
			}),
			sh("shaShareTarget+1", func(wh *types.WorkObjectHeader) { wh.SetShaShareTarget(addBig(wh.ShaShareTarget(), 1)) }),
			sh("scryptShareTarget+1", func(wh *types.WorkObjectHeader) { wh.SetScryptShareTarget(addBig(wh.ScryptShareTarget(), 1)) }),
			sh("kawpowDifficulty+1", func(wh *types.WorkObjectHeader) { wh.SetKawpowDifficulty(addBig(wh.KawpowDifficulty(), 1)) }),
		)
	}
	return devs
}

// reseal searches a nonce so that the mutated header again satisfies its own target (and, if wantOrder >= 0, has that
// order): the seal check must not mask the rule under test.
func (r *runner) reseal(w *types.WorkObject, wantOrder int, tries int) bool {
	return fastSeal(w, wantOrder, tries, r.R.Uint64()>>8)
}

// fastSeal: blake3 nonce search (the block hash is blake3(mix || sealHash || nonce); the seal hash is computed once).
// The result is confirmed with the header's own Hash().
func fastSeal(w *types.WorkObject, wantOrder int, tries int, start uint64) bool {
	if w.Difficulty().Sign() <= 0 {
		return false
	}
	target := oTarget(w.Difficulty())
	var buf [72]byte
	copy(buf[:32], w.MixHash().Bytes())
	copy(buf[32:64], w.SealHash().Bytes())
	for i := 0; i < tries; i++ {
		nonce := types.EncodeNonce(start + uint64(i))
		copy(buf[64:], nonce[:])
		h := oBlake3(buf[:])
		if hashInt(h).Cmp(target) > 0 {
			continue
		}
		w.WorkObjectHeader().SetNonce(nonce)
		if w.Hash() != h {
			return false // not a blake3-sealed header (auxPow present): the caller must not use fastSeal
		}
		if wantOrder < 0 {
			return true
		}
		if _, o, err := oOrder(w, h); err == nil && o == wantOrder {
			return true
		}
	}
	return false
}

func (r *runner) deviations(b *blockRec) {
	n := r.n
	devs := deviationList(r.prof.Fork, r.blocksPerMonth())
	doAppend := r.appendEvery > 0 && b.id%r.appendEvery == 0
	list := []map[string]interface{}{}
	defer func() {
		if len(list) > 0 {
			r.events = append(r.events, map[string]interface{}{"op": "deviate", "p": b.parent, "devs": list})
		}
	}()
	for _, d := range devs {
		if d.ctx < b.order {
			continue // the rule's context never sees this block
		}
		src := b.mined.Blocks[d.ctx]
		par := n.Cores[d.ctx].GetBlockByHash(src.ParentHash(d.ctx))
		if par == nil {
			r.problem("context-parent-missing", map[string]interface{}{"block": b.id, "ctx": d.ctx})
			continue
		}
		w := types.CopyWorkObject(src)
		if !d.mut(w, par) {
			continue
		}
		w.WorkObjectHeader().SetHeaderHash(w.Body().Header().Hash()) // keep the header-hash binding intact: not the rule under test
		sealed := false
		var rt *types.WorkObject
		var err error
		if p := protect(func() {
			if sealed = r.reseal(w, -1, 1<<22); sealed {
				rt, err = mininet.RoundTrip(w, mininet.Locs[d.ctx])
			}
		}); p != "" {
			// the header cannot even be hashed / encoded by its sender (e.g. a post-fork prime terminus number without
			// the post-fork fields): it cannot reach a node
			r.stats["deviation_not_encodable"]++
			continue
		}
		if !sealed {
			r.stats["deviation_reseal_failed"]++
			continue
		}
		if err != nil {
			// the wire format itself refuses the header: also a rejection
			r.stats["deviation_rejected_by_decoder"]++
			list = append(list, map[string]interface{}{"f": d.name, "ctx": d.ctx, "res": "reject"})
			continue
		}
		var verr error
		if p := protect(func() { verr = n.Cores[d.ctx].Slice().HeaderChain().VerifyHeader(rt) }); p != "" {
			r.problem("verify-header-panicked", map[string]interface{}{"block": b.id, "deviation": d.name, "panic": p})
			continue
		}
		r.stats["deviations"]++
		res := "reject"
		if verr == nil {
			res = "accept"
			r.problem("deviation-accepted", map[string]interface{}{"parent": b.parent, "block": b.id, "order": b.order, "deviation": d.name, "ctx": d.ctx, "entry": "VerifyHeader"})
		}
		list = append(list, map[string]interface{}{"f": d.name, "ctx": d.ctx, "res": res})
		// as a node meets a block from a peer (Core.WriteBlock): the block is stored as a CANDIDATE and looked up through the
		// header-or-candidate getter (which fills the header caches) BEFORE its append verifies it - a stored candidate is not an
		// accepted header, every rule must still be checked
		if verr != nil {
			var verr2 error
			if p := protect(func() {
				c := n.Cores[d.ctx]
				c.Slice().WriteBlock(rt)
				c.GetHeaderOrCandidateByHash(rt.Hash())
				verr2 = c.Slice().HeaderChain().VerifyHeader(rt)
			}); p == "" {
				r.stats["deviations_as_candidate"]++
				if verr2 == nil {
					r.problem("deviation-accepted", map[string]interface{}{"parent": b.parent, "block": b.id, "order": b.order, "deviation": d.name, "ctx": d.ctx,
						"entry": "VerifyHeader after the block was stored as a candidate and looked up"})
				}
			}
		}
		// full path: the zone node is handed the re-sealed block (zone order, so that it appends it itself)
		if doAppend && d.ctx == common.ZONE_CTX && d.name != "time-future" {
			w2 := types.CopyWorkObject(w)
			if r.reseal(w2, common.ZONE_CTX, 1<<22) {
				if z, err := mininet.RoundTrip(w2, mininet.ZoneLoc); err == nil {
					m := &mininet.Mined{Order: mininet.Zone, Hash: z.Hash()}
					m.Blocks[mininet.Zone] = z
					r.stats["deviation_appends"]++
					var ierr error
					if p := protect(func() { ierr = n.Insert(m) }); p != "" {
						ierr = errors.New("panic: " + p)
					}
					if ierr == nil {
						r.problem("deviation-accepted", map[string]interface{}{"parent": b.parent, "block": b.id, "deviation": d.name, "ctx": d.ctx, "entry": "Slice.Append"})
					}
				}
			}
		}
	}
}

// ---------------------------------------------------------------- trace output

// finishTrace replaces raw big-integer entropies by their dense ranks (order preserving) and emits the events.
func (r *runner) finishTrace() []map[string]interface{} {
	set := map[string]*big.Int{"0": big.NewInt(0)}
	add := func(s string) {
		if _, ok := set[s]; !ok {
			x, _ := new(big.Int).SetString(s, 10)
			set[s] = x
		}
	}
	for _, ev := range r.events {
		if ev["op"] != "extend" {
			continue
		}
		add(ev["e_raw"].(string))
		add(ev["ed_raw"].(string))
		for _, s := range ev["pe_raw"].([]string) {
			add(s)
		}
	}
	vals := make([]*big.Int, 0, len(set))
	for _, v := range set {
		vals = append(vals, v)
	}
	sort.Slice(vals, func(i, j int) bool { return vals[i].Cmp(vals[j]) < 0 })
	rank := map[string]int{}
	for i, v := range vals {
		rank[v.String()] = i
	}
	out := []map[string]interface{}{{"op": "tracereset"}}
	for _, ev := range r.events {
		if ev["op"] == "extend" {
			ev["e"] = rank[ev["e_raw"].(string)]
			pe := []int{}
			for _, s := range ev["pe_raw"].([]string) {
				pe = append(pe, rank[s])
			}
			ev["pe"] = pe
			ev["ed"] = rank[ev["ed_raw"].(string)]
			delete(ev, "e_raw")
			delete(ev, "ed_raw")
			delete(ev, "pe_raw")
			if _, ok := ev["cold"]; !ok {
				ev["cold"] = []int{}
			}
		}
		out = append(out, ev)
	}
	return out
}

// ---------------------------------------------------------------- sub-commands

type shapeStep struct {
	Op  string `json:"op"`
	P   int    `json:"p"`
	B   int    `json:"b"`
	Ord int    `json:"ord"` // spec order 1..3
	Dt  string `json:"dt"`
	Res []interface{} `json:"res"`
}

func profiles() map[string]profile {
	return map[string]profile{
		// protocol constants as deployed, difficulty high enough for the retarget term to be non-zero
		"base": {Name: "base", GenesisDiff: 6000, GasCeil: 5000000, TimeToStartTx: 0},
		// gas/state limit rule walked through all branches: zero -> first -> ramp -> ceiling
		"ramp": {Name: "ramp", GenesisDiff: 4000, GasCeil: 50000000, TimeToStartTx: 3, BlocksPerMonth: 6},
		// chain crosses the KawPow fork at prime block 1 (progpow transition window, share-difficulty fields live)
		"fork": {Name: "fork", GenesisDiff: 5000, GasCeil: 5000000, TimeToStartTx: 0, Fork: true},
		// difficulty climbs well above the configured floor before slow blocks arrive: the retarget clamp is visible
		"climb": {Name: "climb", GenesisDiff: 20000, GasCeil: 5000000, TimeToStartTx: 0},
	}
}

// checkLogs judges common.IntrinsicLogEntropy / common.LogBig (fixed point log2 with 64 fractional bits) at boundary
// hashes against facts that do not depend on the library they use: exact powers of two, floating point log2,
// monotonicity, and positivity for every hash that can pass a target of difficulty >= 2.
func checkLogs(R *rand.Rand) (probs []problem, n int) {
	bad := func(what string, info map[string]interface{}) {
		info["what"] = what
		probs = append(probs, problem{"log-entropy-differs", info})
	}
	toF := func(x *big.Int) float64 { f, _ := new(big.Float).Quo(new(big.Float).SetInt(x), new(big.Float).SetInt(o2e64)).Float64(); return f }
	for k := uint(0); k <= 256; k++ {
		x := new(big.Int).Lsh(big.NewInt(1), k)
		n++
		if got := common.LogBig(x); got.Cmp(new(big.Int).Mul(big.NewInt(int64(k)), o2e64)) != 0 {
			bad("LogBig(2^k)", map[string]interface{}{"k": k, "got": got.String()})
		}
		if k >= 1 && k <= 255 { // hash = 2^k: 2^256/hash = 2^(256-k)
			n++
			if got := common.IntrinsicLogEntropy(common.BigToHash(x)); got.Cmp(new(big.Int).Mul(big.NewInt(int64(256-k)), o2e64)) != 0 {
				bad("IntrinsicLogEntropy(2^k)", map[string]interface{}{"k": k, "got": got.String()})
			}
		}
	}
	var prev *big.Int
	var prevH *big.Int
	hs := []*big.Int{big.NewInt(1), big.NewInt(2), big.NewInt(3), new(big.Int).Sub(pow2(255), big.NewInt(1)), pow2(255), addBig(pow2(255), 1), new(big.Int).Sub(pow2(256), big.NewInt(1))}
	for i := 0; i < 300; i++ {
		hs = append(hs, new(big.Int).Rand(R, pow2(uint(8+R.Intn(248)))))
	}
	sort.Slice(hs, func(i, j int) bool { return hs[i].Cmp(hs[j]) < 0 })
	for _, h := range hs {
		if h.Sign() == 0 {
			continue
		}
		got := common.IntrinsicLogEntropy(common.BigToHash(h))
		n++
		// float check: log2(floor(2^256/h))
		q := new(big.Int).Div(o2e256, h)
		qf, _ := new(big.Float).SetInt(q).Float64()
		if d := toF(got) - math.Log2(qf); d > 1e-9 || d < -1e-9 {
			bad("IntrinsicLogEntropy vs float log2", map[string]interface{}{"hash": h.String(), "got": toF(got), "want": math.Log2(qf)})
		}
		if o, err := oIntrinsic(common.BigToHash(h)); err != nil || o.Cmp(got) != 0 {
			bad("IntrinsicLogEntropy vs transcription", map[string]interface{}{"hash": h.String()})
		}
		if prev != nil && got.Cmp(prev) > 0 {
			bad("IntrinsicLogEntropy not antitone", map[string]interface{}{"hash": h.String(), "smaller_hash": prevH.String()})
		}
		if h.Cmp(pow2(255)) <= 0 && got.Sign() <= 0 { // every hash under the target of difficulty 2 carries positive entropy
			bad("IntrinsicLogEntropy not positive under target(2)", map[string]interface{}{"hash": h.String()})
		}
		prev, prevH = got, h
	}
	return probs, n
}

func cmdChains(args []string) {
	fs := flag.NewFlagSet("chains", flag.ExitOnError)
	seed := fs.Int64("seed", 1, "")
	steps := fs.Int("steps", 30, "blocks per random run")
	profName := fs.String("profile", "base", "base|ramp|fork")
	out := fs.String("out", "", "trace ndjson")
	shapes := fs.String("shapes", "", "ndjson of TLC-generated behaviours of Header.tla (ext part) to realise, one fresh network each")
	appendEvery := fs.Int("append-every", 5, "every k-th block: also hand each zone-level deviation to Slice.Append (0: never)")
	coldEvery := fs.Int("cold-every", 10, "cold-core comparison every k blocks (and at the end)")
	climb := fs.Int("climb", 0, "first mine this many fast blocks without deviations, then blocks with time deltas around the retarget clamp")
	fs.Parse(args)
	prof, ok := profiles()[*profName]
	if !ok {
		fatal(2, "unknown profile")
	}
	applyProfile(prof)
	var trace []map[string]interface{}
	var probs []problem
	stats := map[string]int{}
	lp, ln := checkLogs(rand.New(rand.NewSource(*seed)))
	probs = append(probs, lp...)
	stats["log_entropy_checks"] = ln
	notes := []string{}
	merge := func(r *runner) {
		notes = append(notes, r.notes...)
		trace = append(trace, r.finishTrace()...)
		probs = append(probs, r.probs...)
		for k, v := range r.stats {
			stats[k] += v
		}
		stats["cold_checks"] += r.coldOps
		stats["blocks"] += len(r.blocks) - 1
	}
	replayMismatches := []map[string]interface{}{}
	if *shapes != "" {
		f, err := os.Open(*shapes)
		if err != nil {
			fatal(3, err)
		}
		sc := bufio.NewScanner(f)
		sc.Buffer(make([]byte, 1<<20), 1<<26)
		si := 0
		for sc.Scan() {
			if strings.TrimSpace(sc.Text()) == "" {
				continue
			}
			var sh []shapeStep
			if err := json.Unmarshal(sc.Bytes(), &sh); err != nil {
				fatal(3, "bad shape:", err)
			}
			r, err := newRunner(prof, *seed*1000+int64(si))
			if err != nil {
				fatal(3, "boot:", err)
			}
			r.appendEvery = *appendEvery
			usingCold := false
			var cold *core.Core
			abandoned := false
			for k, s := range sh {
				if abandoned {
					break
				}
				mm := func(what string, want, got interface{}) {
					replayMismatches = append(replayMismatches, map[string]interface{}{"shape": si, "step": k, "op": s.Op, "what": what, "want": want, "got": got, "behaviour": sh})
				}
				switch s.Op {
				case "extend":
					id, err := r.mineOn(s.P, s.Ord-1, s.Dt)
					if errors.Is(err, errHarnessAppend) {
						abandoned = true
						break
					}
					if err != nil {
						mm("extend", "accept", err.Error())
						abandoned = true
						break
					}
					if id != s.B {
						fatal(3, "shape ids out of step")
					}
					b := r.blocks[id]
					want := []uint64{uint64(s.Res[2].([]interface{})[0].(float64)), uint64(s.Res[2].([]interface{})[1].(float64)), uint64(s.Res[2].([]interface{})[2].(float64))}
					got := []uint64{b.wo.NumberU64(0), b.wo.NumberU64(1), b.wo.NumberU64(2)}
					if fmt.Sprint(want) != fmt.Sprint(got) {
						mm("numbers", want, got)
					}
					if b.order != s.Ord-1 {
						mm("order", s.Ord-1, b.order)
					}
				case "calcorder":
					b := r.blocks[s.B]
					c := r.n.ZoneCore()
					if usingCold {
						c = cold
					}
					w, _ := mininet.RoundTrip(b.wo, mininet.ZoneLoc)
					_, o, err := c.CalcOrder(w)
					if err != nil {
						o = -1
					}
					r.stats["order_comparisons"]++
					if want := int(s.Res[1].(float64)) - 1; o != want {
						mm("calcorder", want, o)
					}
				case "restart":
					stopCore(cold)
					db, _, err := copyDB(r.n.DBs[mininet.Zone], mininet.Zone)
					if err != nil {
						fatal(3, err)
					}
					cold, _, err = newCore(mininet.Zone, db, nodeOpts{GenesisDifficulty: prof.GenesisDiff, GasCeil: prof.GasCeil})
					if err != nil {
						fatal(3, "restart:", err)
					}
					usingCold = true
					r.stats["restarts"]++
				}
			}
			stopCore(cold)
			if len(r.blocks) > 1 {
				if err := r.coldCheck("shape-end"); err != nil {
					fatal(3, "cold check:", err)
				}
			}
			merge(r)
			r.close()
			si++
		}
		f.Close()
		stats["shapes"] = si
	} else {
		r, err := newRunner(prof, *seed)
		if err != nil {
			fatal(3, "boot:", err)
		}
		r.appendEvery = *appendEvery
		if *climb > 0 {
			r.noDev = true
			plan := []string{}
			for i := 0; i < *climb; i++ {
				plan = append(plan, "=0")
			}
			for _, slow := range []string{"=150", "=101", "=1000", "=100", "=99", "=30"} {
				plan = append(plan, slow, "=0")
				for i := 0; i < 20; i++ { // climb again
					plan = append(plan, "=0")
				}
			}
			for i, dtc := range plan {
				if _, err := r.mineOn(r.head(), -1, dtc); err != nil {
					if !errors.Is(err, errHarnessAppend) {
						r.problem("driver-step-failed", map[string]interface{}{"step": i, "err": err.Error()})
					}
					break
				}
			}
			r.noDev = false
		}
		for i := 0; i < *steps; i++ {
			head := r.head()
			parent := head
			switch x := r.R.Intn(20); {
			case x < 13:
			case x < 18: // fork: extend an ancestor
				back := 1 + r.R.Intn(3)
				for j := 0; j < back && r.blocks[parent].parent > 0; j++ {
					parent = r.blocks[parent].parent
				}
			default: // extend a random recent block
				lo := len(r.blocks) - 6
				if lo < 0 {
					lo = 0
				}
				parent = lo + r.R.Intn(len(r.blocks)-lo)
			}
			want := -1
			if x := r.R.Intn(10); x == 0 {
				want = mininet.Prime
			} else if x == 1 {
				want = mininet.Region
			}
			if i == 1 && prof.Fork {
				want = mininet.Prime // cross the fork early
			}
			dtc := dtClasses[r.R.Intn(3)]
			if _, err := r.mineOn(parent, want, dtc); err != nil {
				if !errors.Is(err, errHarnessAppend) {
					r.problem("driver-step-failed", map[string]interface{}{"step": i, "err": err.Error()})
				}
				break
			}
			if *coldEvery > 0 && (i+1)%*coldEvery == 0 {
				if err := r.coldCheck(fmt.Sprintf("step-%d", i)); err != nil {
					fatal(3, "cold check:", err)
				}
			}
		}
		if err := r.coldCheck("end"); err != nil {
			fatal(3, "cold check:", err)
		}
		merge(r)
		r.close()
	}
	if *out != "" {
		w, err := os.Create(*out)
		if err != nil {
			fatal(3, err)
		}
		bw := bufio.NewWriter(w)
		enc := json.NewEncoder(bw)
		for _, ev := range trace {
			enc.Encode(ev)
		}
		bw.Flush()
		w.Close()
	}
	sum := map[string]interface{}{"profile": prof.Name, "events": len(trace), "problems": probs, "stats": stats, "replay_mismatches": replayMismatches, "notes": notes}
	b, _ := json.Marshal(sum)
	fmt.Println(string(b))
}
