package main

// ordercases: every case of spec/OrderCases.tla (expansion number x seal window x accumulated-entropy tests) is realised on
// a real, sealed header and handed to the node's CalcOrder; the order must be the one the specification assigns.
// The entropy targets of an expansion number come from the TLC output (PrimeTgt / RegionTgt evaluated by TLC), the
// thresholds are computed from them with math/big; the node's own params.* / CalcOrder are what is judged.

import (
	"bufio"
	"encoding/binary"
	"encoding/json"
	"flag"
	"fmt"
	"math/big"
	"math/rand"
	"os"
	"strconv"
	"strings"

	"github.com/dominant-strategies/go-quai/common"
	"github.com/dominant-strategies/go-quai/core/types"
)

type orderCase struct {
	E         int    `json:"e"`
	Window    string `json:"window"`
	SumR      bool   `json:"sumR"`
	SumP      bool   `json:"sumP"`
	DRLarge   bool   `json:"dRlarge"`
	PrimeTgt  int64  `json:"primeTgt"`
	RegionTgt int64  `json:"regionTgt"`
	Order     int    `json:"order"`
}

type orderMismatch struct {
	Case   orderCase `json:"case"`
	Zt     uint      `json:"zt"`
	Got    string    `json:"got"`
	Want   int       `json:"want"`
	Detail string    `json:"detail"`
}

func cmdOrderCases(args []string) {
	fs := flag.NewFlagSet("ordercases", flag.ExitOnError)
	in := fs.String("in", "", "cases (ndjson from TLC)")
	out := fs.String("out", "", "result json")
	seed := fs.Int64("seed", 1, "")
	reps := fs.Int("reps", 2, "instantiations per case and difficulty")
	ztArg := fs.String("zt", "6,9", "log2 of the difficulties to use")
	fs.Parse(args)
	f, err := os.Open(*in)
	if err != nil {
		fatal(3, err)
	}
	var cases []orderCase
	sc := bufio.NewScanner(f)
	for sc.Scan() {
		var c orderCase
		if err := json.Unmarshal(sc.Bytes(), &c); err != nil {
			fatal(3, "bad case:", err)
		}
		if c.E >= 0 && c.Window != "" {
			cases = append(cases, c)
		}
	}
	f.Close()
	r, err := newRunner(profile{Name: "ordercases", GenesisDiff: 16, GasCeil: 5000000}, *seed)
	if err != nil {
		fatal(3, "boot:", err)
	}
	defer r.close()
	head := 0
	for i := 0; i < 3; i++ {
		if head, err = r.plainMine(head, -1); err != nil {
			fatal(3, "scaffolding chain:", err)
		}
	}
	R := rand.New(rand.NewSource(*seed))
	var zts []uint
	for _, x := range strings.Split(*ztArg, ",") {
		v, _ := strconv.Atoi(x)
		if v > 0 {
			zts = append(zts, uint(v))
		}
	}
	zone := r.n.ZoneCore()
	var mism []orderMismatch
	stats := map[string]int{}
	var samples []map[string]interface{}
	two64 := new(big.Int).Lsh(big.NewInt(1), 64)
	for _, c := range cases {
		for _, zt := range zts {
			for rep := 0; rep < *reps; rep++ {
				// thresholds in 2^-64 bits, from the specification's targets
				zthr := new(big.Int).Mul(big.NewInt(int64(zt)), two64) // log2(2^zt), exact
				thrP := new(big.Int).Add(zthr, oLog(big.NewInt(c.PrimeTgt)))
				thrR := new(big.Int).Add(zthr, oLog(big.NewInt(c.RegionTgt)))
				tgtP := new(big.Int).Div(new(big.Int).Mul(big.NewInt(c.PrimeTgt), zthr), big.NewInt(2))
				tgtR := new(big.Int).Div(new(big.Int).Mul(big.NewInt(c.RegionTgt), zthr), big.NewInt(2))
				// recorded deltas: chosen BEFORE sealing (they are sealed fields); the candidate seal is then required to
				// leave both sums on the side the case asks for
				dZ := big.NewInt(0)
				if c.SumR {
					dZ = new(big.Int).Set(tgtR)
				} else if rep%2 == 1 {
					dZ = big.NewInt(int64(R.Intn(1 << 20))) // tiny but non-zero
				}
				dR := big.NewInt(0)
				if c.SumP {
					dR = new(big.Int).Set(tgtP)
				} else if c.DRLarge {
					// as large as the case allows: just below what would push the prime sum over its target with the weakest seal of the window
					lo := big.NewInt(0)
					switch c.Window {
					case "region":
						lo = thrR
					case "prime":
						lo = thrP
					}
					room := new(big.Int).Sub(tgtP, new(big.Int).Add(dZ, lo))
					room.Sub(room, new(big.Int).Lsh(two64, 1)) // two bits of slack for the seal's position inside its window
					if room.Sign() > 0 {
						dR = room
					}
				}
				if c.SumP && c.DRLarge {
					dR = new(big.Int).Mul(dR, big.NewInt(3))
				}
				// the interval of intrinsic entropies that satisfies the case (window and both sums); empty for combinations that
				// cannot exist (e.g. at expansion 0 a seal in the region window always has sumR)
				inf := new(big.Int).Lsh(big.NewInt(1), 80)
				lo, hi := big.NewInt(0), new(big.Int).Set(inf) // lo < i <= hi
				meet := func(l, h *big.Int) {
					if l != nil && l.Cmp(lo) > 0 {
						lo = l
					}
					if h != nil && h.Cmp(hi) < 0 {
						hi = h
					}
				}
				switch c.Window {
				case "zone":
					meet(zthr, thrR) // a valid seal has i >= log2(difficulty) (up to rounding: the search re-checks exactly)
				case "region":
					meet(thrR, thrP)
				case "prime":
					meet(thrP, nil)
				}
				bR := new(big.Int).Sub(tgtR, dZ)
				bP := new(big.Int).Sub(tgtP, new(big.Int).Add(dZ, dR))
				if c.SumR {
					meet(bR, nil)
				} else {
					meet(nil, bR)
				}
				if c.SumP {
					meet(bP, nil)
				} else {
					meet(nil, bP)
				}
				if hi.Cmp(lo) <= 0 || new(big.Int).Sub(hi, lo).Cmp(new(big.Int).Rsh(two64, 4)) < 0 { // empty or narrower than 1/16 bit
					stats["unrealisable"]++
					continue
				}
				ph, err := r.n.Pending()
				if err != nil {
					fatal(3, "pending:", err)
				}
				w := types.CopyWorkObject(ph)
				w.Header().SetExpansionNumber(uint8(c.E))
				w.Header().SetParentDeltaEntropy(dZ, common.ZONE_CTX)
				w.Header().SetParentDeltaEntropy(dR, common.REGION_CTX)
				w.WorkObjectHeader().SetDifficulty(new(big.Int).Lsh(big.NewInt(1), zt))
				w.WorkObjectHeader().SetHeaderHash(w.Header().Hash())
				found := false
				var intr *big.Int
				var buf [72]byte
				copy(buf[:32], w.MixHash().Bytes())
				copy(buf[32:64], w.SealHash().Bytes())
				target := oTarget(w.Difficulty())
				start := R.Uint64() >> 8
				top64 := func(div *big.Int) uint64 { // leading 64 bits of 2^256 / div
					return new(big.Int).Rsh(new(big.Int).Div(o2e256, div), 192).Uint64()
				}
				b64R := top64(new(big.Int).Mul(w.Difficulty(), big.NewInt(c.RegionTgt)))
				b64P := top64(new(big.Int).Mul(w.Difficulty(), big.NewInt(c.PrimeTgt)))
				lo64, hi64 := uint64(0), ^uint64(0)
				switch c.Window {
				case "zone":
					lo64 = b64R / 2
				case "region":
					lo64, hi64 = b64P/2, b64R*2
				case "prime":
					hi64 = b64P * 2
				}
				for try := uint64(0); try < 1<<22; try++ {
					nonce := types.EncodeNonce(start + try)
					copy(buf[64:], nonce[:])
					h := oBlake3(buf[:])
					// cheap pre-filter on the leading 64 bits (a factor 2 of slack around the window; the exact test follows)
					if h64 := binary.BigEndian.Uint64(h[:8]); h64 > hi64 || h64 < lo64 {
						continue
					}
					if hashInt(h).Cmp(target) > 0 {
						continue
					}
					i, err := oIntrinsic(h)
					if err != nil {
						continue
					}
					inWin := false
					switch c.Window {
					case "zone":
						inWin = i.Cmp(thrR) <= 0
					case "region":
						inWin = i.Cmp(thrR) > 0 && i.Cmp(thrP) <= 0
					case "prime":
						inWin = i.Cmp(thrP) > 0
					}
					if !inWin {
						continue
					}
					sumR := new(big.Int).Add(dZ, i)
					sumP := new(big.Int).Add(sumR, dR)
					if (sumR.Cmp(tgtR) > 0) != c.SumR || (sumP.Cmp(tgtP) > 0) != c.SumP {
						continue
					}
					w.WorkObjectHeader().SetNonce(nonce)
					if w.Hash() != h {
						fatal(3, "seal hash transcription differs from the header's own hash")
					}
					intr, found = i, true
					break
				}
				if !found {
					stats["not-found"]++
					continue
				}
				stats["realised"]++
				stats[fmt.Sprintf("realised-e%d", c.E)]++
				var got string
				_, ord, err := zone.CalcOrder(w)
				if err != nil {
					got = "err: " + err.Error()
				} else {
					got = fmt.Sprint(ord)
				}
				if got != fmt.Sprint(c.Order) {
					mism = append(mism, orderMismatch{Case: c, Zt: zt, Got: got, Want: c.Order,
						Detail: fmt.Sprintf("intrinsic=%s dZ=%s dR=%s thrR=%s thrP=%s tgtR=%s tgtP=%s", intr, dZ, dR, thrR, thrP, tgtR, tgtP)})
				}
				// the same header again (calc-order cache warm) must give the same answer
				if _, ord2, err2 := zone.CalcOrder(w); err == nil && (err2 != nil || ord2 != ord) {
					mism = append(mism, orderMismatch{Case: c, Zt: zt, Got: fmt.Sprint(ord2, err2), Want: c.Order, Detail: "second call differs from the first"})
				}
				if len(samples) < 4 && c.E > 0 && rep == 0 {
					samples = append(samples, map[string]interface{}{"case": c, "zt": zt, "node_order": got})
				}
			}
		}
	}
	res := map[string]interface{}{"cases": len(cases), "stats": stats, "mismatches": mism, "samples": samples}
	b, _ := json.Marshal(res)
	if *out != "" {
		os.WriteFile(*out, b, 0o644)
	}
	fmt.Printf("{\"cases\":%d,\"realised\":%d,\"mismatches\":%d}\n", len(cases), stats["realised"], len(mism))
}
