// routedrv binds spec/EtxRouteMulti.tla (C04, several subordinate chains) to the real go-quai code.
//
// A real core.Slice of a REGION node (location {0}) or of the PRIME node is constructed on a memory database with
// core.NewSlice.  Dominant block trees are written the way Append leaves them (work object, termini, pending ETXs of
// the manifest entries registered through the real, hash-validating AddPendingEtxs / AddPendingEtxsRollup, inbound
// ETX record of prime-order blocks); only the block ORDER, which normally comes out of the proof of work, is seeded
// through the real calc-order cache.  Then the real
//
//	Slice.CollectNewlyConfirmedEtxs, HeaderChain.CollectSubRollup, types.Transactions.FilterToSub
//
// are called and every result is compared, as an ordered list of ETX identities (originating tx hash, index), with the
// value TLC computed from the specification.  Cache regimes: warm (blocks processed in append order on one Slice), cold
// (a NEW Slice on the same database: every in-memory cache empty) and repeated, overlapping calls after a restart.
//
//	routedrv replay -in behaviours.ndjson -out result.json     TLC-generated behaviours (EmitHist of EtxRouteMulti)
//	routedrv random -seed n -ctx 1 -blocks 70 -trace t.ndjson   seeded larger trees, log for EtxRouteMultiTrace.tla
//	routedrv elig -in behaviours.ndjson -out result.json       spec/EtxEligible.tla on UpdateEtxEligibleSlices / CheckIfEtxIsEligible
package main

import (
	"bufio"
	"encoding/binary"
	"encoding/json"
	"errors"
	"flag"
	"fmt"
	"io"
	"math/big"
	"math/rand"
	"os"
	"runtime"
	"runtime/pprof"
	"sync"
	"time"

	"github.com/dominant-strategies/go-quai/common"
	"github.com/dominant-strategies/go-quai/consensus"
	"github.com/dominant-strategies/go-quai/consensus/blake3pow"
	"github.com/dominant-strategies/go-quai/core"
	"github.com/dominant-strategies/go-quai/core/rawdb"
	"github.com/dominant-strategies/go-quai/core/types"
	"github.com/dominant-strategies/go-quai/core/vm"
	"github.com/dominant-strategies/go-quai/ethdb"
	"github.com/dominant-strategies/go-quai/log"
	"github.com/dominant-strategies/go-quai/params"
	"github.com/dominant-strategies/go-quai/trie"
)

// memorydb has no node location (rawdb would decode stored objects with a nil location)
type locDB struct {
	ethdb.Database
	loc common.Location
}

func (d locDB) Location() common.Location { return d.loc }

// ---------------------------------------------------------------------------------------------- environment

type env struct {
	ctx      int
	loc      common.Location
	db       ethdb.Database
	sl       *core.Slice
	gen      common.Hash
	genesis  *core.Genesis
	cc       *params.ChainConfig
	restarts int
}

func newEnv(ctx int) (*env, error) {
	e := &env{ctx: ctx}
	if ctx == common.REGION_CTX {
		e.loc = common.Location{0}
	} else {
		e.loc = common.Location{}
	}
	e.db = locDB{rawdb.NewMemoryDatabase(log.Global), e.loc}
	cc := *params.Blake3PowLocalChainConfig
	cc.Location = e.loc
	e.cc = &cc
	e.genesis = &core.Genesis{Nonce: 66, GasLimit: 5000000, Difficulty: big.NewInt(16), Config: e.cc}
	_, h, err := core.SetupGenesisBlock(e.db, e.genesis, 66, nil, e.loc, log.Global)
	if err != nil {
		return nil, fmt.Errorf("genesis: %w", err)
	}
	e.gen = h
	e.cc.DefaultGenesisHash = h
	if ctx == common.PRIME_CTX {
		// An EMPTY prime chain makes Slice.init start `go NewGenesisPendingHeader`, which busy-waits for subordinate
		// clients that this harness does not have.  A head pointer that is not the genesis hash makes the constructor take
		// the path of a node that already has a chain; the genesis records the walk needs are written here.
		rawdb.WriteHeadBlockHash(e.db, common.Hash{0xff, 0x01})
		rawdb.WriteTermini(e.db, h, types.EmptyTermini())
	}
	if err := e.boot(); err != nil {
		return nil, err
	}
	return e, nil
}

// boot constructs a Slice on the database: used for the first start and for every restart (cold caches).
func (e *env) boot() (err error) {
	defer func() {
		if r := recover(); r != nil {
			err = fmt.Errorf("panic in core.NewSlice: %v", r)
		}
	}()
	pow := params.PowConfig{PowMode: params.ModeNormal, DurationLimit: big.NewInt(5), GasCeil: 5000000,
		MinDifficulty: big.NewInt(16), NodeLocation: e.loc, WorkShareThreshold: 3}
	eng := []consensus.Engine{blake3pow.New(pow, nil, false, log.Global)}
	minerCfg := &core.Config{ExtraData: []byte("verif"), GasCeil: 5000000, Recommit: time.Hour}
	txc := core.DefaultTxPoolConfig
	txc.Journal = ""
	sl, err := core.NewSlice(e.db, minerCfg, pow, &txc, nil, e.cc, []common.Location{{0, 0}}, 0, nil, eng, nil, vm.Config{}, e.genesis, log.Global)
	if err != nil {
		return fmt.Errorf("NewSlice: %w", err)
	}
	e.sl = sl
	return nil
}

func (e *env) restart() error {
	e.restarts++
	return e.boot()
}

// ---------------------------------------------------------------------------------------------- ETXs

// an ETX of the specification: id*1000 + destRegion*100 + destZone*10 + kind (0 standard, 1 coinbase, 2 conversion)
type code = int64

func kindOf(c code) uint64 {
	switch c % 10 {
	case 1:
		return types.CoinbaseType
	case 2:
		return types.ConversionType
	}
	return types.DefaultType
}

type tree struct {
	e     *env
	salt  uint64
	nonce uint64
	blk   map[int]*types.WorkObject
	hash  map[int]common.Hash
	order map[int]int
}

func (t *tree) mkEtx(c code, origin common.Location) *types.Transaction {
	dr, dz := byte((c/100)%10), byte((c/10)%10)
	to20 := make([]byte, 20)
	to20[0] = dr<<4 | dz
	binary.BigEndian.PutUint64(to20[12:], uint64(c))
	from20 := make([]byte, 20)
	from20[0] = origin.BytePrefix()
	from20[19] = 1
	to := common.BytesToAddress(to20, origin)
	var oh common.Hash
	binary.BigEndian.PutUint64(oh[0:8], t.salt)
	binary.BigEndian.PutUint64(oh[8:16], uint64(c))
	oh[31] = 0x5a
	return types.NewTx(&types.ExternalTx{
		OriginatingTxHash: oh,
		ETXIndex:          uint16(c % 60000),
		Gas:               21000,
		To:                &to,
		Value:             big.NewInt(1000 + c%1000),
		Data:              []byte{},
		AccessList:        types.AccessList{},
		Sender:            common.BytesToAddress(from20, origin),
		EtxType:           kindOf(c),
	})
}

func (t *tree) mkEtxs(cs []code, origin common.Location) types.Transactions {
	out := make(types.Transactions, 0, len(cs))
	for _, c := range cs {
		out = append(out, t.mkEtx(c, origin))
	}
	return out
}

// identity of an ETX handed back by the real code -> the specification's code (-1: not one of ours, -2: altered)
func (t *tree) codeOf(tx *types.Transaction) code {
	if tx == nil || tx.Type() != types.ExternalTxType {
		return -1
	}
	oh := tx.OriginatingTxHash()
	if binary.BigEndian.Uint64(oh[0:8]) != t.salt || oh[31] != 0x5a {
		return -1
	}
	c := code(binary.BigEndian.Uint64(oh[8:16]))
	to := tx.To()
	if tx.ETXIndex() != uint16(c%60000) || to == nil || to.Location().Region() != int((c/100)%10) || to.Location().Zone() != int((c/10)%10) ||
		tx.EtxType() != kindOf(c) || tx.Value().Cmp(big.NewInt(1000+c%1000)) != 0 {
		return -2
	}
	return c
}

func (t *tree) codes(txs types.Transactions) []code {
	out := make([]code, 0, len(txs))
	for _, tx := range txs {
		out = append(out, t.codeOf(tx))
	}
	return out
}

// ---------------------------------------------------------------------------------------------- blocks

type blockRec struct {
	ID      int      `json:"id"`
	P       int      `json:"p"`
	Loc     []int    `json:"loc"`
	Order   int      `json:"order"`
	Exp     int      `json:"exp"`
	Man     [][]code `json:"man"`
	Inb     []code   `json:"inb"`
	Rollup  []code   `json:"rollup"`
	F       [][]code `json:"f"`
	Deliver []code   `json:"deliver"`
}

func locOf(l []int) common.Location { return common.Location{byte(l[0]), byte(l[1])} }

// canonical: a hand-built work object changes its hash once when it goes through the storage encoding; take the form
// it has whenever it is read back
func canonical(wo *types.WorkObject, ctx int, loc common.Location) (*types.WorkObject, error) {
	tmp := locDB{rawdb.NewMemoryDatabase(log.Global), loc}
	rawdb.WriteWorkObject(tmp, wo.Hash(), wo, types.BlockObject, ctx)
	back := rawdb.ReadWorkObject(tmp, wo.NumberU64(ctx), wo.Hash(), types.BlockObject)
	if back == nil {
		return nil, errors.New("work object does not survive the storage encoding")
	}
	return back, nil
}

// addBlock writes the subordinate blocks' pending ETXs and the dominant block the way Append leaves them.
func (t *tree) addBlock(b *blockRec) error {
	e := t.e
	loc := locOf(b.Loc)
	manifest := types.BlockManifest{}
	for _, cs := range b.Man {
		t.nonce++
		if e.ctx == common.REGION_CTX {
			// a zone block of this location and its outbound ETXs (Slice.Append: AddPendingEtxs of what the zone returned)
			etxs := t.mkEtxs(cs, loc)
			zb := types.EmptyWorkObject(common.ZONE_CTX)
			zb.WorkObjectHeader().SetLocation(loc)
			zb.WorkObjectHeader().SetNonce(types.EncodeNonce(t.salt<<20 | t.nonce))
			zb.Header().SetOutboundEtxHash(types.DeriveSha(etxs, trie.NewStackTrie(nil)))
			zb.WorkObjectHeader().SetHeaderHash(zb.Header().Hash())
			// adversarial first: batches that do NOT match the zone header's outbound commitment (empty, last ETX dropped) must be
			// refused - the store is first-write-wins, an accepted forgery would shadow the genuine batch for good
			forgedAtBlockStart := forgedCount()
			if len(etxs) > 0 {
				for name, forged := range map[string]types.Transactions{"empty": {}, "last-dropped": etxs[:len(etxs)-1]} {
					if name == "last-dropped" && len(etxs) < 2 {
						continue
					}
					if err := e.sl.AddPendingEtxs(types.PendingEtxs{Header: zb.ConvertToPEtxView(), OutboundEtxs: forged}); err == nil {
						noteForged(e.ctx, "addpendingetxs", name, len(etxs))
					}
				}
			}
			before := forgedCount()
			if err := e.sl.AddPendingEtxs(types.PendingEtxs{Header: zb.ConvertToPEtxView(), OutboundEtxs: etxs}); err != nil && before == forgedAtBlockStart {
				return fmt.Errorf("AddPendingEtxs: %w", err)
			}
			manifest = append(manifest, zb.Hash())
		} else {
			// a region block of this region and the rollup it handed up (Slice.Append in the region: AddPendingEtxsRollup)
			etxs := t.mkEtxs(cs, loc)
			rb := types.EmptyWorkObject(common.REGION_CTX)
			rb.WorkObjectHeader().SetLocation(loc)
			rb.WorkObjectHeader().SetNonce(types.EncodeNonce(t.salt<<20 | t.nonce))
			rb.Header().SetEtxRollupHash(types.DeriveSha(etxs, trie.NewStackTrie(nil)))
			rb.WorkObjectHeader().SetHeaderHash(rb.Header().Hash())
			forgedAtBlockStart := forgedCount()
			if len(etxs) > 0 {
				if err := e.sl.AddPendingEtxsRollup(types.PendingEtxsRollup{Header: rb.ConvertToPEtxView(), EtxsRollup: types.Transactions{}}); err == nil {
					noteForged(e.ctx, "addpendingetxsrollup", "empty", len(etxs))
				}
			}
			if err := e.sl.AddPendingEtxsRollup(types.PendingEtxsRollup{Header: rb.ConvertToPEtxView(), EtxsRollup: etxs}); err != nil && forgedCount() == forgedAtBlockStart {
				return fmt.Errorf("AddPendingEtxsRollup: %w", err)
			}
			manifest = append(manifest, rb.Hash())
		}
	}
	parentHash, number := e.gen, uint64(1)
	if b.P != 0 {
		p := t.blk[b.P]
		if p == nil {
			return fmt.Errorf("unknown parent %d", b.P)
		}
		parentHash, number = t.hash[b.P], p.NumberU64(e.ctx)+1
	}
	t.nonce++
	wo := types.EmptyWorkObject(e.ctx)
	wo.WorkObjectHeader().SetLocation(loc)
	wo.WorkObjectHeader().SetNonce(types.EncodeNonce(t.salt<<20 | t.nonce))
	wo.Header().SetNumber(new(big.Int).SetUint64(number), e.ctx)
	wo.Header().SetParentHash(parentHash, e.ctx)
	wo.Header().SetExpansionNumber(uint8(b.Exp))
	wo.Body().SetManifest(manifest)
	wo.WorkObjectHeader().SetHeaderHash(wo.Header().Hash())
	wo, err := canonical(wo, e.ctx, e.loc)
	if err != nil {
		return err
	}
	woHash := wo.Hash()
	rawdb.WriteTermini(e.db, woHash, types.EmptyTermini())
	rawdb.WriteWorkObject(e.db, woHash, wo, types.BlockObject, e.ctx)
	rawdb.WriteHeadBlockHash(e.db, woHash)
	if b.Order < e.ctx {
		// Slice.Append, order < nodeCtx: "rawdb.WriteInboundEtxs(sl.sliceDb, block.Hash(), newInboundEtxs)"
		rawdb.WriteInboundEtxs(e.db, woHash, t.mkEtxs(b.Inb, common.Location{9, 9}))
	}
	got := e.sl.HeaderChain().GetBlock(woHash, number)
	if got == nil || got.Hash() != woHash || len(got.Manifest()) != len(manifest) || int(got.ExpansionNumber()) != b.Exp || !got.Location().Equal(loc) {
		return errors.New("stored dominant block does not read back")
	}
	e.sl.HeaderChain().AddToCalcOrderCache(woHash, b.Order, big.NewInt(1))
	t.blk[b.ID] = wo
	t.hash[b.ID] = woHash
	t.order[b.ID] = b.Order
	return nil
}

// after a restart the node recomputes block orders from the proof of work; the synthetic blocks have none
func (t *tree) seedOrders() {
	for id, h := range t.hash {
		t.e.sl.HeaderChain().AddToCalcOrderCache(h, t.order[id], big.NewInt(1))
	}
}

type callErr struct{ msg string }

// collect = the real Slice.CollectNewlyConfirmedEtxs(block, order)
func (t *tree) collect(id int) (res []code, cerr *callErr) {
	defer func() {
		if r := recover(); r != nil {
			cerr = &callErr{fmt.Sprintf("panic: %v", r)}
		}
	}()
	txs, err := t.e.sl.CollectNewlyConfirmedEtxs(t.blk[id], t.order[id])
	if err != nil {
		return nil, &callErr{err.Error()}
	}
	return t.codes(txs), nil
}

// fromDom = what Slice.Append hands to the zone of a block that came from the dominant chain:
// the stored inbound set, FilterToSub(block.Location(), nodeCtx, order)
func (t *tree) fromDom(id int) ([]code, *callErr) {
	wo := t.blk[id]
	inb := rawdb.ReadInboundEtxs(t.e.db, t.hash[id])
	if inb == nil {
		return nil, &callErr{"inbound ETX record missing"}
	}
	return t.codes(inb.FilterToSub(wo.Location(), t.e.ctx, t.order[id])), nil
}

func (t *tree) subRollup(id int) (res []code, cerr *callErr) {
	defer func() {
		if r := recover(); r != nil {
			cerr = &callErr{fmt.Sprintf("panic: %v", r)}
		}
	}()
	txs, err := t.e.sl.HeaderChain().CollectSubRollup(t.blk[id])
	if err != nil {
		return nil, &callErr{err.Error()}
	}
	return t.codes(txs), nil
}

func (t *tree) filter(id int, order int) ([]code, *callErr) {
	txs, err := t.e.sl.HeaderChain().CollectSubRollup(t.blk[id])
	if err != nil {
		return nil, &callErr{err.Error()}
	}
	return t.codes(txs.FilterToSub(t.blk[id].Location(), t.e.ctx, order)), nil
}

func eq(a, b []code) bool {
	if len(a) != len(b) {
		return false
	}
	for i := range a {
		if a[i] != b[i] {
			return false
		}
	}
	return true
}

// ---------------------------------------------------------------------------------------------- replay

type queryRec struct {
	B   int    `json:"b"`
	Res []code `json:"res"`
}

type hist struct {
	Ctx     int        `json:"ctx"`
	Gexp    int        `json:"gexp"`
	Blocks  []blockRec `json:"blocks"`
	Restart bool       `json:"restart"`
	Queries []queryRec `json:"queries"`
}

var (
	forgedMu sync.Mutex
	forged   []mismatch
	forgedN  int
)

// noteForged records that the dominant node accepted a pending-ETX batch that does not match the header's commitment.
func noteForged(ctx int, op, what string, n int) {
	forgedMu.Lock()
	defer forgedMu.Unlock()
	forgedN++
	if len(forged) < 20 {
		forged = append(forged, mismatch{Ctx: ctx, Regime: "adversarial", Op: op, Class: "forged-batch-accepted", Err: fmt.Sprintf("%s batch accepted for a block that emitted %d ETXs", what, n)})
	}
}

func forgedCount() int {
	forgedMu.Lock()
	defer forgedMu.Unlock()
	return forgedN
}

type mismatch struct {
	Line     int    `json:"line"`
	Ctx      int    `json:"ctx"`
	Regime   string `json:"regime"` // warm | cold | overlap | warm-requery | warm-requery-2
	Op       string `json:"op"`     // collect | fromdom | subrollup | filter-o<n>
	Class    string `json:"class"`  // lost | duplicated | foreign | reordered | error | lost+extra | extra
	Block    int    `json:"block"`
	Expected []code `json:"expected"`
	Got      []code `json:"got"`
	Err      string `json:"err,omitempty"`
	Hist     *hist  `json:"behaviour"`
}

// classify how a delivery differs from the specified one (for the violation signature)
func classify(exp, got []code, cerr *callErr) string {
	if cerr != nil {
		return "error"
	}
	em, gm := map[code]int{}, map[code]int{}
	for _, c := range exp {
		em[c]++
	}
	dup := false
	for _, c := range got {
		gm[c]++
		if gm[c] > 1 {
			dup = true
		}
	}
	lost, extra := false, false
	for c := range em {
		if gm[c] == 0 {
			lost = true
		}
	}
	for c := range gm {
		if em[c] == 0 {
			extra = true
		}
	}
	switch {
	case lost && extra:
		return "lost+extra"
	case lost:
		return "lost"
	case extra:
		return "extra"
	case dup:
		return "duplicated"
	}
	return "reordered"
}

type stats struct {
	Behaviours, Steps, Collects, ColdCollects, OverlapCollects, FromDom, SubRollups, Filters, Delivered, Restarts int
}

type worker struct {
	envs [2]*env
	used [2]int
	st   stats
	mm   []mismatch
	salt uint64
}

func (w *worker) env(ctx int) (*env, error) {
	if ctx != 0 && ctx != 1 {
		return nil, fmt.Errorf("bad ctx %d", ctx)
	}
	// a fresh database (and Slice) every few hundred behaviours keeps the memory of long replays flat
	w.used[ctx]++
	if w.envs[ctx] == nil || w.used[ctx]%400 == 0 {
		e, err := newEnv(ctx)
		if err != nil {
			return nil, err
		}
		w.envs[ctx] = e
	}
	return w.envs[ctx], nil
}

func (w *worker) check(line int, h *hist, regime, op string, block int, exp, got []code, cerr *callErr) {
	w.st.Steps++
	if cerr == nil && eq(exp, got) {
		return
	}
	m := mismatch{Line: line, Ctx: h.Ctx, Regime: regime, Op: op, Class: classify(exp, got, cerr), Block: block, Expected: exp, Got: got, Hist: h}
	if cerr != nil {
		m.Err = cerr.msg
	}
	if len(w.mm) < 50 {
		w.mm = append(w.mm, m)
	}
}

func (w *worker) replayLine(line int, h *hist) error {
	e, err := w.env(h.Ctx)
	if err != nil {
		return err
	}
	w.salt++
	t := &tree{e: e, salt: w.salt, blk: map[int]*types.WorkObject{}, hash: map[int]common.Hash{}, order: map[int]int{}}
	w.st.Behaviours++
	for i := range h.Blocks {
		b := &h.Blocks[i]
		if err := t.addBlock(b); err != nil {
			return fmt.Errorf("line %d block %d: %w", line, b.ID, err)
		}
		// what Append does with the new block
		if b.Order == e.ctx {
			got, cerr := t.collect(b.ID)
			w.st.Collects++
			w.st.Delivered += len(got)
			w.check(line, h, "warm", "collect", b.ID, b.Deliver, got, cerr)
		} else {
			got, cerr := t.fromDom(b.ID)
			w.st.FromDom++
			w.st.Delivered += len(got)
			w.check(line, h, "warm", "fromdom", b.ID, b.Deliver, got, cerr)
		}
		if len(b.F) == 3 {
			got, cerr := t.subRollup(b.ID)
			w.st.SubRollups++
			w.check(line, h, "warm", "subrollup", b.ID, b.Rollup, got, cerr)
			for o := 0; o < 3; o++ {
				got, cerr := t.filter(b.ID, o)
				w.st.Filters++
				w.check(line, h, "warm", fmt.Sprintf("filter-o%d", o), b.ID, b.F[o], got, cerr)
			}
		}
	}
	if h.Restart {
		if err := e.restart(); err != nil {
			return err
		}
		w.st.Restarts++
		t.seedOrders()
	}
	for i, q := range h.Queries {
		regime := "warm-requery"
		if h.Restart {
			regime = "cold"
			if i > 0 {
				regime = "overlap"
			}
		} else if i > 0 {
			regime = "warm-requery-2"
		}
		got, cerr := t.collect(q.B)
		w.st.Collects++
		if h.Restart && i == 0 {
			w.st.ColdCollects++
		} else if h.Restart {
			w.st.OverlapCollects++
		}
		w.check(line, h, regime, "collect", q.B, q.Res, got, cerr)
	}
	return nil
}

func cmdReplay(args []string) error {
	fs := flag.NewFlagSet("replay", flag.ExitOnError)
	in := fs.String("in", "", "ndjson behaviours (EmitHist of EtxRouteMulti)")
	out := fs.String("out", "", "json result")
	nw := fs.Int("workers", runtime.GOMAXPROCS(0), "parallel workers (each with its own databases)")
	fs.Parse(args)
	f, err := os.Open(*in)
	if err != nil {
		return err
	}
	defer f.Close()
	type job struct {
		line int
		h    *hist
	}
	jobs := make(chan job, 256)
	ws := make([]*worker, *nw)
	errs := make([]error, *nw)
	var wg sync.WaitGroup
	for i := range ws {
		ws[i] = &worker{salt: uint64(i+1) << 32}
		wg.Add(1)
		go func(i int) {
			defer wg.Done()
			for j := range jobs {
				if errs[i] != nil {
					continue
				}
				if err := ws[i].replayLine(j.line, j.h); err != nil {
					errs[i] = err
				}
			}
		}(i)
	}
	sc := bufio.NewScanner(f)
	sc.Buffer(make([]byte, 1<<20), 1<<26)
	line := 0
	var perr error
	for sc.Scan() {
		line++
		if len(sc.Bytes()) == 0 {
			continue
		}
		h := new(hist)
		if err := json.Unmarshal(sc.Bytes(), h); err != nil {
			perr = fmt.Errorf("line %d: %w", line, err)
			break
		}
		jobs <- job{line, h}
	}
	close(jobs)
	wg.Wait()
	if perr != nil {
		return perr
	}
	if err := sc.Err(); err != nil {
		return err
	}
	var tot stats
	mm := []mismatch{}
	for i, w := range ws {
		if errs[i] != nil {
			return errs[i]
		}
		tot.Behaviours += w.st.Behaviours
		tot.Steps += w.st.Steps
		tot.Collects += w.st.Collects
		tot.ColdCollects += w.st.ColdCollects
		tot.OverlapCollects += w.st.OverlapCollects
		tot.FromDom += w.st.FromDom
		tot.SubRollups += w.st.SubRollups
		tot.Filters += w.st.Filters
		tot.Delivered += w.st.Delivered
		tot.Restarts += w.st.Restarts
		mm = append(mm, w.mm...)
	}
	forgedMu.Lock()
	mm = append(mm, forged...)
	forgedMu.Unlock()
	res := map[string]interface{}{"forged_batches_accepted": forgedN, "behaviours": tot.Behaviours, "steps": tot.Steps, "collects": tot.Collects, "cold_collects": tot.ColdCollects,
		"overlap_collects": tot.OverlapCollects, "fromdom": tot.FromDom, "subrollups": tot.SubRollups, "filters": tot.Filters,
		"etxs_delivered": tot.Delivered, "restarts": tot.Restarts, "mismatches": mm}
	js, _ := json.MarshalIndent(res, "", " ")
	return os.WriteFile(*out, js, 0o644)
}

// ---------------------------------------------------------------------------------------------- random

type event map[string]interface{}

func orEmpty(c []code) []code {
	if c == nil {
		return []code{}
	}
	return c
}

func cmdRandom(args []string) error {
	fs := flag.NewFlagSet("random", flag.ExitOnError)
	seed := fs.Int64("seed", 1, "seed")
	ctx := fs.Int("ctx", 1, "node context of the dominant node: 1 region, 0 prime")
	nblocks := fs.Int("blocks", 70, "dominant blocks per tree")
	ntrees := fs.Int("trees", 1, "trees")
	trace := fs.String("trace", "", "ndjson trace out")
	fs.Parse(args)
	rng := rand.New(rand.NewSource(*seed))
	e, err := newEnv(*ctx)
	if err != nil {
		return err
	}
	f, err := os.Create(*trace)
	if err != nil {
		return err
	}
	defer f.Close()
	bw := bufio.NewWriter(f)
	defer bw.Flush()
	emit := func(ev event) {
		js, _ := json.Marshal(ev)
		bw.Write(js)
		bw.WriteByte('\n')
	}
	// the hierarchy the random trees live in: region node {0} under expansion 3 (2 x 3), prime under expansion 4 (3 x 3)
	hiExp := 3
	var locs [][]int
	var dests [][]int
	if *ctx == common.REGION_CTX {
		locs = [][]int{{0, 0}, {0, 1}, {0, 2}}
		dests = [][]int{{0, 0}, {0, 1}, {0, 2}, {1, 0}, {1, 2}}
	} else {
		hiExp = 4
		locs = [][]int{{0, 0}, {0, 1}, {1, 0}, {1, 2}, {2, 1}}
		dests = [][]int{{0, 0}, {0, 1}, {0, 2}, {1, 0}, {1, 2}, {2, 1}, {2, 2}}
	}
	for tr := 0; tr < *ntrees; tr++ {
		t := &tree{e: e, salt: uint64(*seed)<<24 | uint64(tr+1), blk: map[int]*types.WorkObject{}, hash: map[int]common.Hash{}, order: map[int]int{}}
		emit(event{"op": "tracereset", "ctx": *ctx})
		exps := map[int]int{0: hiExp}
		lowEra := 0
		if rng.Intn(2) == 0 {
			lowEra = 1 + rng.Intn(4) // the chain starts on the 1 x 1 hierarchy and expands later
			exps[0] = 0
		}
		nextEtx := int64(0)
		// one rarely coincident location: long walks, evictions from the 50-entry rollup cache
		weights := make([]int, len(locs))
		for i := range weights {
			weights[i] = 10
		}
		weights[len(weights)-1] = 2
		pick := func() []int {
			tot := 0
			for _, w := range weights {
				tot += w
			}
			r := rng.Intn(tot)
			for i, w := range weights {
				if r < w {
					return locs[i]
				}
				r -= w
			}
			return locs[0]
		}
		mkList := func(n int, exp int, origin []int, ownRegionOnly bool, region int) []code {
			out := []code{}
			for i := 0; i < n; i++ {
				var d []int
				if exp == 0 {
					d = []int{0, 0}
				} else {
					d = dests[rng.Intn(len(dests))]
				}
				if ownRegionOnly && d[0] != region {
					continue
				}
				k := int64(rng.Intn(3))
				if k == 0 && origin != nil && d[0] == origin[0] && d[1] == origin[1] {
					k = 1 + int64(rng.Intn(2))
				}
				nextEtx++
				out = append(out, nextEtx*1000+int64(d[0])*100+int64(d[1])*10+k)
			}
			return out
		}
		queryable := []int{}
		for id := 1; id <= *nblocks; id++ {
			p := id - 1
			if id > 2 && rng.Intn(5) == 0 {
				p = id - 1 - rng.Intn(4)
				if p < 0 {
					p = 0
				}
			}
			exp := exps[p]
			order := *ctx
			if *ctx == common.REGION_CTX && rng.Intn(10) < 3 {
				order = common.PRIME_CTX
			}
			if exp == 0 && id > lowEra && order == common.PRIME_CTX {
				exp = hiExp // the expansion number changes at a prime block
			}
			loc := []int{0, 0}
			if exp != 0 {
				loc = pick()
			}
			b := &blockRec{ID: id, P: p, Loc: loc, Order: order, Exp: exp, Man: [][]code{}, Inb: []code{}}
			nsub := rng.Intn(4)
			for j := 0; j < nsub; j++ {
				l := mkList(rng.Intn(5), exp, loc, false, 0)
				if *ctx == common.PRIME_CTX {
					// what a region hands up: everything except standard transfers inside the region
					kept := []code{}
					for _, c := range l {
						if int((c/100)%10) != loc[0] || c%10 != 0 {
							kept = append(kept, c)
						}
					}
					l = kept
				}
				b.Man = append(b.Man, l)
			}
			if order < *ctx {
				b.Inb = mkList(rng.Intn(6), exp, nil, true, loc[0])
			}
			exps[id] = exp
			if err := t.addBlock(b); err != nil {
				return fmt.Errorf("tree %d block %d: %w", tr, id, err)
			}
			var got []code
			var cerr *callErr
			if order == *ctx {
				got, cerr = t.collect(id)
				queryable = append(queryable, id)
			} else {
				got, cerr = t.fromDom(id)
			}
			ru, rerr := t.subRollup(id)
			ev := event{"op": "add", "b": id, "p": p, "loc": loc, "order": order, "exp": exp, "man": b.Man, "inb": b.Inb,
				"deliver": orEmpty(got), "rollup": orEmpty(ru), "err": ""}
			if cerr != nil {
				ev["err"] = cerr.msg
			} else if rerr != nil {
				ev["err"] = "CollectSubRollup: " + rerr.msg
			}
			emit(ev)
			if rng.Intn(7) == 0 {
				if err := e.restart(); err != nil {
					return err
				}
				t.seedOrders()
				emit(event{"op": "restart"})
			}
			for len(queryable) > 0 && rng.Intn(3) == 0 {
				q := queryable[rng.Intn(len(queryable))]
				if rng.Intn(2) == 0 { // mostly recent blocks: their walks overlap
					q = queryable[len(queryable)-1-rng.Intn(min(4, len(queryable)))]
				}
				got, cerr := t.collect(q)
				ev := event{"op": "query", "b": q, "res": orEmpty(got), "err": ""}
				if cerr != nil {
					ev["err"] = cerr.msg
				}
				emit(ev)
			}
		}
	}
	return nil
}

// ---------------------------------------------------------------------------------------------- eligibility

type eligOp struct {
	Op  string `json:"op"`
	Loc []int  `json:"loc"`
	On  bool   `json:"on"`
	Res []int  `json:"res"`
}

// cmdElig replays the behaviours of spec/EtxEligible.tla on the real HeaderChain.UpdateEtxEligibleSlices /
// CheckIfEtxIsEligible: the header field after every update (as the list of its 1-bits) and every check result.
func cmdElig(args []string) error {
	fs := flag.NewFlagSet("elig", flag.ExitOnError)
	in := fs.String("in", "", "ndjson behaviours (EmitHist of EtxEligible)")
	out := fs.String("out", "", "json result")
	fs.Parse(args)
	e, err := newEnv(common.REGION_CTX)
	if err != nil {
		return err
	}
	hc := e.sl.HeaderChain()
	f, err := os.Open(*in)
	if err != nil {
		return err
	}
	defer f.Close()
	sc := bufio.NewScanner(f)
	sc.Buffer(make([]byte, 1<<20), 1<<24)
	type mm struct {
		Line     int      `json:"line"`
		Step     int      `json:"step"`
		Op       string   `json:"op"`
		Expected []int    `json:"expected"`
		Got      []int    `json:"got"`
		Hist     []eligOp `json:"behaviour"`
	}
	mms := []mm{}
	behaviours, steps, line := 0, 0, 0
	for sc.Scan() {
		line++
		if len(sc.Bytes()) == 0 {
			continue
		}
		var ops []eligOp
		if err := json.Unmarshal(sc.Bytes(), &ops); err != nil {
			return fmt.Errorf("line %d: %w", line, err)
		}
		behaviours++
		field := common.Hash{}
		for i, op := range ops {
			loc := common.Location{byte(op.Loc[0]), byte(op.Loc[1])}
			var got []int
			switch op.Op {
			case "update":
				hdr := types.EmptyWorkObject(common.ZONE_CTX)
				hdr.Header().SetEtxEligibleSlices(field)
				n := params.TimeToStartTx // the last block of the start-up period
				if op.On {
					n++
				}
				hdr.WorkObjectHeader().SetNumber(new(big.Int).SetUint64(n))
				field = hc.UpdateEtxEligibleSlices(hdr, loc)
				got = []int{}
				for b := 0; b < 256; b++ {
					if field[b/8]&(1<<uint(b%8)) != 0 {
						got = append(got, b)
					}
				}
			case "check":
				got = []int{0}
				if hc.CheckIfEtxIsEligible(field, loc) {
					got = []int{1}
				}
			default:
				return fmt.Errorf("line %d: unknown op %q", line, op.Op)
			}
			steps++
			same := len(got) == len(op.Res)
			for k := 0; same && k < len(got); k++ {
				same = got[k] == op.Res[k]
			}
			if !same && len(mms) < 20 {
				mms = append(mms, mm{line, i, op.Op, op.Res, got, ops})
			}
		}
	}
	if err := sc.Err(); err != nil {
		return err
	}
	js, _ := json.MarshalIndent(map[string]interface{}{"behaviours": behaviours, "steps": steps, "mismatches": mms}, "", " ")
	return os.WriteFile(*out, js, 0o644)
}

func main() {
	log.Global.SetOutput(io.Discard)
	if pf := os.Getenv("ROUTEDRV_CPUPROFILE"); pf != "" {
		f, _ := os.Create(pf)
		pprof.StartCPUProfile(f)
		defer pprof.StopCPUProfile()
	}
	if len(os.Args) < 2 {
		fmt.Fprintln(os.Stderr, "usage: routedrv replay|random|elig ...")
		os.Exit(2)
	}
	var err error
	switch os.Args[1] {
	case "replay":
		err = cmdReplay(os.Args[2:])
	case "random":
		err = cmdRandom(os.Args[2:])
	case "elig":
		err = cmdElig(os.Args[2:])
	default:
		err = fmt.Errorf("unknown sub-command %q", os.Args[1])
	}
	if err != nil {
		pprof.StopCPUProfile()
		fmt.Fprintln(os.Stderr, "routedrv:", err)
		os.Exit(2)
	}
}
