package main

import (
	"crypto/ecdsa"
	"encoding/binary"
	"fmt"
	"math/big"
	"os"
	"reflect"
	"runtime"
	"sort"
	"strings"
	"sync"
	"sync/atomic"
	"time"

	"github.com/dominant-strategies/go-quai/common"
	"github.com/dominant-strategies/go-quai/consensus"
	"github.com/dominant-strategies/go-quai/core"
	"github.com/dominant-strategies/go-quai/core/rawdb"
	"github.com/dominant-strategies/go-quai/core/state"
	"github.com/dominant-strategies/go-quai/core/types"
	"github.com/dominant-strategies/go-quai/crypto"
	"github.com/dominant-strategies/go-quai/event"
	"github.com/dominant-strategies/go-quai/log"
	"github.com/dominant-strategies/go-quai/params"
)

// ---------------------------------------------------------------- universe

// One price unit is 1 gwei of gas price; every transaction has gas limit 21000 and value 0, so
// its cost is price*costUnit and a balance of b units affords exactly the prices <= b.
var (
	gwei     = big.NewInt(1_000_000_000)
	txGas    = uint64(21000)
	costUnit = new(big.Int).Mul(gwei, big.NewInt(21000))
	location = common.Location{0, 0}
)

type txKey struct{ A, N, P int } // account (1-based), nonce, price units

func (k txKey) arr() [3]int { return [3]int{k.A, k.N, k.P} }

type universe struct {
	NA, MaxNonce, MaxPrice int
	cfg                    params.ChainConfig
	signer                 types.Signer
	keys                   []*ecdsa.PrivateKey
	addrs                  []common.InternalAddress
	addrIdx                map[common.InternalAddress]int // -> 1-based account
	to                     common.Address
	sigs                   map[txKey][]byte
	byHash                 map[common.Hash]txKey
	hashOf                 map[txKey]common.Hash
	slotsOf                map[txKey]int // transactions that occupy more than one 32 KiB slot (bigprobe only)
}

func fatal(err error) {
	if err != nil {
		fmt.Fprintln(os.Stderr, "pooldrv fatal:", err)
		os.Exit(3)
	}
}

// deterministic key whose address is a Quai-ledger address of zone {0,0}
func grindKey(tag string) (*ecdsa.PrivateKey, common.Address) {
	for i := 0; ; i++ {
		seed := crypto.Keccak256([]byte(fmt.Sprintf("verif-c19-%s-%d", tag, i)))
		k, err := crypto.ToECDSA(seed)
		if err != nil {
			continue
		}
		a := crypto.PubkeyToAddress(k.PublicKey, location)
		b := a.Bytes()
		if b[0] == 0x00 && b[1] <= 127 {
			return k, a
		}
	}
}

func newUniverse(na, maxNonce, maxPrice int) *universe {
	return newUniverseSlots(na, maxNonce, maxPrice, nil)
}

func newUniverseSlots(na, maxNonce, maxPrice int, slotsOf map[txKey]int) *universe {
	u := &universe{NA: na, MaxNonce: maxNonce, MaxPrice: maxPrice, slotsOf: slotsOf,
		addrIdx: map[common.InternalAddress]int{}, sigs: map[txKey][]byte{},
		byHash: map[common.Hash]txKey{}, hashOf: map[txKey]common.Hash{}}
	u.cfg = *params.Blake3PowLocalChainConfig
	u.cfg.Location = location
	u.signer = types.LatestSigner(&u.cfg)
	_, u.to = grindKey("recipient")
	for a := 1; a <= na; a++ {
		k, addr := grindKey(fmt.Sprintf("acct-%d", a))
		in, err := addr.InternalAndQuaiAddress()
		fatal(err)
		u.keys = append(u.keys, k)
		u.addrs = append(u.addrs, in)
		u.addrIdx[in] = a
	}
	for a := 1; a <= na; a++ {
		for n := 0; n <= maxNonce; n++ {
			for p := 1; p <= maxPrice; p++ {
				k := txKey{a, n, p}
				tx := types.NewTx(u.inner(k))
				h := u.signer.Hash(tx)
				sig, err := crypto.Sign(h[:], u.keys[a-1])
				fatal(err)
				u.sigs[k] = sig
				stx, err := tx.WithSignature(u.signer, sig)
				fatal(err)
				u.byHash[stx.Hash()] = k
				u.hashOf[k] = stx.Hash()
			}
		}
	}
	return u
}

func (u *universe) inner(k txKey) *types.QuaiTx {
	to := u.to
	if s := u.slotsOf[k]; s > 1 {
		data := make([]byte, (s-1)*32*1024+1024) // zero bytes: 4 gas each
		return &types.QuaiTx{ChainID: new(big.Int).Set(u.cfg.ChainID), Nonce: uint64(k.N), GasPrice: new(big.Int).Mul(gwei, big.NewInt(int64(k.P))),
			Gas: txGas + 4*uint64(len(data)) + 1000, To: &to, Value: new(big.Int), Data: data}
	}
	return &types.QuaiTx{
		ChainID:  new(big.Int).Set(u.cfg.ChainID),
		Nonce:    uint64(k.N),
		GasPrice: new(big.Int).Mul(gwei, big.NewInt(int64(k.P))),
		Gas:      txGas,
		To:       &to,
		Value:    new(big.Int),
		Data:     []byte{},
	}
}

// a fresh transaction object (own local flag, own timestamp) for <<a,n,p>>
func (u *universe) tx(k txKey) *types.Transaction {
	sig, ok := u.sigs[k]
	if !ok {
		fatal(fmt.Errorf("transaction %v outside the universe", k))
	}
	stx, err := types.NewTx(u.inner(k)).WithSignature(u.signer, sig)
	fatal(err)
	return stx
}

// ---------------------------------------------------------------- stub chain

type block struct {
	id     int
	wo     *types.WorkObject
	parent *block
	num    uint64
	body   []txKey
	nonce  []uint64 // state nonce per account after this block
	bal    []int    // balance units per account
	root   common.Hash
}

type stubChain struct {
	u      *universe
	mu     sync.RWMutex
	byHash map[common.Hash]*block
	byRoot map[common.Hash]*block
	head   *block
	feed   event.Feed
	sdb    state.Database
	nextID int
	lg     *log.Logger
}

func newStubChain(u *universe, initBal []int, lg *log.Logger) *stubChain {
	c := &stubChain{u: u, byHash: map[common.Hash]*block{}, byRoot: map[common.Hash]*block{}, lg: lg}
	c.sdb = state.NewDatabase(rawdb.NewMemoryDatabase(lg))
	g := c.mkBlock(nil, nil, initBal)
	c.head = g
	return c
}

// mkBlock fabricates a block on top of parent that includes body and establishes balances bal
func (c *stubChain) mkBlock(parent *block, body []txKey, bal []int) *block {
	c.mu.Lock()
	defer c.mu.Unlock()
	c.nextID++
	b := &block{id: c.nextID, parent: parent, body: append([]txKey{}, body...), bal: append([]int{}, bal...)}
	b.nonce = make([]uint64, c.u.NA)
	if parent != nil {
		copy(b.nonce, parent.nonce)
		b.num = parent.num + 1
	}
	var txs []*types.Transaction
	for _, k := range body {
		if uint64(k.N) != b.nonce[k.A-1] {
			fatal(fmt.Errorf("block body not nonce-contiguous: %v on %v", k, b.nonce))
		}
		b.nonce[k.A-1]++
		txs = append(txs, c.u.tx(k))
	}
	var rb [32]byte
	binary.BigEndian.PutUint64(rb[24:], uint64(b.id))
	rb[0] = 0xc1
	b.root = common.BytesToHash(rb[:])
	wo := types.EmptyZoneWorkObject()
	wo.WorkObjectHeader().SetNumber(new(big.Int).SetUint64(b.num))
	if parent != nil {
		wo.WorkObjectHeader().SetParentHash(parent.wo.Hash())
	}
	wo.WorkObjectHeader().SetNonce(types.EncodeNonce(uint64(b.id)))
	wo.WorkObjectHeader().SetTime(uint64(b.id))
	wo.Header().SetEVMRoot(b.root)
	wo.Header().SetGasLimit(5_000_000)
	wo.Header().SetBaseFee(big.NewInt(0))
	wo.Body().SetTransactions(txs)
	b.wo = wo
	c.byHash[wo.Hash()] = b
	c.byRoot[b.root] = b
	return b
}

func (c *stubChain) blockOf(wo *types.WorkObject) *block {
	if wo == nil {
		return nil
	}
	c.mu.RLock()
	defer c.mu.RUnlock()
	return c.byHash[wo.Hash()]
}

// setHead makes b the canonical head and announces it to the pool
func (c *stubChain) setHead(b *block) {
	c.mu.Lock()
	c.head = b
	c.mu.Unlock()
	c.feed.Send(core.ChainHeadEvent{Block: b.wo})
}

func (c *stubChain) CurrentBlock() *types.WorkObject {
	c.mu.RLock()
	defer c.mu.RUnlock()
	return c.head.wo
}
func (c *stubChain) GetBlock(hash common.Hash, number uint64) *types.WorkObject {
	c.mu.RLock()
	defer c.mu.RUnlock()
	if b, ok := c.byHash[hash]; ok && b.num == number {
		return b.wo
	}
	return nil
}
func (c *stubChain) StateAt(root, etxRoot common.Hash, quaiStateSize *big.Int) (*state.StateDB, error) {
	c.mu.RLock()
	b, ok := c.byRoot[root]
	c.mu.RUnlock()
	if !ok {
		return nil, fmt.Errorf("stub chain: unknown state root %x", root)
	}
	sdb, err := state.New(types.EmptyRootHash, types.EmptyRootHash, big.NewInt(0), c.sdb, c.sdb, nil, location, c.lg)
	if err != nil {
		return nil, err
	}
	for i, addr := range c.u.addrs {
		sdb.SetNonce(addr, b.nonce[i])
		sdb.SetBalance(addr, new(big.Int).Mul(costUnit, big.NewInt(int64(b.bal[i]))))
	}
	return sdb, nil
}
func (c *stubChain) SubscribeChainHeadEvent(ch chan<- core.ChainHeadEvent) event.Subscription {
	return c.feed.Subscribe(ch)
}
func (c *stubChain) IsGenesisHash(hash common.Hash) bool                             { return false }
func (c *stubChain) CheckIfEtxIsEligible(hash common.Hash, loc common.Location) bool { return true }
func (c *stubChain) Engine(header *types.WorkObjectHeader) consensus.Engine          { return nil }
func (c *stubChain) GetHeaderOrCandidateByHash(h common.Hash) *types.WorkObject {
	return c.GetBlockByHash(h)
}
func (c *stubChain) NodeCtx() int                                            { return common.ZONE_CTX }
func (c *stubChain) GetHeaderByHash(h common.Hash) *types.WorkObject         { return c.GetBlockByHash(h) }
func (c *stubChain) GetMaxTxInWorkShare() uint64                             { return 1000 }
func (c *stubChain) CheckInCalcOrderCache(common.Hash) (*big.Int, int, bool) { return nil, 0, false }
func (c *stubChain) AddToCalcOrderCache(common.Hash, int, *big.Int)          {}
func (c *stubChain) CalcBaseFee(*types.WorkObject) *big.Int                  { return big.NewInt(0) }
func (c *stubChain) CalcOrder(*types.WorkObject) (*big.Int, int, error) {
	return big.NewInt(0), common.ZONE_CTX, nil
}
func (c *stubChain) GetBlockByHash(h common.Hash) *types.WorkObject {
	c.mu.RLock()
	defer c.mu.RUnlock()
	if b, ok := c.byHash[h]; ok {
		return b.wo
	}
	return nil
}

// ---------------------------------------------------------------- abstract pool state

type absState struct {
	Pend   [][]int  `json:"pend"` // [account][nonce] -> price or 0
	Que    [][]int  `json:"que"`
	Loc    [][3]int `json:"loc"`
	Rem    [][3]int `json:"rem"`
	Priced [][3]int `json:"priced"`
	Pn     []int    `json:"pn"`
	Sn     []int    `json:"sn"`
	Bal    []int    `json:"bal"`
	Floor  int      `json:"floor"`
	Locals []int    `json:"locals"`
	// not part of the TLA+ state: observations the native checks use
	Slots       int      `json:"-"`
	Stales      int      `json:"-"`
	ActualStale int      `json:"-"`
	Anomalies   []string `json:"-"`
}

func sortKeys(x [][3]int) {
	sort.Slice(x, func(i, j int) bool {
		for k := 0; k < 3; k++ {
			if x[i][k] != x[j][k] {
				return x[i][k] < x[j][k]
			}
		}
		return false
	})
}

func (u *universe) abstract(s *core.VerifPoolSnapshot) *absState {
	a := &absState{Loc: [][3]int{}, Rem: [][3]int{}, Priced: [][3]int{}, Locals: []int{}}
	anom := func(f string, x ...interface{}) { a.Anomalies = append(a.Anomalies, fmt.Sprintf(f, x...)) }
	lists := func(m map[common.InternalAddress]types.Transactions, name string) [][]int {
		out := make([][]int, u.NA)
		for i := range out {
			out[i] = make([]int, u.MaxNonce+1)
		}
		for addr, txs := range m {
			ai, ok := u.addrIdx[addr]
			if !ok {
				anom("%s list of unknown account %x", name, addr)
				continue
			}
			var prev uint64
			for j, tx := range txs {
				k, ok := u.byHash[tx.Hash()]
				if !ok {
					anom("%s list holds unknown transaction %x", name, tx.Hash())
					continue
				}
				if k.A != ai || uint64(k.N) != tx.Nonce() {
					anom("%s list of account %d holds %v", name, ai, k)
					continue
				}
				if j > 0 && tx.Nonce() <= prev {
					anom("%s list of account %d not strictly nonce-sorted", name, ai)
				}
				prev = tx.Nonce()
				if out[ai-1][k.N] != 0 {
					anom("%s list of account %d holds two transactions with nonce %d", name, ai, k.N)
				}
				out[ai-1][k.N] = k.P
			}
		}
		return out
	}
	a.Pend = lists(s.Pending, "pending")
	a.Que = lists(s.Queue, "queue")
	if s.EmptyPending > 0 {
		anom("%d empty pending list objects left in pool.pending", s.EmptyPending)
	}
	keys := func(hs []common.Hash, name string, dedup bool) [][3]int {
		out := [][3]int{}
		seen := map[txKey]bool{}
		for _, h := range hs {
			k, ok := u.byHash[h]
			if !ok {
				anom("%s holds unknown transaction %x", name, h)
				continue
			}
			if seen[k] {
				if !dedup {
					anom("%s holds %v twice", name, k)
				}
				continue
			}
			seen[k] = true
			out = append(out, k.arr())
		}
		sortKeys(out)
		return out
	}
	a.Loc = keys(s.AllLocals, "all.locals", false)
	a.Rem = keys(s.AllRemotes, "all.remotes", false)
	a.Priced = keys(s.Priced, "priced", true)
	remote := map[common.Hash]bool{}
	for _, h := range s.AllRemotes {
		remote[h] = true
	}
	for _, h := range s.Priced {
		if !remote[h] {
			a.ActualStale++
		}
	}
	a.Slots, a.Stales = s.Slots, s.Stales
	a.Pn, a.Sn, a.Bal = make([]int, u.NA), make([]int, u.NA), make([]int, u.NA)
	for i, addr := range u.addrs {
		a.Pn[i] = int(s.PendingNonces[addr])
		a.Sn[i] = int(s.StateNonces[addr])
		if b := s.StateBalances[addr]; b != nil {
			a.Bal[i] = int(new(big.Int).Div(b, costUnit).Int64())
		}
	}
	a.Floor = int(s.GasPrice / gwei.Uint64())
	for _, addr := range s.Locals {
		if ai, ok := u.addrIdx[addr]; ok {
			a.Locals = append(a.Locals, ai)
		}
	}
	sort.Ints(a.Locals)
	return a
}

// ---------------------------------------------------------------- native evaluation of the C19 invariants
// (literal transcription of the property text; independent of the pool's own code)

type limits struct {
	AccountSlots, GlobalSlots, AccountQueue, GlobalQueue, PriceBump int
}

func bumps(old, new, bump int) bool { return new > old && new*100 >= old*(100+bump) }

func nonces(l []int) []int {
	var out []int
	for n, p := range l {
		if p != 0 {
			out = append(out, n)
		}
	}
	return out
}

// invariants that must hold after every critical section
func checkAlways(a *absState, lim limits, holed map[int]bool) []string {
	var v []string
	v = append(v, a.Anomalies...)
	inList := map[[3]int]string{}
	for ai := range a.Pend {
		pn, qn := nonces(a.Pend[ai]), nonces(a.Que[ai])
		for _, n := range pn {
			inList[[3]int{ai + 1, n, a.Pend[ai][n]}] = "pending"
			if a.Que[ai][n] != 0 {
				v = append(v, fmt.Sprintf("PendingQueueDisjoint: account %d nonce %d is pending and queued", ai+1, n))
			}
		}
		for _, n := range qn {
			inList[[3]int{ai + 1, n, a.Que[ai][n]}] = "queue"
		}
		if len(pn) > 0 && pn[len(pn)-1]-pn[0]+1 != len(pn) && !holed[ai+1] {
			v = append(v, fmt.Sprintf("PendingContiguous: account %d pending nonces %v have a gap", ai+1, pn))
		}
	}
	all := map[[3]int]bool{}
	for _, k := range a.Loc {
		all[k] = true
	}
	priced := map[[3]int]bool{}
	for _, k := range a.Priced {
		priced[k] = true
	}
	for _, k := range a.Rem {
		if all[k] {
			v = append(v, fmt.Sprintf("IndexesAgree: %v is in all.locals and all.remotes", k))
		}
		all[k] = true
		if !priced[k] {
			v = append(v, fmt.Sprintf("IndexesAgree: remote %v is not in the price heaps", k))
		}
	}
	for k := range all {
		if _, ok := inList[k]; !ok {
			v = append(v, fmt.Sprintf("IndexesAgree: %v is in the hash index but neither pending nor queued", k))
		}
	}
	for k, where := range inList {
		if !all[k] {
			v = append(v, fmt.Sprintf("IndexesAgree: %v is %s but not in the hash index", k, where))
		}
	}
	if a.Slots != len(all) {
		v = append(v, fmt.Sprintf("IndexesAgree: slot counter %d but %d transactions indexed", a.Slots, len(all)))
	}
	// the price heaps are cleaned lazily: every entry that is no longer a remote of the hash index
	// must have been announced with txPricedList.Removed (else the re-heap trigger never fires for it)
	if a.ActualStale > a.Stales {
		v = append(v, fmt.Sprintf("PricedStaleAccounting: %d stale heap entries but the stale counter is %d", a.ActualStale, a.Stales))
	}
	if len(all) > lim.GlobalSlots+lim.GlobalQueue {
		v = append(v, fmt.Sprintf("LimitsRespected: %d transactions, capacity %d", len(all), lim.GlobalSlots+lim.GlobalQueue))
	}
	sort.Strings(v)
	return v
}

// invariants that must hold at quiescent points
func checkQuiescent(a *absState, lim limits, holed map[int]bool) []string {
	var v []string
	totalP, totalQ, over := 0, 0, false
	for ai := range a.Pend {
		pn := nonces(a.Pend[ai])
		totalP += len(pn)
		totalQ += len(nonces(a.Que[ai]))
		if len(pn) > lim.AccountSlots {
			over = true
		}
		if len(pn) > 0 {
			if pn[0] != a.Sn[ai] && !holed[ai+1] {
				v = append(v, fmt.Sprintf("PendingContiguousFromStateNonce: account %d pending starts at %d, state nonce %d", ai+1, pn[0], a.Sn[ai]))
			}
			if a.Pn[ai] != pn[len(pn)-1]+1 {
				v = append(v, fmt.Sprintf("PendingNonceAgrees: account %d virtual nonce %d, pending ends at %d", ai+1, a.Pn[ai], pn[len(pn)-1]))
			}
		}
		for _, n := range pn {
			if a.Pend[ai][n] > a.Bal[ai] {
				v = append(v, fmt.Sprintf("PendingAffordable: account %d nonce %d costs %d, balance %d", ai+1, n, a.Pend[ai][n], a.Bal[ai]))
			}
		}
	}
	if totalP > lim.GlobalSlots && over {
		v = append(v, fmt.Sprintf("LimitsRespected: %d pending > GlobalSlots %d with an account above AccountSlots", totalP, lim.GlobalSlots))
	}
	if totalQ > lim.GlobalQueue {
		v = append(v, fmt.Sprintf("LimitsRespected: %d queued > GlobalQueue %d", totalQ, lim.GlobalQueue))
	}
	return v
}

// ---------------------------------------------------------------- recorder: the hook's events per pool

type poolEvent struct {
	Seq      uint64    `json:"seq"`
	Op       string    `json:"op"`
	Tx       [3]int    `json:"tx"`
	Local    bool      `json:"local"`
	Res      string    `json:"res"`
	Replaced bool      `json:"replaced"`
	F        int       `json:"f"`
	Reset    bool      `json:"reset"`
	Addrs    []int     `json:"addrs"`
	Sn       []int     `json:"sn"`
	Bal      []int     `json:"bal"`
	Removed  [][3]int  `json:"removed"`
	Q        bool      `json:"q"`
	St       *absState `json:"st"`
	newHead  int       // block id of a reset's new head
	viol     []string
}

func errClass(err error) string {
	switch {
	case err == nil:
		return "ok"
	case err == core.ErrAlreadyKnown:
		return "known"
	case err == core.ErrUnderpriced:
		return "underpriced"
	case err == core.ErrNonceTooLow:
		return "noncelow"
	case err == core.ErrInsufficientFunds:
		return "funds"
	case err == core.ErrReplaceUnderpriced:
		return "replace"
	case err == core.ErrTxPoolOverflow:
		return "overflow"
	}
	return "error: " + err.Error()
}

type violation struct {
	Kind      string      `json:"kind"`
	What      string      `json:"what"`
	Detail    interface{} `json:"detail,omitempty"`
	Behaviour interface{} `json:"behaviour,omitempty"` // replay: the TLC behaviour that was being executed
}

// harness = one real pool + its stub chain + the recorder fed by the hook
type harness struct {
	u     *universe
	lim   limits
	chain *stubChain
	pool  *core.TxPool

	mu           sync.Mutex
	cond         *sync.Cond
	events       []*poolEvent // top-level events (sub-events folded in)
	removed      [][3]int     // removeTx sub-events since the last top-level event
	owed         map[int]bool
	poolHead     int // block id the pool last reset to
	lastSent     int // block id of the last head event sent
	inflight     int64
	prev         *absState
	vmu          sync.Mutex
	viols        []violation
	nEvents      map[string]int
	lastQ        uint64          // seq of the last quiescent run
	runs         uint64          // completed runs
	evictHold    bool            // replay: set the lifetime back after the next eviction tick
	inRun        bool            // between reorgBegin and reorg
	reinj        map[[3]int]bool // transactions the current run re-injected (accepted or not)
	holed        map[int]bool    // accounts whose pending list has the known reorg hole
	runAdds      []*poolEvent
	dropNoop     bool       // do not record tick runs that change nothing
	lastQEv      *poolEvent // the last quiescent run (recorded or not)
	lastSeq      uint64
	noRecord     bool           // keep counters only (long soak runs)
	evCount      map[string]int // events by kind, recorded or not (no-op eviction ticks excluded)
	nRemoved     int
	nReinjected  int
	qKept        bool       // the last recorded event is a quiescent run
	pendingBegin *poolEvent // reorgbegin not yet recorded
}

func stripObs(a *absState) *absState {
	c := *a
	c.Slots, c.Stales, c.ActualStale, c.Anomalies, c.Priced = 0, 0, 0, nil, nil
	return &c
}

func gapsOf(l []int) []int {
	ns := nonces(l)
	var out []int
	for i := 1; i < len(ns); i++ {
		for m := ns[i-1] + 1; m < ns[i]; m++ {
			out = append(out, m)
		}
	}
	return out
}

var (
	registry sync.Map // *core.TxPool -> *harness
	hookOnce sync.Once
	longLife = time.Hour
	errLog   = &errorLogWatcher{counts: map[string]int{}}
)

// errorLogWatcher receives everything the pool logs at error level: the pool recovers panics
// of its goroutines and only logs them ("Go-Quai Panicked"), so this is where they surface.
type errorLogWatcher struct {
	mu     sync.Mutex
	counts map[string]int
	panics []string
}

func (w *errorLogWatcher) Write(b []byte) (int, error) {
	w.mu.Lock()
	defer w.mu.Unlock()
	s := string(b)
	if strings.Contains(s, "Panicked") {
		if len(w.panics) < 5 {
			w.panics = append(w.panics, s)
		}
		return len(b), nil
	}
	msg := s
	if i := strings.Index(s, "] "); i >= 0 {
		msg = s[i+2:]
	}
	if len(msg) > 60 {
		msg = msg[:60]
	}
	w.counts[strings.TrimSpace(msg)]++
	return len(b), nil
}

func quietLog() *log.Logger {
	l := log.Global
	l.SetOutput(errLog)
	l.SetLevel(2) // logrus.ErrorLevel
	return l
}

func installHook() {
	hookOnce.Do(func() {
		core.VerifSetPoolEventHook(func(p *core.TxPool, seq uint64, ev string, args []interface{}) {
			if h, ok := registry.Load(p); ok {
				h.(*harness).onEvent(p, seq, ev, args)
			}
		})
	})
}

type poolOpts struct {
	lim       limits
	initBal   []int
	reorgFreq time.Duration
	lifetime  time.Duration
	dropNoop  bool
	noRecord  bool
}

func newHarness(u *universe, o poolOpts) *harness {
	installHook()
	lg := quietLog()
	h := &harness{u: u, lim: o.lim, owed: map[int]bool{}, nEvents: map[string]int{}, reinj: map[[3]int]bool{},
		holed: map[int]bool{}, dropNoop: o.dropNoop, noRecord: o.noRecord, evCount: map[string]int{}}
	h.cond = sync.NewCond(&h.mu)
	h.chain = newStubChain(u, o.initBal, lg)
	h.poolHead, h.lastSent = h.chain.head.id, h.chain.head.id
	cfg := core.TxPoolConfig{
		NoLocals: false, Journal: "", Rejournal: time.Hour,
		PriceLimit: gwei.Uint64(), PriceBump: uint64(o.lim.PriceBump),
		AccountSlots: uint64(o.lim.AccountSlots), GlobalSlots: uint64(o.lim.GlobalSlots),
		AccountQueue: uint64(o.lim.AccountQueue), GlobalQueue: uint64(o.lim.GlobalQueue),
		MaxSenders: 10000, MaxFeesCached: 1000, SendersChBuffer: 1024, QiPoolSize: 64,
		QiTxLifetime: time.Hour, Lifetime: o.lifetime, ReorgFrequency: o.reorgFreq,
	}
	cc := u.cfg
	h.pool = core.NewTxPool(cfg, &cc, h.chain, lg, rawdb.NewMemoryDatabase(lg))
	registry.Store(h.pool, h)
	return h
}

func (h *harness) stop() {
	done := make(chan struct{})
	go func() { h.pool.Stop(); close(done) }()
	select {
	case <-done:
	case <-time.After(20 * time.Second):
		h.violate("stuck", "TxPool.Stop did not return within 20s", goroutineDump())
	}
	registry.Delete(h.pool)
	core.VerifForgetPool(h.pool)
}

func goroutineDump() string {
	buf := make([]byte, 1<<20)
	n := runtime.Stack(buf, true)
	return string(buf[:n])
}

// set once a run got stuck: the remaining scenarios / behaviours are skipped (each would wait for its
// own watchdog), the check repeats the whole run once before it reports
var abortAll int32

func (h *harness) violate(kind, what string, detail interface{}) {
	if kind == "stuck" {
		atomic.StoreInt32(&abortAll, 1)
	}
	h.vmu.Lock()
	defer h.vmu.Unlock()
	if len(h.viols) < 20 {
		h.viols = append(h.viols, violation{Kind: kind, What: what, Detail: detail})
	}
}

func (h *harness) violations() []violation {
	h.vmu.Lock()
	defer h.vmu.Unlock()
	return append([]violation{}, h.viols...)
}

func (h *harness) idx(addrs []common.InternalAddress) []int {
	out := []int{}
	for _, a := range addrs {
		if i, ok := h.u.addrIdx[a]; ok {
			out = append(out, i)
		}
	}
	sort.Ints(out)
	return out
}

// onEvent runs with pool.mu held (end of a critical section, or removeTx inside one)
func (h *harness) onEvent(p *core.TxPool, seq uint64, ev string, args []interface{}) {
	h.mu.Lock()
	defer h.mu.Unlock()
	h.nEvents[ev]++
	if ev == "removeTx" {
		tx := args[0].(*types.Transaction)
		if k, ok := h.u.byHash[tx.Hash()]; ok {
			h.removed = append(h.removed, k.arr())
		}
		return
	}
	e := &poolEvent{Seq: seq, Op: ev, Addrs: []int{}, Sn: []int{}, Bal: []int{}, Removed: h.removed}
	if e.Removed == nil {
		e.Removed = [][3]int{}
	}
	h.removed = nil
	mutation := false
	switch ev {
	case "add":
		tx := args[0].(*types.Transaction)
		k, ok := h.u.byHash[tx.Hash()]
		if !ok {
			e.viol = append(e.viol, fmt.Sprintf("add event for unknown transaction %x", tx.Hash()))
		}
		e.Tx, e.Local, e.Replaced = k.arr(), args[1].(bool), args[2].(bool)
		var err error
		if args[3] != nil {
			err = args[3].(error)
		}
		e.Res = errClass(err)
		if e.Res == "ok" && !e.Replaced {
			h.owed[k.A] = true
		}
		if h.inRun {
			h.runAdds = append(h.runAdds, e)
			h.reinj[k.arr()] = true
		}
		mutation = true
	case "setGasPrice":
		e.Op = "setgas"
		e.F = int(new(big.Int).Div(args[0].(*big.Int), gwei).Int64())
		mutation = true
	case "evict":
		mutation = true
		if h.evictHold {
			p.VerifSetLifetimeLocked(longLife)
			h.evictHold = false
		}
	case "limiter1", "limiter2":
		mutation = true
	case "reorgBegin":
		e.Op = "reorgbegin"
		h.inRun, h.reinj, h.runAdds = true, map[[3]int]bool{}, nil
		if r, _ := args[0].(*core.VerifReset); r != nil {
			e.Reset = true
			if b := h.chain.blockOf(r.New); b != nil {
				h.poolHead = b.id
				e.newHead = b.id
				for i := range b.nonce {
					e.Sn = append(e.Sn, int(b.nonce[i]))
				}
				e.Bal = append(e.Bal, b.bal...)
			} else {
				e.viol = append(e.viol, "reset to a head the chain never announced")
			}
		}
	case "reorg":
		r, _ := args[0].(*core.VerifReset)
		e.Reset = r != nil
		if a, ok := args[1].([]common.InternalAddress); ok {
			e.Addrs = h.idx(a)
		}
		if e.Reset {
			h.owed = map[int]bool{}
		} else {
			for _, a := range e.Addrs {
				delete(h.owed, a)
			}
		}
		h.runs++
		e.Q = atomic.LoadInt64(&h.inflight) == 0 && len(h.owed) == 0 && h.poolHead == h.lastSent
		if e.Q {
			h.lastQ = seq
		}
	}
	_ = mutation
	e.St = h.u.abstract(p.VerifSnapshotLocked(h.u.addrs...))
	// known finding (see known-findings.json): a reset that lowers the state nonce and loses one of the
	// re-injected transactions (refused by add, or evicted again to make room) leaves a hole inside the
	// pending list; the account is exempt from the contiguity checks until the hole is filled
	if ev == "reorg" {
		if e.Reset {
			inPool := map[[3]int]bool{}
			for _, k := range e.St.Loc {
				inPool[k] = true
			}
			for _, k := range e.St.Rem {
				inPool[k] = true
			}
			for ai := range e.St.Pend {
				for _, m := range gapsOf(e.St.Pend[ai]) {
					lost := false
					for k := range h.reinj {
						if k[0] == ai+1 && k[1] == m && !inPool[k] {
							lost = true
						}
					}
					if lost && !h.holed[ai+1] {
						h.holed[ai+1] = true
						h.violate("finding:reset-reinjection-lost",
							fmt.Sprintf("PendingContiguous: account %d pending nonces %v: the reset lost re-injected nonce %d",
								ai+1, nonces(e.St.Pend[ai]), m),
							map[string]interface{}{"event": e, "before": h.prev, "reinjected": h.runAdds})
					}
				}
			}
		}
		h.inRun = false
	}
	for a := range h.holed {
		if len(gapsOf(e.St.Pend[a-1])) == 0 {
			delete(h.holed, a)
		}
	}
	// native evaluation of the invariants on the implementation's state
	e.viol = append(e.viol, checkAlways(e.St, h.lim, h.holed)...)
	if e.Q {
		e.viol = append(e.viol, checkQuiescent(e.St, h.lim, h.holed)...)
	}
	if ev == "add" && h.prev != nil {
		e.viol = append(e.viol, h.checkReplacement(e)...)
	}
	if len(e.viol) > 0 {
		h.violate("invariant", e.viol[0], map[string]interface{}{"all": e.viol, "event": e, "before": h.prev})
	}
	before := h.prev
	h.prev = e.St
	h.lastSeq = seq
	h.evCount[e.Op]++
	h.nRemoved += len(e.Removed)
	if h.inRun && e.Op == "add" {
		h.nReinjected++
	}
	if e.Q {
		h.lastQEv = e
	}
	// no-op eviction ticks are not recorded
	if ev == "evict" && len(e.Removed) == 0 {
		h.cond.Broadcast()
		return
	}
	// tick runs that change nothing are not recorded either (except the first quiescent one after a change)
	if h.dropNoop && !e.Reset && (ev == "reorgBegin" || ev == "reorg") {
		if ev == "reorgBegin" {
			h.pendingBegin = e
			h.cond.Broadcast()
			return
		}
		noop := len(e.Addrs) == 0 && len(e.Removed) == 0 && before != nil && reflect.DeepEqual(stripObs(before), stripObs(e.St))
		if noop && (!e.Q || h.qKept) {
			h.pendingBegin = nil
			h.cond.Broadcast()
			return
		}
		if h.pendingBegin != nil && !h.noRecord {
			h.events = append(h.events, h.pendingBegin)
		}
		h.pendingBegin = nil
		h.qKept = e.Q
	} else {
		h.qKept = false
	}
	if !h.noRecord {
		h.events = append(h.events, e)
	}
	h.cond.Broadcast()
}

// ReplacementNeedsBump, evaluated on the implementation: the decision of add() about a
// same-nonce transaction must follow the configured price bump (literal formula)
func (h *harness) checkReplacement(e *poolEvent) []string {
	var v []string
	a, n, p := e.Tx[0], e.Tx[1], e.Tx[2]
	if a == 0 {
		return nil
	}
	old := h.prev.Pend[a-1][n]
	if old == 0 {
		old = h.prev.Que[a-1][n]
	}
	for _, r := range e.Removed { // discarded to make room before the nonce was looked at
		if r == [3]int{a, n, old} {
			old = 0
		}
	}
	switch e.Res {
	case "ok":
		if old != 0 && old != p && !bumps(old, p, h.lim.PriceBump) {
			v = append(v, fmt.Sprintf("ReplacementNeedsBump: %v replaced price %d without the %d%% bump", e.Tx, old, h.lim.PriceBump))
		}
		if (old != 0) != e.Replaced {
			v = append(v, fmt.Sprintf("ReplacementNeedsBump: add(%v) reports replaced=%v, previous price at that nonce %d", e.Tx, e.Replaced, old))
		}
	case "replace":
		if old == 0 || bumps(old, p, h.lim.PriceBump) {
			v = append(v, fmt.Sprintf("ReplacementNeedsBump: %v refused as underpriced replacement, previous price %d", e.Tx, old))
		}
	}
	return v
}

// ---------------------------------------------------------------- caller operations

func (h *harness) add(k txKey, local bool) string {
	atomic.AddInt64(&h.inflight, 1)
	defer atomic.AddInt64(&h.inflight, -1)
	tx := h.u.tx(k)
	if local {
		return errClass(h.pool.AddLocal(tx))
	}
	return errClass(h.pool.AddRemote(tx))
}

func (h *harness) addRemotes(ks []txKey) []string {
	atomic.AddInt64(&h.inflight, 1)
	defer atomic.AddInt64(&h.inflight, -1)
	txs := make([]*types.Transaction, len(ks))
	for i, k := range ks {
		txs[i] = h.u.tx(k)
	}
	var out []string
	for _, err := range h.pool.AddRemotes(txs) {
		out = append(out, errClass(err))
	}
	return out
}

func (h *harness) setGasPrice(f int) {
	atomic.AddInt64(&h.inflight, 1)
	defer atomic.AddInt64(&h.inflight, -1)
	h.pool.SetGasPrice(new(big.Int).Mul(gwei, big.NewInt(int64(f))))
}

// head announces block b as the new canonical head
func (h *harness) head(b *block) {
	h.mu.Lock()
	h.lastSent = b.id
	h.mu.Unlock()
	h.chain.setHead(b)
}

// waitFor blocks until pred (evaluated under h.mu) holds; false on timeout
func (h *harness) waitFor(d time.Duration, pred func() bool) bool {
	deadline := time.Now().Add(d)
	h.mu.Lock()
	defer h.mu.Unlock()
	for !pred() {
		if time.Now().After(deadline) {
			return false
		}
		// cond.Wait has no timeout: wake up periodically
		t := time.AfterFunc(20*time.Millisecond, h.cond.Broadcast)
		h.cond.Wait()
		t.Stop()
	}
	return true
}

// waitQuiescent waits for a run that completes at a quiescent point after now
func (h *harness) waitQuiescent(d time.Duration) (*poolEvent, bool) {
	h.mu.Lock()
	from := h.lastSeq
	h.mu.Unlock()
	ok := h.waitFor(d, func() bool { return h.lastQ > from })
	if !ok {
		return nil, false
	}
	h.mu.Lock()
	defer h.mu.Unlock()
	return h.lastQEv, h.lastQEv != nil
}
