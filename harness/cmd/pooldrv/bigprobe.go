package main

// bigprobe: the one part of add() that the unit-slot model of TxPool.tla cannot reach - a transaction of MORE than one
// slot (> 32 KiB) offered to a full pool whose remote transactions do not free enough slots: txPricedList.Discard pops
// its candidates and then fails. The invariants of TxPool.tla (IndexesAgree: every remote transaction of the hash index
// is in the price heaps, ...) are evaluated natively on the snapshot after every critical section, as in the other modes.

import (
	"encoding/json"
	"flag"
	"fmt"
	"os"
	"time"
)

type bigProbeRun struct {
	Locals, Remotes, BigSlots int
	Steps                     []string    `json:"steps"`
	BigResult                 string      `json:"big_result"`
	AfterResult               string      `json:"after_result"`
	Violations                []violation `json:"violations"`
}

func cmdBigProbe(args []string) {
	fs := flag.NewFlagSet("bigprobe", flag.ExitOnError)
	out := fs.String("out", "", "result json")
	fs.Parse(args)
	var runs []bigProbeRun
	for _, sh := range [][3]int{{3, 1, 2}, {2, 2, 3}, {1, 3, 4}, {3, 1, 3}} {
		nl, nr, bs := sh[0], sh[1], sh[2]
		na := nl + nr + 2
		bigK := txKey{na - 1, 0, 3}
		afterK := txKey{na, 0, 3}
		u := newUniverseSlots(na, 0, 3, map[txKey]int{bigK: bs})
		bal := make([]int, na)
		for i := range bal {
			bal[i] = 1000
		}
		h := newHarness(u, poolOpts{lim: limits{AccountSlots: 4, GlobalSlots: 2, GlobalQueue: nl + nr - 2, PriceBump: 10}, initBal: bal,
			reorgFreq: 5 * time.Millisecond, lifetime: time.Hour, dropNoop: true, noRecord: true})
		r := bigProbeRun{Locals: nl, Remotes: nr, BigSlots: bs}
		for a := 1; a <= nl; a++ {
			r.Steps = append(r.Steps, "local:"+h.add(txKey{a, 0, 2}, true))
		}
		for a := nl + 1; a <= nl+nr; a++ {
			r.Steps = append(r.Steps, "remote:"+h.add(txKey{a, 0, 2}, false))
		}
		h.waitQuiescent(5 * time.Second)
		// the pool is full; the newcomer pays more than the cheapest remote transaction but needs more slots than the remotes hold
		r.BigResult = h.add(bigK, false)
		h.waitQuiescent(5 * time.Second)
		// a one-slot newcomer at the same price must still find a remote transaction to evict
		r.AfterResult = h.add(afterK, false)
		h.waitQuiescent(5 * time.Second)
		r.Violations = h.violations()
		h.stop()
		runs = append(runs, r)
	}
	b, _ := json.Marshal(map[string]interface{}{"runs": runs})
	if *out != "" {
		os.WriteFile(*out, b, 0o644)
	}
	nv := 0
	for _, r := range runs {
		nv += len(r.Violations)
	}
	fmt.Printf("{\"runs\":%d,\"violations\":%d}\n", len(runs), nv)
}
