// pooldrv binds spec/TxPool.tla to the real core.TxPool (C19).
//
//	pooldrv replay -in behaviours.ndjson -out result.json [universe/limit flags]
//	    every behaviour emitted by TLC (fused schedule of TxPool.tla) is executed on a fresh real pool
//	    with a stub chain; after every step the pool's indexes (snapshot taken by the verif hook under
//	    pool.mu) are compared with the state the specification defines, and the C19 invariants are
//	    evaluated natively on every snapshot.
//	pooldrv random -seed S -scenarios N -steps K [-producers P -rounds R] -out trace.ndjson -result r.json
//	    seeded random schedules (adds, batches, price changes, head events with reorgs, eviction by
//	    lifetime) sequentially or with P concurrent producers; one trace event per critical section
//	    with the snapshot, for validation by spec/TxPoolTrace.tla.
package main

import (
	"fmt"
	"os"
	"time"

	"github.com/dominant-strategies/go-quai/core"
)

func setEvictionInterval(d time.Duration) { core.VerifSetEvictionInterval(d) }

// the abstract state of a freshly created pool
func (u *universe) abstract0(initBal []int) *absState {
	a := &absState{Loc: [][3]int{}, Rem: [][3]int{}, Priced: [][3]int{}, Locals: []int{}, Floor: 1}
	for i := 0; i < u.NA; i++ {
		a.Pend = append(a.Pend, make([]int, u.MaxNonce+1))
		a.Que = append(a.Que, make([]int, u.MaxNonce+1))
		a.Pn = append(a.Pn, 0)
		a.Sn = append(a.Sn, 0)
		a.Bal = append(a.Bal, initBal[i])
	}
	return a
}

func main() {
	if len(os.Args) < 2 {
		fmt.Fprintln(os.Stderr, "usage: pooldrv replay|random ...")
		os.Exit(2)
	}
	switch os.Args[1] {
	case "replay":
		cmdReplay(os.Args[2:])
	case "random":
		cmdRandom(os.Args[2:])
	case "bigprobe":
		cmdBigProbe(os.Args[2:])
	default:
		os.Exit(2)
	}
}
