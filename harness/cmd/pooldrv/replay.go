package main

import (
	"bufio"
	"encoding/json"
	"flag"
	"fmt"
	"os"
	"reflect"
	"sort"
	"sync"
	"sync/atomic"
	"time"
)

// one record of a behaviour emitted by TLC from spec/TxPool.tla (fused schedule)
type step struct {
	Op       string    `json:"op"`
	Tx       [3]int    `json:"tx"`
	Local    bool      `json:"local"`
	Res      string    `json:"res"`
	Replaced bool      `json:"replaced"`
	Nalt     int       `json:"nalt"`
	F        int       `json:"f"`
	Sq       []int     `json:"sq"`
	Sp       []int     `json:"sp"`
	Dirty    []int     `json:"dirty"`
	K        int       `json:"k"`
	Body     [][3]int  `json:"body"`
	Bal      []int     `json:"bal"`
	Reinject [][3]int  `json:"reinject"`
	St       *absState `json:"st"`
}

type mismatch struct {
	Behaviour int         `json:"behaviour"`
	Step      int         `json:"step"`
	Op        string      `json:"op"`
	Field     string      `json:"field"`
	Expected  interface{} `json:"expected"`
	Got       interface{} `json:"got"`
	Prefix    []step      `json:"prefix"`
}

func normKeys(x [][3]int) [][3]int {
	out := append([][3]int{}, x...)
	sortKeys(out)
	return out
}

// first field in which the implementation's abstract state differs from the specified one
func diffState(exp, got *absState) (string, interface{}, interface{}) {
	if !reflect.DeepEqual(exp.Pend, got.Pend) {
		return "pending", exp.Pend, got.Pend
	}
	if !reflect.DeepEqual(exp.Que, got.Que) {
		return "queue", exp.Que, got.Que
	}
	if !reflect.DeepEqual(normKeys(exp.Loc), normKeys(got.Loc)) {
		return "all.locals", exp.Loc, got.Loc
	}
	if !reflect.DeepEqual(normKeys(exp.Rem), normKeys(got.Rem)) {
		return "all.remotes", exp.Rem, got.Rem
	}
	if !reflect.DeepEqual(exp.Pn, got.Pn) {
		return "pendingNonce", exp.Pn, got.Pn
	}
	if !reflect.DeepEqual(exp.Sn, got.Sn) {
		return "stateNonce", exp.Sn, got.Sn
	}
	if !reflect.DeepEqual(exp.Bal, got.Bal) {
		return "balance", exp.Bal, got.Bal
	}
	if exp.Floor != got.Floor {
		return "gasPriceFloor", exp.Floor, got.Floor
	}
	el, gl := append([]int{}, exp.Locals...), append([]int{}, got.Locals...)
	if len(el) != len(gl) || (len(el) > 0 && !reflect.DeepEqual(el, gl)) {
		return "locals", exp.Locals, got.Locals
	}
	return "", nil, nil
}

type replayCfg struct {
	u       *universe
	lim     limits
	initBal []int
	tick    time.Duration
}

type behResult struct {
	status string // ok | mismatch | nd-diverged | deviated | stuck
	steps  int
	mis    *mismatch
	viols  []violation
}

// replayOne executes one behaviour on a fresh pool and compares after every step
func replayOne(cfg replayCfg, bi int, beh []step) behResult {
	h := newHarness(cfg.u, poolOpts{lim: cfg.lim, initBal: cfg.initBal, reorgFreq: cfg.tick, lifetime: longLife})
	defer h.stop()
	res := behResult{status: "ok"}
	path := []*block{} // the spec's `chain`: blocks after genesis
	genesis := h.chain.head
	runsSeen := func() uint64 { h.mu.Lock(); defer h.mu.Unlock(); return h.runs }
	nextRun := func() bool { // synchronise with the ticker: wait for the next completed run
		from := runsSeen()
		return h.waitFor(10*time.Second, func() bool { return h.runs > from })
	}
	stuck := func(what string) behResult {
		res.status = "stuck"
		h.violate("stuck", what, goroutineDump())
		res.viols = h.violations()
		return res
	}
	if !nextRun() {
		return stuck("no reorg run within 10s after pool start")
	}
	h.mu.Lock()
	groupStart := len(h.events)
	h.mu.Unlock()
	nd := false
	for si, st := range beh {
		var got *absState
		var ev *poolEvent
		if st.Nalt > 1 {
			// the specification allows several outcomes here (which remote transaction a full pool
			// discards, account order in truncation): from now on a difference is not a mismatch
			nd = true
		}
		h.mu.Lock()
		evFrom := len(h.events)
		h.mu.Unlock()
		lastEvent := func(op string) *poolEvent {
			h.mu.Lock()
			defer h.mu.Unlock()
			for i := len(h.events) - 1; i >= evFrom; i-- {
				if h.events[i].Op == op {
					return h.events[i]
				}
			}
			return nil
		}
		// a run of the pool's reorg loop that the behaviour does not ask for (the ticker fired between two calls of
		// the driver - under load the driver can be off the CPU for longer than the ticker period) and that promoted,
		// reset or changed anything: the execution is no longer the behaviour that was asked for
		unplannedRun := func() bool {
			h.mu.Lock()
			defer h.mu.Unlock()
			var before *absState
			planned := ev
			if st.Op != "tick" && st.Op != "head" {
				planned = nil
			}
			dev := false
			for i := groupStart; i < len(h.events); i++ {
				e := h.events[i]
				if e.Op == "reorg" && e != planned {
					if len(e.Addrs) > 0 || e.Reset || (before != nil && !reflect.DeepEqual(stripObs(before), stripObs(e.St))) {
						dev = true
					}
				}
				if e.Op != "reorgbegin" {
					before = e.St
				}
			}
			return dev
		}
		mis := func(field string, exp, g interface{}) behResult {
			if nd {
				res.status = "nd-diverged"
				return res
			}
			// an answer or state that differs from the specified one is judged only if the schedule was the one asked
			// for: e.g. an unplanned run promotes an account's queue, truncatePending then drops the highest nonces (go-quai
			// does not exempt local accounts), and a transaction the behaviour expects to be "known" is new again
			if unplannedRun() {
				res.status = "deviated"
				return res
			}
			res.status = "mismatch"
			res.mis = &mismatch{bi, si, st.Op, field, exp, g, beh[:si+1]}
			res.viols = h.violations()
			return res
		}
		switch st.Op {
		case "add":
			r := h.add(txKey{st.Tx[0], st.Tx[1], st.Tx[2]}, st.Local)
			ev = lastEvent("add")
			if st.Res == "known" {
				// addTxs filters known transactions before add(): no event
				if r != "known" {
					return mis("result", st.Res, r)
				}
				h.mu.Lock()
				got = h.prev
				h.mu.Unlock()
			} else {
				if ev == nil {
					return mis("event", "add event", "none")
				}
				if r != st.Res {
					return mis("result", st.Res, r)
				}
				if ev.Replaced != st.Replaced {
					return mis("replaced", st.Replaced, ev.Replaced)
				}
				got = ev.St
			}
		case "setgas":
			h.setGasPrice(st.F)
			if ev = lastEvent("setgas"); ev == nil {
				return mis("event", "setgas event", "none")
			}
			got = ev.St
		case "evict":
			// the eviction tick with everything expired (what a driver can force)
			h.pool.VerifSetLifetime(time.Nanosecond)
			h.mu.Lock()
			h.evictHold = true // the hook sets the lifetime back at the end of the next tick
			n0 := h.nEvents["evict"]
			h.mu.Unlock()
			if !h.waitFor(10*time.Second, func() bool { return h.nEvents["evict"] > n0 }) {
				return stuck("no eviction tick within 10s")
			}
			h.mu.Lock()
			got = h.prev
			h.mu.Unlock()
		case "tick":
			if !nextRun() {
				return stuck("no reorg run within 10s")
			}
			if ev = lastEvent("reorg"); ev == nil || ev.Reset {
				res.status = "deviated"
				return res
			}
			// the canonical schedule: the loop had received every promote request before the tick
			want := append([]int{}, st.Dirty...)
			sort.Ints(want)
			if len(want) != len(ev.Addrs) || (len(want) > 0 && !reflect.DeepEqual(want, ev.Addrs)) {
				res.status = "deviated"
				return res
			}
			got = ev.St
		case "head":
			parent := genesis
			if st.K > len(path) {
				fatal(fmt.Errorf("behaviour %d step %d drops %d of %d blocks", bi, si, st.K, len(path)))
			}
			path = path[:len(path)-st.K]
			if len(path) > 0 {
				parent = path[len(path)-1]
			}
			body := []txKey{}
			for _, t := range st.Body {
				body = append(body, txKey{t[0], t[1], t[2]})
			}
			nb := h.chain.mkBlock(parent, body, st.Bal)
			path = append(path, nb)
			h.head(nb)
			ok := h.waitFor(10*time.Second, func() bool {
				for i := len(h.events) - 1; i >= evFrom; i-- {
					if h.events[i].Op == "reorg" && h.events[i].Reset && h.poolHead == nb.id {
						return true
					}
				}
				return false
			})
			if !ok {
				return stuck("head event not served by a reset run within 10s")
			}
			ev = lastEvent("reorg")
			got = ev.St
			// the transactions the reset re-injected, in order
			var rein [][3]int
			h.mu.Lock()
			inRun := false
			for _, e := range h.events[evFrom:] {
				if e.Op == "reorgbegin" && e.Reset {
					inRun = true
					rein = nil
				} else if e.Op == "add" && inRun {
					rein = append(rein, e.Tx)
				} else if e.Op == "reorg" {
					inRun = false
				}
			}
			h.mu.Unlock()
			if len(rein) != len(st.Reinject) || (len(rein) > 0 && !reflect.DeepEqual(rein, st.Reinject)) {
				return mis("reinjected", st.Reinject, rein)
			}
		default:
			fatal(fmt.Errorf("unknown op %q in behaviour %d", st.Op, bi))
		}
		res.steps++
		// schedule check: no run other than the planned ones may have promoted or changed anything
		if unplannedRun() {
			res.status = "deviated"
			return res
		}
		if st.Op == "tick" || st.Op == "head" {
			h.mu.Lock()
			groupStart = len(h.events)
			h.mu.Unlock()
		}
		if f, e, g := diffState(st.St, got); f != "" {
			return mis(f, e, g)
		}
	}
	res.viols = h.violations()
	return res
}

func cmdReplay(args []string) {
	fs := flag.NewFlagSet("replay", flag.ExitOnError)
	in := fs.String("in", "", "behaviours ndjson (TLC hist values)")
	out := fs.String("out", "", "result json")
	na := fs.Int("na", 2, "")
	maxNonce := fs.Int("maxnonce", 2, "")
	maxPrice := fs.Int("maxprice", 3, "")
	as := fs.Int("accountslots", 1, "")
	gs := fs.Int("globalslots", 2, "")
	aq := fs.Int("accountqueue", 2, "")
	gq := fs.Int("globalqueue", 2, "")
	bump := fs.Int("pricebump", 60, "")
	bal := fs.Int("initbal", 3, "")
	workers := fs.Int("workers", 16, "")
	tick := fs.Duration("tick", 4*time.Millisecond, "ReorgFrequency of the replay pools")
	maxMis := fs.Int("maxmis", 20, "")
	fs.Parse(args)
	setEvictionInterval(5 * time.Millisecond)
	u := newUniverse(*na, *maxNonce, *maxPrice)
	cfg := replayCfg{u: u, lim: limits{*as, *gs, *aq, *gq, *bump}, tick: *tick}
	for i := 0; i < *na; i++ {
		cfg.initBal = append(cfg.initBal, *bal)
	}
	f, err := os.Open(*in)
	fatal(err)
	sc := bufio.NewScanner(f)
	sc.Buffer(make([]byte, 1<<20), 1<<28)
	var behs [][]step
	for sc.Scan() {
		var b []step
		if err := json.Unmarshal(sc.Bytes(), &b); err != nil {
			fatal(fmt.Errorf("behaviour %d: %v", len(behs), err))
		}
		if len(b) > 0 {
			behs = append(behs, b)
		}
	}
	var mu sync.Mutex
	status := map[string]int{}
	ops := map[string]int{}
	steps, retries := 0, 0
	var mism []mismatch
	var viols []violation
	jobs := make(chan int)
	var wg sync.WaitGroup
	for w := 0; w < *workers; w++ {
		wg.Add(1)
		go func() {
			defer wg.Done()
			for bi := range jobs {
				if atomic.LoadInt32(&abortAll) != 0 {
					mu.Lock()
					status["skipped"]++
					mu.Unlock()
					continue
				}
				var r behResult
				for try := 0; try < 4; try++ {
					r = replayOne(cfg, bi, behs[bi])
					if r.status != "deviated" {
						break
					}
					mu.Lock()
					retries++
					mu.Unlock()
				}
				mu.Lock()
				status[r.status]++
				steps += r.steps
				if r.status == "ok" {
					for _, s := range behs[bi] {
						ops[s.Op]++
					}
				}
				if r.mis != nil && len(mism) < *maxMis {
					mism = append(mism, *r.mis)
				}
				for _, v := range r.viols {
					if len(viols) < *maxMis {
						v.Behaviour = behs[bi]
						viols = append(viols, v)
					}
				}
				mu.Unlock()
			}
		}()
	}
	for bi := range behs {
		jobs <- bi
	}
	close(jobs)
	wg.Wait()
	errLog.mu.Lock()
	res := map[string]interface{}{"behaviours": len(behs), "status": status, "steps_compared": steps,
		"schedule_retries": retries, "mismatches": mism, "violations": viols, "ops": ops,
		"error_logs": errLog.counts, "panics": errLog.panics}
	b, _ := json.MarshalIndent(res, "", " ")
	errLog.mu.Unlock()
	fatal(os.WriteFile(*out, b, 0o644))
}
