package main

import (
	"bufio"
	"encoding/json"
	"flag"
	"fmt"
	"math/rand"
	"os"
	"sync"
	"sync/atomic"
	"time"

	"github.com/dominant-strategies/go-quai/common"
)

type randCfg struct {
	u         *universe
	lim       limits
	maxBal    int
	steps     int           // sequential: operations per scenario; concurrent: operations per producer per round
	producers int           // 0 = sequential
	rounds    int           // concurrent: rounds (each ends at a quiescent point)
	soak      time.Duration // concurrent: keep adding rounds until the pool has lived this long
	noRecord  bool          // no trace wanted: keep counters only
	reorgFreq time.Duration
	lifetime  time.Duration
}

type randStats struct {
	Scenarios   int            `json:"scenarios"`
	Events      map[string]int `json:"events"`
	AddResults  map[string]int `json:"add_results"`
	Quiescent   int            `json:"quiescent_points"`
	Heads       int            `json:"head_events"`
	Reorgs      int            `json:"chain_reorgs"`
	Reinjected  int            `json:"reinjected"`
	Removed     int            `json:"removed_by_removeTx"`
	TraceEvents int            `json:"trace_events"`
	ReaderCalls int64          `json:"reader_calls"`
	MaxPending  int            `json:"max_pending"`
	MaxQueued   int            `json:"max_queued"`
}

// scenario = one pool driven by a seeded random schedule
type scenario struct {
	cfg   randCfg
	h     *harness
	cmu   sync.Mutex // protects the driver's view of the chain
	path  []*block   // canonical chain after genesis
	gen   *block
	stats *randStats
	smu   *sync.Mutex
}

func (s *scenario) headBlock() *block {
	if len(s.path) == 0 {
		return s.gen
	}
	return s.path[len(s.path)-1]
}

func (s *scenario) randBal(r *rand.Rand) []int {
	bal := make([]int, s.cfg.u.NA)
	rich := r.Intn(10) < 7
	for i := range bal {
		if rich {
			bal[i] = s.cfg.maxBal
		} else {
			bal[i] = r.Intn(s.cfg.maxBal + 1)
		}
	}
	return bal
}

// a block body valid on top of parent: mostly what the pool has pending, sometimes other prices
func (s *scenario) randBody(r *rand.Rand, parent *block) []txKey {
	u := s.cfg.u
	nonce := append([]uint64{}, parent.nonce...)
	s.h.mu.Lock()
	prev := s.h.prev
	s.h.mu.Unlock()
	var body []txKey
	for k := r.Intn(3); k > 0; k-- {
		a := 1 + r.Intn(u.NA)
		n := int(nonce[a-1])
		if n > u.MaxNonce {
			continue
		}
		p := 1 + r.Intn(u.MaxPrice)
		if prev != nil && prev.Pend[a-1][n] != 0 && r.Intn(10) < 7 {
			p = prev.Pend[a-1][n]
		}
		body = append(body, txKey{a, n, p})
		nonce[a-1]++
	}
	return body
}

// headEvent extends the chain (drop = 0) or replaces its last `drop` blocks by one new block
func (s *scenario) headEvent(r *rand.Rand, drop int) {
	s.cmu.Lock()
	// keep the nonce universe alive: when the chain has consumed (almost) every nonce, reorganise deep
	used := 0
	for _, n := range s.headBlock().nonce {
		used += int(n)
	}
	if used >= s.cfg.u.NA*(s.cfg.u.MaxNonce+1)-3 && r.Intn(4) != 0 {
		drop = len(s.path) - r.Intn(2)
		if drop > 60 {
			drop = 60 // reset() gives up on reorgs deeper than 64 blocks
		}
	}
	if drop > len(s.path) {
		drop = len(s.path)
	}
	if drop < 0 {
		drop = 0
	}
	s.path = s.path[:len(s.path)-drop]
	parent := s.headBlock()
	nb := s.h.chain.mkBlock(parent, s.randBody(r, parent), s.randBal(r))
	s.path = append(s.path, nb)
	s.smu.Lock()
	s.stats.Heads++
	if drop > 0 {
		s.stats.Reorgs++
	}
	s.smu.Unlock()
	// announce under cmu so that announcements are ordered like the chain
	s.h.head(nb)
	s.cmu.Unlock()
}

func (s *scenario) randTx(r *rand.Rand) txKey {
	u := s.cfg.u
	a := 1 + r.Intn(u.NA)
	s.h.mu.Lock()
	prev := s.h.prev
	s.h.mu.Unlock()
	base := 0
	if prev != nil {
		base = prev.Sn[a-1]
		if r.Intn(2) == 0 {
			base = prev.Pn[a-1]
		}
	}
	var n int
	switch x := r.Intn(10); {
	case x < 5:
		n = base
	case x < 7:
		n = base + 1
	case x < 8:
		n = base + 2
	default:
		n = r.Intn(u.MaxNonce + 1)
	}
	if n > u.MaxNonce {
		n = u.MaxNonce
	}
	return txKey{a, n, 1 + r.Intn(u.MaxPrice)}
}

func (s *scenario) countAdd(res string) {
	s.smu.Lock()
	s.stats.AddResults[res]++
	s.smu.Unlock()
}

// one random caller operation; mayHead/maySetGas restrict who issues chain and price events
func (s *scenario) randomOp(r *rand.Rand, mayHead, maySetGas, maySleep bool) {
	h := s.h
	switch x := r.Intn(100); {
	case x < 50:
		s.countAdd(h.add(s.randTx(r), r.Intn(4) == 0))
	case x < 60:
		n := 2 + r.Intn(3)
		if r.Intn(5) == 0 {
			n = 15 + r.Intn(26) // a large batch as delivered by the p2p layer: pool.mu is held for all of it
		}
		ks := make([]txKey, n)
		for i := range ks {
			ks[i] = s.randTx(r)
		}
		for _, res := range h.addRemotes(ks) {
			s.countAdd(res)
		}
	case x < 65:
		if maySetGas {
			h.setGasPrice(1 + r.Intn(s.cfg.u.MaxPrice-1))
		}
	case x < 80:
		if mayHead {
			s.headEvent(r, 0)
		}
	case x < 88:
		if mayHead {
			s.headEvent(r, 1+r.Intn(2))
		}
	case x < 92:
		if maySleep {
			time.Sleep(time.Duration(float64(s.cfg.lifetime) * (0.4 + r.Float64())))
		}
	default:
		s.reader(r)
	}
}

// read-only and Qi-side calls that run concurrently with the writers
func (s *scenario) reader(r *rand.Rand) {
	p := s.h.pool
	u := s.cfg.u
	addr := u.addrs[r.Intn(u.NA)]
	k := txKey{1 + r.Intn(u.NA), r.Intn(u.MaxNonce + 1), 1 + r.Intn(u.MaxPrice)}
	switch r.Intn(11) {
	case 0:
		p.Content()
	case 1:
		p.Stats()
	case 2:
		p.Nonce(addr)
	case 3:
		p.TxPoolPending()
	case 4:
		p.Status([]common.Hash{u.hashOf[k]})
	case 5:
		p.Get(u.hashOf[k])
	case 6:
		p.Has(u.hashOf[k])
	case 7:
		p.Locals()
	case 8:
		p.GasPrice()
	case 9:
		p.ContentFrom(addr)
	case 10:
		hh := u.hashOf[k]
		p.RemoveQiTxs([]*common.Hash{&hh})
		p.AsyncRemoveQiTxs([]*common.Hash{&hh})
		p.QiPoolPending()
	}
	atomic.AddInt64(&s.stats.ReaderCalls, 1)
}

func (s *scenario) quiesce(what string) bool {
	ev, ok := s.h.waitQuiescent(20 * time.Second)
	if !ok {
		s.h.violate("stuck", "no quiescent reorg run within 20s after "+what, goroutineDump())
		return false
	}
	s.smu.Lock()
	s.stats.Quiescent++
	p, q := 0, 0
	for a := range ev.St.Pend {
		p += len(nonces(ev.St.Pend[a]))
		q += len(nonces(ev.St.Que[a]))
	}
	if p > s.stats.MaxPending {
		s.stats.MaxPending = p
	}
	if q > s.stats.MaxQueued {
		s.stats.MaxQueued = q
	}
	s.smu.Unlock()
	return true
}

func runScenario(cfg randCfg, seed int64, stats *randStats, smu *sync.Mutex) (*harness, []*poolEvent, []int) {
	r := rand.New(rand.NewSource(seed))
	initBal := make([]int, cfg.u.NA)
	for i := range initBal {
		initBal[i] = cfg.maxBal
	}
	h := newHarness(cfg.u, poolOpts{lim: cfg.lim, initBal: initBal, reorgFreq: cfg.reorgFreq, lifetime: cfg.lifetime, dropNoop: true, noRecord: cfg.noRecord})
	s := &scenario{cfg: cfg, h: h, gen: h.chain.head, stats: stats, smu: smu}
	defer h.stop()
	if cfg.producers == 0 {
		for i := 0; i < cfg.steps && atomic.LoadInt32(&abortAll) == 0; i++ {
			s.randomOp(r, true, true, true)
			if r.Intn(3) == 0 {
				if !s.quiesce("sequential operations") {
					break
				}
			}
		}
		s.quiesce("the last operation")
	} else {
		t0 := time.Now()
		for round := 0; (round < cfg.rounds || time.Since(t0) < cfg.soak) && atomic.LoadInt32(&abortAll) == 0; round++ {
			var wg sync.WaitGroup
			for p := 0; p < cfg.producers; p++ {
				wg.Add(1)
				go func(p int, pr *rand.Rand) {
					defer wg.Done()
					defer func() {
						if x := recover(); x != nil {
							h.violate("panic", fmt.Sprint(x), goroutineDump())
						}
					}()
					for i := 0; i < cfg.steps; i++ {
						s.randomOp(pr, p == 0, p == 1, false)
					}
				}(p, rand.New(rand.NewSource(seed*1000+int64(round*64+p))))
			}
			done := make(chan struct{})
			go func() { wg.Wait(); close(done) }()
			select {
			case <-done:
			case <-time.After(40 * time.Second):
				h.violate("stuck", "producers did not return within 40s", goroutineDump())
				return h, h.events, initBal
			}
			if !s.quiesce(fmt.Sprintf("round %d", round)) {
				break
			}
		}
	}
	h.mu.Lock()
	evs := append([]*poolEvent{}, h.events...)
	h.mu.Unlock()
	return h, evs, initBal
}

func cmdRandom(args []string) {
	fs := flag.NewFlagSet("random", flag.ExitOnError)
	seed := fs.Int64("seed", 1, "")
	nsc := fs.Int("scenarios", 10, "")
	steps := fs.Int("steps", 60, "")
	producers := fs.Int("producers", 0, "")
	rounds := fs.Int("rounds", 5, "")
	par := fs.Int("parallel", 4, "scenarios run in parallel")
	out := fs.String("out", "", "trace ndjson")
	res := fs.String("result", "", "result json")
	na := fs.Int("na", 3, "")
	maxNonce := fs.Int("maxnonce", 5, "")
	maxPrice := fs.Int("maxprice", 4, "")
	as := fs.Int("accountslots", 2, "")
	gs := fs.Int("globalslots", 4, "")
	aq := fs.Int("accountqueue", 3, "")
	gq := fs.Int("globalqueue", 4, "")
	bump := fs.Int("pricebump", 60, "")
	freq := fs.Duration("tick", 2*time.Millisecond, "")
	life := fs.Duration("lifetime", 120*time.Millisecond, "")
	evict := fs.Duration("evict", 20*time.Millisecond, "")
	traceBudget := fs.Int("trace-events", 20000, "stop writing trace events after this many (whole scenarios)")
	soak := fs.Duration("soak", 0, "concurrent mode: minimum life time of every pool")
	fs.Parse(args)
	setEvictionInterval(*evict)
	u := newUniverse(*na, *maxNonce, *maxPrice)
	cfg := randCfg{u: u, lim: limits{*as, *gs, *aq, *gq, *bump}, maxBal: *maxPrice, steps: *steps,
		producers: *producers, rounds: *rounds, reorgFreq: *freq, lifetime: *life, soak: *soak, noRecord: *out == "" || *traceBudget == 0}
	stats := &randStats{Events: map[string]int{}, AddResults: map[string]int{}}
	var smu, wmu sync.Mutex
	var bw *bufio.Writer
	if *out != "" {
		f, err := os.Create(*out)
		fatal(err)
		defer f.Close()
		bw = bufio.NewWriterSize(f, 1<<20)
		defer bw.Flush()
	}
	var viols []violation
	jobs := make(chan int)
	var wg sync.WaitGroup
	for w := 0; w < *par; w++ {
		wg.Add(1)
		go func() {
			defer wg.Done()
			for sc := range jobs {
				if atomic.LoadInt32(&abortAll) != 0 {
					continue
				}
				h, evs, initBal := runScenario(cfg, *seed*100003+int64(sc), stats, &smu)
				smu.Lock()
				stats.Scenarios++
				h.mu.Lock()
				for op, n := range h.evCount {
					stats.Events[op] += n
				}
				stats.Removed += h.nRemoved
				stats.Reinjected += h.nReinjected
				h.mu.Unlock()
				for _, v := range h.violations() {
					if len(viols) < 20 {
						v.Detail = map[string]interface{}{"scenario": sc, "seed": *seed, "detail": v.Detail}
						viols = append(viols, v)
					}
				}
				smu.Unlock()
				wmu.Lock()
				if bw != nil && stats.TraceEvents < *traceBudget {
					enc := json.NewEncoder(bw)
					init := h.u.abstract0(initBal)
					enc.Encode(&poolEvent{Op: "tracereset", Addrs: []int{}, Sn: []int{}, Bal: initBal, Removed: [][3]int{}, St: init, Seq: uint64(sc)})
					for _, e := range evs {
						enc.Encode(e)
					}
					stats.TraceEvents += len(evs) + 1
				}
				wmu.Unlock()
			}
		}()
	}
	for sc := 0; sc < *nsc; sc++ {
		jobs <- sc
	}
	close(jobs)
	wg.Wait()
	errLog.mu.Lock()
	result := map[string]interface{}{"stats": stats, "violations": viols, "error_logs": errLog.counts, "panics": errLog.panics}
	b, _ := json.MarshalIndent(result, "", " ")
	errLog.mu.Unlock()
	if *res != "" {
		fatal(os.WriteFile(*res, b, 0o644))
	} else {
		fmt.Println(string(b))
	}
}
