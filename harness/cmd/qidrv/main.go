// qidrv binds spec/QiLedger.tla to the real Qi transaction processing of go-quai (C01):
// core.ProcessQiTx with a real write batch (pending view on) over real UTXO records, on leveldb, pebble,
// memorydb and the rawdb table wrapper, with real Schnorr / MuSig2 signatures.
//
//	qidrv replay -in behaviours.ndjson -defs defs.json -out result.json -dir scratch
//	qidrv random -seed S -n N -out trace.ndjson -dir scratch
package main

import (
	"bufio"
	"encoding/json"
	"flag"
	"fmt"
	"io"
	"math/big"
	"math/rand"
	"os"
	"path/filepath"
	"sort"
	"strings"

	"github.com/dominant-strategies/go-quai/common"
	"github.com/dominant-strategies/go-quai/consensus"
	"github.com/dominant-strategies/go-quai/core"
	"github.com/dominant-strategies/go-quai/core/rawdb"
	"github.com/dominant-strategies/go-quai/core/types"
	"github.com/dominant-strategies/go-quai/crypto"
	"github.com/dominant-strategies/go-quai/ethdb"
	"github.com/dominant-strategies/go-quai/ethdb/leveldb"
	"github.com/dominant-strategies/go-quai/ethdb/memorydb"
	"github.com/dominant-strategies/go-quai/ethdb/pebble"
	"github.com/dominant-strategies/go-quai/log"
	"github.com/dominant-strategies/go-quai/params"
	"verifharness/wallet"
)

var loc = common.Location{0, 0}
var chainID = big.NewInt(9000)

type stubChain struct{ terminus *types.WorkObject }

func (s *stubChain) Engine(*types.WorkObjectHeader) consensus.Engine          { return nil }
func (s *stubChain) GetHeaderOrCandidateByHash(common.Hash) *types.WorkObject { return s.terminus }
func (s *stubChain) NodeCtx() int                                             { return common.ZONE_CTX }
func (s *stubChain) IsGenesisHash(common.Hash) bool                           { return false }
func (s *stubChain) GetHeaderByHash(common.Hash) *types.WorkObject            { return s.terminus }
func (s *stubChain) GetBlockByHash(common.Hash) *types.WorkObject             { return s.terminus }
func (s *stubChain) CheckIfEtxIsEligible(common.Hash, common.Location) bool   { return true }
func (s *stubChain) CheckInCalcOrderCache(common.Hash) (*big.Int, int, bool)  { return nil, 0, false }
func (s *stubChain) AddToCalcOrderCache(common.Hash, int, *big.Int)           {}
func (s *stubChain) CalcBaseFee(*types.WorkObject) *big.Int                   { return big.NewInt(0) }
func (s *stubChain) CalcOrder(*types.WorkObject) (*big.Int, int, error) {
	return big.NewInt(0), common.ZONE_CTX, nil
}

// baseFee of the block headers: 0 (fees are not required; conversions impossible: the conversion ETX's gas is fee / base fee)
// or 1 wei (regime BaseFeeOn of QiLedger.tla: a fee of one qit covers any transaction of the universes)
var baseFee int64

func header(number uint64) *types.WorkObject {
	h := types.EmptyZoneWorkObject()
	h.Header().SetGasLimit(50_000_000)
	h.Header().SetBaseFee(big.NewInt(baseFee))
	h.Header().SetExchangeRate(new(big.Int).Lsh(big.NewInt(1), 70))
	h.WorkObjectHeader().SetDifficulty(big.NewInt(1_000_000_000))
	h.WorkObjectHeader().SetNumber(new(big.Int).SetUint64(number))
	return h
}

// ---- abstract definitions (mirrors MCQiLedger.tla; passed as JSON so that the spec stays the source)

type InDef struct {
	O   []interface{} `json:"o"` // [txid, index]
	Key string        `json:"key"`
}
type OutDef struct {
	D  int    `json:"d"`
	To string `json:"to"`
}
type TxDef struct {
	Ins   []InDef  `json:"ins"`
	Outs  []OutDef `json:"outs"`
	Sig   string   `json:"sig"`
	Chain string   `json:"chain"`
	Data  string   `json:"data,omitempty"` // "conv": carries conversion data
}
type GenDef struct {
	D     int    `json:"d"`
	Owner string `json:"owner"`
	Lock  uint64 `json:"lock"`
}
type Defs struct {
	Genesis map[string]GenDef `json:"genesis"` // key "g1:0"
	Txs     map[string]TxDef  `json:"txs"`
}

func opKey(o []interface{}) string { return fmt.Sprintf("%v:%v", o[0], o[1]) }

type world struct {
	defs  Defs
	keys  map[string]wallet.Key
	built map[string]*types.Transaction
	names map[string]string // real outpoint key -> abstract name "<<\"t1\", 1>>"-like
}

func newWorld(d Defs) *world {
	return &world{defs: d, keys: map[string]wallet.Key{}, built: map[string]*types.Transaction{}, names: map[string]string{}}
}

func (w *world) key(name string) wallet.Key {
	if k, ok := w.keys[name]; ok {
		return k
	}
	seed := uint64(7)
	for _, c := range name {
		seed = seed*131 + uint64(c)
	}
	k := wallet.Grind(seed, true, loc)
	w.keys[name] = k
	return k
}

func genesisHash(id string) common.Hash {
	return crypto.Keccak256Hash([]byte("genesis-outpoint-" + id))
}

// realOutpoint resolves an abstract outpoint [txid, idx] to the real (hash, index)
func (w *world) realOutpoint(o []interface{}) types.OutPoint {
	id := fmt.Sprint(o[0])
	idx := uint16(o[1].(float64))
	if _, ok := w.defs.Genesis[opKey(o)]; ok || strings.HasPrefix(id, "g") {
		return types.OutPoint{TxHash: genesisHash(id), Index: idx}
	}
	tx := w.tx(id)
	// the spec numbers outputs from 1 (sequence index); the real index is zero-based
	return types.OutPoint{TxHash: tx.Hash(), Index: idx - 1}
}

func (w *world) addr(to string) []byte {
	switch {
	case strings.HasPrefix(to, "qi:"):
		return w.key(to[3:]).Addr.Bytes()
	case strings.HasPrefix(to, "quai:"):
		b := append([]byte{}, w.key(to[5:]).Addr.Bytes()...)
		b[1] &= 0x7f
		return b
	case strings.HasPrefix(to, "zoneB:"):
		b := append([]byte{}, w.key(to[6:]).Addr.Bytes()...)
		b[0] = 0x01
		return b
	}
	panic("bad address name " + to)
}

func (w *world) tx(id string) *types.Transaction {
	if t, ok := w.built[id]; ok {
		return t
	}
	d, ok := w.defs.Txs[id]
	if !ok {
		panic("unknown tx " + id)
	}
	var ins []wallet.In
	for _, in := range d.Ins {
		ins = append(ins, wallet.In{Out: w.realOutpoint(in.O), Key: w.key(in.Key)})
	}
	var outs []types.TxOut
	for _, o := range d.Outs {
		outs = append(outs, types.TxOut{Denomination: uint8(o.D), Address: w.addr(o.To)})
	}
	cid := chainID
	if d.Chain != "ours" {
		cid = new(big.Int).Add(chainID, big.NewInt(1))
	}
	var signKeys []wallet.Key
	if d.Sig != "ok" {
		for range ins {
			signKeys = append(signKeys, w.key("intruder"))
		}
	}
	signer := types.NewSigner(cid, loc)
	var data []byte
	if d.Data == "conv" {
		// two bytes of slip tolerance + the Qi address a refused conversion is refunded to
		data = append([]byte{0x00, 0x64}, w.key("refund").Addr.Bytes()...)
		if len(data) != params.MaxQiTxDataLength {
			panic("conversion data length")
		}
	}
	t, err := wallet.QiTx(signer, cid, ins, outs, data, signKeys)
	if err != nil {
		panic(err)
	}
	w.built[id] = t
	for j := range outs {
		w.names[fmt.Sprintf("%x:%d", t.Hash().Bytes(), j)] = fmt.Sprintf("<<\"%s\", %d>>", id, j+1)
	}
	return t
}

func classify(err error) string {
	if err == nil {
		return "ok"
	}
	m := err.Error()
	switch {
	case strings.Contains(m, "invalid chain ID"):
		return "chain"
	case strings.Contains(m, "spends non-existent UTXO"):
		return "missing"
	case strings.Contains(m, "spends locked UTXO"):
		return "locked"
	case strings.Contains(m, "with invalid pubkey"):
		return "owner"
	case strings.Contains(m, "Duplicate address"):
		return "dupaddr"
	case strings.Contains(m, "not in the Qi ledger scope"):
		return "ledger"
	case strings.Contains(m, "is less than the amount"):
		return "value"
	case strings.Contains(m, "insufficient fee for base fee"):
		return "fee"
	case strings.Contains(m, "multiple convert UTXOs with different To addresses"):
		return "convaddr"
	case strings.Contains(m, "combine smaller denominations"):
		return "denoms"
	case strings.Contains(m, "invalid signature"):
		return "sig"
	}
	return "unexpected: " + m
}

// ---- back-ends

type backend struct {
	name  string
	db    ethdb.Database
	close func()
}

func must(err error) {
	if err != nil {
		fmt.Fprintln(os.Stderr, "qidrv fatal:", err)
		os.Exit(3)
	}
}

type locDB struct {
	ethdb.Database
}

func (d locDB) Location() common.Location { return loc }

func openBackends(dir string) []*backend {
	lg := log.Global
	var out []*backend
	{
		d, err := leveldb.New(filepath.Join(dir, "ldb"), 16, 16, "", false, lg, loc)
		must(err)
		out = append(out, &backend{"leveldb", rawdb.NewDatabase(d), func() { d.Close() }})
	}
	{
		d, err := pebble.New(filepath.Join(dir, "pdb"), 16, 16, "", false, lg, loc)
		must(err)
		out = append(out, &backend{"pebble", rawdb.NewDatabase(d), func() { d.Close() }})
	}
	out = append(out, &backend{"memorydb", locDB{rawdb.NewDatabase(memorydb.New(lg))}, func() {}})
	out = append(out, &backend{"table-memorydb", rawdb.NewTable(locDB{rawdb.NewDatabase(memorydb.New(lg))}, "qi-", loc, lg), func() {}})
	return out
}

// ---- one ledger instance on one back-end

type ledger struct {
	be      *backend
	w       *world
	height  uint64
	batch   ethdb.Batch
	nQi     int
	gp      *types.GasPool
	used    uint64
	rl, pl  uint64
	ucd     *core.UtxosCreatedDeleted
	added   *big.Int
	removed *big.Int
	chain   *stubChain
}

func (l *ledger) reset() {
	it := l.be.db.NewIterator(rawdb.UtxoPrefix, nil)
	var ks [][]byte
	for it.Next() {
		ks = append(ks, common.CopyBytes(it.Key()))
	}
	it.Release()
	for _, k := range ks {
		l.be.db.Delete(k)
	}
	for id, g := range l.w.defs.Genesis {
		parts := strings.Split(id, ":")
		e := types.NewUtxoEntry(types.NewTxOut(uint8(g.D), l.w.key(g.Owner).Addr.Bytes(), new(big.Int).SetUint64(g.Lock)))
		must(rawdb.CreateUTXO(l.be.db, genesisHash(parts[0]), 0, e))
		l.w.names[fmt.Sprintf("%x:%d", genesisHash(parts[0]).Bytes(), 0)] = fmt.Sprintf("<<\"%s\", 0>>", parts[0])
	}
	l.height = 0
	l.batch = nil
	l.chain = &stubChain{terminus: header(0)}
}

func (l *ledger) scan() []string {
	var out []string
	it := l.be.db.NewIterator(rawdb.UtxoPrefix, nil)
	for it.Next() {
		k := it.Key()
		if len(k) != rawdb.UtxoKeyLength {
			continue
		}
		h, idx, _ := rawdb.ReverseUtxoKey(k)
		name, ok := l.w.names[fmt.Sprintf("%x:%d", h.Bytes(), idx)]
		if !ok {
			name = fmt.Sprintf("unknown:%x:%d", h.Bytes()[:4], idx)
		}
		out = append(out, name)
	}
	it.Release()
	sort.Strings(out)
	return out
}

func (l *ledger) totalValue() *big.Int {
	t := new(big.Int)
	it := l.be.db.NewIterator(rawdb.UtxoPrefix, nil)
	for it.Next() {
		if len(it.Key()) != rawdb.UtxoKeyLength {
			continue
		}
		h, idx, _ := rawdb.ReverseUtxoKey(it.Key())
		if e := rawdb.GetUTXO(l.be.db, h, idx); e != nil {
			t.Add(t, types.Denominations[e.Denomination])
		}
	}
	it.Release()
	return t
}

func (l *ledger) begin() {
	l.batch = l.be.db.NewBatch()
	l.batch.SetPending(true) // as StateProcessor.Process does
	l.nQi = 0
	l.gp = new(types.GasPool).AddGas(50_000_000)
	l.used = 0
	l.rl, l.pl = 1<<40, 1<<40
	l.ucd = &core.UtxosCreatedDeleted{}
	l.added, l.removed = new(big.Int), new(big.Int)
}

type txResult struct {
	Class string
	Fee   int64
	Etx   int64 // value leaving through ETXs (denomination values)
	NEtx  int
}

func (l *ledger) process(id string) txResult {
	tx := l.w.tx(id)
	hdr := header(l.height + 1)
	signer := types.NewSigner(chainID, loc)
	fee, etxs, _, err, _ := core.ProcessQiTx(tx, l.chain, true, l.nQi == 0, hdr, l.batch, l.be.db, l.gp, &l.used, signer, loc, *chainID, 1.0, &l.rl, &l.pl, l.ucd, l.added, l.removed, false)
	r := txResult{Class: classify(err)}
	if err == nil {
		l.nQi++
		r.Fee = fee.Int64()
		for _, e := range etxs {
			r.NEtx++
			if e.EtxType == types.DefaultType {
				r.Etx += types.Denominations[uint8(e.Value.Uint64())].Int64()
			} else {
				r.Etx += e.Value.Int64()
			}
		}
	} else {
		l.batch = nil // block rejected: batch dropped
	}
	return r
}

func (l *ledger) commit() error {
	if err := l.batch.Write(); err != nil {
		return err
	}
	l.batch = nil
	l.height++
	return nil
}

type Step struct {
	Op  string        `json:"op"`
	T   string        `json:"t"`
	Res []interface{} `json:"res"`
}

type Mismatch struct {
	Backend   string      `json:"backend"`
	Behaviour int         `json:"behaviour"`
	Step      int         `json:"step"`
	Op        string      `json:"op"`
	Tx        string      `json:"tx"`
	Expected  interface{} `json:"expected"`
	Got       interface{} `json:"got"`
	Kind      string      `json:"kind"`
	Steps     []Step      `json:"steps"`
}

func loadDefs(path string) Defs {
	var d Defs
	b, err := os.ReadFile(path)
	must(err)
	must(json.Unmarshal(b, &d))
	return d
}

func cmdReplay(args []string) {
	fs := flag.NewFlagSet("replay", flag.ExitOnError)
	in := fs.String("in", "", "")
	defsPath := fs.String("defs", "", "")
	out := fs.String("out", "", "")
	dir := fs.String("dir", "", "")
	fs.Int64Var(&baseFee, "basefee", 0, "base fee of the block headers (wei)")
	fs.Parse(args)
	log.Global.SetOutput(io.Discard)
	defs := loadDefs(*defsPath)
	bes := openBackends(*dir)
	f, err := os.Open(*in)
	must(err)
	sc := bufio.NewScanner(f)
	sc.Buffer(make([]byte, 1<<20), 1<<26)
	var behs [][]Step
	for sc.Scan() {
		var b []Step
		must(json.Unmarshal(sc.Bytes(), &b))
		behs = append(behs, b)
	}
	var mism []Mismatch
	stats := map[string]map[string]int{}
	classes := map[string]int{}
	for _, be := range bes {
		w := newWorld(defs)
		l := &ledger{be: be, w: w}
		st := map[string]int{}
		stats[be.name] = st
		for bi, beh := range behs {
			l.reset()
			genesisValue := l.totalValue()
			feesCommitted, etxCommitted := int64(0), int64(0)
			var blockFees, blockEtx int64
			bad := func(i int, kind string, exp, got interface{}) {
				st["mismatches"]++
				if len(mism) < 40 {
					mism = append(mism, Mismatch{be.name, bi, i, beh[i].Op, beh[i].T, exp, got, kind, beh[:i+1]})
				}
			}
		steps:
			for i, s := range beh {
				st["steps"]++
				switch s.Op {
				case "begin":
					l.begin()
					blockFees, blockEtx = 0, 0
				case "tx":
					r := l.process(s.T)
					if be == bes[0] {
						classes[s.T+"/"+r.Class]++
					}
					exp := fmt.Sprint(s.Res[0])
					if exp == "ok" {
						if r.Class != "ok" {
							bad(i, "spec-accepts-code-rejects", s.Res, r.Class)
							break steps
						}
						// spec fee excludes value leaving through ETXs
						if int64(s.Res[1].(float64)) != r.Fee {
							bad(i, "fee", s.Res[1], r.Fee)
							break steps
						}
						blockFees += r.Fee
						blockEtx += r.Etx
					} else {
						if r.Class == "ok" {
							bad(i, "spec-rejects-code-accepts", s.Res, "ok")
							break steps
						}
						if r.Class != fmt.Sprint(s.Res[1]) {
							bad(i, "reject-reason", s.Res[1], r.Class)
							break steps
						}
					}
				case "commit":
					must(l.commit())
					feesCommitted += blockFees
					etxCommitted += blockEtx
					got := l.scan()
					var exp []string
					for _, x := range s.Res[1].([]interface{}) {
						exp = append(exp, fmt.Sprint(x))
					}
					sort.Strings(exp)
					if strings.Join(exp, "|") != strings.Join(got, "|") {
						bad(i, "utxo-set", exp, got)
						break steps
					}
					// native conservation (independent of the spec): stored value + fees + ETX value == genesis value
					tot := new(big.Int).Add(l.totalValue(), big.NewInt(feesCommitted+etxCommitted))
					if tot.Cmp(genesisValue) != 0 {
						bad(i, "value-not-conserved", genesisValue.String(), tot.String())
						break steps
					}
				}
			}
			st["behaviours"]++
		}
	}
	for _, be := range bes {
		be.close()
	}
	res := map[string]interface{}{"behaviours": len(behs), "backends": stats, "mismatches": mism, "classes": classes}
	b, _ := json.MarshalIndent(res, "", " ")
	must(os.WriteFile(*out, b, 0o644))
}

func main() {
	if len(os.Args) < 2 {
		os.Exit(2)
	}
	switch os.Args[1] {
	case "replay":
		cmdReplay(os.Args[2:])
	case "random":
		cmdRandom(os.Args[2:])
	default:
		os.Exit(2)
	}
}

var _ = rand.New

// random mode: a seeded universe of transactions (valid ones and deviations: double spends, wrong keys, locked
// inputs, value creation, merges, bad signatures, foreign chain id, Quai / other-zone destinations), random
// episodes of blocks over it; the observed verdicts, fees and committed UTXO sets of every back-end are logged
// for validation by spec/QiLedgerTrace.tla.
func cmdRandom(args []string) {
	fs := flag.NewFlagSet("random", flag.ExitOnError)
	seed := fs.Int64("seed", 1, "")
	episodes := fs.Int("episodes", 30, "")
	ntx := fs.Int("ntx", 40, "size of the transaction universe")
	out := fs.String("out", "", "")
	dir := fs.String("dir", "", "")
	fs.Parse(args)
	log.Global.SetOutput(io.Discard)
	r := rand.New(rand.NewSource(*seed))
	keys := []string{"A", "B", "C", "D", "E", "F", "H", "J", "K", "L", "M", "N"}
	defs := Defs{Genesis: map[string]GenDef{}, Txs: map[string]TxDef{}}
	type outp struct {
		o     []interface{}
		d     int
		owner string
	}
	var pool []outp
	for i := 1; i <= 8; i++ {
		g := GenDef{D: 1 + r.Intn(4), Owner: keys[r.Intn(3)]}
		if i == 8 {
			g.Lock = 4
		}
		id := fmt.Sprintf("g%d", i)
		defs.Genesis[id+":0"] = g
		pool = append(pool, outp{[]interface{}{id, float64(0)}, g.D, g.Owner})
	}
	var txIDs []string
	seenDef := map[string]bool{}
	for i := 1; i <= *ntx; i++ {
		id := fmt.Sprintf("t%d", i)
		nin := 1
		if r.Intn(4) == 0 {
			nin = 2
		}
		var td TxDef
		td.Sig, td.Chain = "ok", "ours"
		total := 0
		vals := []int{1, 5, 10, 50, 100}
		maxD := 0
		used := map[string]bool{}
		for j := 0; j < nin; j++ {
			p := pool[r.Intn(len(pool))]
			if used[opKey(p.o)] && r.Intn(3) > 0 {
				continue
			}
			used[opKey(p.o)] = true
			k := p.owner
			if r.Intn(12) == 0 {
				k = keys[r.Intn(len(keys))]
			}
			if len(td.Ins) > 0 && r.Intn(5) == 0 {
				k = td.Ins[0].Key // a later input under the key of the first one (whoever owns it): the aggregate over (K, K) is signable by K alone
			}
			td.Ins = append(td.Ins, InDef{O: p.o, Key: k})
			total += vals[p.d]
			if p.d > maxD {
				maxD = p.d
			}
		}
		if len(td.Ins) == 0 {
			p := pool[0]
			td.Ins = append(td.Ins, InDef{O: p.o, Key: p.owner})
			total, maxD = vals[p.d], p.d
		}
		nout := 1 + r.Intn(3)
		budget := total
		if r.Intn(10) == 0 {
			budget = total * 3 // value creation attempt
		}
		for j := 0; j < nout; j++ {
			d := r.Intn(maxD + 1)
			if r.Intn(10) == 0 {
				d = r.Intn(5) // possible merge into a larger denomination
			}
			if vals[d] > budget {
				continue
			}
			budget -= vals[d]
			to := "qi:" + keys[r.Intn(len(keys))]
			switch r.Intn(14) {
			case 0:
				to = "quai:" + keys[r.Intn(len(keys))]
			case 1:
				to = "zoneB:" + keys[r.Intn(len(keys))]
			}
			td.Outs = append(td.Outs, OutDef{D: d, To: to})
		}
		if len(td.Outs) == 0 {
			td.Outs = append(td.Outs, OutDef{D: 0, To: "qi:" + keys[r.Intn(len(keys))]})
		}
		switch r.Intn(16) {
		case 0:
			td.Sig = "bad"
		case 1:
			td.Chain = "other"
		}
		// two definitions with the same content are ONE transaction (same hash): the specification would treat their outputs
		// as different outpoints, so the universe must not contain such twins
		sigKey := fmt.Sprintf("%v|%v|%s|%s", td.Ins, td.Outs, td.Sig, td.Chain)
		if seenDef[sigKey] {
			continue
		}
		seenDef[sigKey] = true
		defs.Txs[id] = td
		txIDs = append(txIDs, id)
		for j, o := range td.Outs {
			if strings.HasPrefix(o.To, "qi:") {
				pool = append(pool, outp{[]interface{}{id, float64(j + 1)}, o.D, o.To[3:]})
			}
		}
	}
	// episodes (the same for every back-end)
	type ep [][]string
	var eps []ep
	for e := 0; e < *episodes; e++ {
		var blocks ep
		// a random subset of the universe in ascending id order (dependencies mostly satisfied), with a few
		// repeats (double spends / replays), cut into blocks
		k := 3 + r.Intn(9)
		var pick []int
		for i := 0; i < k; i++ {
			pick = append(pick, int(float64(len(txIDs))*r.Float64()*r.Float64()))
		}
		sort.Ints(pick)
		if r.Intn(3) == 0 {
			pick = append(pick, pick[r.Intn(len(pick))])
		}
		var blk []string
		for _, pi := range pick {
			blk = append(blk, txIDs[pi])
			if r.Intn(3) == 0 {
				blocks = append(blocks, blk)
				blk = nil
			}
		}
		if len(blk) > 0 {
			blocks = append(blocks, blk)
		}
		eps = append(eps, blocks)
	}
	wf, err := os.Create(*out)
	must(err)
	bw := bufio.NewWriter(wf)
	enc := json.NewEncoder(bw)
	var gl []interface{}
	for id, g := range defs.Genesis {
		gl = append(gl, []interface{}{strings.Split(id, ":")[0], 0, g.D, g.Owner, g.Lock})
	}
	enc.Encode(map[string]interface{}{"op": "defs", "genesis": gl, "txs": defs.Txs})
	bes := openBackends(*dir)
	events, disagreements := 0, 0
	var ref []string
	for bi, be := range bes {
		w := newWorld(defs)
		l := &ledger{be: be, w: w}
		pos := 0
		note := func(s string) {
			if bi == 0 {
				ref = append(ref, s)
			} else {
				if pos >= len(ref) || ref[pos] != s {
					disagreements++
				}
				pos++
			}
		}
		for _, blocks := range eps {
			l.reset()
			enc.Encode(map[string]interface{}{"op": "reset", "backend": be.name, "t": "", "res": []interface{}{"init"}})
			for _, blk := range blocks {
				l.begin()
				enc.Encode(map[string]interface{}{"op": "begin", "backend": be.name, "t": "", "res": []interface{}{"ok"}})
				rejected := false
				for _, id := range blk {
					res := l.process(id)
					events++
					if res.Class == "ok" {
						enc.Encode(map[string]interface{}{"op": "tx", "backend": be.name, "t": id, "res": []interface{}{"ok", res.Fee}})
						note(fmt.Sprint(id, "ok", res.Fee))
					} else {
						enc.Encode(map[string]interface{}{"op": "tx", "backend": be.name, "t": id, "res": []interface{}{"reject", res.Class}})
						note(fmt.Sprint(id, res.Class))
						rejected = true
						break
					}
				}
				if rejected {
					continue
				}
				must(l.commit())
				sc := l.scan()
				enc.Encode(map[string]interface{}{"op": "commit", "backend": be.name, "t": "", "res": []interface{}{"utxo", sc}})
				note(strings.Join(sc, "|"))
			}
		}
	}
	bw.Flush()
	wf.Close()
	for _, be := range bes {
		be.close()
	}
	b, _ := json.Marshal(map[string]interface{}{"events": events, "episodes": *episodes * len(bes), "cross_backend_disagreements": disagreements, "universe": *ntx})
	fmt.Println(string(b))
}
