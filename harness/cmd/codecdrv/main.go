// codecdrv binds spec/Codec.tla to the real go-quai encoders/decoders (C14) and feeds shaped and mutated
// inputs to every production decode entry point (C15a).
//
//	codecdrv tables                       type / field / domain / codec tables as JSON (cross-checked with the spec)
//	codecdrv probe  [-type T]             development aid: observed normalisation per (type, codec, field, value)
//	codecdrv replay -in behaviours.ndjson -out result.json -seed S -inst N
//	codecdrv random -seed S -n N -out trace.ndjson
//	codecdrv fuzz   -in cases.ndjson -seed S -mut N -out result.json     (C15a)
//	codecdrv fuzzone -entry E -hex H                                     (C15a replay)
package main

import (
	"encoding/json"
	"flag"
	"fmt"
	"io"
	"os"
	"sort"

	"github.com/dominant-strategies/go-quai/log"
)

// baseOverride: base value of a field where it is not "typ" (or the first domain value); the base shape
// of every type is one that every codec of the type handles without a known defect.
var baseOverride = map[string]map[string]string{
	"QuaiTx":            {"workNonce": Z},
	"QiTx":              {"parentHash": A, "mixHash": A, "workNonce": A},
	"WOHeader":          {"fork": "post", "auxpow": "kawpow"},
	"WOBlock":           {"hfork": "post"},
	"WOHeaderView":      {"hfork": "post"},
	"WOPEtx":            {"hfork": "post"},
	"WOShare":           {"hfork": "post"},
	"WOWorkShare":       {"hfork": "post"},
	"PendingEtxs":       {"hfork": "post"},
	"PendingEtxsRollup": {"hfork": "post"},
	"P2PRequest":        {"query": "hash"},
}

func baseline(t *TypeDef) Shape {
	sh := Shape{}
	for _, f := range t.Fields {
		v := f.Dom[0]
		for _, d := range f.Dom {
			if d == T {
				v = T
			}
		}
		if o, ok := baseOverride[t.Name][f.Name]; ok {
			v = o
		}
		sh[f.Name] = v
	}
	return sh
}

func must(err error) {
	if err != nil {
		fmt.Fprintln(os.Stderr, "codecdrv fatal:", err)
		os.Exit(3)
	}
}

func cmdTables() {
	type ft struct {
		Name string   `json:"name"`
		Dom  []string `json:"dom"`
		Base string   `json:"base"`
	}
	type tt struct {
		Type   string   `json:"type"`
		Fields []ft     `json:"fields"`
		Codecs []string `json:"codecs"`
		LocSen []string `json:"locsens"`
	}
	var out []tt
	for _, n := range registryOrder {
		t := registry[n]
		x := tt{Type: n}
		for _, f := range t.Fields {
			d := append([]string{}, f.Dom...)
			x.Fields = append(x.Fields, ft{f.Name, d, baseline(t)[f.Name]})
		}
		x.LocSen = []string{}
		for _, c := range t.Codecs {
			x.Codecs = append(x.Codecs, c.Name)
			if c.LocSensitive {
				x.LocSen = append(x.LocSen, c.Name)
			}
		}
		sort.Strings(x.Codecs)
		sort.Strings(x.LocSen)
		out = append(out, x)
	}
	b, _ := json.Marshal(out)
	fmt.Println(string(b))
}

// cmdProbe prints, for every single-field deviation from the baseline shape, what each codec does.
func cmdProbe(args []string) {
	fs := flag.NewFlagSet("probe", flag.ExitOnError)
	only := fs.String("type", "", "")
	seed := fs.Int64("seed", 1, "")
	fs.Parse(args)
	for _, n := range registryOrder {
		if *only != "" && *only != n {
			continue
		}
		t := registry[n]
		base := baseline(t)
		shapes := []Shape{base}
		for _, f := range t.Fields {
			for _, d := range f.Dom {
				if d != base[f.Name] {
					sh := Shape{}
					for k, v := range base {
						sh[k] = v
					}
					sh[f.Name] = d
					shapes = append(shapes, sh)
				}
			}
		}
		for _, sh := range shapes {
			probeOne(t, sh, *seed)
		}
	}
}

func shapeStr(t *TypeDef, sh Shape) string {
	s := ""
	for _, f := range t.Fields {
		if sh[f.Name] != baseline(t)[f.Name] {
			s += f.Name + "=" + sh[f.Name] + " "
		}
	}
	if s == "" {
		s = "(baseline)"
	}
	return s
}

func probeOne(t *TypeDef, sh Shape, seed int64) {
	g := &Gen{Seed: seed, Type: t.Name}
	var obj interface{}
	if err := guard(func() error { obj = t.Build(sh, g); return nil }); err != nil {
		fmt.Printf("%-14s %-30s BUILD %v\n", t.Name, shapeStr(t, sh), err)
		return
	}
	var p0 []PV
	if err := guard(func() error { p0 = t.Project(obj); return nil }); err != nil {
		fmt.Printf("%-14s %-30s PROJECT %v\n", t.Name, shapeStr(t, sh), err)
		return
	}
	for i, f := range t.Fields {
		if p0[i].Class != sh[f.Name] {
			fmt.Printf("%-14s %-30s BUILD-CLASS %s: want %s got %s\n", t.Name, shapeStr(t, sh), f.Name, sh[f.Name], p0[i].Class)
		}
	}
	h0, _ := "", false
	if t.Hash != nil {
		guard(func() error { h0, _ = t.Hash(obj); return nil })
	}
	for _, c := range t.Codecs {
		var enc []byte
		err := guard(func() (e error) { enc, e = c.Enc(obj); return })
		if err != nil {
			fmt.Printf("%-14s %-30s %-8s ENC-ERR %v\n", t.Name, shapeStr(t, sh), c.Name, err)
			continue
		}
		var dec interface{}
		err = guard(func() (e error) { dec, e = c.Dec(enc, homeLoc); return })
		if err != nil {
			fmt.Printf("%-14s %-30s %-8s DEC-ERR %.150v\n", t.Name, shapeStr(t, sh), c.Name, err)
			continue
		}
		var p1 []PV
		if err := guard(func() error { p1 = t.Project(dec); return nil }); err != nil {
			fmt.Printf("%-14s %-30s %-8s PROJECT-DEC %v\n", t.Name, shapeStr(t, sh), c.Name, err)
			continue
		}
		for i, f := range t.Fields {
			if p1[i].Class != p0[i].Class {
				fmt.Printf("%-14s %-30s %-8s NORM %s: %s -> %s\n", t.Name, shapeStr(t, sh), c.Name, f.Name, p0[i].Class, p1[i].Class)
			} else if p1[i].Val != p0[i].Val {
				fmt.Printf("%-14s %-30s %-8s VALUE %s (%s): %.60s -> %.60s\n", t.Name, shapeStr(t, sh), c.Name, f.Name, p0[i].Class, p0[i].Val, p1[i].Val)
			}
		}
		if t.Hash != nil {
			h1 := ""
			if err := guard(func() error { h1, _ = t.Hash(dec); return nil }); err != nil {
				fmt.Printf("%-14s %-30s %-8s HASH-DEC %v\n", t.Name, shapeStr(t, sh), c.Name, err)
			} else if h1 != h0 {
				fmt.Printf("%-14s %-30s %-8s HASH-CHANGED\n", t.Name, shapeStr(t, sh), c.Name)
			}
		}
		var enc2 []byte
		err = guard(func() (e error) { enc2, e = c.Enc(dec); return })
		if err != nil {
			fmt.Printf("%-14s %-30s %-8s REENC-ERR %v\n", t.Name, shapeStr(t, sh), c.Name, err)
		} else if string(enc2) != string(enc) {
			fmt.Printf("%-14s %-30s %-8s BYTES-UNSTABLE %d vs %d\n", t.Name, shapeStr(t, sh), c.Name, len(enc), len(enc2))
		}
	}
}

func main() {
	if len(os.Args) < 2 {
		fmt.Fprintln(os.Stderr, "usage: codecdrv tables|probe|replay|random|fuzz|fuzzone ...")
		os.Exit(2)
	}
	if os.Getenv("CODEC_LOG") == "" {
		log.Global.SetOutput(io.Discard)
	}
	switch os.Args[1] {
	case "tables":
		cmdTables()
	case "probe":
		cmdProbe(os.Args[2:])
	case "replay":
		cmdReplay(os.Args[2:])
	case "random":
		cmdRandom(os.Args[2:])
	case "explain":
		cmdExplain(os.Args[2:])
	case "fuzztables":
		cmdFuzzTables()
	case "fuzz":
		cmdFuzz(os.Args[2:])
	case "fuzzone":
		cmdFuzzOne(os.Args[2:])
	default:
		os.Exit(2)
	}
}
