package main

import (
	"bufio"
	"encoding/json"
	"flag"
	"fmt"
	"math/rand"
	"os"
	"sort"
	"strings"
)

type sigEntry struct {
	V     Violation `json:"violation"`
	Count int       `json:"count"`
}

type collector struct {
	sigs      map[string]*sigEntry
	order     []string
	causeMemo map[string]string
	classes   map[string]bool // distinct abstract classes exercised
	perType   map[string]int
	perCodec  map[string]int
	steps     int
	hashes    map[string]map[string]string // type|seed -> hkey -> hash
}

func newCollector() *collector {
	return &collector{sigs: map[string]*sigEntry{}, causeMemo: map[string]string{}, classes: map[string]bool{},
		perType: map[string]int{}, perCodec: map[string]int{}, hashes: map[string]map[string]string{}}
}

func pathKey(steps []Step) string {
	var sb strings.Builder
	for _, s := range steps {
		sb.WriteString(s.Op + ":" + s.Codec + ":" + s.Loc + ":" + s.Field + ";")
	}
	return sb.String()
}

func (c *collector) add(v Violation, t *TypeDef, relative bool) {
	if relative {
		mk := v.Kind + "|" + v.Type + "|" + v.Field + "|" + strings.Join(v.Shape, ",") + "|" + pathKey(v.Steps)
		if m, ok := c.causeMemo[mk]; ok {
			v.Cause = m
		} else {
			v.Cause = cause(t, v.Shape, v.Steps, v.Seed, v.Kind, v.Field)
			c.causeMemo[mk] = v.Cause
		}
	}
	key := strings.Join([]string{v.Kind, v.Type, v.Codec, v.Field, v.Cause, v.Err}, "|")
	if e, ok := c.sigs[key]; ok {
		e.Count++
		return
	}
	c.sigs[key] = &sigEntry{V: v, Count: 1}
	c.order = append(c.order, key)
}

func stripExp(steps []Step) []Step {
	out := make([]Step, len(steps))
	for i, s := range steps {
		out[i] = Step{Op: s.Op, Type: s.Type, Codec: s.Codec, Loc: s.Loc, Field: s.Field, Shape: s.Shape}
		if i > 0 {
			out[i].Shape = nil
		}
	}
	return out
}

// runOne replays one TLC behaviour with one seed and compares every observation with the specification.
func (c *collector) runOne(beh []Step, seed int64) error {
	if len(beh) == 0 || beh[0].Op != "start" {
		return fmt.Errorf("behaviour does not begin with start")
	}
	t := registry[beh[0].Type]
	r := &runner{}
	c.perType[beh[0].Type]++
	prev := beh[0].Shape
	for i := range beh {
		s := &beh[i]
		o, err := r.step(s, seed)
		if err != nil {
			return err
		}
		c.steps++
		mk := func(kind, field, detail string) Violation {
			return Violation{Kind: kind, Type: t.Name, Codec: codecOf(beh[:i+1]), Field: field, Err: normErr(o.Err), Seed: seed,
				Shape: beh[0].Shape, Steps: stripExp(beh[:i+1]), Detail: detail}
		}
		switch s.Op {
		case "start":
			if o.Err != "" {
				c.add(mk("hash-panic", "", o.Err), t, false)
				return nil
			}
			if t.Hash != nil && len(s.HKey) > 0 {
				k := fmt.Sprintf("%s|%d", t.Name, seed)
				if c.hashes[k] == nil {
					c.hashes[k] = map[string]string{}
				}
				hk := strings.Join(s.HKey, ",")
				if old, ok := c.hashes[k][hk]; ok && old != r.href {
					c.add(mk("hash-differs-same-key", "", hk+" old="+old+" new="+r.href), t, false)
				}
				c.hashes[k][hk] = r.href
			}
		case "enc":
			c.perCodec[t.Name+"/"+s.Codec]++
			if k, f := relKind("enc", o); k != "" {
				c.add(mk(k, f, o.Err), t, true)
				return nil
			}
		case "dec":
			c.classes[t.Name+"/"+s.Codec+"/"+s.Loc+"/"+strings.Join(prev, ",")+">"+strings.Join(o.Shape, ",")] = true
			if o.Err != "" && !strings.HasPrefix(o.Err, "re-encode") {
				k, f := relKind("dec", o)
				c.add(mk(k, f, o.Err), t, true)
				return nil
			}
			for j := range s.Shape {
				if o.Shape[j] != s.Shape[j] {
					v := mk("class-mismatch", t.Fields[j].Name, "")
					v.Cause = fmt.Sprintf("from=%s,want=%s,got=%s", prev[j], s.Shape[j], o.Shape[j])
					c.add(v, t, false)
					return nil
				}
			}
			if k, f := relKind("dec", o); k != "" && (k != "hash-changed" || s.Exp.HashSame) {
				c.add(mk(k, f, o.Err), t, true)
				return nil
			}
			if s.Exp.BytesStable && !o.BytesStable {
				v := mk("bytes-unstable", "", "")
				v.Cause = "shape=" + strings.Join(prev, ",")
				c.add(v, t, false)
				return nil
			}
			prev = o.Shape
		case "warm":
			if o.Err != "" {
				c.add(mk("hash-panic", "", o.Err), t, false)
				return nil
			}
		case "mutate":
			if o.Skipped {
				return fmt.Errorf("spec mutates %s.%s but the driver has no mutator for it", t.Name, s.Field)
			}
			c.classes[t.Name+"/mutate/"+s.Field+"/"+o.Setter+"/"+fmt.Sprint(o.HashChanged)] = true
			if o.Err != "" {
				c.add(mk("mutate-panic", s.Field, o.Err), t, false)
				return nil
			}
			switch {
			case o.Stale:
				v := mk("stale-hash", o.Setter, "hash cache not invalidated")
				v.Cause = "warm"
				c.add(v, t, false)
				return nil
			case s.Exp.HashChanged && !o.HashChanged:
				c.add(mk("hash-ignores-field", s.Field, "consensus field changed, hash did not"), t, false)
				return nil
			case !s.Exp.HashChanged && o.HashChanged:
				c.add(mk("hash-changed-unexpected", s.Field, ""), t, false)
				return nil
			}
		}
	}
	return nil
}

func codecOf(steps []Step) string {
	for i := len(steps) - 1; i >= 0; i-- {
		if steps[i].Codec != "" {
			return steps[i].Codec
		}
	}
	return ""
}

// collisions: two different hash keys of one (type, seed) with the same concrete hash.
func (c *collector) collisions() {
	for k, m := range c.hashes {
		rev := map[string]string{}
		var hks []string
		for hk := range m {
			hks = append(hks, hk)
		}
		sort.Strings(hks)
		for _, hk := range hks {
			h := m[hk]
			if other, ok := rev[h]; ok {
				tn := strings.SplitN(k, "|", 2)[0]
				v := Violation{Kind: "hash-collision", Type: tn, Detail: other + "  ==  " + hk, Cause: diffKeys(other, hk)}
				c.add(v, registry[tn], false)
			}
			rev[h] = hk
		}
	}
}

func diffKeys(a, b string) string {
	x, y := strings.Split(a, ","), strings.Split(b, ",")
	var d []string
	for i := range x {
		if i < len(y) && x[i] != y[i] {
			d = append(d, fmt.Sprintf("#%d:%s/%s", i+1, x[i], y[i]))
		}
	}
	return strings.Join(d, ",")
}

func (c *collector) result() map[string]interface{} {
	var vs []*sigEntry
	for _, k := range c.order {
		vs = append(vs, c.sigs[k])
	}
	var cl []string
	for k := range c.classes {
		cl = append(cl, k)
	}
	sort.Strings(cl)
	sample := cl
	if len(sample) > 6 {
		sample = []string{cl[0], cl[len(cl)/3], cl[len(cl)/2], cl[2*len(cl)/3], cl[len(cl)-1]}
	}
	return map[string]interface{}{"steps": c.steps, "violations": vs, "distinct_classes": len(cl), "class_samples": sample,
		"per_type": c.perType, "per_codec": c.perCodec}
}

func readBehaviours(path string) [][]Step {
	f, err := os.Open(path)
	must(err)
	defer f.Close()
	sc := bufio.NewScanner(f)
	sc.Buffer(make([]byte, 1<<20), 1<<28)
	var out [][]Step
	for sc.Scan() {
		if len(sc.Bytes()) == 0 {
			continue
		}
		var beh []Step
		if err := json.Unmarshal(sc.Bytes(), &beh); err != nil {
			must(fmt.Errorf("behaviour %d: %v", len(out), err))
		}
		out = append(out, beh)
	}
	return out
}

func cmdReplay(args []string) {
	fs := flag.NewFlagSet("replay", flag.ExitOnError)
	in := fs.String("in", "", "behaviours ndjson (from TLC)")
	out := fs.String("out", "", "result json")
	seed := fs.Int64("seed", 1, "")
	inst := fs.Int("inst", 1, "instantiations (seeds) per behaviour")
	fs.Parse(args)
	behs := readBehaviours(*in)
	c := newCollector()
	for bi, beh := range behs {
		for k := 0; k < *inst; k++ {
			cp := append([]Step{}, beh...)
			if err := c.runOne(cp, *seed*1000+int64(k)); err != nil {
				must(fmt.Errorf("behaviour %d: %v", bi, err))
			}
		}
	}
	c.collisions()
	res := c.result()
	res["behaviours"] = len(behs)
	res["instantiations"] = len(behs) * *inst
	b, _ := json.MarshalIndent(res, "", " ")
	must(os.WriteFile(*out, b, 0o644))
}

// ---------------------------------------------------------------- code -> spec: seeded random paths over
// fully random shapes; one event per step with the observation, validated by spec/CodecTrace.tla.

func wellFormed(t *TypeDef, sh Shape) bool {
	switch t.Name {
	case "WOHeader":
		if sh["fork"] != "pre" && (sh["diffCount"] == A || sh["targets"] == A) {
			return false
		}
		if sh["fork"] == "post" && sh["auxpow"] == A {
			return false
		}
	case "QiTx":
		if sh["nOut"] == Z && (sh["denom"] != T || sh["outLock"] != T) {
			return false
		}
	case "Receipt":
		if sh["logs"] == Z && (sh["logData"] != T || sh["topics"] != T) {
			return false
		}
	}
	return true
}

func cmdRandom(args []string) {
	fs := flag.NewFlagSet("random", flag.ExitOnError)
	seed := fs.Int64("seed", 1, "")
	n := fs.Int("n", 200, "number of traces")
	depth := fs.Int("depth", 6, "max steps per trace")
	out := fs.String("out", "", "trace ndjson")
	only := fs.String("types", "", "comma separated subset")
	fs.Parse(args)
	rnd := rand.New(rand.NewSource(*seed))
	w, err := os.Create(*out)
	must(err)
	bw := bufio.NewWriter(w)
	enc := json.NewEncoder(bw)
	names := registryOrder
	if *only != "" {
		names = strings.Split(*only, ",")
	}
	events := 0
	emit := func(tr int, sd int64, s Step, o Obs) {
		if s.Fields == nil {
			s.Fields = []string{}
		}
		if s.Shape == nil {
			s.Shape = []string{}
		}
		if o.Shape == nil {
			o.Shape = []string{}
		}
		errc := "ok"
		if strings.HasPrefix(o.Err, "PANIC") {
			errc = "panic"
		} else if o.Err != "" {
			errc = "error"
		}
		enc.Encode(map[string]interface{}{"op": s.Op, "type": s.Type, "codec": s.Codec, "loc": s.Loc, "field": s.Field,
			"fields": s.Fields, "shape": s.Shape, "trace": tr, "seed": sd,
			"obs": map[string]interface{}{"err": errc, "shape": o.Shape, "valsEqual": o.ValsEqual, "hashSame": o.HashSame,
				"bytesStable": o.BytesStable, "det": o.Det, "hashChanged": o.HashChanged, "stale": o.Stale, "msg": normErr(o.Err), "badField": o.BadField, "setter": o.Setter}})
		events++
	}
	for tr := 0; tr < *n; tr++ {
		t := registry[names[rnd.Intn(len(names))]]
		var sh Shape
		for {
			sh = Shape{}
			for _, f := range t.Fields {
				sh[f.Name] = f.Dom[rnd.Intn(len(f.Dom))]
				if rnd.Intn(3) == 0 { // bias towards the base so that known defects do not swamp everything
					sh[f.Name] = baseline(t)[f.Name]
				}
			}
			if wellFormed(t, sh) {
				break
			}
		}
		sd := *seed*100000 + int64(tr)
		r := &runner{}
		st := Step{Op: "start", Type: t.Name, Fields: t.fieldNames(), Shape: shapeSeq(t, sh)}
		o, err := r.step(&st, sd)
		must(err)
		emit(tr, sd, st, o)
		if o.Err != "" {
			continue
		}
		inMem := true
		var cur *Codec
		warm := false
		for k := 0; k < *depth; k++ {
			var s Step
			if !inMem {
				s = Step{Op: "dec", Type: t.Name, Codec: cur.Name, Loc: "home"}
				if cur.LocSensitive && rnd.Intn(3) == 0 {
					s.Loc = "other"
				}
			} else {
				x := rnd.Intn(10)
				muts := mutableFields(t, r)
				switch {
				case x < 2 && !warm && t.Hash != nil:
					s = Step{Op: "warm", Type: t.Name}
				case x < 4 && len(muts) > 0:
					s = Step{Op: "mutate", Type: t.Name, Field: muts[rnd.Intn(len(muts))]}
				default:
					cur = t.Codecs[rnd.Intn(len(t.Codecs))]
					s = Step{Op: "enc", Type: t.Name, Codec: cur.Name}
				}
			}
			o, err := r.step(&s, sd)
			must(err)
			if o.Skipped {
				continue
			}
			emit(tr, sd, s, o)
			if k, _ := relKind(s.Op, o); k != "" && k != "hash-changed" && k != "value-changed" {
				break // the trace cannot be continued (error, panic, stale hash)
			}
			switch s.Op {
			case "enc":
				inMem = false
			case "dec":
				inMem, warm = true, false
			case "warm", "mutate":
				warm = true
			}
		}
	}
	bw.Flush()
	w.Close()
	b, _ := json.Marshal(map[string]interface{}{"traces": *n, "events": events})
	fmt.Println(string(b))
}

// mutableFields mirrors the spec's Mutable(type, shape): a field can be mutated while its class is "typ".
var mutable = map[string][]string{
	"QuaiTx":   {"to"},
	"ExtTx":    {"value", "etxType"},
	"Header":   {"bigs", "entropy", "number", "u16", "u8", "u64", "hashes", "extra"},
	"WOHeader": {"number", "difficulty", "data", "lock", "time", "nonce", "hashes"},
}

func mutableFields(t *TypeDef, r *runner) []string {
	var out []string
	for _, f := range mutable[t.Name] {
		for i, fd := range t.Fields {
			if fd.Name == f && r.proj[i].Class == T {
				out = append(out, f)
			}
		}
	}
	return out
}

// cmdExplain: {type, seed, shape, steps, kind, field} -> {"cause": ...}
func cmdExplain(args []string) {
	fs := flag.NewFlagSet("explain", flag.ExitOnError)
	in := fs.String("in", "", "case json")
	fs.Parse(args)
	b, err := os.ReadFile(*in)
	must(err)
	var cases []struct {
		Type  string   `json:"type"`
		Seed  int64    `json:"seed"`
		Shape []string `json:"shape"`
		Steps []Step   `json:"steps"`
		Kind  string   `json:"kind"`
		Field string   `json:"field"`
	}
	must(json.Unmarshal(b, &cases))
	out := make([]string, len(cases))
	memo := map[string]string{}
	for i, c := range cases {
		k := c.Kind + "|" + c.Type + "|" + c.Field + "|" + strings.Join(c.Shape, ",") + "|" + pathKey(c.Steps)
		if m, ok := memo[k]; ok {
			out[i] = m
			continue
		}
		out[i] = cause(registry[c.Type], c.Shape, c.Steps, c.Seed, c.Kind, c.Field)
		memo[k] = out[i]
	}
	ob, _ := json.Marshal(out)
	fmt.Println(string(ob))
}
