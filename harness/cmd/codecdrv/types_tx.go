package main

import (
	"bytes"
	"encoding/json"
	"fmt"
	"math/big"
	"strings"

	"github.com/btcsuite/btcd/btcec/v2"
	"github.com/btcsuite/btcd/btcec/v2/schnorr"
	"github.com/dominant-strategies/go-quai/common"
	"github.com/dominant-strategies/go-quai/core/rawdb"
	"github.com/dominant-strategies/go-quai/core/types"
	"github.com/dominant-strategies/go-quai/crypto"
	"github.com/dominant-strategies/go-quai/rlp"
	"google.golang.org/protobuf/proto"
)

const bigData = 70000 // crosses the 16-bit length boundary of every length prefix

// ------------------------------------------------------------------ shared tx codecs

func txProtoEnc(v interface{}) ([]byte, error) {
	p, err := v.(*types.Transaction).ProtoEncode()
	if err != nil {
		return nil, err
	}
	return proto.Marshal(p)
}
func txProtoDec(b []byte, loc common.Location) (interface{}, error) {
	p := new(types.ProtoTransaction)
	if err := proto.Unmarshal(b, p); err != nil {
		return nil, err
	}
	tx := new(types.Transaction)
	if err := tx.ProtoDecode(p, loc); err != nil {
		return nil, err
	}
	return tx, nil
}

var txCodecs = []*Codec{
	{Name: "proto", Enc: txProtoEnc, Dec: txProtoDec, LocSensitive: true},
	{Name: "rlp", // canonical typed-transaction bytes
		Enc: func(v interface{}) ([]byte, error) { return v.(*types.Transaction).MarshalBinary() },
		Dec: func(b []byte, loc common.Location) (interface{}, error) {
			tx := new(types.Transaction)
			if err := tx.UnmarshalBinary(b); err != nil {
				return nil, err
			}
			return tx, nil
		}},
	{Name: "rlpenv", // RLP string envelope (EncodeRLP / DecodeRLP)
		Enc: func(v interface{}) ([]byte, error) { return rlp.EncodeToBytes(v.(*types.Transaction)) },
		Dec: func(b []byte, loc common.Location) (interface{}, error) {
			tx := new(types.Transaction)
			if err := rlp.DecodeBytes(b, tx); err != nil {
				return nil, err
			}
			return tx, nil
		}},
	{Name: "json",
		Enc: func(v interface{}) ([]byte, error) { return v.(*types.Transaction).MarshalJSON() },
		Dec: func(b []byte, loc common.Location) (interface{}, error) {
			tx := new(types.Transaction)
			if err := tx.UnmarshalJSON(b); err != nil {
				return nil, err
			}
			return tx, nil
		}},
}

func txHash(v interface{}) (string, bool) {
	return v.(*types.Transaction).Hash().Hex(), true
}

func ptrHashPV(h *common.Hash) PV {
	if h == nil {
		return PV{A, ""}
	}
	return PV{T, h.Hex()}
}
func ptrNoncePV(n *types.BlockNonce) PV {
	if n == nil {
		return PV{A, "0"}
	}
	return PV{classU64(n.Uint64(), 64), fmt.Sprint(n.Uint64())}
}
func accessListPV(al types.AccessList) PV {
	var sb strings.Builder
	for _, t := range al {
		sb.WriteString(hx(t.Address.Bytes()))
		sb.WriteByte('[')
		for _, k := range t.StorageKeys {
			sb.WriteString(k.Hex())
			sb.WriteByte(',')
		}
		sb.WriteByte(']')
	}
	c := T
	switch {
	case al == nil:
		c = A
	case len(al) == 0:
		c = Z
	case len(al) >= 3:
		c = M
	}
	return PV{c, sb.String()}
}
func (g *Gen) AccessList(field, class string, loc common.Location) types.AccessList {
	switch class {
	case A:
		return nil
	case Z:
		return types.AccessList{}
	}
	n := 1
	if class == M {
		n = 3
	}
	al := make(types.AccessList, n)
	for i := range al {
		al[i].Address = common.BytesToAddress(g.AddrBytes(field, i, loc, false), loc)
		keys := 2
		if i == 1 {
			keys = 0
		}
		al[i].StorageKeys = make([]common.Hash, keys)
		for k := range al[i].StorageKeys {
			al[i].StorageKeys[k] = g.Hash(field, 100*i+k+1)
		}
	}
	return al
}

func addrPtrPV(a *common.Address) PV {
	if a == nil {
		return PV{A, ""}
	}
	return PV{T, hx(a.Bytes())}
}

// ------------------------------------------------------------------ QuaiTx

func init() {
	register(&TypeDef{
		Name: "QuaiTx",
		Fields: []Field{
			{"to", []string{A, T}}, {"data", []string{A, Z, T, M}}, {"value", []string{Z, T, M}},
			{"gasPrice", []string{Z, T, M}}, {"gas", []string{Z, T, M}}, {"nonce", []string{Z, T, M}},
			{"chainId", []string{Z, T, M}}, {"accessList", []string{Z, T, M}}, {"sig", []string{Z, T}},
			{"parentHash", []string{A, T}}, {"mixHash", []string{A, T}}, {"workNonce", []string{A, Z, T, M}},
		},
		Build: func(sh Shape, g *Gen) interface{} {
			in := &types.QuaiTx{
				ChainID:    g.Big("chainId", sh["chainId"]),
				Nonce:      g.U64("nonce", sh["nonce"], 64),
				GasPrice:   g.Big("gasPrice", sh["gasPrice"]),
				Gas:        g.U64("gas", sh["gas"], 64),
				Value:      g.Big("value", sh["value"]),
				Data:       g.Bytes("data", sh["data"], bigData),
				AccessList: g.AccessList("accessList", sh["accessList"], homeLoc),
				V:          new(big.Int), R: new(big.Int), S: new(big.Int),
			}
			if sh["to"] == T {
				to := common.BytesToAddress(g.AddrBytes("to", 0, homeLoc, false), homeLoc)
				in.To = &to
			}
			if sh["parentHash"] == T {
				h := g.Hash("parentHash", 0)
				in.ParentHash = &h
			}
			if sh["mixHash"] == T {
				h := g.Hash("mixHash", 0)
				in.MixHash = &h
			}
			if sh["workNonce"] != A {
				n := g.Nonce("workNonce", sh["workNonce"])
				in.WorkNonce = &n
			}
			if sh["sig"] == T {
				kb := make([]byte, 32)
				g.rng("key", 0).Read(kb)
				kb[0] &= 0x7f
				kb[31] |= 1
				key, err := crypto.ToECDSA(kb)
				if err != nil {
					panic(err)
				}
				tx, err := types.SignNewTx(key, types.NewSigner(in.ChainID, homeLoc), in)
				if err != nil {
					panic(err)
				}
				return tx
			}
			return types.NewTx(in)
		},
		Project: func(v interface{}) []PV {
			tx := v.(*types.Transaction)
			V, R, S := tx.GetEcdsaSignatureValues()
			sc := T
			if V.Sign() == 0 && R.Sign() == 0 && S.Sign() == 0 {
				sc = Z
			}
			return []PV{
				addrPtrPV(tx.To()),
				{classBytes(tx.Data(), bigData), valBytes(tx.Data())},
				{classBig(tx.Value()), valBig(tx.Value())},
				{classBig(tx.GasPrice()), valBig(tx.GasPrice())},
				{classU64(tx.Gas(), 64), fmt.Sprint(tx.Gas())},
				{classU64(tx.Nonce(), 64), fmt.Sprint(tx.Nonce())},
				{classBig(tx.ChainId()), valBig(tx.ChainId())},
				accessListPV(tx.AccessList()),
				{sc, V.String() + "/" + R.String() + "/" + S.String()},
				ptrHashPV(tx.ParentHash()), ptrHashPV(tx.MixHash()), ptrNoncePV(tx.WorkNonce()),
			}
		},
		Codecs: txCodecs,
		Hash:   txHash,
		Mutate: txMutate,
	})
}

// txMutate changes a consensus field through the public mutators of types.Transaction.
func txMutate(v interface{}, f string, g *Gen) (interface{}, string, bool) {
	tx := v.(*types.Transaction)
	switch f {
	case "value":
		if tx.Type() != types.ExternalTxType {
			return tx, "", false // QuaiTx.setValue / QiTx.setValue panic by design
		}
		nv := new(big.Int).Add(tx.Value(), big.NewInt(12345))
		tx.SetValue(nv)
		return tx, "SetValue", true
	case "to":
		if tx.Type() == types.QiTxType || tx.To() == nil {
			return tx, "", false
		}
		b := append([]byte{}, tx.To().Bytes()...)
		b[10] ^= 0x55 // a different address in the same zone and ledger
		tx.SetTo(common.BytesToAddress(b, homeLoc))
		return tx, "SetTo", true
	case "etxType":
		if tx.Type() != types.ExternalTxType {
			return tx, "", false
		}
		tx.SetEtxType(tx.EtxType() + 1)
		return tx, "SetEtxType", true
	}
	return tx, "", false
}

// ------------------------------------------------------------------ QiTx

func qiKey(g *Gen, i int) *btcec.PrivateKey {
	kb := make([]byte, 32)
	g.rng("qikey", i).Read(kb)
	kb[0] &= 0x7f
	kb[31] |= 1
	k, _ := btcec.PrivKeyFromBytes(kb)
	return k
}

func init() {
	register(&TypeDef{
		Name: "QiTx",
		Fields: []Field{
			{"data", []string{A, Z, T, M}}, {"chainId", []string{Z, T, M}}, {"nIn", []string{T, M}},
			{"inIndex", []string{Z, T, M}}, {"pubkey", []string{T, M}}, {"nOut", []string{Z, T, M}},
			{"denom", []string{Z, T, M}}, {"outLock", []string{A, Z, T, M}}, {"sig", []string{Z, T}},
			{"parentHash", []string{A, T}}, {"mixHash", []string{A, T}}, {"workNonce", []string{A, Z, T, M}},
		},
		Build: func(sh Shape, g *Gen) interface{} {
			in := &types.QiTx{ChainID: g.Big("chainId", sh["chainId"]), Data: g.Bytes("data", sh["data"], bigData)}
			nIn := 1
			if sh["nIn"] == M {
				nIn = 4
			}
			for i := 0; i < nIn; i++ {
				k := qiKey(g, i)
				pk := k.PubKey().SerializeCompressed()
				if sh["pubkey"] == M {
					pk = k.PubKey().SerializeUncompressed()
				}
				h := g.Hash("inHash", i)
				in.TxIn = append(in.TxIn, types.TxIn{PreviousOutPoint: types.OutPoint{TxHash: h, Index: uint16(g.U64("inIndex", sh["inIndex"], 16))}, PubKey: pk})
			}
			nOut := map[string]int{Z: 0, T: 2, M: 5}[sh["nOut"]]
			for i := 0; i < nOut; i++ {
				d := uint8(g.U64("denom", sh["denom"], 8))
				if sh["denom"] == T {
					d = uint8(1 + (int(d)+i)%13)
				}
				in.TxOut = append(in.TxOut, types.TxOut{Denomination: d, Address: g.AddrBytes("outAddr", i, homeLoc, true), Lock: g.Big("outLock", sh["outLock"])})
			}
			if sh["parentHash"] == T {
				h := g.Hash("parentHash", 0)
				in.ParentHash = &h
			}
			if sh["mixHash"] == T {
				h := g.Hash("mixHash", 0)
				in.MixHash = &h
			}
			if sh["workNonce"] != A {
				n := g.Nonce("workNonce", sh["workNonce"])
				in.WorkNonce = &n
			}
			if sh["sig"] == T {
				msg := g.Hash("sigmsg", 0)
				sig, err := schnorr.Sign(qiKey(g, 0), msg[:])
				if err != nil {
					panic(err)
				}
				in.Signature = sig
			}
			return types.NewTx(in)
		},
		Project: func(v interface{}) []PV {
			tx := v.(*types.Transaction)
			var ins, idx, pks, outs, den, locks strings.Builder
			pkc := T
			for _, i := range tx.TxIn() {
				ins.WriteString(i.PreviousOutPoint.TxHash.Hex() + ",")
				idx.WriteString(fmt.Sprint(i.PreviousOutPoint.Index) + ",")
				// the public key is compared in compressed form: compression is the wire normal form
				pk := i.PubKey
				if len(pk) == 65 {
					pkc = M
					if p, err := btcec.ParsePubKey(pk); err == nil {
						pk = p.SerializeCompressed()
					}
				}
				pks.WriteString(hx(pk) + ",")
			}
			lockC, denC, idxC := T, T, T
			for _, o := range tx.TxOut() {
				outs.WriteString(hx(o.Address) + ",")
				den.WriteString(fmt.Sprint(o.Denomination) + ",")
				locks.WriteString(valBig(o.Lock) + ",")
				lockC = classBig(o.Lock)
				denC = classU64(uint64(o.Denomination), 8)
			}
			if len(tx.TxIn()) > 0 {
				idxC = classU64(uint64(tx.TxIn()[0].PreviousOutPoint.Index), 16)
			}
			sig := tx.GetSchnorrSignature()
			sc, sv := Z, ""
			if sig != nil {
				sv = hx(sig.Serialize())
				if strings.Trim(sv, "0") != "" {
					sc = T
				}
			}
			nInC := T
			if len(tx.TxIn()) >= 4 {
				nInC = M
			}
			nOutC := map[bool]string{true: Z, false: T}[len(tx.TxOut()) == 0]
			if len(tx.TxOut()) >= 5 {
				nOutC = M
			}
			return []PV{
				{classBytes(tx.Data(), bigData), valBytes(tx.Data())},
				{classBig(tx.ChainId()), valBig(tx.ChainId())},
				{nInC, ins.String()}, {idxC, idx.String()}, {pkc, pks.String()},
				{nOutC, outs.String()}, {denC, den.String()}, {lockC, locks.String()},
				{sc, sv},
				ptrHashPV(tx.ParentHash()), ptrHashPV(tx.MixHash()), ptrNoncePV(tx.WorkNonce()),
			}
		},
		Codecs: txCodecs,
		Hash:   txHash,
		Mutate: func(v interface{}, f string, g *Gen) (interface{}, string, bool) { return v, "", false },
	})
}

// ------------------------------------------------------------------ ExternalTx

func buildEtx(sh Shape, g *Gen) *types.Transaction {
	toQi := sh["toLedger"] == M
	to := common.BytesToAddress(g.AddrBytes("to", 0, homeLoc, toQi), homeLoc)
	in := &types.ExternalTx{
		OriginatingTxHash: g.Hash("origin", 0),
		ETXIndex:          uint16(g.U64("etxIndex", sh["etxIndex"], 16)),
		Gas:               g.U64("gas", sh["gas"], 64),
		To:                &to,
		Value:             g.Big("value", sh["value"]),
		Data:              g.Bytes("data", sh["data"], bigData),
		AccessList:        g.AccessList("accessList", sh["accessList"], homeLoc),
		EtxType:           map[string]uint64{Z: 0, T: 2, M: 6}[sh["etxType"]],
	}
	if sh["sender"] == T {
		in.Sender = common.BytesToAddress(g.AddrBytes("sender", 0, otherLoc, false), homeLoc)
	} else if sh["sender"] == M {
		in.Sender = common.BytesToAddress(g.AddrBytes("sender", 0, otherLoc, true), homeLoc)
	} else {
		in.Sender = common.BytesToAddress(make([]byte, 20), homeLoc)
	}
	return types.NewTx(in)
}

var etxFields = []Field{
	{"data", []string{A, Z, T, M}}, {"value", []string{Z, T, M}}, {"gas", []string{Z, T, M}},
	{"accessList", []string{Z, T, M}}, {"etxIndex", []string{Z, T, M}}, {"etxType", []string{Z, T, M}},
	{"toLedger", []string{T, M}}, {"sender", []string{Z, T, M}},
}

func projectEtx(tx *types.Transaction) []PV {
	tl := T
	if tx.To() != nil && tx.To().IsInQiLedgerScope() {
		tl = M
	}
	sb := tx.ETXSender().Bytes()
	sc := T
	if len(bytes.Trim(sb, "\x00")) == 0 {
		sc = Z
	} else if len(sb) > 1 && sb[1] > 127 {
		sc = M
	}
	et := map[uint64]string{0: Z, 6: M}[tx.EtxType()]
	if et == "" {
		et = T
	}
	return []PV{
		{classBytes(tx.Data(), bigData), valBytes(tx.Data())},
		{classBig(tx.Value()), valBig(tx.Value())},
		{classU64(tx.Gas(), 64), fmt.Sprint(tx.Gas())},
		accessListPV(tx.AccessList()),
		{classU64(uint64(tx.ETXIndex()), 16), fmt.Sprint(tx.ETXIndex())},
		{et, fmt.Sprint(tx.EtxType())},
		{tl, hx(tx.To().Bytes()) + "|" + tx.OriginatingTxHash().Hex()},
		{sc, hx(sb)},
	}
}

func init() {
	codecs := append([]*Codec{}, txCodecs...)
	codecs = append(codecs, &Codec{Name: "db", // rawdb inbound-ETX record (a list with one element)
		Enc: func(v interface{}) ([]byte, error) {
			db := newMemDB()
			rawdb.WriteInboundEtxs(db, common.Hash{1}, types.Transactions{v.(*types.Transaction)})
			return dumpDB(db), nil
		},
		Dec: func(b []byte, loc common.Location) (interface{}, error) {
			db, err := loadDB(b)
			if err != nil {
				return nil, err
			}
			txs := rawdb.ReadInboundEtxs(db, common.Hash{1})
			if len(txs) != 1 {
				return nil, fmt.Errorf("ReadInboundEtxs returned %d transactions", len(txs))
			}
			return txs[0], nil
		}})
	register(&TypeDef{
		Name:    "ExtTx",
		Fields:  etxFields,
		Build:   func(sh Shape, g *Gen) interface{} { return buildEtx(sh, g) },
		Project: func(v interface{}) []PV { return projectEtx(v.(*types.Transaction)) },
		Codecs:  codecs,
		Hash:    txHash,
		Mutate:  txMutate,
	})
}

var _ = json.Marshal
