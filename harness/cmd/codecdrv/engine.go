package main

import (
	"bytes"
	"fmt"
	"regexp"
	"sort"
	"strings"

	"github.com/dominant-strategies/go-quai/common"
	"github.com/dominant-strategies/go-quai/core/types"
)

// Step is one record of a behaviour: emitted by TLC (spec -> code, with the specified outcome in Exp and
// Shape) or chosen by the driver (code -> spec, the observation is then logged for spec/CodecTrace.tla).
type Step struct {
	Op     string   `json:"op"` // start | enc | dec | warm | mutate
	Type   string   `json:"type"`
	Codec  string   `json:"codec"`
	Loc    string   `json:"loc"` // home | other (decode only)
	Field  string   `json:"field"`
	Fields []string `json:"fields"` // start: field names in spec order
	Shape  []string `json:"shape"`  // start: initial shape; dec: shape specified after decoding
	HKey   []string `json:"hkey"`   // start: the spec's hash key of the shape
	Exp    *Exp     `json:"exp,omitempty"`
}

type Exp struct {
	Ok          bool `json:"ok"`
	HashSame    bool `json:"hashSame"`
	BytesStable bool `json:"bytesStable"`
	Det         bool `json:"det"`
	HashChanged bool `json:"hashChanged"`
}

// Obs is what the real code did at one step.
type Obs struct {
	Err         string   `json:"err"` // "" | "error: ..." | "PANIC: ..."
	Shape       []string `json:"shape"`
	ValsEqual   bool     `json:"valsEqual"`
	BadField    string   `json:"badField"`
	HashSame    bool     `json:"hashSame"`
	BytesStable bool     `json:"bytesStable"`
	Det         bool     `json:"det"`
	HashChanged bool     `json:"hashChanged"`
	Stale       bool     `json:"stale"`
	Setter      string   `json:"setter"`
	Skipped     bool     `json:"skipped"`
}

func shapeFrom(t *TypeDef, vals []string) Shape {
	sh := Shape{}
	for i, f := range t.Fields {
		sh[f.Name] = vals[i]
	}
	return sh
}
func shapeSeq(t *TypeDef, sh Shape) []string {
	out := make([]string, len(t.Fields))
	for i, f := range t.Fields {
		out[i] = sh[f.Name]
	}
	return out
}

func classesOf(p []PV) []string {
	out := make([]string, len(p))
	for i := range p {
		out[i] = p[i].Class
	}
	return out
}

// cold returns an equal object whose memoised hashes are empty.
func cold(v interface{}) interface{} {
	switch x := v.(type) {
	case *types.Transaction:
		return types.NewTx(x.Inner())
	case *types.Header:
		return types.CopyHeader(x)
	case *types.WorkObjectHeader:
		return types.CopyWorkObjectHeader(x)
	}
	return v
}

func errStr(err error) string {
	if err == nil {
		return ""
	}
	s := err.Error()
	if strings.HasPrefix(s, "PANIC: ") {
		return s
	}
	return "error: " + s
}

func locOf(name string) common.Location {
	if name == "other" {
		return otherLoc
	}
	return homeLoc
}

// run executes one behaviour on the real code.  It stops at the first step that cannot be continued.
type runner struct {
	t     *TypeDef
	g     *Gen
	obj   interface{}
	proj  []PV
	href  string
	wire  []byte
	codec *Codec
}

func (r *runner) hash(v interface{}) (h string, err error) {
	if r.t.Hash == nil {
		return "", nil
	}
	err = guard(func() error { h, _ = r.t.Hash(v); return nil })
	return
}

func (r *runner) start(t *TypeDef, sh Shape, seed int64) (Obs, error) {
	r.t = t
	r.g = &Gen{Seed: seed, Type: t.Name}
	var twin interface{}
	if err := guard(func() error { r.obj = t.Build(sh, r.g); twin = t.Build(sh, r.g); return nil }); err != nil {
		return Obs{}, fmt.Errorf("build %s %v: %v", t.Name, sh, err)
	}
	if err := guard(func() error { r.proj = t.Project(r.obj); return nil }); err != nil {
		return Obs{}, fmt.Errorf("project %s %v: %v", t.Name, sh, err)
	}
	got := classesOf(r.proj)
	for i, f := range t.Fields {
		if got[i] != sh[f.Name] {
			return Obs{}, fmt.Errorf("driver cannot instantiate %s.%s=%s (classified %s)", t.Name, f.Name, sh[f.Name], got[i])
		}
	}
	h, err := r.hash(twin) // the twin keeps the object itself cold
	if err != nil {
		return Obs{Err: errStr(err)}, nil
	}
	r.href = h
	return Obs{Shape: got, ValsEqual: true, HashSame: true, BytesStable: true, Det: true}, nil
}

func (r *runner) enc(c *Codec) Obs {
	r.codec = c
	var b1, b2 []byte
	err := guard(func() (e error) { b1, e = c.Enc(r.obj); return })
	if err != nil {
		return Obs{Err: errStr(err)}
	}
	err = guard(func() (e error) { b2, e = c.Enc(r.obj); return })
	if err != nil {
		return Obs{Err: errStr(err)}
	}
	r.wire = b1
	return Obs{Det: bytes.Equal(b1, b2), ValsEqual: true, HashSame: true, BytesStable: true}
}

func (r *runner) dec(c *Codec, loc common.Location) Obs {
	var d1, d2 interface{}
	err := guard(func() (e error) { d1, e = c.Dec(r.wire, loc); return })
	if err != nil {
		return Obs{Err: errStr(err)}
	}
	guard(func() (e error) { d2, e = c.Dec(r.wire, loc); return })
	var p []PV
	if err := guard(func() error { p = r.t.Project(d1); return nil }); err != nil {
		return Obs{Err: errStr(err)}
	}
	o := Obs{Shape: classesOf(p), ValsEqual: true, Det: true}
	for i := range p {
		if p[i].Class == r.proj[i].Class && p[i].Val != r.proj[i].Val {
			o.ValsEqual = false
			o.BadField = r.t.Fields[i].Name
			break
		}
	}
	h, err := r.hash(d1)
	if err != nil {
		return Obs{Err: errStr(err)}
	}
	o.HashSame = h == r.href
	var b2 []byte
	if err := guard(func() (e error) { b2, e = c.Enc(d1); return }); err != nil {
		o.BytesStable = false
		o.Err = "re-encode " + errStr(err)
	} else {
		o.BytesStable = bytes.Equal(b2, r.wire)
	}
	if d2 != nil {
		r.obj = d2 // continue with an instance nobody has hashed yet
	} else {
		r.obj = d1
	}
	r.proj = p
	return o
}

func (r *runner) warm() Obs {
	_, err := r.hash(r.obj)
	return Obs{Err: errStr(err), ValsEqual: true, HashSame: true, BytesStable: true, Det: true}
}

func (r *runner) mutate(f string) Obs {
	if r.t.Mutate == nil {
		return Obs{Skipped: true}
	}
	var setter string
	var ok bool
	err := guard(func() error { r.obj, setter, ok = r.t.Mutate(r.obj, f, r.g); return nil })
	if err != nil {
		return Obs{Err: errStr(err)}
	}
	if !ok {
		return Obs{Skipped: true}
	}
	hNow, err := r.hash(r.obj)
	if err != nil {
		return Obs{Err: errStr(err)}
	}
	hTrue, err := r.hash(cold(r.obj))
	if err != nil {
		return Obs{Err: errStr(err)}
	}
	o := Obs{Setter: setter, HashChanged: hNow != r.href, Stale: hNow != hTrue, ValsEqual: true, HashSame: true, BytesStable: true, Det: true}
	r.href = hTrue
	guard(func() error { r.proj = r.t.Project(r.obj); return nil })
	return o
}

func (r *runner) step(s *Step, seed int64) (Obs, error) {
	switch s.Op {
	case "start":
		t := registry[s.Type]
		if t == nil {
			return Obs{}, fmt.Errorf("unknown type %q", s.Type)
		}
		if s.Fields != nil && strings.Join(s.Fields, ",") != strings.Join(t.fieldNames(), ",") {
			return Obs{}, fmt.Errorf("field table drift for %s: spec %v driver %v", s.Type, s.Fields, t.fieldNames())
		}
		return r.start(t, shapeFrom(t, s.Shape), seed)
	case "enc":
		c := r.t.codec(s.Codec)
		if c == nil {
			return Obs{}, fmt.Errorf("unknown codec %s/%s", r.t.Name, s.Codec)
		}
		return r.enc(c), nil
	case "dec":
		c := r.t.codec(s.Codec)
		if c == nil || r.wire == nil {
			return Obs{}, fmt.Errorf("decode without encode %s/%s", r.t.Name, s.Codec)
		}
		return r.dec(c, locOf(s.Loc)), nil
	case "warm":
		return r.warm(), nil
	case "mutate":
		return r.mutate(s.Field), nil
	}
	return Obs{}, fmt.Errorf("unknown op %q", s.Op)
}

// ---------------------------------------------------------------- violations

type Violation struct {
	Kind   string   `json:"kind"`
	Type   string   `json:"type"`
	Codec  string   `json:"codec"`
	Field  string   `json:"field"`
	Cause  string   `json:"cause"`
	Err    string   `json:"err"`
	Seed   int64    `json:"seed"`
	Shape  []string `json:"shape"`
	Steps  []Step   `json:"steps"`
	Detail string   `json:"detail"`
}

var hexRun = regexp.MustCompile(`0x[0-9a-fA-F]+|\\b[0-9a-f]{16,}\\b`)

func normErr(e string) string {
	// strip concrete values so that the message is a class
	s := hexRun.ReplaceAllString(e, "0x..")
	if len(s) > 90 {
		s = s[:90]
	}
	return s
}

// relKind classifies an observation without any knowledge of the spec's tables ("relative" oracles).
func relKind(op string, o Obs) (kind, field string) {
	switch {
	case strings.HasPrefix(o.Err, "PANIC"):
		return op + "-panic", ""
	case strings.HasPrefix(o.Err, "re-encode"):
		return "reencode-error", ""
	case o.Err != "":
		return op + "-error", ""
	}
	switch op {
	case "enc":
		if !o.Det {
			return "nondeterministic-encode", ""
		}
	case "dec":
		if !o.ValsEqual {
			return "value-changed", o.BadField
		}
		if !o.HashSame {
			return "hash-changed", ""
		}
	case "mutate":
		if o.Stale {
			return "stale-hash", o.Setter
		}
	}
	return "", ""
}

// cause minimises the start shape towards the type's base shape while the same relative violation kind
// persists at the same step; it returns the remaining deviations ("field=value,...") or "base".
func cause(t *TypeDef, start []string, steps []Step, seed int64, kind, field string) string {
	base := baseline(t)
	cur := append([]string{}, start...)
	fails := func(shape []string) bool {
		r := &runner{}
		st := Step{Op: "start", Type: t.Name, Shape: shape}
		if _, err := r.step(&st, seed); err != nil {
			return false
		}
		for i := 1; i < len(steps); i++ {
			s := steps[i]
			o, err := r.step(&s, seed)
			if err != nil {
				return false
			}
			k, f := relKind(s.Op, o)
			if i == len(steps)-1 {
				return k == kind && f == field
			}
			if k != "" {
				return false
			}
		}
		return false
	}
	// a decode/encode failure rarely depends on what happened earlier on the path: minimise on the shortest
	// path that still shows it (start, encode, [decode]) so that unrelated steps do not leak into the cause
	full := steps
	last := steps[len(steps)-1]
	switch last.Op {
	case "dec":
		steps = []Step{steps[0], {Op: "enc", Type: t.Name, Codec: last.Codec}, last}
	case "enc":
		steps = []Step{steps[0], last}
	}
	if !fails(cur) {
		steps = full
		if !fails(cur) {
			return "unreproducible"
		}
	}
	for i, f := range t.Fields {
		if cur[i] == base[f.Name] {
			continue
		}
		old := cur[i]
		cur[i] = base[f.Name]
		if !fails(cur) {
			cur[i] = old
		}
	}
	var parts []string
	for i, f := range t.Fields {
		if cur[i] != base[f.Name] {
			parts = append(parts, f.Name+"="+cur[i])
		}
	}
	if len(parts) == 0 {
		return "base"
	}
	sort.Strings(parts)
	return strings.Join(parts, ",")
}
