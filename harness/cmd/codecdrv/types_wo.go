package main

import (
	"encoding/json"
	"errors"
	"fmt"
	"math/big"
	"strings"

	"github.com/dominant-strategies/go-quai/common"
	"github.com/dominant-strategies/go-quai/core/rawdb"
	"github.com/dominant-strategies/go-quai/core/types"
	"github.com/dominant-strategies/go-quai/ethdb"
	"github.com/dominant-strategies/go-quai/p2p/pb"
	"google.golang.org/protobuf/proto"
)

// locDB gives a memory database the node location a disk database would carry.
type locDB struct {
	ethdb.Database
	loc common.Location
}

func (d locDB) Location() common.Location { return d.loc }

// ------------------------------------------------------------------ WorkObject (all views)

var woFields = []Field{
	{"hfork", []string{"pre", "post"}}, {"txs", []string{A, Z, T, M}}, {"etxs", []string{A, Z, T}}, {"uncles", []string{A, Z, T}},
	{"manifest", []string{A, Z, T}}, {"interlink", []string{A, Z, T}}, {"tx", []string{A, T}},
}

func woHeaderShapeFor(fork string) Shape {
	sh := baseline(registry["WOHeader"])
	sh["fork"] = fork
	if fork == "pre" {
		sh["auxpow"], sh["diffCount"], sh["targets"] = A, A, A
	} else {
		sh["auxpow"], sh["diffCount"], sh["targets"] = "kawpow", T, T
	}
	return sh
}

// someTx builds the i-th body transaction of an instantiation (memoised: signing dominates the run time,
// and body transactions are only ever compared by hash).
var someTxMemo = map[string]*types.Transaction{}

func someTx(g *Gen, i int) *types.Transaction {
	key := fmt.Sprintf("%d|%s|%d", g.Seed, g.Type, i)
	if tx, ok := someTxMemo[key]; ok {
		return tx
	}
	tx := someTxBuild(g, i)
	if len(someTxMemo) > 200000 {
		someTxMemo = map[string]*types.Transaction{}
	}
	someTxMemo[key] = tx
	return tx
}

func someTxBuild(g *Gen, i int) *types.Transaction {
	sub := &Gen{Seed: g.Seed*1000 + int64(i), Type: g.Type + "/tx"}
	switch i % 3 {
	case 0:
		sh := baseline(registry["QuaiTx"])
		sh["workNonce"] = Z
		return registry["QuaiTx"].Build(sh, sub).(*types.Transaction)
	case 1:
		sh := baseline(registry["QiTx"])
		sh["parentHash"], sh["mixHash"], sh["workNonce"] = A, A, A
		return registry["QiTx"].Build(sh, sub).(*types.Transaction)
	}
	return buildEtx(baseline(registry["ExtTx"]), sub)
}

func buildWO(sh Shape, g *Gen) *types.WorkObject {
	wh := buildWoHeader(woHeaderShapeFor(sh["hfork"]), g, "")
	body := &types.WorkObjectBody{}
	body.SetHeader(buildHeader(baseline(registry["Header"]), g))
	nTx := map[string]int{A: -1, Z: 0, T: 3, M: 40}[sh["txs"]]
	if nTx >= 0 {
		txs := make([]*types.Transaction, nTx)
		for i := range txs {
			txs[i] = someTx(g, i)
		}
		body.SetTransactions(txs)
	}
	switch sh["etxs"] {
	case Z:
		body.SetOutboundEtxs([]*types.Transaction{})
	case T:
		body.SetOutboundEtxs([]*types.Transaction{someTx(g, 2), someTx(g, 5)})
	}
	switch sh["uncles"] {
	case Z:
		body.SetUncles([]*types.WorkObjectHeader{})
	case T:
		body.SetUncles([]*types.WorkObjectHeader{
			buildWoHeader(woHeaderShapeFor(sh["hfork"]), g, "u0."),
			buildWoHeader(woHeaderShapeFor("pre"), g, "u1."),
		})
	}
	switch sh["manifest"] {
	case Z:
		body.SetManifest(types.BlockManifest{})
	case T:
		body.SetManifest(types.BlockManifest{g.Hash("manifest", 0), g.Hash("manifest", 1)})
	}
	switch sh["interlink"] {
	case Z:
		body.SetInterlinkHashes(common.Hashes{})
	case T:
		body.SetInterlinkHashes(common.Hashes{g.Hash("interlink", 0), g.Hash("interlink", 1), g.Hash("interlink", 2)})
	}
	var tx *types.Transaction
	if sh["tx"] == T {
		tx = someTx(g, 3)
	}
	return types.NewWorkObject(wh, body, tx)
}

func txListPV(txs []*types.Transaction, isNil bool, big int) PV {
	var sb strings.Builder
	for _, tx := range txs {
		if tx == nil {
			sb.WriteString("nil,")
			continue
		}
		sb.WriteString(tx.Hash().Hex() + ",")
	}
	c := T
	switch {
	case isNil:
		c = A
	case len(txs) == 0:
		c = Z
	case len(txs) >= big:
		c = M
	}
	return PV{c, sb.String()}
}

func pvString(ps []PV) string {
	var sb strings.Builder
	for _, p := range ps {
		sb.WriteString(p.Class + ":" + p.Val + ";")
	}
	return sb.String()
}

func projectWO(wo *types.WorkObject) []PV {
	if wo == nil || wo.WorkObjectHeader() == nil {
		out := make([]PV, len(woFields))
		for i := range out {
			out[i] = PV{A, "nil-wo"}
		}
		return out
	}
	hf := forkOf(wo.WorkObjectHeader().PrimeTerminusNumber())
	if hf == "fork" {
		hf = "post"
	}
	hv := pvString(projectWoHeader(wo.WorkObjectHeader()))
	body := wo.Body()
	if body == nil {
		return []PV{{hf, hv + "|nobody"}, {A, ""}, {A, ""}, {A, ""}, {A, ""}, {A, ""}, {A, ""}}
	}
	hv += "|" + pvString(projectHeader(body.Header()))
	var uv, mv, iv strings.Builder
	for _, u := range body.Uncles() {
		uv.WriteString(pvString(projectWoHeader(u)) + "#")
	}
	for _, m := range body.Manifest() {
		mv.WriteString(m.Hex())
	}
	for _, m := range body.InterlinkHashes() {
		iv.WriteString(m.Hex())
	}
	lc := func(isNil bool, n int) string {
		if isNil {
			return A
		}
		if n == 0 {
			return Z
		}
		return T
	}
	txc, txv := A, ""
	if wo.Tx() != nil && wo.Tx().Inner() != nil {
		txc, txv = T, wo.Tx().Hash().Hex()
	}
	return []PV{
		{hf, hv},
		txListPV(body.Transactions(), body.Transactions() == nil, 40),
		txListPV(body.OutboundEtxs(), body.OutboundEtxs() == nil, 1000),
		{lc(body.Uncles() == nil, len(body.Uncles())), uv.String()},
		{lc(body.Manifest() == nil, len(body.Manifest())), mv.String()},
		{lc(body.InterlinkHashes() == nil, len(body.InterlinkHashes())), iv.String()},
		{txc, txv},
	}
}

func woProtoCodec(name string, view types.WorkObjectView, decView types.WorkObjectView) *Codec {
	return &Codec{Name: name, LocSensitive: true,
		Enc: func(v interface{}) ([]byte, error) {
			p, err := v.(*types.WorkObject).ProtoEncode(view)
			if err != nil {
				return nil, err
			}
			return proto.Marshal(p)
		},
		Dec: func(b []byte, loc common.Location) (interface{}, error) {
			p := new(types.ProtoWorkObject)
			if err := proto.Unmarshal(b, p); err != nil {
				return nil, err
			}
			wo := new(types.WorkObject)
			if err := wo.ProtoDecode(p, loc, decView); err != nil {
				return nil, err
			}
			return wo, nil
		}}
}

// gossip: pb.ConvertAndMarshal / pb.UnmarshalAndConvert (the pubsub worker path)
func gossipCodec(name string, wrap func(*types.WorkObject) interface{}, dt interface{}, unwrap func(interface{}) *types.WorkObject) *Codec {
	return &Codec{Name: name, LocSensitive: true,
		Enc: func(v interface{}) ([]byte, error) { return pb.ConvertAndMarshal(wrap(v.(*types.WorkObject))) },
		Dec: func(b []byte, loc common.Location) (interface{}, error) {
			var out interface{}
			if err := pb.UnmarshalAndConvert(b, loc, &out, dt); err != nil {
				return nil, err
			}
			return unwrap(out), nil
		}}
}

// p2p response frame: pb.EncodeQuaiResponse -> pb.DecodeQuaiMessage -> pb.DecodeQuaiResponse
func p2pRespDecode(b []byte) (uint32, interface{}, error) {
	msg, err := pb.DecodeQuaiMessage(b)
	if err != nil {
		return 0, nil, err
	}
	resp := msg.GetResponse()
	if resp == nil {
		return 0, nil, errors.New("not a response frame")
	}
	return pb.DecodeQuaiResponse(resp)
}

func hashOfWO(v interface{}) (string, bool) {
	wo := v.(*types.WorkObject)
	h := wo.Hash().Hex()
	if wo.Body() != nil && wo.Body().Header() != nil {
		h += "|" + wo.Body().Header().Hash().Hex()
	}
	return h, true
}

func woMutate(v interface{}, f string, g *Gen) (interface{}, string, bool) {
	wo := v.(*types.WorkObject)
	if f != "hfork" {
		return wo, "", false
	}
	wo.WorkObjectHeader().SetTime(wo.WorkObjectHeader().Time() ^ 1)
	return wo, "WorkObjectHeader.SetTime", true
}

func init() {
	blockView := func(wo *types.WorkObject) interface{} { return wo.ConvertToBlockView() }
	common0 := func(name string, codecs []*Codec) {
		register(&TypeDef{
			Name:    name,
			Fields:  woFields,
			Build:   func(sh Shape, g *Gen) interface{} { return buildWO(sh, g) },
			Project: func(v interface{}) []PV { return projectWO(v.(*types.WorkObject)) },
			Codecs:  codecs,
			Hash:    hashOfWO,
			Mutate:  woMutate,
		})
	}
	common0("WOBlock", []*Codec{
		woProtoCodec("proto", types.BlockObject, types.BlockObject),
		gossipCodec("gossip", blockView, &types.WorkObjectBlockView{}, func(x interface{}) *types.WorkObject { return x.(types.WorkObjectBlockView).WorkObject }),
		{Name: "p2p", LocSensitive: false,
			Enc: func(v interface{}) ([]byte, error) {
				return pb.EncodeQuaiResponse(77, homeLoc, &types.WorkObjectBlockView{}, v.(*types.WorkObject).ConvertToBlockView())
			},
			Dec: func(b []byte, loc common.Location) (interface{}, error) {
				id, x, err := p2pRespDecode(b)
				if err != nil {
					return nil, err
				}
				if id != 77 {
					return nil, fmt.Errorf("response id %d", id)
				}
				return x.(*types.WorkObjectBlockView).WorkObject, nil
			}},
		{Name: "p2plist",
			Enc: func(v interface{}) ([]byte, error) {
				bv := v.(*types.WorkObject).ConvertToBlockView()
				return pb.EncodeQuaiResponse(78, homeLoc, []*types.WorkObjectBlockView{}, []*types.WorkObjectBlockView{bv, bv})
			},
			Dec: func(b []byte, loc common.Location) (interface{}, error) {
				_, x, err := p2pRespDecode(b)
				if err != nil {
					return nil, err
				}
				l := x.([]*types.WorkObjectBlockView)
				if len(l) != 2 {
					return nil, fmt.Errorf("blocks response has %d elements", len(l))
				}
				if l[0].Hash() != l[1].Hash() {
					return nil, fmt.Errorf("blocks response elements differ")
				}
				return l[1].WorkObject, nil
			}},
		{Name: "db", LocSensitive: true, // rawdb.WriteWorkObject / ReadWorkObject
			Enc: func(v interface{}) ([]byte, error) {
				wo := v.(*types.WorkObject)
				db := newMemDB()
				rawdb.WriteWorkObject(db, wo.Hash(), wo, types.BlockObject, common.ZONE_CTX)
				return dumpDB(db), nil
			},
			Dec: func(b []byte, loc common.Location) (interface{}, error) {
				db, err := loadDB(b)
				if err != nil {
					return nil, err
				}
				// the key holds hash and number: recover them from the header-number index
				keys, vals := dbRecords(b)
				var hash common.Hash
				var num uint64
				found := false
				for i, k := range keys {
					if len(k) == 1+32 && k[0] == 'H' && len(vals[i]) == 8 {
						copy(hash[:], k[1:])
						num = new(big.Int).SetBytes(vals[i]).Uint64()
						found = true
					}
				}
				if !found {
					return nil, errors.New("no header-number record")
				}
				wo := rawdb.ReadWorkObject(locDB{db, loc}, num, hash, types.BlockObject)
				if wo == nil {
					return nil, errors.New("ReadWorkObject returned nil")
				}
				return wo, nil
			}},
		{Name: "rpcjson", // server side RPCMarshalWorkObject, client side UnmarshalJSON
			Enc: func(v interface{}) ([]byte, error) {
				return json.Marshal(v.(*types.WorkObject).RPCMarshalWorkObject("v2"))
			},
			Dec: func(b []byte, loc common.Location) (interface{}, error) {
				wo := new(types.WorkObject)
				if err := json.Unmarshal(b, wo); err != nil {
					return nil, err
				}
				return wo, nil
			}},
	})
	common0("WOHeaderView", []*Codec{
		woProtoCodec("proto", types.HeaderObject, types.HeaderObject),
		gossipCodec("gossip", func(wo *types.WorkObject) interface{} { return &types.WorkObjectHeaderView{WorkObject: wo} }, &types.WorkObjectHeaderView{},
			func(x interface{}) *types.WorkObject { return x.(types.WorkObjectHeaderView).WorkObject }),
		{Name: "p2p",
			Enc: func(v interface{}) ([]byte, error) {
				return pb.EncodeQuaiResponse(79, homeLoc, &types.WorkObjectHeaderView{}, &types.WorkObjectHeaderView{WorkObject: v.(*types.WorkObject)})
			},
			Dec: func(b []byte, loc common.Location) (interface{}, error) {
				_, x, err := p2pRespDecode(b)
				if err != nil {
					return nil, err
				}
				return x.(*types.WorkObjectHeaderView).WorkObject, nil
			}},
		{Name: "convert", // ConvertToHeaderView then wire
			Enc: func(v interface{}) ([]byte, error) {
				return pb.ConvertAndMarshal(v.(*types.WorkObject).ConvertToHeaderView())
			},
			Dec: func(b []byte, loc common.Location) (interface{}, error) {
				var out interface{}
				if err := pb.UnmarshalAndConvert(b, loc, &out, &types.WorkObjectHeaderView{}); err != nil {
					return nil, err
				}
				return out.(types.WorkObjectHeaderView).WorkObject, nil
			}},
	})
	common0("WOPEtx", []*Codec{woProtoCodec("proto", types.PEtxObject, types.PEtxObject)})
	common0("WOShare", []*Codec{
		woProtoCodec("proto", types.WorkShareTxObject, types.WorkShareTxObject),
		gossipCodec("gossip", func(wo *types.WorkObject) interface{} { return &types.WorkObjectShareView{WorkObject: wo} }, &types.WorkObjectShareView{},
			func(x interface{}) *types.WorkObject { return x.(types.WorkObjectShareView).WorkObject }),
		{Name: "convert", // ConvertToWorkObjectShareView(txs) then wire
			Enc: func(v interface{}) ([]byte, error) {
				wo := v.(*types.WorkObject)
				return pb.ConvertAndMarshal(wo.ConvertToWorkObjectShareView(wo.Transactions()))
			},
			Dec: func(b []byte, loc common.Location) (interface{}, error) {
				var out interface{}
				if err := pb.UnmarshalAndConvert(b, loc, &out, &types.WorkObjectShareView{}); err != nil {
					return nil, err
				}
				return out.(types.WorkObjectShareView).WorkObject, nil
			}},
	})
	common0("WOWorkShare", []*Codec{woProtoCodec("proto", types.BlockObject, types.WorkShareObject)})
}

// ------------------------------------------------------------------ PendingEtxs / PendingEtxsRollup

func init() {
	fields := []Field{{"hfork", []string{"pre", "post"}}, {"etxs", []string{Z, T, M}}}
	build := func(sh Shape, g *Gen) (*types.WorkObject, types.Transactions) {
		wo := buildWO(Shape{"hfork": sh["hfork"], "txs": T, "etxs": T, "uncles": Z, "manifest": Z, "interlink": Z, "tx": A}, g)
		n := map[string]int{Z: 0, T: 2, M: 30}[sh["etxs"]]
		etxs := make(types.Transactions, n)
		for i := range etxs {
			etxs[i] = someTx(g, 3*i+2)
		}
		return wo, etxs
	}
	proj := func(h *types.WorkObject, etxs types.Transactions) []PV {
		if h == nil {
			return []PV{{A, "nil"}, {A, ""}}
		}
		p := projectWO(h)
		return []PV{{p[0].Class, p[0].Val}, txListPV(etxs, false, 30)}
	}
	register(&TypeDef{
		Name: "PendingEtxs", Fields: fields,
		Build: func(sh Shape, g *Gen) interface{} {
			h, e := build(sh, g)
			return &types.PendingEtxs{Header: h, OutboundEtxs: e}
		},
		Project: func(v interface{}) []PV { p := v.(*types.PendingEtxs); return proj(p.Header, p.OutboundEtxs) },
		Hash:    func(v interface{}) (string, bool) { return hashOfWO(v.(*types.PendingEtxs).Header) },
		Codecs: []*Codec{
			{Name: "proto", LocSensitive: true,
				Enc: func(v interface{}) ([]byte, error) {
					p, err := v.(*types.PendingEtxs).ProtoEncode()
					if err != nil {
						return nil, err
					}
					return proto.Marshal(p)
				},
				Dec: func(b []byte, loc common.Location) (interface{}, error) {
					p := new(types.ProtoPendingEtxs)
					if err := proto.Unmarshal(b, p); err != nil {
						return nil, err
					}
					x := new(types.PendingEtxs)
					if err := x.ProtoDecode(p, loc); err != nil {
						return nil, err
					}
					return x, nil
				}},
			{Name: "db", LocSensitive: true,
				Enc: func(v interface{}) ([]byte, error) {
					db := newMemDB()
					rawdb.WritePendingEtxs(db, *v.(*types.PendingEtxs))
					return dumpDB(db), nil
				},
				Dec: func(b []byte, loc common.Location) (interface{}, error) {
					db, err := loadDB(b)
					if err != nil {
						return nil, err
					}
					keys, _ := dbRecords(b)
					if len(keys) != 1 || len(keys[0]) < 32 {
						return nil, errors.New("unexpected pending-etxs records")
					}
					x := rawdb.ReadPendingEtxs(locDB{db, loc}, common.BytesToHash(keys[0][len(keys[0])-32:]))
					if x == nil {
						return nil, errors.New("ReadPendingEtxs returned nil")
					}
					return x, nil
				}},
		},
	})
	register(&TypeDef{
		Name: "PendingEtxsRollup", Fields: fields,
		Build: func(sh Shape, g *Gen) interface{} {
			h, e := build(sh, g)
			return &types.PendingEtxsRollup{Header: h, EtxsRollup: e}
		},
		Project: func(v interface{}) []PV { p := v.(*types.PendingEtxsRollup); return proj(p.Header, p.EtxsRollup) },
		Hash:    func(v interface{}) (string, bool) { return hashOfWO(v.(*types.PendingEtxsRollup).Header) },
		Codecs: []*Codec{
			{Name: "proto", LocSensitive: true,
				Enc: func(v interface{}) ([]byte, error) {
					p, err := v.(*types.PendingEtxsRollup).ProtoEncode()
					if err != nil {
						return nil, err
					}
					return proto.Marshal(p)
				},
				Dec: func(b []byte, loc common.Location) (interface{}, error) {
					p := new(types.ProtoPendingEtxsRollup)
					if err := proto.Unmarshal(b, p); err != nil {
						return nil, err
					}
					x := new(types.PendingEtxsRollup)
					if err := x.ProtoDecode(p, loc); err != nil {
						return nil, err
					}
					return x, nil
				}},
			{Name: "db", LocSensitive: true,
				Enc: func(v interface{}) ([]byte, error) {
					db := newMemDB()
					rawdb.WritePendingEtxsRollup(db, *v.(*types.PendingEtxsRollup))
					return dumpDB(db), nil
				},
				Dec: func(b []byte, loc common.Location) (interface{}, error) {
					db, err := loadDB(b)
					if err != nil {
						return nil, err
					}
					keys, _ := dbRecords(b)
					if len(keys) != 1 || len(keys[0]) < 32 {
						return nil, errors.New("unexpected rollup records")
					}
					x := rawdb.ReadPendingEtxsRollup(locDB{db, loc}, common.BytesToHash(keys[0][len(keys[0])-32:]))
					if x == nil {
						return nil, errors.New("ReadPendingEtxsRollup returned nil")
					}
					return x, nil
				}},
		},
	})
}
