// Value generation and classification shared by every object type of the codec driver.
//
// A *shape* assigns to every optional / width-sensitive field of a type one abstract value
// ("absent", "zero", "typ", "max", or an enumerated tag such as "kawpow").  The driver instantiates a
// shape with concrete values derived deterministically from (seed, type, field, class), so that two
// shapes instantiated with the same seed agree on every field they give the same class.
package main

import (
	"crypto/sha256"
	"encoding/binary"
	"encoding/hex"
	"fmt"
	"math/big"
	"math/rand"

	"github.com/dominant-strategies/go-quai/common"
	"github.com/dominant-strategies/go-quai/core/types"
)

const (
	A = "absent"
	Z = "zero"
	T = "typ"
	M = "max"
)

type Shape map[string]string

// Gen derives all concrete values of one instantiation.
type Gen struct {
	Seed int64
	Type string
}

func (g *Gen) rng(field string, salt int) *rand.Rand {
	h := sha256.Sum256([]byte(fmt.Sprintf("%d|%s|%s|%d", g.Seed, g.Type, field, salt)))
	return rand.New(rand.NewSource(int64(binary.BigEndian.Uint64(h[:8]))))
}

var big256max = new(big.Int).Sub(new(big.Int).Lsh(big.NewInt(1), 256), big.NewInt(1))

// Big returns nil / 0 / a 1..200-bit value / 2^256-1.
func (g *Gen) Big(field, class string) *big.Int {
	switch class {
	case A:
		return nil
	case Z:
		return new(big.Int)
	case M:
		return new(big.Int).Set(big256max)
	}
	r := g.rng(field, 0)
	n := 1 + r.Intn(25)
	b := make([]byte, n)
	r.Read(b)
	if b[0] == 0 {
		b[0] = 1
	}
	return new(big.Int).SetBytes(b)
}

func classBig(x *big.Int) string {
	switch {
	case x == nil:
		return A
	case x.Sign() == 0:
		return Z
	case x.BitLen() >= 256:
		return M
	}
	return T
}
func valBig(x *big.Int) string {
	if x == nil {
		return "0"
	}
	return x.String()
}

// U64 returns 0 / typical (never 0, never max, and > 2^32 with probability 1/2) / max of the width.
func (g *Gen) U64(field, class string, bits uint) uint64 {
	max := uint64(1)<<bits - 1
	if bits == 64 {
		max = ^uint64(0)
	}
	switch class {
	case Z, A:
		return 0
	case M:
		return max
	}
	r := g.rng(field, 0)
	v := r.Uint64()
	if bits < 64 {
		v %= max
	}
	if bits == 64 && r.Intn(2) == 0 {
		v >>= 34
	}
	if v == 0 || v == max {
		v = 1 + max/3
	}
	return v
}

func classU64(v uint64, bits uint) string {
	max := uint64(1)<<bits - 1
	if bits == 64 {
		max = ^uint64(0)
	}
	switch v {
	case 0:
		return Z
	case max:
		return M
	}
	return T
}

// Bytes returns nil / empty / 1..40 bytes / maxLen bytes.
func (g *Gen) Bytes(field, class string, maxLen int) []byte {
	switch class {
	case A:
		return nil
	case Z:
		return []byte{}
	}
	r := g.rng(field, 0)
	n := 1 + r.Intn(40)
	if class == M {
		n = maxLen
	}
	b := make([]byte, n)
	r.Read(b)
	return b
}

func classBytes(b []byte, maxLen int) string {
	switch {
	case b == nil:
		return A
	case len(b) == 0:
		return Z
	case len(b) >= maxLen:
		return M
	}
	return T
}
func valBytes(b []byte) string { return hex.EncodeToString(b) }

func (g *Gen) Hash(field string, salt int) common.Hash {
	var h common.Hash
	g.rng(field, salt).Read(h[:])
	if h == (common.Hash{}) {
		h[31] = 1
	}
	return h
}

// HashC: zero hash for Z, random otherwise.
func (g *Gen) HashC(field, class string, salt int) common.Hash {
	if class == Z || class == A {
		return common.Hash{}
	}
	if class == M {
		var h common.Hash
		for i := range h {
			h[i] = 0xff
		}
		return h
	}
	return g.Hash(field, salt)
}
func classHash(h common.Hash) string {
	if h == (common.Hash{}) {
		return Z
	}
	for _, b := range h {
		if b != 0xff {
			return T
		}
	}
	return M
}

// AddrBytes returns 20 address bytes inside location loc; qi selects the Qi ledger (2nd byte > 127).
func (g *Gen) AddrBytes(field string, salt int, loc common.Location, qi bool) []byte {
	b := make([]byte, 20)
	g.rng(field, salt).Read(b)
	if len(loc) == 2 {
		b[0] = loc.BytePrefix()
	}
	if qi {
		b[1] |= 0x80
	} else {
		b[1] &= 0x7f
	}
	b[19] |= 1
	return b
}

var (
	homeLoc  = common.Location{0, 0}
	otherLoc = common.Location{1, 2}
)

func (g *Gen) Nonce(field, class string) types.BlockNonce {
	return types.EncodeNonce(g.U64(field, class, 64))
}

func hx(b []byte) string { return hex.EncodeToString(b) }
