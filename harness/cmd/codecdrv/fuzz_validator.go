//go:build overlay

package main

import (
	"fmt"
	"math/big"
	"time"

	"github.com/dominant-strategies/go-quai/common"
	"github.com/dominant-strategies/go-quai/consensus"
	"github.com/dominant-strategies/go-quai/consensus/blake3pow"
	"github.com/dominant-strategies/go-quai/core"
	"github.com/dominant-strategies/go-quai/core/rawdb"
	"github.com/dominant-strategies/go-quai/core/types"
	"github.com/dominant-strategies/go-quai/core/vm"
	"github.com/dominant-strategies/go-quai/log"
	"github.com/dominant-strategies/go-quai/p2p/node/pubsubManager"
	"github.com/dominant-strategies/go-quai/params"
	"google.golang.org/protobuf/proto"
)

// bootCore starts a real core.Core (genesis only) for one chain of the hierarchy.
func bootCore(loc common.Location) (*core.Core, common.Hash) {
	logger := log.Global
	db := rawdb.NewMemoryDatabase(logger)
	cc := *params.Blake3PowLocalChainConfig
	cc.Location = loc
	g := core.Genesis{Nonce: 66, GasLimit: 5000000, Difficulty: big.NewInt(16), Config: &cc}
	_, h, err := core.SetupGenesisBlockWithOverride(db, &g, 66, nil, loc, 0, logger)
	if err != nil {
		panic(err)
	}
	cc.DefaultGenesisHash = h
	pow := params.PowConfig{PowMode: params.ModeNormal, DurationLimit: big.NewInt(5), GasCeil: 5000000, MinDifficulty: big.NewInt(16), NodeLocation: loc, WorkShareThreshold: 3}
	eng := []consensus.Engine{blake3pow.New(pow, nil, false, logger)}
	minerCfg := &core.Config{ExtraData: []byte("verif"), GasCeil: 5000000, Recommit: time.Hour}
	txc := core.DefaultTxPoolConfig
	txc.Journal = ""
	c, err := core.NewCore(db, minerCfg, pow, &txc, nil, &cc, []common.Location{{0, 0}}, 0, nil, eng, nil, vm.Config{}, &g, logger)
	if err != nil {
		panic(err)
	}
	return c, h
}

// setupValidator registers the entry points that need a running core: the production gossip validator
// (PubsubManager.ValidatorFunc, exposed by the overlay file) on a zone node, and the sanity checks of
// region and prime nodes.
func setupValidator() {
	zone, gh := bootCore(common.Location{0, 0})
	validate := pubsubManager.VerifNewValidator(zone, gh)
	for _, x := range []struct {
		name string
		dt   interface{}
	}{{"block", &types.WorkObjectBlockView{}}, {"header", &types.WorkObjectHeaderView{}}, {"share", &types.WorkObjectShareView{}}, {"auxtemplate", &types.AuxTemplate{}}} {
		topic, err := pubsubManager.VerifTopic(gh, common.Location{0, 0}, x.dt)
		if err != nil {
			panic(err)
		}
		carr := []string{"gossip-" + x.name}
		switch x.name {
		case "share":
			carr = append(carr, "gossip-share-scrypt", "gossip-share-btc", "gossip-share-consistent")
		case "block", "header":
			carr = append(carr, "gossip-"+x.name+"-consistent")
		}
		entries = append(entries, &entry{Name: "gossip-validator-" + x.name, Carriers: carr, Reach: "peer-validator",
			Run: func(b []byte) error {
				if r := validate(topic, b); r != 0 { // pubsub.ValidationAccept == 0
					return fmt.Errorf("validation result %d", r)
				}
				return nil
			}})
	}
	region, _ := bootCore(common.Location{0})
	prime, _ := bootCore(common.Location{})
	for _, x := range []struct {
		name string
		c    *core.Core
		loc  common.Location
	}{{"region", region, common.Location{0}}, {"prime", prime, common.Location{}}} {
		c, loc := x.c, x.loc
		entries = append(entries, &entry{Name: "sanitycheck-" + x.name, Carriers: []string{"gossip-block", "gossip-header", "gossip-block-consistent", "gossip-header-consistent"}, Reach: "peer-validator",
			Run: func(b []byte) error {
				p := new(types.ProtoWorkObjectBlockView)
				if err := proto.Unmarshal(b, p); err != nil {
					return err
				}
				bv := &types.WorkObjectBlockView{WorkObject: &types.WorkObject{}}
				if err := bv.ProtoDecode(p, loc); err != nil {
					return err
				}
				e1 := c.SanityCheckWorkObjectBlockViewBody(bv.WorkObject)
				e2 := c.SanityCheckWorkObjectHeaderViewBody(bv.WorkObject)
				c.SanityCheckWorkObjectShareViewBody(bv.WorkObject)
				if e1 != nil {
					return e1
				}
				return e2
			}})
	}
}
