package main

import (
	"bytes"
	"encoding/binary"
	"encoding/json"
	"fmt"
	"math/big"
	"strings"

	"github.com/dominant-strategies/go-quai/common"
	"github.com/dominant-strategies/go-quai/core/types"
	"github.com/dominant-strategies/go-quai/params"
	"google.golang.org/protobuf/proto"
)

// ------------------------------------------------------------------ Header

var headerFields = []Field{
	{"extra", []string{Z, T, M}}, {"bigs", []string{Z, T, M}}, {"entropy", []string{Z, T, M}},
	{"number", []string{Z, T, M}}, {"u16", []string{Z, T, M}}, {"u8", []string{Z, T, M}},
	{"u64", []string{Z, T, M}}, {"hashes", []string{Z, T, M}},
}

func buildHeader(sh Shape, g *Gen) *types.Header {
	h := types.EmptyHeader()
	h.SetExtra(g.Bytes("extra", sh["extra"], bigData))
	bc := sh["bigs"]
	h.SetQuaiStateSize(g.Big("quaiStateSize", bc))
	h.SetUncledEntropy(g.Big("uncledEntropy", bc))
	h.SetBaseFee(g.Big("baseFee", bc))
	h.SetExchangeRate(g.Big("exchangeRate", bc))
	h.SetAvgTxFees(g.Big("avgTxFees", bc))
	h.SetTotalFees(g.Big("totalFees", bc))
	h.SetKQuaiDiscount(g.Big("kQuaiDiscount", bc))
	h.SetConversionFlowAmount(g.Big("conversionFlowAmount", bc))
	h.SetMinerDifficulty(g.Big("minerDifficulty", bc))
	for i := 0; i < common.HierarchyDepth; i++ {
		h.SetParentEntropy(g.Big(fmt.Sprint("parentEntropy", i), sh["entropy"]), i)
		h.SetParentDeltaEntropy(g.Big(fmt.Sprint("parentDeltaEntropy", i), sh["entropy"]), i)
		h.SetParentUncledDeltaEntropy(g.Big(fmt.Sprint("parentUncledDeltaEntropy", i), sh["entropy"]), i)
		h.SetManifestHash(g.HashC("manifestHash", sh["hashes"], i), i)
	}
	for i := 0; i < common.HierarchyDepth-1; i++ {
		n := g.Big(fmt.Sprint("number", i), sh["number"])
		if sh["number"] == M {
			n = new(big.Int).SetUint64(^uint64(0))
		}
		h.SetNumber(n, i)
		h.SetParentHash(g.HashC("parentHash", sh["hashes"], i), i)
	}
	h.SetEfficiencyScore(uint16(g.U64("efficiencyScore", sh["u16"], 16)))
	h.SetThresholdCount(uint16(g.U64("thresholdCount", sh["u16"], 16)))
	h.SetExpansionNumber(uint8(g.U64("expansionNumber", sh["u8"], 8)))
	h.SetGasLimit(g.U64("gasLimit", sh["u64"], 64))
	h.SetGasUsed(g.U64("gasUsed", sh["u64"], 64))
	h.SetStateLimit(g.U64("stateLimit", sh["u64"], 64))
	h.SetStateUsed(g.U64("stateUsed", sh["u64"], 64))
	hc := sh["hashes"]
	h.SetUncleHash(g.HashC("uncleHash", hc, 0))
	h.SetEVMRoot(g.HashC("evmRoot", hc, 0))
	h.SetUTXORoot(g.HashC("utxoRoot", hc, 0))
	h.SetTxHash(g.HashC("txHash", hc, 0))
	h.SetOutboundEtxHash(g.HashC("outboundEtxHash", hc, 0))
	h.SetEtxSetRoot(g.HashC("etxSetRoot", hc, 0))
	h.SetEtxRollupHash(g.HashC("etxRollupHash", hc, 0))
	h.SetReceiptHash(g.HashC("receiptHash", hc, 0))
	h.SetEtxEligibleSlices(g.HashC("etxEligibleSlices", hc, 0))
	h.SetPrimeTerminusHash(g.HashC("primeTerminusHash", hc, 0))
	h.SetInterlinkRootHash(g.HashC("interlinkRootHash", hc, 0))
	h.SetPrimeStateRoot(g.HashC("primeStateRoot", hc, 0))
	h.SetRegionStateRoot(g.HashC("regionStateRoot", hc, 0))
	return h
}

func projectHeader(h *types.Header) []PV {
	if h == nil {
		out := make([]PV, len(headerFields))
		for i := range out {
			out[i] = PV{A, "nil-header"}
		}
		return out
	}
	bigs := []*big.Int{h.QuaiStateSize(), h.UncledEntropy(), h.BaseFee(), h.ExchangeRate(), h.AvgTxFees(), h.TotalFees(), h.KQuaiDiscount(), h.ConversionFlowAmount(), h.MinerDifficulty()}
	var bv, ev, nv, hv strings.Builder
	for _, b := range bigs {
		bv.WriteString(valBig(b) + ",")
	}
	ec, nc := "", ""
	for i := 0; i < common.HierarchyDepth; i++ {
		for _, b := range []*big.Int{h.ParentEntropy(i), h.ParentDeltaEntropy(i), h.ParentUncledDeltaEntropy(i)} {
			ev.WriteString(valBig(b) + ",")
		}
		hv.WriteString(h.ManifestHash(i).Hex())
		ec = classBig(h.ParentEntropy(i))
	}
	for i := 0; i < common.HierarchyDepth-1; i++ {
		nv.WriteString(valBig(h.Number(i)) + ",")
		hv.WriteString(h.ParentHash(i).Hex())
		nc = classBig(h.Number(i))
		if h.Number(i) != nil && h.Number(i).IsUint64() && h.Number(i).Uint64() == ^uint64(0) {
			nc = M
		}
	}
	for _, x := range []common.Hash{h.UncleHash(), h.EVMRoot(), h.UTXORoot(), h.TxHash(), h.OutboundEtxHash(), h.EtxSetRoot(), h.EtxRollupHash(), h.ReceiptHash(), h.EtxEligibleSlices(), h.PrimeTerminusHash(), h.InterlinkRootHash(), h.PrimeStateRoot(), h.RegionStateRoot()} {
		hv.WriteString(x.Hex())
	}
	return []PV{
		{classBytes(h.Extra(), bigData), valBytes(h.Extra())},
		{classBig(h.QuaiStateSize()), bv.String()},
		{ec, ev.String()},
		{nc, nv.String()},
		{classU64(uint64(h.EfficiencyScore()), 16), fmt.Sprint(h.EfficiencyScore(), ",", h.ThresholdCount())},
		{classU64(uint64(h.ExpansionNumber()), 8), fmt.Sprint(h.ExpansionNumber())},
		{classU64(h.GasLimit(), 64), fmt.Sprint(h.GasLimit(), ",", h.GasUsed(), ",", h.StateLimit(), ",", h.StateUsed())},
		{classHash(h.UncleHash()), hv.String()},
	}
}

// Header.Extra() returns a copy (never nil for an empty slice?) -- classification uses what the getter yields.

func headerMutate(v interface{}, f string, g *Gen) (interface{}, string, bool) {
	h := v.(*types.Header)
	switch f {
	case "extra":
		h.SetExtra(append(h.Extra(), 0x5a))
		return h, "SetExtra", true
	case "bigs":
		h.SetBaseFee(new(big.Int).Add(h.BaseFee(), big.NewInt(1)))
		return h, "SetBaseFee", true
	case "entropy":
		h.SetParentDeltaEntropy(new(big.Int).Add(h.ParentDeltaEntropy(1), big.NewInt(1)), 1)
		return h, "SetParentDeltaEntropy", true
	case "number":
		h.SetNumber(new(big.Int).Add(h.Number(0), big.NewInt(1)), 0)
		return h, "SetNumber", true
	case "u16":
		h.SetThresholdCount(h.ThresholdCount() ^ 1)
		return h, "SetThresholdCount", true
	case "u8":
		h.SetExpansionNumber(h.ExpansionNumber() ^ 1)
		return h, "SetExpansionNumber", true
	case "u64":
		h.SetGasUsed(h.GasUsed() ^ 1)
		return h, "SetGasUsed", true
	case "hashes":
		x := h.EtxSetRoot()
		x[5] ^= 1
		h.SetEtxSetRoot(x)
		return h, "SetEtxSetRoot", true
	}
	return h, "", false
}

func init() {
	register(&TypeDef{
		Name:    "Header",
		Fields:  headerFields,
		Build:   func(sh Shape, g *Gen) interface{} { return buildHeader(sh, g) },
		Project: func(v interface{}) []PV { return projectHeader(v.(*types.Header)) },
		Codecs: []*Codec{
			{Name: "proto", LocSensitive: true,
				Enc: func(v interface{}) ([]byte, error) {
					p, err := v.(*types.Header).ProtoEncode()
					if err != nil {
						return nil, err
					}
					return proto.Marshal(p)
				},
				Dec: func(b []byte, loc common.Location) (interface{}, error) {
					p := new(types.ProtoHeader)
					if err := proto.Unmarshal(b, p); err != nil {
						return nil, err
					}
					h := new(types.Header)
					if err := h.ProtoDecode(p, loc); err != nil {
						return nil, err
					}
					return h, nil
				}},
			{Name: "rpcjson", // server side RPCMarshalHeader, client side UnmarshalJSON
				Enc: func(v interface{}) ([]byte, error) { return json.Marshal(v.(*types.Header).RPCMarshalHeader()) },
				Dec: func(b []byte, loc common.Location) (interface{}, error) {
					h := new(types.Header)
					if err := json.Unmarshal(b, h); err != nil {
						return nil, err
					}
					return h, nil
				}},
		},
		Hash:   func(v interface{}) (string, bool) { return v.(*types.Header).Hash().Hex(), true },
		Mutate: headerMutate,
	})
}

// ------------------------------------------------------------------ AuxPow (donor-chain proof)

var auxFields = []Field{
	{"chain", []string{"kawpow", "btc", "bch", "scrypt"}}, {"auxSig", []string{A, Z, T}},
	{"branch", []string{Z, T, M}}, {"auxpow2", []string{A, Z, T}}, {"coinbase", []string{Z, T}},
}

var powIDs = map[string]types.PowID{"kawpow": types.Kawpow, "btc": types.SHA_BTC, "bch": types.SHA_BCH, "scrypt": types.Scrypt}

func powName(id types.PowID) string {
	for k, v := range powIDs {
		if v == id {
			return k
		}
	}
	return fmt.Sprint("pow", uint32(id))
}

func buildAuxPow(sh Shape, g *Gen, pfx string) *types.AuxPow {
	id := powIDs[sh[pfx+"chain"]]
	prev, root := g.Hash(pfx+"prev", 0), g.Hash(pfx+"root", 0)
	r := g.rng(pfx+"hdr", 0)
	hdr := types.NewBlockHeader(id, int32(0x20000000|r.Intn(1<<16)), prev, root, 1700000000+uint32(r.Intn(1<<20)), 0x1d00ffff, uint32(r.Uint32()), uint32(100000+r.Intn(1<<20)))
	if id == types.Kawpow {
		hdr.SetNonce64(r.Uint64())
		hdr.SetMixHash(g.Hash(pfx+"mix", 0))
	} else {
		// New{Bitcoin,BitcoinCash,Litecoin}BlockHeader ignore their time argument and stamp time.Now():
		// pin the timestamp (bytes 68..71 of the 80-byte header) so that instantiation is deterministic
		raw := hdr.Bytes()
		binary.LittleEndian.PutUint32(raw[68:72], 1700000000+uint32(r.Intn(1<<20)))
		var inner types.AuxHeaderData
		switch id {
		case types.SHA_BTC:
			inner = &types.BitcoinHeaderWrapper{}
		case types.SHA_BCH:
			inner = &types.BitcoinCashHeaderWrapper{}
		default:
			inner = &types.LitecoinHeaderWrapper{}
		}
		if err := inner.Deserialize(bytes.NewReader(raw)); err != nil {
			panic(err)
		}
		hdr = types.NewAuxPowHeader(inner)
	}
	var branch [][]byte
	switch sh[pfx+"branch"] {
	case Z:
		branch = [][]byte{}
	case T:
		branch = [][]byte{g.Hash(pfx+"br", 0).Bytes(), g.Hash(pfx+"br", 1).Bytes()}
	case M:
		for i := 0; i < 12; i++ {
			branch = append(branch, g.Hash(pfx+"br", i).Bytes())
		}
	}
	var cb []byte
	if sh[pfx+"coinbase"] == T {
		out := append([]byte{0x76, 0xa9, 0x14}, g.AddrBytes(pfx+"cbout", 0, homeLoc, false)...)
		out = append(out, 0x88, 0xac)
		cb = types.NewAuxPowCoinbaseTx(id, 100000+uint32(r.Intn(1<<20)), out, g.Hash(pfx+"seal", 0), 1700000000)
	} else {
		cb = []byte{}
	}
	var a2 []byte
	switch sh[pfx+"auxpow2"] {
	case Z:
		a2 = []byte{}
	case T:
		a2 = g.Hash(pfx+"a2", 0).Bytes()
	}
	return types.NewAuxPow(id, hdr, a2, g.Bytes(pfx+"auxSig", sh[pfx+"auxSig"], 200), branch, cb)
}

func projectAuxPow(ap *types.AuxPow) []PV {
	if ap == nil {
		return []PV{{A, ""}, {A, ""}, {A, ""}, {A, ""}, {A, ""}}
	}
	var bv strings.Builder
	for _, b := range ap.MerkleBranch() {
		bv.WriteString(hx(b) + ",")
	}
	bc := T
	if len(ap.MerkleBranch()) == 0 {
		bc = Z
	} else if len(ap.MerkleBranch()) >= 12 {
		bc = M
	}
	hb := ""
	if ap.Header() != nil {
		hb = hx(ap.Header().Bytes())
	}
	cc := T
	if len(ap.Transaction()) == 0 {
		cc = Z
	}
	return []PV{
		{powName(ap.PowID()), hb},
		{classBytes(ap.Signature(), 200), valBytes(ap.Signature())},
		{bc, bv.String()},
		{classBytes(ap.AuxPow2(), 1000), valBytes(ap.AuxPow2())},
		{cc, valBytes(ap.Transaction())},
	}
}

func init() {
	register(&TypeDef{
		Name:    "AuxPow",
		Fields:  auxFields,
		Build:   func(sh Shape, g *Gen) interface{} { return buildAuxPow(sh, g, "") },
		Project: func(v interface{}) []PV { return projectAuxPow(v.(*types.AuxPow)) },
		Codecs: []*Codec{
			{Name: "proto",
				Enc: func(v interface{}) ([]byte, error) { return proto.Marshal(v.(*types.AuxPow).ProtoEncode()) },
				Dec: func(b []byte, loc common.Location) (interface{}, error) {
					p := new(types.ProtoAuxPow)
					if err := proto.Unmarshal(b, p); err != nil {
						return nil, err
					}
					ap := new(types.AuxPow)
					if err := ap.ProtoDecode(p); err != nil {
						return nil, err
					}
					return ap, nil
				}},
			{Name: "rpcjson",
				Enc: func(v interface{}) ([]byte, error) { return json.Marshal(v.(*types.AuxPow).RPCMarshal()) },
				Dec: func(b []byte, loc common.Location) (interface{}, error) {
					ap := new(types.AuxPow)
					if err := ap.UnmarshalJSON(b); err != nil {
						return nil, err
					}
					return ap, nil
				}},
		},
	})
}

// ------------------------------------------------------------------ WorkObjectHeader

// fork: "pre" = prime terminus below the KawPow fork, "fork" = exactly at it, "post" = after the
// transition period.  The sha/scrypt/kawpow fields and the AuxPow exist on the wire only from the fork on.
var woHeaderFields = []Field{
	{"fork", []string{"pre", "fork", "post"}}, {"number", []string{Z, T, M}}, {"difficulty", []string{Z, T, M}},
	{"data", []string{A, Z, T, M}}, {"lock", []string{Z, T, M}}, {"time", []string{Z, T, M}}, {"nonce", []string{Z, T, M}},
	{"location", []string{Z, T, M}}, {"coinbase", []string{Z, T, M}}, {"hashes", []string{Z, T}},
	{"auxpow", []string{A, "kawpow", "btc", "scrypt"}}, {"diffCount", []string{A, Z, T, M}}, {"targets", []string{A, Z, T, M}},
}

func primeTerminusFor(fork string, g *Gen) *big.Int {
	switch fork {
	case "pre":
		return new(big.Int).SetUint64(1 + g.rng("ptn", 0).Uint64()%(params.KawPowForkBlock-1))
	case "fork":
		return new(big.Int).SetUint64(params.KawPowForkBlock)
	}
	return new(big.Int).SetUint64(params.KawPowForkBlock + params.KawPowTransitionPeriod + 1 + g.rng("ptn", 1).Uint64()%100000)
}

func buildWoHeader(sh Shape, g *Gen, pfx string) *types.WorkObjectHeader {
	wh := &types.WorkObjectHeader{}
	hc := sh["hashes"]
	wh.SetHeaderHash(g.HashC(pfx+"headerHash", hc, 0))
	wh.SetParentHash(g.HashC(pfx+"parentHash", hc, 0))
	wh.SetTxHash(g.HashC(pfx+"txHash", hc, 0))
	wh.SetMixHash(g.HashC(pfx+"mixHash", hc, 0))
	n := g.Big(pfx+"number", sh["number"])
	if sh["number"] == M {
		n = new(big.Int).SetUint64(^uint64(0))
	}
	wh.SetNumber(n)
	wh.SetDifficulty(g.Big(pfx+"difficulty", sh["difficulty"]))
	wh.SetPrimeTerminusNumber(primeTerminusFor(sh["fork"], g))
	wh.SetData(g.Bytes(pfx+"data", sh["data"], bigData))
	wh.SetLock(uint8(g.U64(pfx+"lock", sh["lock"], 8)))
	wh.SetTime(g.U64(pfx+"time", sh["time"], 64))
	wh.SetNonce(g.Nonce(pfx+"nonce", sh["nonce"]))
	loc := homeLoc
	switch sh["location"] {
	case Z:
		loc = common.Location{}
	case M:
		loc = common.Location{15, 15}
	}
	wh.SetLocation(loc)
	switch sh["coinbase"] {
	case Z:
		wh.SetPrimaryCoinbase(common.BytesToAddress(make([]byte, 20), homeLoc))
	case T:
		wh.SetPrimaryCoinbase(common.BytesToAddress(g.AddrBytes(pfx+"coinbase", 0, homeLoc, false), homeLoc))
	case M:
		wh.SetPrimaryCoinbase(common.BytesToAddress(g.AddrBytes(pfx+"coinbase", 0, homeLoc, true), homeLoc))
	}
	if a := sh["auxpow"]; a != A {
		ash := Shape{"chain": a, "auxSig": T, "branch": T, "auxpow2": Z, "coinbase": T}
		if a == "scrypt" {
			ash["auxpow2"] = T
		}
		wh.SetAuxPow(buildAuxPow(ash, &Gen{Seed: g.Seed, Type: g.Type + "/" + pfx + "auxpow"}, ""))
	}
	if c := sh["diffCount"]; c != A {
		wh.SetShaDiffAndCount(types.NewPowShareDiffAndCount(g.Big(pfx+"shaD", c), g.Big(pfx+"shaC", c), g.Big(pfx+"shaU", c)))
		wh.SetScryptDiffAndCount(types.NewPowShareDiffAndCount(g.Big(pfx+"scrD", c), g.Big(pfx+"scrC", c), g.Big(pfx+"scrU", c)))
	}
	if c := sh["targets"]; c != A {
		wh.SetShaShareTarget(g.Big(pfx+"shaT", c))
		wh.SetScryptShareTarget(g.Big(pfx+"scrT", c))
		wh.SetKawpowDifficulty(g.Big(pfx+"kawD", c))
	}
	return wh
}

func forkOf(ptn *big.Int) string {
	if ptn == nil {
		return "nil"
	}
	switch {
	case ptn.Uint64() < params.KawPowForkBlock:
		return "pre"
	case ptn.Uint64() == params.KawPowForkBlock:
		return "fork"
	}
	return "post"
}

func diffCountPV(a, b *types.PowShareDiffAndCount) PV {
	if a == nil || b == nil {
		return PV{A, fmt.Sprint(a == nil, b == nil)}
	}
	if a.Difficulty() == nil || a.Count() == nil || a.Uncled() == nil {
		return PV{A, "partial"}
	}
	v := ""
	for _, x := range []*types.PowShareDiffAndCount{a, b} {
		v += valBig(x.Difficulty()) + "," + valBig(x.Count()) + "," + valBig(x.Uncled()) + ";"
	}
	return PV{classBig(a.Difficulty()), v}
}

func projectWoHeader(wh *types.WorkObjectHeader) []PV {
	if wh == nil {
		out := make([]PV, len(woHeaderFields))
		for i := range out {
			out[i] = PV{A, "nil-woheader"}
		}
		return out
	}
	nc := classBig(wh.Number())
	if wh.Number() != nil && wh.Number().IsUint64() && wh.Number().Uint64() == ^uint64(0) {
		nc = M
	}
	lc := T
	switch {
	case len(wh.Location()) == 0:
		lc = Z
	case len(wh.Location()) == 2 && wh.Location()[0] == 15:
		lc = M
	}
	cb := wh.PrimaryCoinbase().Bytes()
	cc := T
	if strings.Trim(hx(cb), "0") == "" {
		cc = Z
	} else if len(cb) > 1 && cb[1] > 127 {
		cc = M
	}
	ap := projectAuxPow(wh.AuxPow())
	apv := ""
	for _, p := range ap {
		apv += p.Class + ":" + p.Val + ";"
	}
	tc := classBig(wh.ShaShareTarget())
	return []PV{
		{forkOf(wh.PrimeTerminusNumber()), valBig(wh.PrimeTerminusNumber())},
		{nc, valBig(wh.Number())},
		{classBig(wh.Difficulty()), valBig(wh.Difficulty())},
		{classBytes(wh.Data(), bigData), valBytes(wh.Data())},
		{classU64(uint64(wh.Lock()), 8), fmt.Sprint(wh.Lock())},
		{classU64(wh.Time(), 64), fmt.Sprint(wh.Time())},
		{classU64(wh.NonceU64(), 64), fmt.Sprint(wh.NonceU64())},
		{lc, hx(wh.Location())},
		{cc, hx(cb)},
		{classHash(wh.HeaderHash()), wh.HeaderHash().Hex() + wh.ParentHash().Hex() + wh.TxHash().Hex() + wh.MixHash().Hex()},
		{ap[0].Class, apv},
		diffCountPV(wh.ShaDiffAndCount(), wh.ScryptDiffAndCount()),
		{tc, valBig(wh.ShaShareTarget()) + "," + valBig(wh.ScryptShareTarget()) + "," + valBig(wh.KawpowDifficulty())},
	}
}

func woHeaderProtoEnc(v interface{}) ([]byte, error) {
	p, err := v.(*types.WorkObjectHeader).ProtoEncode()
	if err != nil {
		return nil, err
	}
	return proto.Marshal(p)
}
func woHeaderProtoDec(b []byte, loc common.Location) (interface{}, error) {
	p := new(types.ProtoWorkObjectHeader)
	if err := proto.Unmarshal(b, p); err != nil {
		return nil, err
	}
	wh := new(types.WorkObjectHeader)
	if err := wh.ProtoDecode(p, loc); err != nil {
		return nil, err
	}
	return wh, nil
}

func woHeaderMutate(v interface{}, f string, g *Gen) (interface{}, string, bool) {
	wh := v.(*types.WorkObjectHeader)
	switch f {
	case "number":
		wh.SetNumber(new(big.Int).Add(wh.Number(), big.NewInt(1)))
		return wh, "SetNumber", true
	case "difficulty":
		wh.SetDifficulty(new(big.Int).Add(wh.Difficulty(), big.NewInt(1)))
		return wh, "SetDifficulty", true
	case "data":
		wh.SetData(append(append([]byte{}, wh.Data()...), 0x77))
		return wh, "SetData", true
	case "lock":
		wh.SetLock(wh.Lock() ^ 1)
		return wh, "SetLock", true
	case "time":
		wh.SetTime(wh.Time() ^ 1)
		return wh, "SetTime", true
	case "nonce":
		wh.SetNonce(types.EncodeNonce(wh.NonceU64() ^ 1))
		return wh, "SetNonce", true
	case "hashes":
		x := wh.TxHash()
		x[7] ^= 1
		wh.SetTxHash(x)
		return wh, "SetTxHash", true
	}
	return wh, "", false
}

func init() {
	register(&TypeDef{
		Name:    "WOHeader",
		Fields:  woHeaderFields,
		Build:   func(sh Shape, g *Gen) interface{} { return buildWoHeader(sh, g, "") },
		Project: func(v interface{}) []PV { return projectWoHeader(v.(*types.WorkObjectHeader)) },
		Codecs: []*Codec{
			{Name: "proto", LocSensitive: true, Enc: woHeaderProtoEnc, Dec: woHeaderProtoDec},
			{Name: "rpcjson",
				Enc: func(v interface{}) ([]byte, error) {
					return json.Marshal(v.(*types.WorkObjectHeader).RPCMarshalWorkObjectHeader("v2"))
				},
				Dec: func(b []byte, loc common.Location) (interface{}, error) {
					wh := new(types.WorkObjectHeader)
					if err := wh.UnmarshalJSON(b); err != nil {
						return nil, err
					}
					return wh, nil
				}},
		},
		Hash:   func(v interface{}) (string, bool) { return v.(*types.WorkObjectHeader).Hash().Hex(), true },
		Mutate: woHeaderMutate,
	})
}
