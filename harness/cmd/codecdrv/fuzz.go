// C15a: no input can crash a decoder or make it allocate out of proportion.
//
// Carriers are valid encodings of the objects of the codec graph (one per production input channel).
// Cases come from two generators: (1) the defect lattice enumerated by TLC (spec/CodecFuzz.tla): per
// carrier and per protobuf message type inside it, every set of at most MaxDefects fields each marked
// missing / truncated / oversized / wrongkind, applied through protobuf reflection; (2) seeded byte-level
// mutations of the valid encoding (bit flips, truncations, length-prefix inflation, splices).  Every case
// is fed to each production entry point that consumes the carrier, inside recover(), with the allocation
// measured.
package main

import (
	"bufio"
	"bytes"
	"encoding/hex"
	"encoding/json"
	"flag"
	"fmt"
	"math/big"
	"math/rand"
	"os"
	"runtime/debug"
	"runtime/metrics"
	"sort"
	"strings"

	"github.com/dominant-strategies/go-quai/common"
	"github.com/dominant-strategies/go-quai/common/hexutil"
	"github.com/dominant-strategies/go-quai/core/rawdb"
	"github.com/dominant-strategies/go-quai/core/types"
	"github.com/dominant-strategies/go-quai/log"
	"github.com/dominant-strategies/go-quai/p2p/pb"
	"github.com/dominant-strategies/go-quai/rlp"
	"github.com/dominant-strategies/go-quai/rpc"
	"github.com/dominant-strategies/go-quai/trie"
	"google.golang.org/protobuf/proto"
	"google.golang.org/protobuf/reflect/protoreflect"
)

// ---------------------------------------------------------------- carriers

type carrier struct {
	Name  string
	All   int                                         // > 0: every defect case is applied to variants 0..All-1
	Kind  string                                      // proto | bytes | json
	Build func(seed int64, variant int) proto.Message // proto carriers
	Raw   func(seed int64, variant int) []byte        // other carriers
}

func objOf(typ string, seed int64, variant int) interface{} {
	t := registry[typ]
	sh := baseline(t)
	// variants walk through the single-field deviations of the base shape
	if variant > 0 {
		n := 0
		for _, f := range t.Fields {
			for _, d := range f.Dom {
				if d == sh[f.Name] {
					continue
				}
				n++
				if n == variant {
					sh2 := Shape{}
					for k, v := range sh {
						sh2[k] = v
					}
					sh2[f.Name] = d
					if wellFormed(t, sh2) {
						sh = sh2
					}
				}
			}
		}
	}
	return t.Build(sh, &Gen{Seed: seed, Type: typ})
}

func variantsOf(typ string) int {
	n := 0
	for _, f := range registry[typ].Fields {
		n += len(f.Dom) - 1
	}
	return n
}

func mustProto(m proto.Message, err error) proto.Message {
	if err != nil {
		panic(err)
	}
	return m
}

func woOf(typ string, seed int64, v int) *types.WorkObject {
	return objOf(typ, seed, v).(*types.WorkObject)
}

var carriers = []*carrier{
	{Name: "gossip-block", Kind: "proto", Build: func(s int64, v int) proto.Message {
		return mustProto(woOf("WOBlock", s, v).ConvertToBlockView().ProtoEncode())
	}},
	{Name: "gossip-header", Kind: "proto", Build: func(s int64, v int) proto.Message {
		return mustProto(woOf("WOHeaderView", s, v).ConvertToHeaderView().ProtoEncode())
	}},
	{Name: "gossip-share", Kind: "proto", Build: func(s int64, v int) proto.Message {
		wo := woOf("WOShare", s, v)
		return mustProto(wo.ConvertToWorkObjectShareView(wo.Transactions()).ProtoEncode())
	}},
	{Name: "gossip-share-scrypt", Kind: "proto", Build: func(s int64, v int) proto.Message { return shareWith("scrypt", s, v) }},
	{Name: "gossip-share-btc", Kind: "proto", Build: func(s int64, v int) proto.Message { return shareWith("btc", s, v) }},
	{Name: "gossip-block-consistent", All: 3, Kind: "proto", Build: func(s int64, v int) proto.Message {
		return mustProto(consistentWO([]string{"", "kawpow", "btc"}[v%3], s).ConvertToBlockView().ProtoEncode())
	}},
	{Name: "gossip-header-consistent", All: 3, Kind: "proto", Build: func(s int64, v int) proto.Message {
		return mustProto(consistentWO([]string{"", "kawpow", "btc"}[v%3], s).ConvertToHeaderView().ProtoEncode())
	}},
	{Name: "gossip-share-consistent", All: 5, Kind: "proto", Build: func(s int64, v int) proto.Message {
		wo := consistentWO([]string{"scrypt", "kawpow", "btc", "", "bch"}[v%5], s)
		return mustProto(wo.ConvertToWorkObjectShareView(wo.Transactions()).ProtoEncode())
	}},
	{Name: "gossip-auxtemplate", Kind: "proto", Build: func(s int64, v int) proto.Message {
		return objOf("AuxTemplate", s, v).(*types.AuxTemplate).ProtoEncode()
	}},
	{Name: "p2p-request", Kind: "proto", Build: func(s int64, v int) proto.Message {
		t := registry["P2PRequest"]
		b, err := t.Codecs[0].Enc(objOf("P2PRequest", s, v))
		if err != nil {
			panic(err)
		}
		m := new(pb.QuaiMessage)
		if err := proto.Unmarshal(b, m); err != nil {
			panic(err)
		}
		return m
	}},
	{Name: "p2p-response-block", Kind: "proto", Build: func(s int64, v int) proto.Message { return p2pMsg("WOBlock", "p2p", s, v) }},
	{Name: "p2p-response-blocks", Kind: "proto", Build: func(s int64, v int) proto.Message { return p2pMsg("WOBlock", "p2plist", s, v) }},
	{Name: "p2p-response-header", Kind: "proto", Build: func(s int64, v int) proto.Message { return p2pMsg("WOHeaderView", "p2p", s, v) }},
	{Name: "p2p-response-hash", Kind: "proto", Build: func(s int64, v int) proto.Message { return p2pMsg("P2PHashResponse", "p2p", s, v) }},
	{Name: "rpc-rawtx-quai", Kind: "proto", Build: func(s int64, v int) proto.Message {
		return mustProto(objOf("QuaiTx", s, v).(*types.Transaction).ProtoEncode())
	}},
	{Name: "rpc-rawtx-qi", Kind: "proto", Build: func(s int64, v int) proto.Message {
		return mustProto(objOf("QiTx", s, v).(*types.Transaction).ProtoEncode())
	}},
	{Name: "rpc-rawtx-ext", Kind: "proto", Build: func(s int64, v int) proto.Message {
		return mustProto(objOf("ExtTx", s, v).(*types.Transaction).ProtoEncode())
	}},
	{Name: "rpc-minedheader", Kind: "proto", Build: func(s int64, v int) proto.Message {
		return mustProto(woOf("WOPEtx", s, v).ProtoEncode(types.PEtxObject))
	}},
	{Name: "rpc-rawworkshare", Kind: "proto", Build: func(s int64, v int) proto.Message {
		return mustProto(objOf("WOHeader", s, v).(*types.WorkObjectHeader).ProtoEncode())
	}},
	{Name: "rpc-subworkshare", Kind: "proto", Build: func(s int64, v int) proto.Message {
		return mustProto(woOf("WOShare", s, v).ProtoEncode(types.WorkShareTxObject))
	}},
	{Name: "db-woheader", Kind: "proto", Build: func(s int64, v int) proto.Message {
		return mustProto(objOf("WOHeader", s, v).(*types.WorkObjectHeader).ProtoEncode())
	}},
	{Name: "db-wobody", Kind: "proto", Build: func(s int64, v int) proto.Message {
		return mustProto(woOf("WOBlock", s, v).Body().ProtoEncode(types.BlockObject))
	}},
	{Name: "db-receipts", Kind: "proto", Build: func(s int64, v int) proto.Message {
		r := objOf("Receipt", s, v).(*types.Receipt)
		return mustProto(types.ReceiptsForStorage{(*types.ReceiptForStorage)(r), (*types.ReceiptForStorage)(r)}.ProtoEncode())
	}},
	{Name: "db-pendingetxs", Kind: "proto", Build: func(s int64, v int) proto.Message {
		return mustProto(objOf("PendingEtxs", s, v).(*types.PendingEtxs).ProtoEncode())
	}},
	{Name: "db-pendingetxsrollup", Kind: "proto", Build: func(s int64, v int) proto.Message {
		return mustProto(objOf("PendingEtxsRollup", s, v).(*types.PendingEtxsRollup).ProtoEncode())
	}},
	{Name: "db-termini", Kind: "proto", Build: func(s int64, v int) proto.Message {
		return objOf("Termini", s, v).(*types.Termini).ProtoEncode()
	}},
	{Name: "db-utxo", Kind: "proto", Build: func(s int64, v int) proto.Message {
		return mustProto(objOf("TxOut", s, v).(*types.TxOut).ProtoEncode())
	}},
	{Name: "db-inboundetxs", Kind: "proto", Build: func(s int64, v int) proto.Message {
		return mustProto(types.Transactions{objOf("ExtTx", s, v).(*types.Transaction), objOf("ExtTx", s+1, 0).(*types.Transaction)}.ProtoEncode())
	}},
	{Name: "db-manifest", Kind: "proto", Build: func(s int64, v int) proto.Message {
		return mustProto(objOf("Manifest", s, v).(*types.BlockManifest).ProtoEncode())
	}},
	{Name: "proto-header", Kind: "proto", Build: func(s int64, v int) proto.Message {
		return mustProto(objOf("Header", s, v).(*types.Header).ProtoEncode())
	}},
	{Name: "proto-auxpow", Kind: "proto", Build: func(s int64, v int) proto.Message { return objOf("AuxPow", s, v).(*types.AuxPow).ProtoEncode() }},
	// byte carriers
	{Name: "rlp-tx-quai", Kind: "bytes", Raw: func(s int64, v int) []byte { return encOf("QuaiTx", "rlp", s, v) }},
	{Name: "rlp-tx-qi", Kind: "bytes", Raw: func(s int64, v int) []byte { return encOf("QiTx", "rlp", s, v) }},
	{Name: "rlp-tx-ext", Kind: "bytes", Raw: func(s int64, v int) []byte { return encOf("ExtTx", "rlp", s, v) }},
	{Name: "rlpenv-tx", Kind: "bytes", Raw: func(s int64, v int) []byte {
		return encOf([]string{"QuaiTx", "QiTx", "ExtTx"}[int(s)%3], "rlpenv", s, v%5)
	}},
	{Name: "rlp-receipt", Kind: "bytes", Raw: func(s int64, v int) []byte {
		b, _ := rlp.EncodeToBytes(objOf("Receipt", s, v).(*types.Receipt))
		return b
	}},
	{Name: "rlp-receipt-storage", Kind: "bytes", Raw: func(s int64, v int) []byte {
		b, _ := rlp.EncodeToBytes((*types.ReceiptForStorage)(objOf("Receipt", s, v).(*types.Receipt)))
		return b
	}},
	{Name: "rlp-accesslist", Kind: "bytes", Raw: func(s int64, v int) []byte {
		b, _ := rlp.EncodeToBytes(objOf("QuaiTx", s, v).(*types.Transaction).AccessList())
		return b
	}},
	{Name: "json-tx-quai", Kind: "json", Raw: func(s int64, v int) []byte { return encOf("QuaiTx", "json", s, 0) }},
	{Name: "json-tx-qi", Kind: "json", Raw: func(s int64, v int) []byte { return encOf("QiTx", "json", s, 0) }},
	{Name: "json-tx-ext", Kind: "json", Raw: func(s int64, v int) []byte { return encOf("ExtTx", "json", s, v) }},
	{Name: "json-header", Kind: "json", Raw: func(s int64, v int) []byte { return encOf("Header", "rpcjson", s, v) }},
	{Name: "json-woheader", Kind: "json", Raw: func(s int64, v int) []byte { return encOf("WOHeader", "rpcjson", s, v) }},
	{Name: "json-wo", Kind: "json", Raw: func(s int64, v int) []byte { return encOf("WOBlock", "rpcjson", s, v) }},
	{Name: "json-auxpow", Kind: "json", Raw: func(s int64, v int) []byte { return encOf("AuxPow", "rpcjson", s, v) }},
	{Name: "json-termini", Kind: "json", Raw: func(s int64, v int) []byte { return encOf("Termini", "rpcjson", s, v) }},
	{Name: "json-receipt", Kind: "json", Raw: func(s int64, v int) []byte {
		b, _ := json.Marshal(objOf("Receipt", s, v).(*types.Receipt))
		return b
	}},
	{Name: "json-hexargs", Kind: "json", Raw: func(s int64, v int) []byte {
		g := &Gen{Seed: s, Type: "hexargs"}
		m := map[string]interface{}{"bytes": hexutil.Bytes(g.Bytes("b", T, 0)), "big": (*hexutil.Big)(g.Big("n", T)), "u64": hexutil.Uint64(g.U64("u", T, 64)),
			"hash": g.Hash("h", 0), "addr": hexutil.Bytes(g.AddrBytes("a", 0, homeLoc, false)), "blockNumber": "latest", "blockNrOrHash": map[string]interface{}{"blockHash": g.Hash("bh", 0)}}
		b, _ := json.Marshal(m)
		return b
	}},
	{Name: "donor-header", Kind: "bytes", Raw: func(s int64, v int) []byte {
		ap := objOf("AuxPow", s, v%variantsOf("AuxPow")).(*types.AuxPow)
		return append([]byte{byte(ap.PowID())}, ap.Header().Bytes()...)
	}},
	{Name: "donor-coinbase", Kind: "bytes", Raw: func(s int64, v int) []byte {
		ap := objOf("AuxPow", s, v%4).(*types.AuxPow)
		return append([]byte{byte(ap.PowID())}, ap.Transaction()...)
	}},
}

// consistentWO builds a zone work object whose commitments hold (transaction / uncle / outbound-ETX roots,
// lock byte, number near genesis, times after the donor signature time), so that the gossip validator's
// sanity checks pass and its deeper branches (AuxPow cross-checks, PoW filter) are reached.  chain = "" means
// a transition-period ProgPoW header without AuxPow.
func consistentWO(chain string, s int64) *types.WorkObject {
	g := &Gen{Seed: s, Type: "WOConsistent"}
	wo := buildWO(Shape{"hfork": "post", "txs": T, "etxs": T, "uncles": T, "manifest": Z, "interlink": Z, "tx": A}, g)
	sh := woHeaderShapeFor("fork")
	if chain == "" {
		sh["auxpow"] = A
	} else {
		sh["auxpow"] = chain
	}
	wh := buildWoHeader(sh, g, "")
	wh.SetNumber(big.NewInt(1))
	wh.SetLock(0)
	wh.SetTime(1700000000 + 1<<21)
	wh.SetLocation(homeLoc)
	hasher := func() types.TrieHasher { return trie.NewStackTrie(nil) }
	wo.SetWorkObjectHeader(wh)
	// roots are computed over the form a receiver holds (Qi public keys are uncompressed in memory after a
	// wire trip, and the root hashes the in-memory RLP form)
	p, err := wo.ProtoEncode(types.BlockObject)
	if err != nil {
		panic(err)
	}
	dec := new(types.WorkObject)
	if err := dec.ProtoDecode(p, homeLoc, types.BlockObject); err != nil {
		panic(err)
	}
	wo = dec
	wh = wo.WorkObjectHeader()
	wh.SetTxHash(types.DeriveSha(types.Transactions(wo.Transactions()), hasher()))
	if chain != "" {
		// the donor coinbase commits to the seal hash (through the aux merkle root for the Scrypt chain) and
		// the donor header commits to the coinbase
		id := powIDs[chain]
		seal := wh.SealHash()
		commit := seal
		var a2 []byte
		if chain == "scrypt" {
			doge := g.Hash("doge", 0)
			a2 = doge.Bytes()
			commit = types.CreateAuxMerkleRoot(doge, seal)
		}
		out := append([]byte{0x01, 0, 0, 0, 0, 0, 0, 0, 0, 0x19, 0x76, 0xa9, 0x14}, g.AddrBytes("cbout", 0, homeLoc, false)...)
		out = append(out, 0x88, 0xac, 0, 0, 0, 0)
		cb := types.NewAuxPowCoinbaseTx(id, 123456, out, commit, 1700000000)
		branch := [][]byte{g.Hash("br", 0).Bytes(), g.Hash("br", 1).Bytes()}
		root := types.CalculateMerkleRoot(id, cb, branch)
		hdr := types.NewBlockHeader(id, 0x20000000, g.Hash("prev", 0), root, 1700000500, 0x1d00ffff, 7, 123456)
		if id != types.Kawpow { // the constructors stamp time.Now(); pin it
			raw := hdr.Bytes()
			raw[68], raw[69], raw[70], raw[71] = 0xf4, 0xf2, 0x53, 0x65 // 1700000500 little endian
			var inner types.AuxHeaderData = &types.BitcoinHeaderWrapper{}
			if id == types.SHA_BCH {
				inner = &types.BitcoinCashHeaderWrapper{}
			} else if id == types.Scrypt {
				inner = &types.LitecoinHeaderWrapper{}
			}
			if err := inner.Deserialize(bytes.NewReader(raw)); err != nil {
				panic(err)
			}
			hdr = types.NewAuxPowHeader(inner)
		}
		wh.SetAuxPow(types.NewAuxPow(id, hdr, a2, g.Bytes("sig", T, 0), branch, cb))
	}
	h := wo.Body().Header()
	h.SetTxHash(types.DeriveSha(types.Transactions(wo.Transactions()), hasher()))
	h.SetOutboundEtxHash(types.DeriveSha(types.Transactions(wo.OutboundEtxs()), hasher()))
	h.SetUncleHash(types.CalcUncleHash(wo.Uncles()))
	return wo
}

// shareWith: a work-share whose header carries a SHA / Scrypt donor proof (the validator has chain-specific
// branches for these)
func shareWith(chain string, s int64, v int) proto.Message {
	wo := woOf("WOShare", s, v)
	sh := woHeaderShapeFor("fork")
	sh["auxpow"] = chain
	wo.SetWorkObjectHeader(buildWoHeader(sh, &Gen{Seed: s, Type: "WOShare"}, ""))
	return mustProto(wo.ConvertToWorkObjectShareView(wo.Transactions()).ProtoEncode())
}

func p2pMsg(typ, codec string, s int64, v int) proto.Message {
	b, err := registry[typ].codec(codec).Enc(objOf(typ, s, v))
	if err != nil {
		panic(err)
	}
	m := new(pb.QuaiMessage)
	if err := proto.Unmarshal(b, m); err != nil {
		panic(err)
	}
	return m
}

func encOf(typ, codec string, s int64, v int) []byte {
	b, err := registry[typ].codec(codec).Enc(objOf(typ, s, v))
	if err != nil {
		panic(fmt.Sprintf("carrier %s/%s: %v", typ, codec, err))
	}
	return b
}

var protoMemo = map[string]proto.Message{}

// instance returns a fresh copy of the valid carrier message for (seed, variant).
func (c *carrier) instance(seed int64, variant int) proto.Message {
	k := fmt.Sprintf("%s|%d|%d", c.Name, seed, variant)
	m, ok := protoMemo[k]
	if !ok {
		m = c.Build(seed, variant)
		protoMemo[k] = m
	}
	return proto.Clone(m)
}

func maxInt(a, b int) int {
	if a > b {
		return a
	}
	return b
}

func carrierByName(n string) *carrier {
	for _, c := range carriers {
		if c.Name == n {
			return c
		}
	}
	return nil
}

// ---------------------------------------------------------------- entry points

type entry struct {
	Name     string
	Carriers []string
	// Reach: how the bytes arrive in production and whether a panic there is recovered
	Reach string // peer-validator (NOT recovered) | peer-worker | peer-stream | rpc (recovered) | disk | lib
	Run   func(b []byte) error
}

type fatalExit struct{ code int }

func dbWith(key, val []byte) locDB {
	db := newMemDB()
	db.Put(key, val)
	return locDB{db, homeLoc}
}

func decodeWO(b []byte, view types.WorkObjectView) (*types.WorkObject, error) {
	p := new(types.ProtoWorkObject)
	if err := proto.Unmarshal(b, p); err != nil {
		return nil, err
	}
	wo := new(types.WorkObject)
	return wo, wo.ProtoDecode(p, homeLoc, view)
}

func touchTx(tx *types.Transaction) {
	// what the pool / RPC layer does with a freshly decoded transaction before any validation
	tx.Hash()
	tx.Size()
	tx.Type()
	if tx.Type() == types.QuaiTxType {
		types.Sender(types.NewSigner(tx.ChainId(), homeLoc), tx)
	}
}

var entries []*entry

func setupEntries() {
	if len(entries) > 0 {
		return
	}
	initEntries1()
	initEntries2()
	setupValidator()
}

func initEntries1() {
	unm := func(name string, dt interface{}) *entry {
		return &entry{Name: "gossip-unmarshal-" + name, Carriers: []string{"gossip-" + name}, Reach: "peer-worker",
			Run: func(b []byte) error {
				var out interface{}
				return pb.UnmarshalAndConvert(b, homeLoc, &out, dt)
			}}
	}
	entries = append(entries,
		unm("block", &types.WorkObjectBlockView{}), unm("header", &types.WorkObjectHeaderView{}), unm("share", &types.WorkObjectShareView{}),
		&entry{Name: "gossip-unmarshal-share-donor", Carriers: []string{"gossip-share-scrypt", "gossip-share-btc", "gossip-share-consistent"}, Reach: "peer-worker",
			Run: func(b []byte) error {
				var out interface{}
				return pb.UnmarshalAndConvert(b, homeLoc, &out, &types.WorkObjectShareView{})
			}},
		unm("auxtemplate", &types.AuxTemplate{}),
		&entry{Name: "p2p-stream", Carriers: []string{"p2p-request", "p2p-response-block", "p2p-response-blocks", "p2p-response-header", "p2p-response-hash"}, Reach: "peer-stream",
			Run: func(b []byte) error { // p2p/protocol/handler.go: DecodeQuaiMessage, then by payload kind
				msg, err := pb.DecodeQuaiMessage(b)
				if err != nil {
					return err
				}
				switch {
				case msg.GetRequest() != nil:
					_, _, _, _, err = pb.DecodeQuaiRequest(msg.GetRequest())
				case msg.GetResponse() != nil:
					_, _, err = pb.DecodeQuaiResponse(msg.GetResponse())
				default:
					_, _, _, _, err = pb.DecodeQuaiRequest(msg.GetRequest())
					if err != nil {
						_, _, err = pb.DecodeQuaiResponse(msg.GetResponse())
					}
				}
				return err
			}},
		&entry{Name: "rpc-sendrawtransaction", Carriers: []string{"rpc-rawtx-quai", "rpc-rawtx-qi", "rpc-rawtx-ext", "db-inboundetxs"}, Reach: "rpc",
			Run: func(b []byte) error { // internal/quaiapi/api.go SendRawTransaction up to SubmitTransaction
				p := new(types.ProtoTransaction)
				if err := proto.Unmarshal(b, p); err != nil {
					return err
				}
				tx := new(types.Transaction)
				if err := tx.ProtoDecode(p, homeLoc); err != nil {
					return err
				}
				touchTx(tx)
				return nil
			}},
		&entry{Name: "rpc-receiveminedheader", Carriers: []string{"rpc-minedheader", "rpc-subworkshare"}, Reach: "rpc",
			Run: func(b []byte) error {
				wo, err := decodeWO(b, types.PEtxObject)
				if err != nil {
					return err
				}
				wo.Hash()
				return nil
			}},
		&entry{Name: "rpc-receiverawworkshare", Carriers: []string{"rpc-rawworkshare", "db-woheader"}, Reach: "rpc",
			Run: func(b []byte) error {
				p := new(types.ProtoWorkObjectHeader)
				if err := proto.Unmarshal(b, p); err != nil {
					return err
				}
				wh := new(types.WorkObjectHeader)
				if err := wh.ProtoDecode(p, homeLoc); err != nil {
					return err
				}
				wh.Hash()
				wh.SealHash()
				return nil
			}},
		&entry{Name: "rpc-receivesubworkshare-decode", Carriers: []string{"rpc-subworkshare", "rpc-minedheader"}, Reach: "rpc",
			Run: func(b []byte) error {
				_, err := decodeWO(b, types.WorkShareTxObject)
				return err
			}},
		&entry{Name: "protodecode-header", Carriers: []string{"proto-header"}, Reach: "lib",
			Run: func(b []byte) error {
				p := new(types.ProtoHeader)
				if err := proto.Unmarshal(b, p); err != nil {
					return err
				}
				h := new(types.Header)
				if err := h.ProtoDecode(p, homeLoc); err != nil {
					return err
				}
				h.Hash()
				return nil
			}},
		&entry{Name: "protodecode-auxpow", Carriers: []string{"proto-auxpow"}, Reach: "lib",
			Run: func(b []byte) error {
				p := new(types.ProtoAuxPow)
				if err := proto.Unmarshal(b, p); err != nil {
					return err
				}
				ap := new(types.AuxPow)
				if err := ap.ProtoDecode(p); err != nil {
					return err
				}
				if ap.Header() != nil {
					ap.ConvertToTemplate().VerifySignature()
					types.CalculateMerkleRoot(ap.PowID(), ap.Transaction(), ap.MerkleBranch())
				}
				return nil
			}},
	)
	// rawdb readers over a (possibly corrupted) record
	dbEntry := func(name, carr string, key []byte, read func(db locDB) interface{}) {
		entries = append(entries, &entry{Name: "rawdb-" + name, Carriers: []string{carr}, Reach: "disk",
			Run: func(b []byte) error {
				if read(dbWith(key, b)) == nil {
					return fmt.Errorf("nil")
				}
				return nil
			}})
	}
	h1 := common.Hash{1}
	dbEntry("ReadPendingEtxs", "db-pendingetxs", append([]byte("pe"), h1.Bytes()...), func(db locDB) interface{} {
		if x := rawdb.ReadPendingEtxs(db, h1); x != nil {
			return x
		}
		return nil
	})
	dbEntry("ReadPendingEtxsRollup", "db-pendingetxsrollup", append([]byte("pr"), h1.Bytes()...), func(db locDB) interface{} {
		if x := rawdb.ReadPendingEtxsRollup(db, h1); x != nil {
			return x
		}
		return nil
	})
	dbEntry("ReadManifest", "db-manifest", append([]byte("ma"), h1.Bytes()...), func(db locDB) interface{} {
		if x := rawdb.ReadManifest(db, h1); x != nil {
			return x
		}
		return nil
	})
}

// keys that are not exported by rawdb are learnt by writing a valid record once
func learnKey(write func(db locDB)) []byte {
	db := locDB{newMemDB(), homeLoc}
	write(db)
	keys, _ := dbRecords(dumpDB(db.Database))
	if len(keys) != 1 {
		panic(fmt.Sprintf("learnKey: %d records", len(keys)))
	}
	return keys[0]
}

func initEntries2() {
	h1 := common.Hash{1}
	add := func(name, carr string, key []byte, read func(db locDB) bool) {
		entries = append(entries, &entry{Name: "rawdb-" + name, Carriers: []string{carr}, Reach: "disk",
			Run: func(b []byte) error {
				if !read(dbWith(key, b)) {
					return fmt.Errorf("nil")
				}
				return nil
			}})
	}
	rk := learnKey(func(db locDB) { rawdb.WriteReceipts(db, h1, 5, types.Receipts{}) })
	add("ReadRawReceipts", "db-receipts", rk, func(db locDB) bool { return rawdb.ReadRawReceipts(db, h1, 5) != nil })
	tk := learnKey(func(db locDB) { rawdb.WriteTermini(db, h1, types.EmptyTermini()) })
	add("ReadTermini", "db-termini", tk, func(db locDB) bool { return rawdb.ReadTermini(db, h1) != nil })
	ik := learnKey(func(db locDB) { rawdb.WriteInboundEtxs(db, h1, types.Transactions{}) })
	add("ReadInboundEtxs", "db-inboundetxs", ik, func(db locDB) bool { return rawdb.ReadInboundEtxs(db, h1) != nil })
	add("GetUTXO", "db-utxo", rawdb.UtxoKey(h1, 3), func(db locDB) bool { return rawdb.GetUTXO(db, h1, 3) != nil })
	// header / body records: learn both keys from a real write
	wo := woOf("WOBlock", 1, 0)
	full := locDB{newMemDB(), homeLoc}
	rawdb.WriteWorkObject(full, wo.Hash(), wo, types.BlockObject, common.ZONE_CTX)
	keys, vals := dbRecords(dumpDB(full.Database))
	var hk, bk, nk, nv []byte
	for i, k := range keys {
		switch {
		case len(k) == 1+32 && k[0] == 'H':
			nk, nv = k, vals[i]
		case len(k) == 1+8+32:
			hk = k
		default:
			bk = k
		}
	}
	num := new(big.Int).SetBytes(nv).Uint64()
	withIndex := func(db locDB) { db.Put(nk, nv) }
	add("ReadWorkObjectHeader", "db-woheader", hk, func(db locDB) bool {
		withIndex(db)
		return rawdb.ReadWorkObjectHeader(db, num, wo.Hash(), types.BlockObject) != nil
	})
	add("ReadWorkObjectBody", "db-wobody", bk, func(db locDB) bool {
		withIndex(db)
		ok := rawdb.ReadWorkObjectBody(db, wo.Hash(), types.BlockObject) != nil
		ok = rawdb.ReadWorkObjectBody(db, wo.Hash(), types.WorkShareObject) != nil || ok
		ok = rawdb.ReadWorkObjectBodyHeaderOnly(db, wo.Hash()) != nil || ok
		return ok
	})

	// RLP
	rlpEntry := func(name string, carr []string, f func(b []byte) error) {
		entries = append(entries, &entry{Name: "rlp-" + name, Carriers: carr, Reach: "disk", Run: f})
	}
	txCarr := []string{"rlp-tx-quai", "rlp-tx-qi", "rlp-tx-ext"}
	rlpEntry("Transaction.UnmarshalBinary", txCarr, func(b []byte) error {
		tx := new(types.Transaction)
		if err := tx.UnmarshalBinary(b); err != nil {
			return err
		}
		tx.Size()
		return nil
	})
	rlpEntry("Transaction.DecodeRLP", []string{"rlpenv-tx"}, func(b []byte) error { return rlp.DecodeBytes(b, new(types.Transaction)) })
	rlpEntry("Transactions", []string{"rlpenv-tx"}, func(b []byte) error {
		var txs types.Transactions
		lst, _ := rlp.EncodeToBytes([]rlp.RawValue{b, b})
		return rlp.DecodeBytes(lst, &txs)
	})
	rlpEntry("Receipt", []string{"rlp-receipt"}, func(b []byte) error { return rlp.DecodeBytes(b, new(types.Receipt)) })
	rlpEntry("ReceiptForStorage", []string{"rlp-receipt-storage"}, func(b []byte) error { return rlp.DecodeBytes(b, new(types.ReceiptForStorage)) })
	rlpEntry("AccessList", []string{"rlp-accesslist"}, func(b []byte) error { // core/vm opETX decodes an access list taken from EVM memory
		var al types.AccessList
		return rlp.DecodeBytes(b, &al)
	})

	// JSON
	// Only WorkObjectHeader (argument of the public RPC quai_receiveWorkShare, with its nested AuxPow and
	// PowShareDiffAndCount decoders) and the hexutil/rpc argument types are decoded from untrusted JSON by the
	// NODE.  The other UnmarshalJSON methods are used by client libraries on server responses: they are
	// exercised for information, a panic there is not a C15 violation.
	js := func(name, carr string, f func(b []byte) error) {
		reach := "client-lib"
		if name == "WorkObjectHeader" || name == "hexutil-args" {
			reach = "rpc"
		}
		entries = append(entries, &entry{Name: "json-" + name, Carriers: []string{carr}, Reach: reach, Run: f})
	}
	for _, k := range []string{"quai", "qi", "ext"} {
		js("Transaction-"+k, "json-tx-"+k, func(b []byte) error { return new(types.Transaction).UnmarshalJSON(b) })
	}
	js("Header", "json-header", func(b []byte) error { return new(types.Header).UnmarshalJSON(b) })
	js("WorkObjectHeader", "json-woheader", func(b []byte) error { return new(types.WorkObjectHeader).UnmarshalJSON(b) })
	js("WorkObject", "json-wo", func(b []byte) error { return new(types.WorkObject).UnmarshalJSON(b) })
	js("AuxPow", "json-auxpow", func(b []byte) error { return new(types.AuxPow).UnmarshalJSON(b) })
	js("Termini", "json-termini", func(b []byte) error { return new(types.Termini).UnmarshalJSON(b) })
	js("Receipt", "json-receipt", func(b []byte) error { return new(types.Receipt).UnmarshalJSON(b) })
	js("hexutil-args", "json-hexargs", func(b []byte) error {
		var a struct {
			Bytes hexutil.Bytes           `json:"bytes"`
			Big   *hexutil.Big            `json:"big"`
			U64   hexutil.Uint64          `json:"u64"`
			Hash  common.Hash             `json:"hash"`
			Addr  common.AddressBytes     `json:"addr"`
			BN    rpc.BlockNumber         `json:"blockNumber"`
			BNH   rpc.BlockNumberOrHash   `json:"blockNrOrHash"`
			Mixed common.MixedcaseAddress `json:"mixed"`
		}
		return json.Unmarshal(b, &a)
	})

	// donor-chain parsers (reached from gossiped AuxPow / AuxTemplate through the validator and the engines)
	entries = append(entries,
		&entry{Name: "donor-header-parsers", Carriers: []string{"donor-header"}, Reach: "lib",
			Run: func(b []byte) error {
				if len(b) == 0 {
					return fmt.Errorf("empty")
				}
				types.DecodeRavencoinHeader(b[1:])
				p := &types.ProtoAuxPow{Header: b[1:], Transaction: []byte{}}
				id := uint32(b[0])
				p.ChainId = &id
				ap := new(types.AuxPow)
				if err := ap.ProtoDecode(p); err != nil {
					return err
				}
				h := ap.Header()
				h.PowHash()
				h.BlockHash()
				h.SealHash()
				h.Bytes()
				return nil
			}},
		&entry{Name: "donor-coinbase-parsers", Carriers: []string{"donor-coinbase"}, Reach: "lib",
			Run: func(b []byte) error {
				if len(b) == 0 {
					return fmt.Errorf("empty")
				}
				id, tx := types.PowID(b[0]), b[1:]
				ss := types.ExtractScriptSigFromCoinbaseTx(tx)
				types.ExtractSignatureTimeFromCoinbase(ss)
				types.ExtractSealHashFromCoinbase(ss)
				types.ExtractMerkleSizeAndNonceFromCoinbase(ss)
				types.ExtractHeightFromCoinbase(ss)
				// the raw bytes are also a candidate scriptSig
				types.ExtractSignatureTimeFromCoinbase(tx)
				types.ExtractSealHashFromCoinbase(tx)
				types.ExtractMerkleSizeAndNonceFromCoinbase(tx)
				types.ExtractHeightFromCoinbase(tx)
				types.ExtractCoinbaseOutFromCoinbaseTx(tx)
				types.ValidatePrevOutPointIndexAndSequenceOfCoinbase(tx)
				types.CalculateMerkleRoot(id, tx, [][]byte{tx})
				types.AuxPowTxHash(id, tx)
				return nil
			}},
	)
}

// ---------------------------------------------------------------- structural defects through protobuf reflection

func collectMsgs(m protoreflect.Message, name string, out *[]protoreflect.Message, depth int) {
	if depth > 8 {
		return
	}
	if string(m.Descriptor().FullName()) == name {
		*out = append(*out, m)
	}
	m.Range(func(fd protoreflect.FieldDescriptor, v protoreflect.Value) bool {
		switch {
		case fd.IsList() && fd.Kind() == protoreflect.MessageKind:
			l := v.List()
			for i := 0; i < l.Len() && i < 3; i++ {
				collectMsgs(l.Get(i).Message(), name, out, depth+1)
			}
		case fd.Kind() == protoreflect.MessageKind && !fd.IsMap():
			collectMsgs(v.Message(), name, out, depth+1)
		}
		return true
	})
}

func msgTypesOf(m protoreflect.Message, acc map[string][]string, depth int) {
	if depth > 8 {
		return
	}
	n := string(m.Descriptor().FullName())
	if _, ok := acc[n]; !ok {
		var fs []string
		fds := m.Descriptor().Fields()
		for i := 0; i < fds.Len(); i++ {
			fs = append(fs, string(fds.Get(i).Name()))
		}
		acc[n] = fs
	}
	m.Range(func(fd protoreflect.FieldDescriptor, v protoreflect.Value) bool {
		switch {
		case fd.IsList() && fd.Kind() == protoreflect.MessageKind:
			if v.List().Len() > 0 {
				msgTypesOf(v.List().Get(0).Message(), acc, depth+1)
			}
		case fd.Kind() == protoreflect.MessageKind && !fd.IsMap():
			msgTypesOf(v.Message(), acc, depth+1)
		}
		return true
	})
}

func bigBytes(r *rand.Rand, n int) []byte {
	b := make([]byte, n)
	r.Read(b)
	return b
}

// applyDefect mutates field fd of message m.
// sv selects deterministically among the sub-variants of a defect kind; the number of sub-variants the field
// offers is returned so that the caller can walk through all of them.
func applyDefect(m protoreflect.Message, fd protoreflect.FieldDescriptor, kind string, r *rand.Rand, sv int) (subVariants int) {
	subVariants = 1
	pick := func(n int) int {
		if n > subVariants {
			subVariants = n
		}
		return sv % n
	}
	if kind == "missing" {
		m.Clear(fd)
		return
	}
	defer func() {
		if kind == "wrongkind" && fd.ContainingOneof() != nil && !fd.ContainingOneof().IsSynthetic() {
			// oneof members: "wrongkind" switches to a sibling member
			sibs := fd.ContainingOneof().Fields()
			s := sibs.Get(pick(sibs.Len()))
			if s.Kind() == protoreflect.MessageKind {
				m.Set(s, protoreflect.ValueOfMessage(m.NewField(s).Message()))
			} else if s.Kind() == protoreflect.BytesKind {
				m.Set(s, protoreflect.ValueOfBytes(bigBytes(r, 5)))
			}
		}
	}()
	if fd.IsList() {
		l := m.Mutable(fd).List()
		switch kind {
		case "truncated":
			if l.Len() > 0 {
				l.Truncate(l.Len() - 1)
			}
		case "oversized":
			n := []int{1, 300}[pick(2)]
			for i := 0; i < n; i++ {
				if l.Len() > 0 && fd.Kind() != protoreflect.MessageKind {
					l.Append(l.Get(r.Intn(l.Len())))
				} else if fd.Kind() == protoreflect.MessageKind {
					if l.Len() > 0 {
						l.Append(protoreflect.ValueOfMessage(proto.Clone(l.Get(r.Intn(l.Len())).Message().Interface()).ProtoReflect()))
					} else {
						l.Append(l.NewElement())
					}
				} else if fd.Kind() == protoreflect.BytesKind {
					l.Append(protoreflect.ValueOfBytes(bigBytes(r, 32)))
				}
			}
		case "wrongkind":
			switch fd.Kind() {
			case protoreflect.MessageKind:
				l.Append(l.NewElement()) // an element with nothing inside
			case protoreflect.BytesKind:
				l.Append(protoreflect.ValueOfBytes([]byte{}))
				if l.Len() > 1 {
					l.Set(0, protoreflect.ValueOfBytes(bigBytes(r, 1+r.Intn(70))))
				}
			}
		}
		return
	}
	switch fd.Kind() {
	case protoreflect.BytesKind:
		cur := m.Get(fd).Bytes()
		switch kind {
		case "truncated":
			alt := [][]byte{append([]byte{}, cur[:len(cur)/2]...), {}, append([]byte{}, cur[:maxInt(len(cur)-1, 0)]...)}
			m.Set(fd, protoreflect.ValueOfBytes(alt[pick(len(alt))]))
		case "oversized":
			n := []int{len(cur) + 1, 33, 65, 70000}[pick(4)]
			m.Set(fd, protoreflect.ValueOfBytes(bigBytes(r, n)))
		case "wrongkind":
			alt := [][]byte{{0}, {0xff}, bigBytes(r, 20), bigBytes(r, 32), {0x0a, 0x02, 0x08, 0x01}, {0, 0, 0, 0}}
			m.Set(fd, protoreflect.ValueOfBytes(alt[pick(len(alt))]))
		}
	case protoreflect.StringKind:
		m.Set(fd, protoreflect.ValueOfString(strings.Repeat("x", map[string]int{"truncated": 0, "oversized": 70000, "wrongkind": 3}[kind])))
	case protoreflect.Uint64Kind, protoreflect.Fixed64Kind:
		v := map[string]uint64{"truncated": 0, "oversized": ^uint64(0), "wrongkind": []uint64{3, 7, 255, 256, 65536, 1 << 32, 1171500, 1171500 + 100000}[pick(8)]}[kind]
		m.Set(fd, protoreflect.ValueOfUint64(v))
	case protoreflect.Uint32Kind, protoreflect.Fixed32Kind:
		v := map[string]uint32{"truncated": 0, "oversized": ^uint32(0), "wrongkind": []uint32{0, 1, 2, 3, 4, 5, 7, 255, 256, 65536}[pick(10)]}[kind]
		m.Set(fd, protoreflect.ValueOfUint32(v))
	case protoreflect.Int64Kind, protoreflect.Int32Kind, protoreflect.BoolKind, protoreflect.EnumKind:
		m.Clear(fd)
	case protoreflect.MessageKind:
		if fd.IsMap() {
			return
		}
		switch kind {
		case "truncated": // keep only the first populated field of the sub-message
			sub := m.Mutable(fd).Message()
			first := true
			sub.Range(func(sfd protoreflect.FieldDescriptor, _ protoreflect.Value) bool {
				if !first {
					sub.Clear(sfd)
				}
				first = false
				return true
			})
		case "oversized": // every bytes field of the sub-message becomes large
			sub := m.Mutable(fd).Message()
			sub.Range(func(sfd protoreflect.FieldDescriptor, _ protoreflect.Value) bool {
				if sfd.Kind() == protoreflect.BytesKind && !sfd.IsList() {
					sub.Set(sfd, protoreflect.ValueOfBytes(bigBytes(r, 70000)))
				}
				return true
			})
		case "wrongkind": // present but empty
			m.Set(fd, protoreflect.ValueOfMessage(m.NewField(fd).Message()))
		}
	}
	return
}

type fuzzCase struct {
	Carrier string            `json:"carrier"`
	Msg     string            `json:"msg"`
	Defects map[string]string `json:"defects"`
}

// ---------------------------------------------------------------- byte-level mutations

func mutateBytes(b []byte, r *rand.Rand) []byte {
	out := append([]byte{}, b...)
	if len(out) == 0 {
		return []byte{byte(r.Intn(256))}
	}
	switch r.Intn(9) {
	case 0: // bit flip(s)
		for i := 0; i <= r.Intn(3); i++ {
			out[r.Intn(len(out))] ^= 1 << uint(r.Intn(8))
		}
	case 1: // truncation
		out = out[:r.Intn(len(out))]
	case 2: // length-prefix inflation: turn a small varint / RLP length into a huge one
		i := r.Intn(len(out))
		infl := [][]byte{{0xff, 0xff, 0xff, 0xff, 0x0f}, {0xff, 0xff, 0xff, 0xff, 0xff, 0xff, 0xff, 0xff, 0x7f}, {0xbb, 0xff, 0xff, 0xff, 0xff}, {0xfb, 0x7f, 0xff, 0xff, 0xff}, {0x80, 0x80, 0x80, 0x80, 0x08}}
		x := infl[r.Intn(len(infl))]
		out = append(append(append([]byte{}, out[:i]...), x...), out[i+1:]...)
	case 3: // byte set
		out[r.Intn(len(out))] = []byte{0, 0x7f, 0x80, 0xff, 0xc0, 0xb7, 0xf8}[r.Intn(7)]
	case 4: // splice a chunk of itself elsewhere
		i, j := r.Intn(len(out)), r.Intn(len(out))
		if i > j {
			i, j = j, i
		}
		k := r.Intn(len(out))
		out = append(append(append([]byte{}, out[:k]...), out[i:j]...), out[k:]...)
	case 5: // delete a chunk
		i := r.Intn(len(out))
		j := i + r.Intn(len(out)-i)
		out = append(append([]byte{}, out[:i]...), out[j:]...)
	case 6: // increment/decrement a byte (length fields off by one)
		i := r.Intn(len(out))
		out[i] += byte(1 - 2*r.Intn(2))
	case 7: // append junk
		out = append(out, bigBytes(r, 1+r.Intn(40))...)
	case 8: // several of the above
		return mutateBytes(mutateBytes(out, r), r)
	}
	return out
}

// mutateJSON: delete a key / null / wrong type / huge value, at any depth
func mutateJSON(b []byte, r *rand.Rand) []byte {
	var v interface{}
	if err := json.Unmarshal(b, &v); err != nil {
		return mutateBytes(b, r)
	}
	var nodes []map[string]interface{}
	var walk func(x interface{})
	walk = func(x interface{}) {
		switch t := x.(type) {
		case map[string]interface{}:
			nodes = append(nodes, t)
			for _, c := range t {
				walk(c)
			}
		case []interface{}:
			for _, c := range t {
				walk(c)
			}
		}
	}
	walk(v)
	if len(nodes) == 0 {
		return mutateBytes(b, r)
	}
	n := nodes[r.Intn(len(nodes))]
	var keys []string
	for k := range n {
		keys = append(keys, k)
	}
	sort.Strings(keys)
	if len(keys) == 0 {
		return mutateBytes(b, r)
	}
	k := keys[r.Intn(len(keys))]
	switch r.Intn(9) {
	case 0:
		delete(n, k)
	case 1:
		n[k] = nil
	case 2:
		n[k] = 12345
	case 3:
		n[k] = "0x"
	case 4:
		n[k] = "0x" + strings.Repeat("f", []int{1, 63, 65, 129, 200000}[r.Intn(5)])
	case 5:
		n[k] = []interface{}{}
	case 6:
		n[k] = map[string]interface{}{}
	case 7:
		n[k] = "zz"
	case 8:
		n[k] = []interface{}{nil, "0x1", map[string]interface{}{}}
	}
	out, _ := json.Marshal(v)
	return out
}

// ---------------------------------------------------------------- running

type fuzzViolation struct {
	Kind    string `json:"kind"` // panic | alloc | exit
	Entry   string `json:"entry"`
	Class   string `json:"class"`
	Reach   string `json:"reach"`
	Carrier string `json:"carrier"`
	Origin  string `json:"origin"`
	Hex     string `json:"hex"`
	Len     int    `json:"len"`
	Alloc   uint64 `json:"alloc"`
	Stack   string `json:"stack"`
	Count   int    `json:"count"`
}

func panicClass(r interface{}) string {
	s := fmt.Sprint(r)
	s = hexRun.ReplaceAllString(s, "0x..")
	// index/slice bounds: drop the numbers
	var sb strings.Builder
	for _, c := range s {
		if c >= '0' && c <= '9' {
			sb.WriteByte('N')
		} else {
			sb.WriteRune(c)
		}
	}
	s = sb.String()
	for strings.Contains(s, "NN") {
		s = strings.ReplaceAll(s, "NN", "N")
	}
	if len(s) > 100 {
		s = s[:100]
	}
	return s
}

func topFrame(stack []byte) string {
	// first go-quai frame below the panic: its function, or (for inlined closures) its source file
	lines := strings.Split(string(stack), "\n")
	seenPanic := false
	for _, l := range lines {
		if strings.HasPrefix(l, "panic(") {
			seenPanic = true
			continue
		}
		if !seenPanic {
			continue
		}
		if strings.HasPrefix(l, "\t") {
			if i := strings.Index(l, "/repo/"); i >= 0 {
				f := l[i+len("/repo/"):]
				if j := strings.Index(f, ":"); j > 0 {
					f = f[:j]
				}
				return f
			}
			continue
		}
		if strings.Contains(l, "go-quai/") {
			if i := strings.LastIndex(l, "("); i > 0 {
				l = l[:i]
			}
			return strings.TrimPrefix(l, "github.com/dominant-strategies/go-quai/")
		}
	}
	return ""
}

var allocSample = []metrics.Sample{{Name: "/gc/heap/allocs:bytes"}}

// heapAllocs: cumulative bytes allocated by the process (cheap, no stop-the-world; background goroutines of
// the booted cores add a little noise, far below the 64 MiB slack of the bound)
func heapAllocs() uint64 {
	metrics.Read(allocSample)
	return allocSample[0].Value.Uint64()
}

type fuzzRun struct {
	viol      map[string]*fuzzViolation
	calls     int
	perEntry  map[string]int
	outcomes  map[string]bool // distinct (entry, origin kind, outcome class)
	maxAlloc  map[string]uint64
	clientLib map[string]int
	errs      int
	oks       int
}

const allocBase = 64 << 20
const allocPerByte = 64

func (f *fuzzRun) feed(e *entry, carr, origin string, b []byte) {
	f.calls++
	f.perEntry[e.Name]++
	a0 := heapAllocs()
	var perr interface{}
	var stack []byte
	var err error
	func() {
		defer func() {
			if r := recover(); r != nil {
				perr = r
				stack = debug.Stack()
			}
		}()
		err = e.Run(b)
	}()
	alloc := heapAllocs() - a0
	if alloc > f.maxAlloc[e.Name] {
		f.maxAlloc[e.Name] = alloc
	}
	outcome := "ok"
	if err != nil {
		outcome = "error"
		f.errs++
	} else {
		f.oks++
	}
	add := func(kind, class string) {
		if e.Reach == "client-lib" {
			f.clientLib[e.Name+": "+class]++
			return
		}
		key := kind + "|" + e.Name + "|" + class
		v := f.viol[key]
		if v == nil || len(b) < v.Len {
			cnt := 0
			if v != nil {
				cnt = v.Count
			}
			f.viol[key] = &fuzzViolation{Kind: kind, Entry: e.Name, Class: class, Reach: e.Reach, Carrier: carr, Origin: origin,
				Hex: hex.EncodeToString(b), Len: len(b), Alloc: alloc, Stack: string(stack), Count: cnt}
			v = f.viol[key]
		}
		v.Count++
	}
	if perr != nil {
		if fe, ok := perr.(fatalExit); ok {
			outcome = "failstop"
			if e.Reach != "disk" { // log.Fatal on an unreadable local database record is the code's fail-stop policy
				add("exit", fmt.Sprintf("log.Fatal exit(%d)", fe.code))
			}
		} else {
			outcome = "panic"
			add("panic", panicClass(perr)+" @ "+topFrame(stack))
		}
	}
	if alloc > allocBase+allocPerByte*uint64(len(b)) {
		add("alloc", fmt.Sprintf("allocated more than %d MiB + %d x input", allocBase>>20, allocPerByte))
	}
	f.outcomes[e.Name+"/"+strings.SplitN(origin, ":", 2)[0]+"/"+outcome] = true
}

func entriesFor(carr string) []*entry {
	var out []*entry
	for _, e := range entries {
		for _, c := range e.Carriers {
			if c == carr {
				out = append(out, e)
			}
		}
	}
	return out
}

func cmdFuzzTables() {
	setupEntries()
	type ct struct {
		Carrier string              `json:"carrier"`
		Msgs    map[string][]string `json:"msgs"`
	}
	var out []ct
	for _, c := range carriers {
		if c.Kind != "proto" {
			continue
		}
		acc := map[string][]string{}
		msgTypesOf(c.Build(1, 0).ProtoReflect(), acc, 0)
		out = append(out, ct{c.Name, acc})
	}
	var en []map[string]interface{}
	for _, e := range entries {
		en = append(en, map[string]interface{}{"entry": e.Name, "reach": e.Reach, "carriers": e.Carriers})
	}
	b, _ := json.Marshal(map[string]interface{}{"carriers": out, "entries": en})
	fmt.Println(string(b))
}

func cmdFuzz(args []string) {
	fs := flag.NewFlagSet("fuzz", flag.ExitOnError)
	in := fs.String("in", "", "defect cases ndjson (from TLC)")
	out := fs.String("out", "", "result json")
	seed := fs.Int64("seed", 1, "")
	mut := fs.Int("mut", 200, "byte-level mutations per carrier")
	inst := fs.Int("inst", 1, "valid instances per defect case")
	fs.Parse(args)
	debug.SetGCPercent(400)
	log.Global.ExitFunc = func(code int) { panic(fatalExit{code}) }
	setupEntries()
	f := &fuzzRun{viol: map[string]*fuzzViolation{}, perEntry: map[string]int{}, outcomes: map[string]bool{}, maxAlloc: map[string]uint64{}, clientLib: map[string]int{}}
	r := rand.New(rand.NewSource(*seed))

	// 0. every entry accepts the valid encoding (else the harness is broken)
	valid := map[string][]byte{}
	for _, c := range carriers {
		var b []byte
		if c.Kind == "proto" {
			var err error
			b, err = proto.Marshal(c.instance(*seed, 0))
			must(err)
		} else {
			b = c.Raw(*seed, 0)
		}
		valid[c.Name] = b
		for _, e := range entriesFor(c.Name) {
			before := len(f.viol)
			f.feed(e, c.Name, "valid", b)
			if len(f.viol) != before {
				// a violation on a VALID input is reported like any other
				continue
			}
		}
	}

	// 1. TLC's defect lattice
	cases := 0
	if *in != "" {
		fh, err := os.Open(*in)
		must(err)
		sc := bufio.NewScanner(fh)
		sc.Buffer(make([]byte, 1<<20), 1<<26)
		for sc.Scan() {
			var fc fuzzCase
			line := bytes.Replace(sc.Bytes(), []byte(`"defects":[]`), []byte(`"defects":{}`), 1) // TLC prints an empty function as []
			if err := json.Unmarshal(line, &fc); err != nil {
				must(fmt.Errorf("case %d: %v", cases, err))
			}
			c := carrierByName(fc.Carrier)
			if c == nil {
				must(fmt.Errorf("unknown carrier %q", fc.Carrier))
			}
			cases++
			rounds := *inst
			if c.All > 0 {
				rounds = c.All * *inst
			}
			subs := 1
			for k := 0; k < rounds*subs; k++ {
				sv := k / rounds
				k := k % rounds
				variant := (cases + k) % 7
				if c.All > 0 {
					variant = k % c.All
				}
				m := c.instance(*seed+int64(k/maxInt(c.All, 1)), variant).ProtoReflect()
				var targets []protoreflect.Message
				collectMsgs(m, fc.Msg, &targets, 0)
				if len(targets) == 0 {
					continue
				}
				var fields []string
				for fn := range fc.Defects {
					fields = append(fields, fn)
				}
				sort.Strings(fields)
				for ti, tm := range targets {
					if ti >= 2 {
						break
					}
					for _, fn := range fields {
						fd := tm.Descriptor().Fields().ByName(protoreflect.Name(fn))
						if fd == nil {
							must(fmt.Errorf("field table drift: %s.%s", fc.Msg, fn))
						}
						if n := applyDefect(tm, fd, fc.Defects[fn], r, sv+cases*len(fields)/2*(len(fields)-1)); len(fields) == 1 && n > subs && sv == 0 {
							subs = n
							if subs > 6 {
								subs = 6
							}
						}
					}
				}
				b, err := proto.Marshal(m.Interface())
				if err != nil {
					continue
				}
				var ds []string
				for _, fn := range fields {
					ds = append(ds, fn+"="+fc.Defects[fn])
				}
				origin := fmt.Sprintf("defect:%s{%s}#%d", fc.Msg, strings.Join(ds, ","), sv)
				for _, e := range entriesFor(c.Name) {
					f.feed(e, c.Name, origin, b)
				}
			}
		}
		fh.Close()
	}

	// 2. byte-level (and JSON-structure) mutations of valid encodings
	for _, c := range carriers {
		nv := 1
		if c.Kind == "proto" {
			nv = 3
		}
		if c.All > nv {
			nv = c.All
		}
		for v := 0; v < nv; v++ {
			var base []byte
			if c.Kind == "proto" {
				if c.All > 0 {
					base, _ = proto.Marshal(c.instance(*seed, v))
				} else {
					base, _ = proto.Marshal(c.instance(*seed, v*3))
				}
			} else {
				base = c.Raw(*seed, v)
			}
			for i := 0; i < *mut/nv; i++ {
				var b []byte
				if c.Kind == "json" && r.Intn(3) > 0 {
					b = mutateJSON(base, r)
				} else {
					b = mutateBytes(base, r)
				}
				for _, e := range entriesFor(c.Name) {
					f.feed(e, c.Name, "bytes", b)
				}
			}
		}
	}

	var vs []*fuzzViolation
	var keys []string
	for k := range f.viol {
		keys = append(keys, k)
	}
	sort.Strings(keys)
	for _, k := range keys {
		vs = append(vs, f.viol[k])
	}
	var oc []string
	for k := range f.outcomes {
		oc = append(oc, k)
	}
	sort.Strings(oc)
	var names []string
	for _, e := range entries {
		names = append(names, e.Name+" ["+e.Reach+"]")
	}
	res := map[string]interface{}{"calls": f.calls, "defect_cases": cases, "violations": vs, "per_entry": f.perEntry, "outcome_classes": oc,
		"distinct_outcome_classes": len(oc), "entries": names, "errors": f.errs, "accepted": f.oks, "max_alloc": f.maxAlloc, "client_lib_panics": f.clientLib}
	b, _ := json.MarshalIndent(res, "", " ")
	must(os.WriteFile(*out, b, 0o644))
}

// cmdFuzzOne replays one input on one entry point and prints the outcome.
func cmdFuzzOne(args []string) {
	fs := flag.NewFlagSet("fuzzone", flag.ExitOnError)
	en := fs.String("entry", "", "")
	hx := fs.String("hex", "", "")
	carr := fs.String("carrier", "", "use the valid encoding of this carrier instead of -hex")
	variant := fs.Int("variant", 0, "")
	fs.Parse(args)
	if *carr != "" {
		b, _ := proto.Marshal(carrierByName(*carr).Build(1, *variant))
		*hx = hex.EncodeToString(b)
	}
	log.Global.ExitFunc = func(code int) { panic(fatalExit{code}) }
	setupEntries()
	b, err := hex.DecodeString(*hx)
	must(err)
	f := &fuzzRun{viol: map[string]*fuzzViolation{}, perEntry: map[string]int{}, outcomes: map[string]bool{}, maxAlloc: map[string]uint64{}, clientLib: map[string]int{}}
	for _, e := range entries {
		if e.Name == *en {
			f.feed(e, "", "replay", b)
		}
	}
	var vs []*fuzzViolation
	for _, v := range f.viol {
		vs = append(vs, v)
	}
	ob, _ := json.Marshal(map[string]interface{}{"calls": f.calls, "violations": vs})
	fmt.Println(string(ob))
}

var _ = bytes.Equal
