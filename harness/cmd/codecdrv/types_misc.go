package main

import (
	"encoding/json"
	"errors"
	"fmt"
	"github.com/dominant-strategies/go-quai/crypto"
	"math/big"
	"strings"

	"github.com/dominant-strategies/go-quai/common"
	"github.com/dominant-strategies/go-quai/core/rawdb"
	"github.com/dominant-strategies/go-quai/core/types"
	"github.com/dominant-strategies/go-quai/p2p/pb"
	"google.golang.org/protobuf/proto"
)

// ------------------------------------------------------------------ Receipt

var receiptFields = []Field{
	{"status", []string{Z, T, M}}, {"cumGas", []string{Z, T, M}}, {"gasUsed", []string{Z, T, M}},
	{"logs", []string{Z, T, M}}, {"logData", []string{A, Z, T, M}}, {"topics", []string{Z, T, M}},
	{"contract", []string{Z, T}}, {"txHash", []string{Z, T}}, {"etxs", []string{Z, T}},
}

func buildReceipt(sh Shape, g *Gen) *types.Receipt {
	r := &types.Receipt{
		Status:            map[string]uint64{Z: 0, T: 1, M: 2}[sh["status"]],
		CumulativeGasUsed: g.U64("cumGas", sh["cumGas"], 64),
		GasUsed:           g.U64("gasUsed", sh["gasUsed"], 64),
		TxHash:            g.HashC("txHash", sh["txHash"], 0),
	}
	if sh["contract"] == T {
		r.ContractAddress = common.BytesToAddress(g.AddrBytes("contract", 0, homeLoc, false), homeLoc)
	} else {
		r.ContractAddress = common.BytesToAddress(make([]byte, 20), homeLoc)
	}
	nLogs := map[string]int{Z: 0, T: 2, M: 20}[sh["logs"]]
	nTopics := map[string]int{Z: 0, T: 2, M: 4}[sh["topics"]]
	for i := 0; i < nLogs; i++ {
		l := &types.Log{Address: common.BytesToAddress(g.AddrBytes("logAddr", i, homeLoc, false), homeLoc), Data: g.Bytes(fmt.Sprint("logData", i), sh["logData"], bigData)}
		l.Topics = make([]common.Hash, nTopics)
		for k := range l.Topics {
			l.Topics[k] = g.Hash("topic", 10*i+k)
		}
		r.Logs = append(r.Logs, l)
	}
	if sh["etxs"] == T {
		r.OutboundEtxs = types.Transactions{someTx(g, 2), someTx(g, 5)}
	}
	r.Bloom = types.CreateBloom(types.Receipts{r})
	return r
}

func projectReceipt(r *types.Receipt) []PV {
	sc := map[uint64]string{0: Z, 1: T, 2: M}[r.Status]
	var lv, dv, tv strings.Builder
	dc, tc := "", ""
	for _, l := range r.Logs {
		lv.WriteString(hx(l.Address.Bytes()) + ",")
		dv.WriteString(valBytes(l.Data) + ",")
		dc = classBytes(l.Data, bigData)
		for _, t := range l.Topics {
			tv.WriteString(t.Hex())
		}
		tv.WriteString(",")
		tc = map[bool]string{true: Z, false: T}[len(l.Topics) == 0]
		if len(l.Topics) >= 4 {
			tc = M
		}
	}
	lc := map[bool]string{true: Z, false: T}[len(r.Logs) == 0]
	if len(r.Logs) >= 20 {
		lc = M
	}
	if len(r.Logs) == 0 {
		dc, tc = T, T // not observable without logs
	}
	cc := T
	if strings.Trim(hx(r.ContractAddress.Bytes()), "0") == "" {
		cc = Z
	}
	ec := txListPV(r.OutboundEtxs, false, 1000)
	return []PV{
		{sc, fmt.Sprint(r.Status) + "/" + hx(r.PostState)},
		{classU64(r.CumulativeGasUsed, 64), fmt.Sprint(r.CumulativeGasUsed)},
		{classU64(r.GasUsed, 64), fmt.Sprint(r.GasUsed)},
		{lc, lv.String() + "bloom:" + hx(crypto.Keccak256(r.Bloom.Bytes())[:12])},
		{dc, dv.String()}, {tc, tv.String()},
		{cc, hx(r.ContractAddress.Bytes())},
		{classHash(r.TxHash), r.TxHash.Hex()},
		ec,
	}
}

func init() {
	register(&TypeDef{
		Name: "Receipt", Fields: receiptFields,
		Build:   func(sh Shape, g *Gen) interface{} { return buildReceipt(sh, g) },
		Project: func(v interface{}) []PV { return projectReceipt(v.(*types.Receipt)) },
		Codecs: []*Codec{
			{Name: "proto", LocSensitive: true, // storage form
				Enc: func(v interface{}) ([]byte, error) {
					p, err := (*types.ReceiptForStorage)(v.(*types.Receipt)).ProtoEncode()
					if err != nil {
						return nil, err
					}
					return proto.Marshal(p)
				},
				Dec: func(b []byte, loc common.Location) (interface{}, error) {
					p := new(types.ProtoReceiptForStorage)
					if err := proto.Unmarshal(b, p); err != nil {
						return nil, err
					}
					r := new(types.ReceiptForStorage)
					if err := r.ProtoDecode(p, loc); err != nil {
						return nil, err
					}
					return (*types.Receipt)(r), nil
				}},
			{Name: "db", LocSensitive: true,
				Enc: func(v interface{}) ([]byte, error) {
					db := newMemDB()
					rawdb.WriteReceipts(db, common.Hash{9}, 5, types.Receipts{v.(*types.Receipt)})
					return dumpDB(db), nil
				},
				Dec: func(b []byte, loc common.Location) (interface{}, error) {
					db, err := loadDB(b)
					if err != nil {
						return nil, err
					}
					rs := rawdb.ReadRawReceipts(locDB{db, loc}, common.Hash{9}, 5)
					if len(rs) != 1 {
						return nil, fmt.Errorf("ReadRawReceipts returned %d receipts", len(rs))
					}
					return rs[0], nil
				}},
		},
	})
}

// ------------------------------------------------------------------ Qi outputs: TxOut, UtxoEntry, SpentUtxoEntry

var utxoFields = []Field{{"denom", []string{Z, T, M}}, {"address", []string{A, Z, T, M}}, {"lock", []string{A, Z, T, M}}, {"index", []string{Z, T, M}}}

func init() {
	addr := func(sh Shape, g *Gen) []byte {
		switch sh["address"] {
		case A:
			return nil
		case Z:
			return []byte{}
		case M:
			return g.Bytes("address", M, 300)
		}
		return g.AddrBytes("address", 0, homeLoc, true)
	}
	pv := func(d uint8, a []byte, l *big.Int, idx uint16) []PV {
		return []PV{{classU64(uint64(d), 8), fmt.Sprint(d)}, {classBytes(a, 300), valBytes(a)}, {classBig(l), valBig(l)}, {classU64(uint64(idx), 16), fmt.Sprint(idx)}}
	}
	register(&TypeDef{
		Name: "TxOut", Fields: utxoFields[:3],
		Build: func(sh Shape, g *Gen) interface{} {
			return &types.TxOut{Denomination: uint8(g.U64("denom", sh["denom"], 8)), Address: addr(sh, g), Lock: g.Big("lock", sh["lock"])}
		},
		Project: func(v interface{}) []PV { o := v.(*types.TxOut); return pv(o.Denomination, o.Address, o.Lock, 0)[:3] },
		Codecs: []*Codec{{Name: "proto",
			Enc: func(v interface{}) ([]byte, error) {
				p, err := v.(*types.TxOut).ProtoEncode()
				if err != nil {
					return nil, err
				}
				return proto.Marshal(p)
			},
			Dec: func(b []byte, loc common.Location) (interface{}, error) {
				p := new(types.ProtoTxOut)
				if err := proto.Unmarshal(b, p); err != nil {
					return nil, err
				}
				o := new(types.TxOut)
				if err := o.ProtoDecode(p); err != nil {
					return nil, err
				}
				return o, nil
			}}},
	})
	type utxoAt struct {
		H common.Hash
		I uint16
		E *types.UtxoEntry
	}
	register(&TypeDef{
		Name: "UtxoEntry", Fields: utxoFields,
		Build: func(sh Shape, g *Gen) interface{} {
			return &utxoAt{g.Hash("txhash", 0), uint16(g.U64("index", sh["index"], 16)),
				&types.UtxoEntry{Denomination: uint8(g.U64("denom", sh["denom"], 8)), Address: addr(sh, g), Lock: g.Big("lock", sh["lock"])}}
		},
		Project: func(v interface{}) []PV {
			u := v.(*utxoAt)
			p := pv(u.E.Denomination, u.E.Address, u.E.Lock, u.I)
			p[3].Val += "@" + u.H.Hex()
			return p
		},
		Hash: func(v interface{}) (string, bool) { u := v.(*utxoAt); return types.UTXOHash(u.H, u.I, u.E).Hex(), true },
		Codecs: []*Codec{
			{Name: "db", // rawdb.CreateUTXO / GetUTXO
				Enc: func(v interface{}) ([]byte, error) {
					u := v.(*utxoAt)
					db := newMemDB()
					if err := rawdb.CreateUTXO(db, u.H, u.I, u.E); err != nil {
						return nil, err
					}
					return dumpDB(db), nil
				},
				Dec: func(b []byte, loc common.Location) (interface{}, error) {
					db, err := loadDB(b)
					if err != nil {
						return nil, err
					}
					keys, _ := dbRecords(b)
					if len(keys) != 1 {
						return nil, errors.New("unexpected utxo records")
					}
					h, i, err := rawdb.ReverseUtxoKey(keys[0])
					if err != nil {
						return nil, err
					}
					e := rawdb.GetUTXO(db, h, i)
					if e == nil {
						return nil, errors.New("GetUTXO returned nil")
					}
					return &utxoAt{h, i, e}, nil
				}},
			{Name: "spent", // SpentUtxoEntry proto (undo records)
				Enc: func(v interface{}) ([]byte, error) {
					u := v.(*utxoAt)
					s := &types.SpentUtxoEntry{OutPoint: types.OutPoint{TxHash: u.H, Index: u.I}, UtxoEntry: u.E}
					db := newMemDB()
					if err := rawdb.WriteSpentUTXOs(db, common.Hash{3}, []*types.SpentUtxoEntry{s}); err != nil {
						return nil, err
					}
					return dumpDB(db), nil
				},
				Dec: func(b []byte, loc common.Location) (interface{}, error) {
					db, err := loadDB(b)
					if err != nil {
						return nil, err
					}
					l, err := rawdb.ReadSpentUTXOs(db, common.Hash{3})
					if err != nil {
						return nil, err
					}
					if len(l) != 1 {
						return nil, fmt.Errorf("ReadSpentUTXOs returned %d entries", len(l))
					}
					return &utxoAt{l[0].TxHash, l[0].Index, l[0].UtxoEntry}, nil
				}},
		},
	})
}

// ------------------------------------------------------------------ Termini

func init() {
	hashes := func(g *Gen, f, c string, n int) []common.Hash {
		out := make([]common.Hash, n)
		if c != Z {
			for i := range out {
				out[i] = g.Hash(f, i)
			}
		}
		return out
	}
	register(&TypeDef{
		Name: "Termini", Fields: []Field{{"dom", []string{Z, T}}, {"sub", []string{Z, T}}},
		Build: func(sh Shape, g *Gen) interface{} {
			t := types.EmptyTermini()
			t.SetDomTermini(hashes(g, "dom", sh["dom"], common.MaxWidth))
			t.SetSubTermini(hashes(g, "sub", sh["sub"], common.MaxWidth))
			return &t
		},
		Project: func(v interface{}) []PV {
			t := v.(*types.Termini)
			f := func(hs []common.Hash) PV {
				c, s := Z, fmt.Sprint(len(hs), ":")
				for _, h := range hs {
					if h != (common.Hash{}) {
						c = T
					}
					s += h.Hex()
				}
				return PV{c, s}
			}
			return []PV{f(t.DomTermini()), f(t.SubTermini())}
		},
		Codecs: []*Codec{
			{Name: "proto",
				Enc: func(v interface{}) ([]byte, error) { return proto.Marshal(v.(*types.Termini).ProtoEncode()) },
				Dec: func(b []byte, loc common.Location) (interface{}, error) {
					p := new(types.ProtoTermini)
					if err := proto.Unmarshal(b, p); err != nil {
						return nil, err
					}
					t := new(types.Termini)
					if err := t.ProtoDecode(p); err != nil {
						return nil, err
					}
					return t, nil
				}},
			{Name: "rpcjson",
				Enc: func(v interface{}) ([]byte, error) { return json.Marshal(v.(*types.Termini).RPCMarshalTermini()) },
				Dec: func(b []byte, loc common.Location) (interface{}, error) {
					t := new(types.Termini)
					if err := json.Unmarshal(b, t); err != nil {
						return nil, err
					}
					return t, nil
				}},
			{Name: "db",
				Enc: func(v interface{}) ([]byte, error) {
					db := newMemDB()
					rawdb.WriteTermini(db, common.Hash{4}, *v.(*types.Termini))
					return dumpDB(db), nil
				},
				Dec: func(b []byte, loc common.Location) (interface{}, error) {
					db, err := loadDB(b)
					if err != nil {
						return nil, err
					}
					t := rawdb.ReadTermini(db, common.Hash{4})
					if t == nil {
						return nil, errors.New("ReadTermini returned nil")
					}
					return t, nil
				}},
		},
	})
}

// ------------------------------------------------------------------ AuxTemplate (gossiped)

func init() {
	fields := []Field{{"chain", []string{"kawpow", "btc", "bch", "scrypt"}}, {"u32", []string{Z, T, M}}, {"coinbaseOut", []string{A, Z, T, M}},
		{"branch", []string{Z, T, M}}, {"sigs", []string{Z, T}}, {"auxpow2", []string{A, Z, T}}}
	register(&TypeDef{
		Name: "AuxTemplate", Fields: fields,
		Build: func(sh Shape, g *Gen) interface{} {
			at := types.NewAuxTemplate()
			at.SetPowID(powIDs[sh["chain"]])
			at.SetPrevHash(g.Hash("prev", 0))
			at.SetVersion(uint32(g.U64("version", sh["u32"], 32)))
			at.SetNBits(uint32(g.U64("bits", sh["u32"], 32)))
			at.SetSignatureTime(uint32(g.U64("sigtime", sh["u32"], 32)))
			at.SetHeight(uint32(g.U64("height", sh["u32"], 32)))
			at.SetCoinbaseOut(g.Bytes("coinbaseOut", sh["coinbaseOut"], 5000))
			var br [][]byte
			for i := 0; i < map[string]int{Z: 0, T: 2, M: 14}[sh["branch"]]; i++ {
				br = append(br, g.Hash("br", i).Bytes())
			}
			at.SetMerkleBranch(br)
			at.SetSigs(g.Bytes("sigs", sh["sigs"], 500))
			at.SetAuxPow2(g.Bytes("auxpow2", sh["auxpow2"], 500))
			return at
		},
		Project: func(v interface{}) []PV {
			at := v.(*types.AuxTemplate)
			var bv strings.Builder
			for _, b := range at.MerkleBranch() {
				bv.WriteString(hx(b) + ",")
			}
			bc := map[bool]string{true: Z, false: T}[len(at.MerkleBranch()) == 0]
			if len(at.MerkleBranch()) >= 14 {
				bc = M
			}
			ph := at.PrevHash()
			return []PV{
				{powName(at.PowID()), hx(ph[:])},
				{classU64(uint64(at.Version()), 32), fmt.Sprint(at.Version(), at.Bits(), at.SignatureTime(), at.Height())},
				{classBytes(at.CoinbaseOut(), 5000), valBytes(at.CoinbaseOut())},
				{bc, bv.String()},
				{classBytes(at.Sigs(), 500), valBytes(at.Sigs())},
				{classBytes(at.AuxPow2(), 500), valBytes(at.AuxPow2())},
			}
		},
		Hash: func(v interface{}) (string, bool) { h := v.(*types.AuxTemplate).Hash(); return hx(h[:]), true },
		Codecs: []*Codec{
			{Name: "gossip",
				Enc: func(v interface{}) ([]byte, error) { return pb.ConvertAndMarshal(v.(*types.AuxTemplate)) },
				Dec: func(b []byte, loc common.Location) (interface{}, error) {
					var out interface{}
					if err := pb.UnmarshalAndConvert(b, loc, &out, &types.AuxTemplate{}); err != nil {
						return nil, err
					}
					return out.(*types.AuxTemplate), nil
				}},
		},
	})
}

// ------------------------------------------------------------------ p2p request frame and hash response

type p2pReq struct {
	ID   uint32
	Loc  common.Location
	Data interface{} // common.Hash or *big.Int
	Kind string      // block | blocks | header | blockhash
}

func init() {
	kinds := map[string]interface{}{"block": &types.WorkObjectBlockView{}, "blocks": []*types.WorkObjectBlockView{}, "header": &types.WorkObjectHeaderView{}, "blockhash": common.Hash{}}
	register(&TypeDef{
		Name: "P2PRequest",
		Fields: []Field{{"kind", []string{"block", "blocks", "header", "blockhash"}}, {"id", []string{Z, T, M}},
			{"query", []string{"hash", Z, T, M}}, {"loc", []string{Z, "region", T}}},
		Build: func(sh Shape, g *Gen) interface{} {
			r := &p2pReq{ID: uint32(g.U64("id", sh["id"], 32)), Kind: sh["kind"]}
			switch sh["loc"] {
			case Z:
				r.Loc = common.Location{}
			case "region":
				r.Loc = common.Location{1}
			default:
				r.Loc = common.Location{1, 2}
			}
			if sh["query"] == "hash" {
				r.Data = g.Hash("hash", 0)
			} else {
				r.Data = g.Big("number", sh["query"])
			}
			return r
		},
		Project: func(v interface{}) []PV {
			r := v.(*p2pReq)
			lc := map[int]string{0: Z, 1: "region", 2: T}[len(r.Loc)]
			q := PV{"?", fmt.Sprintf("%T", r.Data)}
			switch d := r.Data.(type) {
			case common.Hash:
				q = PV{"hash", d.Hex()}
			case *common.Hash:
				q = PV{"hash", d.Hex()}
			case *big.Int:
				q = PV{classBig(d), valBig(d)}
			}
			return []PV{{r.Kind, ""}, {classU64(uint64(r.ID), 32), fmt.Sprint(r.ID)}, q, {lc, hx(r.Loc)}}
		},
		Codecs: []*Codec{{Name: "p2p",
			Enc: func(v interface{}) ([]byte, error) {
				r := v.(*p2pReq)
				d := r.Data
				if h, ok := d.(*common.Hash); ok {
					d = *h
				}
				return pb.EncodeQuaiRequest(r.ID, r.Loc, d, kinds[r.Kind])
			},
			Dec: func(b []byte, loc common.Location) (interface{}, error) {
				msg, err := pb.DecodeQuaiMessage(b)
				if err != nil {
					return nil, err
				}
				if msg.GetRequest() == nil {
					return nil, errors.New("not a request frame")
				}
				id, typ, l, data, err := pb.DecodeQuaiRequest(msg.GetRequest())
				if err != nil {
					return nil, err
				}
				kind := ""
				switch typ.(type) {
				case *types.WorkObjectBlockView:
					kind = "block"
				case []*types.WorkObjectBlockView:
					kind = "blocks"
				case *types.WorkObjectHeaderView:
					kind = "header"
				case *common.Hash:
					kind = "blockhash"
				}
				return &p2pReq{ID: id, Loc: l, Data: data, Kind: kind}, nil
			}}},
	})
	register(&TypeDef{
		Name: "P2PHashResponse", Fields: []Field{{"hash", []string{Z, T, M}}},
		Build: func(sh Shape, g *Gen) interface{} { h := g.HashC("hash", sh["hash"], 0); return &h },
		Project: func(v interface{}) []PV {
			h := v.(*common.Hash)
			return []PV{{classHash(*h), h.Hex()}}
		},
		Codecs: []*Codec{
			{Name: "p2p",
				Enc: func(v interface{}) ([]byte, error) {
					return pb.EncodeQuaiResponse(5, homeLoc, &common.Hash{}, *v.(*common.Hash))
				},
				Dec: func(b []byte, loc common.Location) (interface{}, error) {
					_, x, err := p2pRespDecode(b)
					if err != nil {
						return nil, err
					}
					h := x.(common.Hash)
					return &h, nil
				}},
			{Name: "gossip",
				Enc: func(v interface{}) ([]byte, error) { return pb.ConvertAndMarshal(*v.(*common.Hash)) },
				Dec: func(b []byte, loc common.Location) (interface{}, error) {
					var out interface{}
					if err := pb.UnmarshalAndConvert(b, loc, &out, common.Hash{}); err != nil {
						return nil, err
					}
					h := out.(common.Hash)
					return &h, nil
				}},
		},
	})
}

// ------------------------------------------------------------------ hash lists stored per block (manifest, interlink)

func init() {
	register(&TypeDef{
		Name: "Manifest", Fields: []Field{{"n", []string{Z, T, M}}},
		Build: func(sh Shape, g *Gen) interface{} {
			m := types.BlockManifest{}
			for i := 0; i < map[string]int{Z: 0, T: 3, M: 300}[sh["n"]]; i++ {
				m = append(m, g.Hash("m", i))
			}
			return &m
		},
		Project: func(v interface{}) []PV {
			m := *v.(*types.BlockManifest)
			s := ""
			for _, h := range m {
				s += h.Hex()
			}
			c := map[bool]string{true: Z, false: T}[len(m) == 0]
			if len(m) >= 300 {
				c = M
			}
			return []PV{{c, s}}
		},
		Codecs: []*Codec{
			{Name: "proto",
				Enc: func(v interface{}) ([]byte, error) {
					p, err := v.(*types.BlockManifest).ProtoEncode()
					if err != nil {
						return nil, err
					}
					return proto.Marshal(p)
				},
				Dec: func(b []byte, loc common.Location) (interface{}, error) {
					p := new(types.ProtoManifest)
					if err := proto.Unmarshal(b, p); err != nil {
						return nil, err
					}
					m := types.BlockManifest{}
					if err := m.ProtoDecode(p); err != nil {
						return nil, err
					}
					return &m, nil
				}},
			{Name: "db",
				Enc: func(v interface{}) ([]byte, error) {
					db := newMemDB()
					rawdb.WriteManifest(db, common.Hash{6}, *v.(*types.BlockManifest))
					return dumpDB(db), nil
				},
				Dec: func(b []byte, loc common.Location) (interface{}, error) {
					db, err := loadDB(b)
					if err != nil {
						return nil, err
					}
					m := rawdb.ReadManifest(db, common.Hash{6})
					if m == nil {
						m = types.BlockManifest{}
					}
					return &m, nil
				}},
		},
	})
}
