//go:build !overlay

package main

// Without the -overlay build (see tools/props/C15.py) the production gossip validator cannot be reached
// from outside the go-quai module; the C14 build uses this stub.
func setupValidator() {}
