package main

import (
	"bytes"
	"encoding/binary"
	"fmt"
	"io"
	"sort"

	"github.com/dominant-strategies/go-quai/common"
	"github.com/dominant-strategies/go-quai/core/rawdb"
	"github.com/dominant-strategies/go-quai/ethdb"
	"github.com/dominant-strategies/go-quai/log"
)

// PV is the observation of one shape field on a concrete object: its abstract class and a canonical
// rendering of the concrete value ("" / "0" for absent and zero alike).
type PV struct {
	Class string
	Val   string
}

type Field struct {
	Name string
	Dom  []string
}

// Codec is one production encode/decode pair between the in-memory form and one representation.
type Codec struct {
	Name string
	// Enc runs the production encoder(s); for database codecs it runs the rawdb Write* accessor on a
	// fresh memory database and returns the resulting key/value records in canonical order.
	Enc func(v interface{}) ([]byte, error)
	// Dec runs the production decoder(s) with the given node location.
	Dec func(b []byte, loc common.Location) (interface{}, error)
	// LocSensitive: decoding with a different node location is part of the explored paths.
	LocSensitive bool
}

type TypeDef struct {
	Name   string
	Fields []Field
	// WellFormed mirrors the spec's WellFormed(type, shape) (the driver only double-checks).
	Build   func(sh Shape, g *Gen) interface{}
	Project func(v interface{}) []PV
	Codecs  []*Codec
	Hash    func(v interface{}) (string, bool)
	// Warm makes every memoised hash of the object populated (calls Hash()).
	// Mutate changes consensus field f of v through the public mutator API and returns the API's name.
	Mutate func(v interface{}, f string, g *Gen) (interface{}, string, bool)
}

var registry = map[string]*TypeDef{}
var registryOrder []string

func register(t *TypeDef) {
	registry[t.Name] = t
	registryOrder = append(registryOrder, t.Name)
}

func (t *TypeDef) codec(name string) *Codec {
	for _, c := range t.Codecs {
		if c.Name == name {
			return c
		}
	}
	return nil
}

func (t *TypeDef) fieldNames() []string {
	out := make([]string, len(t.Fields))
	for i, f := range t.Fields {
		out[i] = f.Name
	}
	return out
}

// ---------------------------------------------------------------- memory database as a byte record

func newMemDB() ethdb.Database { return rawdb.NewMemoryDatabase(log.Global) }

// dumpDB serialises the whole content of a memory database in key order.
func dumpDB(db ethdb.Database) []byte {
	it := db.NewIterator(nil, nil)
	defer it.Release()
	type kv struct{ k, v []byte }
	var all []kv
	for it.Next() {
		all = append(all, kv{common.CopyBytes(it.Key()), common.CopyBytes(it.Value())})
	}
	sort.Slice(all, func(i, j int) bool { return bytes.Compare(all[i].k, all[j].k) < 0 })
	var buf bytes.Buffer
	var n [4]byte
	for _, e := range all {
		binary.BigEndian.PutUint32(n[:], uint32(len(e.k)))
		buf.Write(n[:])
		buf.Write(e.k)
		binary.BigEndian.PutUint32(n[:], uint32(len(e.v)))
		buf.Write(n[:])
		buf.Write(e.v)
	}
	return buf.Bytes()
}

func loadDB(b []byte) (ethdb.Database, error) {
	db := newMemDB()
	r := bytes.NewReader(b)
	var n [4]byte
	for r.Len() > 0 {
		if _, err := io.ReadFull(r, n[:]); err != nil {
			return nil, fmt.Errorf("db record: %v", err)
		}
		kl := binary.BigEndian.Uint32(n[:])
		if int(kl) > r.Len() {
			return nil, fmt.Errorf("db record: key length")
		}
		k := make([]byte, kl)
		io.ReadFull(r, k)
		if _, err := io.ReadFull(r, n[:]); err != nil {
			return nil, fmt.Errorf("db record: %v", err)
		}
		vl := binary.BigEndian.Uint32(n[:])
		if int(vl) > r.Len() {
			return nil, fmt.Errorf("db record: value length")
		}
		v := make([]byte, vl)
		io.ReadFull(r, v)
		db.Put(k, v)
	}
	return db, nil
}

// dbRecords splits a dumped database into its (key, value) pairs (used by the corruption fuzzer).
func dbRecords(b []byte) (keys, vals [][]byte) {
	r := bytes.NewReader(b)
	var n [4]byte
	for r.Len() > 0 {
		io.ReadFull(r, n[:])
		k := make([]byte, binary.BigEndian.Uint32(n[:]))
		io.ReadFull(r, k)
		io.ReadFull(r, n[:])
		v := make([]byte, binary.BigEndian.Uint32(n[:]))
		io.ReadFull(r, v)
		keys = append(keys, k)
		vals = append(vals, v)
	}
	return
}

func packDB(keys, vals [][]byte) []byte {
	var buf bytes.Buffer
	var n [4]byte
	for i := range keys {
		binary.BigEndian.PutUint32(n[:], uint32(len(keys[i])))
		buf.Write(n[:])
		buf.Write(keys[i])
		binary.BigEndian.PutUint32(n[:], uint32(len(vals[i])))
		buf.Write(n[:])
		buf.Write(vals[i])
	}
	return buf.Bytes()
}

var debugHook func(r interface{})

// guard runs f and converts a panic into an error value of the form "PANIC: <message>".
func guard(f func() error) (err error) {
	defer func() {
		if r := recover(); r != nil {
			if debugHook != nil {
				debugHook(r)
			}
			err = fmt.Errorf("PANIC: %v", r)
		}
	}()
	return f()
}
