package main

import (
	"fmt"
	"os"
	"runtime/debug"
)

// CODEC_DEBUG=1 prints the stack of every panic caught by guard() (development aid for `codecdrv probe`).
func init() {
	if os.Getenv("CODEC_DEBUG") == "" {
		return
	}
	debugHook = func(r interface{}) { fmt.Println(r); debug.PrintStack() }
}
