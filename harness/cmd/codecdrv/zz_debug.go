package main

import (
	"fmt"
	"os"
	"runtime/debug"
)

func init() {
	if os.Getenv("CODEC_DEBUG") == "" {
		return
	}
	debugHook = func(r interface{}) { fmt.Println(r); debug.PrintStack() }
}

func init() {
	if os.Getenv("CODEC_DBG_DET") == "" {
		return
	}
	dbgDet = func() {
		t := registry["WOHeader"]
		sh := baseline(t)
		sh["auxpow"] = "btc"
		for i := 0; i < 4; i++ {
			o := t.Build(sh, &Gen{Seed: 1000, Type: t.Name})
			h, _ := t.Hash(o)
			b, _ := t.Codecs[0].Enc(o)
			fmt.Println(h, len(b))
		}
	}
}
