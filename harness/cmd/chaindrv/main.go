// chaindrv drives a real in-process go-quai hierarchy (prime/region/zone) through mined blocks, forks
// and head switches with real Qi/Quai transactions and records, after every step, the projection of
// the zone database onto the abstract state of spec/ZoneChain.tla (code -> spec traces for C06/C10),
// plus natively evaluated property checks.
package main

import (
	"bufio"
	"encoding/json"
	"flag"
	"fmt"
	"os"
	"path/filepath"
	"strconv"
	"strings"

	"github.com/dominant-strategies/go-quai/common"
	"github.com/dominant-strategies/go-quai/core/types"
	"verifharness/chain"
	"verifharness/mininet"
)

type shapeStep struct {
	Op string `json:"op"` // "mine" | "sethead"
	P  int    `json:"p"`  // mine: parent (relative block index within the shape, 0 = base)
	B  int    `json:"b"`  // sethead: target
}

func verbose2() *bool { b := os.Getenv("DEBUG_SETHEAD") != ""; return &b }

func fatal(code int, a ...interface{}) {
	fmt.Fprintln(os.Stderr, a...)
	os.Exit(code)
}

func cmdRandom(args []string) {
	fs := flag.NewFlagSet("random", flag.ExitOnError)
	seed := fs.Int64("seed", 1, "")
	steps := fs.Int("steps", 40, "")
	out := fs.String("out", "", "trace ndjson")
	backend := fs.String("backend", "memory", "memory|leveldb|pebble")
	dir := fs.String("dir", "", "")
	trim := fs.Uint64("trimdepth", 4, "")
	shapes := fs.String("shapes", "", "optional ndjson of TLC-generated tree shapes to realise after warm-up")
	index := fs.Bool("index", false, "IndexAddressUtxos")
	verbose := fs.Bool("v", false, "")
	followers := fs.String("followers", "", "comma list of back-ends for follower nodes that import every block (memory|leveldb|pebble)")
	reexec := fs.String("reexec", "", "comma list of GOMAXPROCS values for re-executing each block before insertion")
	lockups := fs.Bool("lockups", false, "contract-held coinbases ('cl' lockup records)")
	trimspend := fs.Int("trimspend", 0, "attempts to spend a small output in exactly the block that trims it")
	chained := fs.Int("chained", 0, "every N-th step: a peer-style block with a same-block chained Qi spend, then forks around it")
	primesib := fs.Int("primesiblings", 0, "every N-th step: conversions, a region block, then two sibling prime blocks confirming the same rollups")
	fresh := fs.Int("fresh", 0, "compare with a fresh node that only saw the canonical chain every N steps (and at the end)")
	fs.Parse(args)

	chain.FastParams()
	for d := range types.TrimDepths {
		types.TrimDepths[d] = *trim
	}
	e, err := chain.Boot(chain.EnvOptions{Net: mininet.Options{Quiet: !*verbose, MinerPreference: 0.5, Backend: *backend, Dir: *dir, IndexAddressUtxos: *index}, Seed: uint64(*seed), Lockups: *lockups})
	if err != nil {
		fatal(3, "boot:", err)
	}
	defer e.Net.Close()
	r, err := chain.NewRunner(e, *seed)
	if err != nil {
		fatal(3, err)
	}
	r.Verbose = *verbose
	r.Verbose2 = os.Getenv("DEBUG_SETHEAD") != ""
	if *reexec != "" {
		for _, x := range strings.Split(*reexec, ",") {
			v, _ := strconv.Atoi(x)
			if v > 0 {
				r.ReexecProcs = append(r.ReexecProcs, v)
			}
		}
	}
	if *followers != "" {
		for i, be := range strings.Split(*followers, ",") {
			opt := e.Net.Opt
			opt.Backend, opt.Dir, opt.ZoneDB, opt.WrapZoneDB, opt.WrapDB = be, filepath.Join(*dir, fmt.Sprintf("follower-%d", i)), nil, nil, nil
			if be == "nosnap" { // memory database, state snapshots off: reads what the committed trie holds, never a cached layer
				opt.Backend, opt.NoSnapshot = "memory", true
			}
			os.MkdirAll(opt.Dir, 0o755)
			f, err := mininet.New(opt)
			if err != nil {
				fatal(3, "follower boot:", err)
			}
			defer f.Close()
			r.Followers = append(r.Followers, f)
			r.FollowerNames = append(r.FollowerNames, be)
		}
	}
	head := 0
	aborted := ""
	finish := func() {}
	mine := func(parent, n int) int {
		if n > 0 {
			r.RandomContent(n)
		}
		id, err := r.MineOn(parent, -1)
		if err != nil {
			// the node could not extend its own chain: keep everything observed so far (the trace usually shows why)
			aborted = "mine: " + err.Error()
			finish()
			os.Exit(0)
		}
		return id
	}
	finish = func() {
		if *out != "" {
			r.WriteEvents(*out)
		}
		sum := map[string]interface{}{"events": len(r.Events), "blocks": len(r.Blocks) - 1, "entries": r.NumEntries(), "problems": r.Problems, "backend": *backend,
			"trimspend_realised": 0, "reexecutions": r.Reexecs, "follower_checks": r.FollowerChecks, "fresh_replays": r.FreshReplays, "index_checks": r.IndexChecks, "chained_blocks": r.Chained, "slot_calls": r.SlotCalls, "aborted": aborted}
		b, _ := json.Marshal(sum)
		fmt.Println(string(b))
	}
	head, err = r.WarmUp()
	if err != nil {
		aborted = "warm-up: " + err.Error()
		finish()
		os.Exit(0)
	}
	realised := 0
	for i := 0; i < *trimspend; i++ {
		ok, err := r.TrimSpend(*trim)
		if err != nil {
			fatal(3, "trimspend:", err)
		}
		if ok {
			realised++
		}
	}
	// a block as a PEER may build it: two Qi transactions, the second spending an output of the first; it is then abandoned
	// for a sibling, made head again and (sometimes) abandoned once more: the rollback must not resurrect the intermediate
	// output, the roll-forward must re-apply both transactions
	doChained := func() {
		p := r.Blocks2Head()
		id, ok, err := r.MineChained(p)
		if err != nil {
			aborted = "chained: " + err.Error()
			finish()
			os.Exit(0)
		}
		if ok {
			sib := mine(p, r.R.Intn(3))
			r.SetHead(id, true)
			if r.R.Intn(2) == 0 {
				r.SetHead(sib, true)
			}
		}
	}
	if *chained > 0 && *shapes == "" {
		doChained() // right after the warm-up every key still holds spendable outputs of large denominations
	}
	head = r.Blocks2Head()
	base := head
	if *shapes != "" {
		f, err := os.Open(*shapes)
		if err != nil {
			fatal(3, err)
		}
		sc := bufio.NewScanner(f)
		sc.Buffer(make([]byte, 1<<20), 1<<24)
		nsh := 0
		for sc.Scan() {
			var sh []shapeStep
			if err := json.Unmarshal(sc.Bytes(), &sh); err != nil {
				fatal(3, err)
			}
			local := []int{base}
			for _, s := range sh {
				switch s.Op {
				case "mine":
					if s.P >= len(local) {
						fatal(3, "bad shape")
					}
					id := mine(local[s.P], r.R.Intn(4))
					local = append(local, id)
				case "sethead":
					if s.B >= len(local) {
						fatal(3, "bad shape")
					}
					r.SetHead(local[s.B], true)
				}
			}
			// continue the next shape from whatever block is head now, a few blocks later
			base = mine(r.Blocks2Head(), r.R.Intn(3))
			nsh++
		}
		f.Close()
	} else {
		for i := 0; i < *steps; i++ {
			if *fresh > 0 && i > 0 && i%*fresh == 0 {
				if err := r.FreshReplay(fmt.Sprintf("step-%d", i)); err != nil {
					fatal(3, "fresh replay:", err)
				}
			}
			nb := len(r.Blocks)
			if *chained > 0 && i%*chained == *chained-1 {
				doChained()
				continue
			}
			if *primesib > 0 && i%*primesib == *primesib-2 {
				// conversions emitted, rolled up by a region block, then confirmed by TWO prime blocks on the same parent: the second pass
				// over the same (cached) rollups must reprice from the original amounts again
				r.OfferConversions(3)
				z := mine(r.Blocks2Head(), 0)
				refused := func(which string, err error) {
					// "no nonce found" = the requested order could not be sealed within the search budget: not a verdict
					if err != nil && !strings.Contains(err.Error(), "no nonce found") {
						r.Problems = append(r.Problems, chain.Problem{Kind: "prime-sibling-scenario-block-refused", Info: map[string]interface{}{"which": which, "err": err.Error(), "step": i}})
					}
				}
				rg, err := r.MineOn(z, mininet.Region)
				if err != nil {
					refused("region block rolling up the conversions", err)
					continue
				}
				if _, err := r.MineOn(rg, mininet.Prime); err != nil {
					refused("first prime block", err)
					continue
				}
				b, err := r.MineOn(rg, mininet.Prime)
				if err != nil {
					refused("second prime block on the same parent", err)
					continue
				}
				mine(b, 0) // the zone executes what the second sibling delivered
				continue
			}
			switch x := r.R.Intn(20); {
			case x < 12:
				mine(r.Blocks2Head(), r.R.Intn(5))
			case x < 17:
				back := 1 + r.R.Intn(3)
				p := r.Blocks2Head()
				for j := 0; j < back && r.Blocks[p].Parent > 0; j++ {
					p = r.Blocks[p].Parent
				}
				mine(p, r.R.Intn(4))
			default:
				lo := nb - 7
				if lo < 1 {
					lo = 1
				}
				r.SetHead(lo+r.R.Intn(nb-lo), true)
			}
		}
	}
	if *fresh > 0 {
		if err := r.FreshReplay("end"); err != nil {
			fatal(3, "fresh replay:", err)
		}
	}
	if e.OwnerContract != nil && *verbose2() {
		st, _ := e.Net.ZoneCore().Processor().State()
		ia, _ := e.OwnerContract.InternalAddress()
		fmt.Fprintf(os.Stderr, "owner contract %s code=%x nonce(deployer)=%d\n", e.OwnerContract.Hex(), st.GetCode(ia), st.GetNonce(func() common.InternalAddress { a, _ := e.Quai[len(e.Quai)-1].Addr.InternalAddress(); return a }()))
		for h := uint64(1); h <= e.Height(); h++ {
			b := e.Net.ZoneCore().GetBlockByNumber(h)
			if b == nil {
				continue
			}
			for i, tx := range b.Transactions() {
				if tx.Type() == types.QuaiTxType && tx.To() == nil {
					rs := e.Net.ZoneCore().Processor().GetReceiptsByHash(b.Hash())
					fmt.Fprintf(os.Stderr, "creation tx in block %d idx %d status=%d gasUsed=%d contract=%s\n", h, i, rs[i].Status, rs[i].GasUsed, rs[i].ContractAddress.Hex())
				}
			}
		}
		blk := e.Net.ZoneCore().CurrentBlock()
		for _, etx := range blk.OutboundEtxs() {
			fmt.Fprintf(os.Stderr, "head outbound etx type=%d datalen=%d to=%s\n", etx.EtxType(), len(etx.Data()), etx.To().Hex())
		}
	}
	slotState := ""
	if e.SlotContract != nil {
		if st, err := e.Net.ZoneCore().Processor().State(); err == nil {
			if ia, err := e.SlotContract.InternalAddress(); err == nil {
				slotState = fmt.Sprintf("code=%d slot0=%x slot1=%x", len(st.GetCode(ia)), st.GetState(ia, common.Hash{}).Bytes()[31:], st.GetState(ia, common.BytesToHash([]byte{1})).Bytes()[31:])
			}
		}
	}
	w, err := os.Create(*out)
	if err != nil {
		fatal(3, err)
	}
	bw := bufio.NewWriter(w)
	enc := json.NewEncoder(bw)
	for _, ev := range r.Events {
		enc.Encode(ev)
	}
	bw.Flush()
	w.Close()
	sum := map[string]interface{}{"events": len(r.Events), "blocks": len(r.Blocks) - 1, "entries": r.NumEntries(), "problems": r.Problems, "backend": *backend, "trimspend_realised": realised, "lockup_records": len(r.Prev.Lockups), "adversarial_qi_txs_offered": r.Adversarial, "failing_evm_txs_offered": r.FailingTxs, "lockup_entries_seen": r.LockupEntries(),
		"reexecutions": r.Reexecs, "follower_checks": r.FollowerChecks, "fresh_replays": r.FreshReplays, "index_checks": r.IndexChecks, "chained_blocks": r.Chained, "slot_calls": r.SlotCalls, "slot_state": slotState, "dom_canon_checks": r.DomCanonChecks, "receipt_etx_checks": r.ReceiptEtxChecks, "sibling_conversion_checks": r.SiblingConvChecks, "double_spend_blocks_refused": r.DoubleSpendRefused}
	b, _ := json.Marshal(sum)
	fmt.Println(string(b))
}

func main() {
	if len(os.Args) < 2 {
		fatal(2, "usage: chaindrv random ...")
	}
	switch os.Args[1] {
	case "random":
		cmdRandom(os.Args[2:])
	case "crash":
		cmdCrash(os.Args[2:])
	case "tamper":
		cmdTamper(os.Args[2:])
	case "queue":
		cmdQueue(os.Args[2:])
	default:
		fatal(2, "unknown subcommand")
	}
}
