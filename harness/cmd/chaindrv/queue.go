package main

import (
	"bufio"
	"encoding/json"
	"flag"
	"fmt"
	"io"
	"math/big"
	"os"
	"reflect"

	"github.com/dominant-strategies/go-quai/common"
	"github.com/dominant-strategies/go-quai/core/rawdb"
	"github.com/dominant-strategies/go-quai/core/state"
	"github.com/dominant-strategies/go-quai/core/types"
	"github.com/dominant-strategies/go-quai/crypto"
	"github.com/dominant-strategies/go-quai/log"
	"verifharness/mininet"
)

// queue mode (C04, destination queue in isolation): TLC-generated push/pop/drain/read/commit-reopen histories
// (spec/EtxQueue.tla) executed on a real state.StateDB; every observation is compared with the specified one.

type qstep struct {
	Op  string        `json:"op"`
	N   int           `json:"n"`
	Res []interface{} `json:"res"`
}

func etxFor(id int) *types.Transaction {
	to := mininet.QuaiAddr(byte(id))
	return types.NewTx(&types.ExternalTx{To: &to, Gas: 21000, Value: big.NewInt(int64(id)), EtxType: types.DefaultType,
		OriginatingTxHash: crypto.Keccak256Hash([]byte(fmt.Sprintf("etx-%d", id))), ETXIndex: uint16(id % 60000), Sender: mininet.QuaiAddr(0x99)})
}

func idOf(tx *types.Transaction, ids map[common.Hash]int) int {
	if v, ok := ids[tx.OriginatingTxHash()]; ok && tx.Value().Int64() == int64(v) {
		return v
	}
	return -1
}

func cmdQueue(args []string) {
	fs := flag.NewFlagSet("queue", flag.ExitOnError)
	in := fs.String("in", "", "")
	out := fs.String("out", "", "")
	fs.Parse(args)
	log.Global.SetOutput(io.Discard)
	f, err := os.Open(*in)
	if err != nil {
		fatal(3, err)
	}
	sc := bufio.NewScanner(f)
	sc.Buffer(make([]byte, 1<<20), 1<<26)
	type mm struct {
		Behaviour int         `json:"behaviour"`
		Step      int         `json:"step"`
		Op        string      `json:"op"`
		Expected  interface{} `json:"expected"`
		Got       interface{} `json:"got"`
		Steps     []qstep     `json:"steps"`
	}
	var mism []mm
	nb, nsteps := 0, 0
	norm := func(x interface{}) interface{} {
		b, _ := json.Marshal(x)
		var y interface{}
		json.Unmarshal(b, &y)
		return y
	}
	for sc.Scan() {
		var beh []qstep
		if err := json.Unmarshal(sc.Bytes(), &beh); err != nil {
			fatal(3, err)
		}
		mdb := rawdb.NewMemoryDatabase(log.Global)
		sdb := state.NewDatabase(mdb)
		edb := state.NewDatabase(mdb)
		st, err := state.New(types.EmptyRootHash, types.EmptyRootHash, big.NewInt(0), sdb, edb, nil, mininet.ZoneLoc, log.Global)
		if err != nil {
			fatal(3, "state.New:", err)
		}
		ids := map[common.Hash]int{}
		next := 1
		content := func() ([]int, int64, int64, error) {
			o, e1 := st.GetOldestIndex()
			n, e2 := st.GetNewestIndex()
			if e1 != nil || e2 != nil {
				return nil, 0, 0, fmt.Errorf("index read: %v %v", e1, e2)
			}
			items := []int{}
			for i := new(big.Int).Set(o); i.Cmp(n) < 0; i.Add(i, big.NewInt(1)) {
				e, err := st.ReadETX(i)
				if err != nil || e == nil {
					return nil, 0, 0, fmt.Errorf("ReadETX(%v): %v %v", i, e, err)
				}
				items = append(items, idOf(e, ids))
			}
			return items, o.Int64(), n.Int64(), nil
		}
		for i, s := range beh {
			nsteps++
			var got []interface{}
			switch s.Op {
			case "push":
				var txs []*types.Transaction
				for k := 0; k < s.N; k++ {
					tx := etxFor(next)
					ids[tx.OriginatingTxHash()] = next
					next++
					txs = append(txs, tx)
				}
				if err := st.PushETXs(txs); err != nil {
					got = []interface{}{"err", err.Error()}
					break
				}
				o, _ := st.GetOldestIndex()
				n, _ := st.GetNewestIndex()
				got = []interface{}{"idx", o.Int64(), n.Int64()}
			case "pop":
				e, err := st.PopETX()
				o, _ := st.GetOldestIndex()
				n, _ := st.GetNewestIndex()
				if err != nil {
					got = []interface{}{"err", err.Error()}
				} else if e == nil {
					got = []interface{}{"nil", o.Int64(), n.Int64()}
				} else {
					got = []interface{}{"etx", idOf(e, ids), o.Int64(), n.Int64()}
				}
			case "drain":
				items := []int{}
				for {
					e, err := st.PopETX()
					if err != nil {
						items = append(items, -2)
						break
					}
					if e == nil {
						break
					}
					items = append(items, idOf(e, ids))
					if len(items) > 100000 {
						break
					}
				}
				o, _ := st.GetOldestIndex()
				got = []interface{}{"drained", items, o.Int64()}
			case "readall":
				items, o, n, err := content()
				if err != nil {
					got = []interface{}{"err", err.Error()}
				} else {
					got = []interface{}{"content", items, o, n}
				}
			case "reopen":
				root, err := st.CommitEtxs()
				if err == nil {
					err = edb.TrieDB().Commit(root, false, nil)
				}
				if err == nil {
					// a brand-new trie database over the same disk database: nothing cached
					edb = state.NewDatabase(mdb)
					sdb = state.NewDatabase(mdb)
					st, err = state.New(types.EmptyRootHash, root, big.NewInt(0), sdb, edb, nil, mininet.ZoneLoc, log.Global)
				}
				if err != nil {
					got = []interface{}{"err", err.Error()}
					break
				}
				items, o, n, err := content()
				if err != nil {
					got = []interface{}{"err", err.Error()}
				} else {
					got = []interface{}{"content", items, o, n}
				}
			}
			if !reflect.DeepEqual(norm(got), norm(s.Res)) {
				if len(mism) < 20 {
					g := norm(got)
					mism = append(mism, mm{nb, i, s.Op, s.Res, g, beh[:i+1]})
				}
				break
			}
		}
		nb++
	}
	res := map[string]interface{}{"behaviours": nb, "steps": nsteps, "mismatches": mism}
	b, _ := json.Marshal(res)
	if err := os.WriteFile(*out, b, 0o644); err != nil {
		fatal(3, err)
	}
	fmt.Printf("{\"behaviours\":%d,\"steps\":%d,\"mismatches\":%d}\n", nb, nsteps, len(mism))
}
