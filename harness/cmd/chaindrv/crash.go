package main

import (
	"encoding/json"
	"flag"
	"fmt"
	"os"

	"github.com/dominant-strategies/go-quai/common"
	"github.com/dominant-strategies/go-quai/core/rawdb"
	"github.com/dominant-strategies/go-quai/core/types"
	"github.com/dominant-strategies/go-quai/ethdb"
	"verifharness/chain"
	"verifharness/faultdb"
	"verifharness/mininet"
)

// crash mode (C11): for a sequence of zone-level steps (append of a block with real content, and
// reorganisations) EVERY prefix of the database write operations issued by the step is turned into
// a crash: the surviving image is copied, a new zone core is constructed on it, and the node must
// (a) start, (b) report a head whose state is present and equals its commitments, (c) rebuild its
// pending header, (d) accept the interrupted block / complete the interrupted switch, (e) mine on.

type crashFailure struct {
	Step   int    `json:"step"`
	Kind   string `json:"kind"`   // append | reorg
	Point  int    `json:"point"`  // number of write operations that survived
	Of     int    `json:"of"`     // total write operations of the step
	Window string `json:"window"` // "<last surviving op class>|<first lost op class>"
	Phase  string `json:"phase"`
	Err    string `json:"err"`
}

func snapshot(db ethdb.Database) ethdb.Database {
	return mininet.LocDB{Database: rawdb.NewDatabase(faultdb.CopyMem(db)), Loc: mininet.ZoneLoc}
}

func cmdCrash(args []string) {
	fs := flag.NewFlagSet("crash", flag.ExitOnError)
	seed := fs.Int64("seed", 1, "")
	nsteps := fs.Int("steps", 4, "number of crash-enumerated steps")
	out := fs.String("out", "", "result json")
	verbose := fs.Bool("v", false, "")
	fs.Parse(args)
	chain.FastParams()
	for d := range types.TrimDepths {
		types.TrimDepths[d] = 4
	}
	ctl := &faultdb.Ctl{}
	e, err := chain.Boot(chain.EnvOptions{Net: mininet.Options{Quiet: !*verbose, MinerPreference: 0.5,
		WrapZoneDB: func(db ethdb.Database) ethdb.Database { return faultdb.Wrap(db, ctl) }}, Seed: uint64(*seed)})
	if err != nil {
		fatal(3, "boot:", err)
	}
	defer e.Net.Close()
	r, err := chain.NewRunner(e, *seed)
	if err != nil {
		fatal(3, err)
	}
	n := e.Net
	r.Verbose = *verbose
	head := 0
	mine := func(parent, content int) int {
		if content > 0 {
			r.RandomContent(content)
		}
		id, err := r.MineOn(parent, -1)
		if err != nil {
			fatal(3, "mine:", err)
		}
		return id
	}
	head, err = r.WarmUp()
	if err != nil {
		fatal(3, "warm-up:", err)
	}
	for i := 0; i < 3; i++ {
		head = mine(head, 4)
	}
	P, R := n.PrimeCore().CurrentHeader().Hash(), n.RegionCore().CurrentHeader().Hash()

	var failures []crashFailure
	type stepInfo struct {
		Kind   string       `json:"kind"`
		Ops    []faultdb.Op `json:"ops"`
		Points int          `json:"points"`
		NTx    int          `json:"ntx"`
	}
	var stepsOut []stepInfo
	totalPoints := 0

	sealZone := func() *mininet.Mined {
		if err := n.Refill(); err != nil {
			fatal(3, "refill:", err)
		}
		ph, err := n.Pending()
		if err != nil {
			fatal(3, "pending:", err)
		}
		if _, err := n.Seal(ph, mininet.Zone, 1<<24); err != nil {
			fatal(3, "seal:", err)
		}
		m, err := n.Assemble(ph)
		if err != nil {
			fatal(3, "assemble:", err)
		}
		return m
	}
	restart := func(img ethdb.Database) error { return n.RestartZone(img) }

	// recovery obligations on a freshly restarted zone; redo() completes the interrupted operation
	recover := func(redo func() error) (string, error) {
		z := n.ZoneCore()
		H := z.CurrentHeader()
		if H == nil {
			return "b-head", fmt.Errorf("no current header")
		}
		if H.NumberU64(common.ZONE_CTX) > 0 {
			st, err := chain.ScanState(n.DBs[mininet.Zone], mininet.ZoneLoc)
			if err != nil {
				return "b-scan", err
			}
			root, size := st.Commitment()
			if root != H.UTXORoot() {
				return "b-commitment", fmt.Errorf("head %d: UTXO root in header does not match the stored 'ut'/'cl' records", H.NumberU64(2))
			}
			if size != rawdb.ReadUTXOSetSize(n.DBs[mininet.Zone], H.Hash()) {
				return "b-commitment", fmt.Errorf("head %d: stored UTXO set size does not match the number of records", H.NumberU64(2))
			}
			if _, err := z.Processor().StateAt(H.EVMRoot(), H.EtxSetRoot(), H.QuaiStateSize()); err != nil {
				return "b-state", fmt.Errorf("head state does not open: %v", err)
			}
			// canonical index must lead from the head back to genesis
			cur := H
			for cur.NumberU64(2) > 0 {
				if rawdb.ReadCanonicalHash(n.DBs[mininet.Zone], cur.NumberU64(2)) != cur.Hash() {
					return "b-canonical", fmt.Errorf("canonical index at %d does not point to the head's ancestor", cur.NumberU64(2))
				}
				cur = z.GetHeaderByHash(cur.ParentHash(2))
				if cur == nil {
					return "b-canonical", fmt.Errorf("ancestor header missing")
				}
			}
		}
		if err := n.SetHead(P, R, H.Hash()); err != nil {
			return "c-pending-header", err
		}
		if err := redo(); err != nil {
			return "d-redo", err
		}
		if _, err := n.MineOne(mininet.Zone); err != nil {
			return "e-mine-on", err
		}
		return "", nil
	}

	enumerate := func(step int, kind string, I0 ethdb.Database, op func() error, redo func() error, ntx int) {
		// learn the write sequence
		if err := restart(snapshot(I0)); err != nil {
			fatal(3, "restart:", err)
		}
		n.SetHead(P, R, n.ZoneCore().CurrentHeader().Hash())
		ctl.Arm(-1)
		if err := op(); err != nil {
			fatal(3, "step fails without any crash:", err)
		}
		ops := append([]faultdb.Op{}, ctl.Ops...)
		ctl.Disarm()
		N := len(ops)
		stepsOut = append(stepsOut, stepInfo{Kind: kind, Ops: ops, Points: N + 1, NTx: ntx})
		for i := 0; i <= N; i++ {
			if err := restart(snapshot(I0)); err != nil {
				fatal(3, "restart:", err)
			}
			n.SetHead(P, R, n.ZoneCore().CurrentHeader().Hash())
			ctl.Arm(i)
			op() // the process dies after i write operations; later writes are lost
			F := snapshot(n.DBs[mininet.Zone])
			ctl.Disarm()
			totalPoints++
			window := "start|"
			if i > 0 {
				window = ops[i-1].Class + "|"
			}
			if i < N {
				window += ops[i].Class
			} else {
				window += "end"
			}
			if err := restart(F); err != nil {
				failures = append(failures, crashFailure{step, kind, i, N, window, "a-restart", err.Error()})
				continue
			}
			if phase, err := recover(redo); err != nil {
				failures = append(failures, crashFailure{step, kind, i, N, window, phase, err.Error()})
			}
		}
	}

	for step := 0; step < *nsteps; step++ {
		if step%3 != 2 {
			// ---- append of a zone-order block carrying real transactions
			if err := restart(snapshot(n.DBs[mininet.Zone])); err != nil {
				fatal(3, err)
			}
			n.SetHead(P, R, n.ZoneCore().CurrentHeader().Hash())
			r.RandomContent(6)
			m := sealZone()
			I0 := snapshot(n.DBs[mininet.Zone])
			op := func() error {
				if err := n.Insert(m); err != nil {
					return err
				}
				return n.SetHead(P, R, m.Hash)
			}
			redo := func() error {
				if n.ZoneCore().GetHeaderByHash(m.Hash) == nil {
					if err := n.Insert(m); err != nil {
						return err
					}
				}
				if err := n.SetHead(P, R, m.Hash); err != nil {
					return err
				}
				if n.ZoneCore().CurrentHeader().Hash() != m.Hash {
					return fmt.Errorf("interrupted block did not become head")
				}
				return nil
			}
			enumerate(step, "append", I0, op, redo, len(m.Blocks[mininet.Zone].Transactions()))
			// apply for real and continue
			if err := restart(snapshot(I0)); err != nil {
				fatal(3, err)
			}
			n.SetHead(P, R, n.ZoneCore().CurrentHeader().Hash())
			if err := op(); err != nil {
				fatal(3, "real append:", err)
			}
		} else {
			// ---- reorganisation: H -> A1 ; H -> B1 -> B2 (head) ; switch to A1
			if err := restart(snapshot(n.DBs[mininet.Zone])); err != nil {
				fatal(3, err)
			}
			H := n.ZoneCore().CurrentHeader().Hash()
			n.SetHead(P, R, H)
			mk := func() *mininet.Mined {
				r.RandomContent(3)
				m := sealZone()
				if err := n.Insert(m); err != nil {
					fatal(3, "fork insert:", err)
				}
				if err := n.SetHead(P, R, m.Hash); err != nil {
					fatal(3, "fork advance:", err)
				}
				return m
			}
			a1 := mk()
			if err := n.SetHead(P, R, H); err != nil {
				fatal(3, "back to fork point:", err)
			}
			mk()
			mk()
			I0 := snapshot(n.DBs[mininet.Zone])
			op := func() error { return n.SetHead(P, R, a1.Hash) }
			redo := func() error {
				if err := n.SetHead(P, R, a1.Hash); err != nil {
					return err
				}
				if n.ZoneCore().CurrentHeader().Hash() != a1.Hash {
					return fmt.Errorf("interrupted head switch did not complete")
				}
				return nil
			}
			enumerate(step, "reorg", I0, op, redo, 0)
			if err := restart(snapshot(I0)); err != nil {
				fatal(3, err)
			}
			n.SetHead(P, R, n.ZoneCore().CurrentHeader().Hash())
			if err := op(); err != nil {
				fatal(3, "real reorg:", err)
			}
		}
	}
	res := map[string]interface{}{"steps": stepsOut, "crash_points": totalPoints, "failures": failures}
	b, _ := json.MarshalIndent(res, "", " ")
	if err := os.WriteFile(*out, b, 0o644); err != nil {
		fatal(3, err)
	}
	fmt.Printf("{\"crash_points\":%d,\"failures\":%d,\"steps\":%d}\n", totalPoints, len(failures), len(stepsOut))
}
