package main

import (
	"encoding/hex"
	"encoding/json"
	"flag"
	"fmt"
	"os"
	"sort"
	"strings"

	"github.com/dominant-strategies/go-quai/common"
	"github.com/dominant-strategies/go-quai/core/rawdb"
	"github.com/dominant-strategies/go-quai/core/types"
	"github.com/dominant-strategies/go-quai/ethdb"
	"verifharness/chain"
	"verifharness/faultdb"
	"verifharness/mininet"
)

// crash mode (C11).  Prime, region and zone run in ONE process on three databases; all three are wrapped with
// ONE faultdb.Ctl (one global write counter).  For a sequence of steps
//
//	zone | region | prime   append of a block of that order carrying real transactions (Insert at the order level,
//	                        cascading Slice.Append into the subordinate chains, then the head update at every level)
//	reorg                   zone-level reorganisation, 2 blocks back / 1 forward
//	<kind>+size             the same with every batch reporting ValueSize() x SizeFactor, so that every size-triggered
//	                        flush point (`if batch.ValueSize() > ethdb.IdealBatchSize { Write; Reset }`) fires
//
// EVERY prefix of the write operations the step issues (on any of the three databases) is turned into a crash of the
// whole process: the three surviving images are copied, three NEW cores are constructed on them, and the node must
// (a) start at every level, (b) report heads whose state is present and equals the header commitments (zone) and whose
// canonical index leads to genesis (all levels), (c) complete the interrupted step when the block is offered again
// at its order level, (d) accept the SAME continuation blocks a node that never crashed mined afterwards (zone, region,
// prime, zone), (e) end with byte-identical ETX bookkeeping records (inbound / pending / rollup) and zone ledger as
// that node, (f) mine on.

type crashFailure struct {
	Step   int    `json:"step"`
	Kind   string `json:"kind"`
	Point  int    `json:"point"`  // number of write operations that survived
	Of     int    `json:"of"`     // total write operations of the step (reference run)
	Window string `json:"window"` // "<db>:<last surviving op class>|<db>:<first lost op class>"
	Phase  string `json:"phase"`
	Err    string `json:"err"`
}

var dbNames = [3]string{"prime", "region", "zone"}

func snapshotCtx(db ethdb.Database, ctx int) ethdb.Database {
	return mininet.LocDB{Database: rawdb.NewDatabase(faultdb.CopyMem(db)), Loc: mininet.Locs[ctx]}
}

type image [3]ethdb.Database

func snapshotAll(n *mininet.Net) image {
	var im image
	for ctx := 0; ctx < 3; ctx++ {
		im[ctx] = snapshotCtx(n.DBs[ctx], ctx)
	}
	return im
}

func (im image) copy() [3]ethdb.Database {
	var out [3]ethdb.Database
	for ctx := 0; ctx < 3; ctx++ {
		out[ctx] = snapshotCtx(im[ctx], ctx)
	}
	return out
}

func opName(o *faultdb.Op) string { return o.DB + ":" + o.Class }

// retryable: the answers go-quai gives while bookkeeping of a subordinate chain is still missing; the node keeps the
// block in its append queue and offers it again (after c_pEtxRetryThreshold refusals the dominant chain fetches
// the pending ETXs from its subordinate chain).
func retryable(err error) bool {
	if err == nil {
		return false
	}
	s := err.Error()
	return strings.Contains(s, "sub not synced to dom") || strings.Contains(s, "pending etx not found") || strings.Contains(s, "block cannot be appended yet")
}

func cmdCrash(args []string) {
	fs := flag.NewFlagSet("crash", flag.ExitOnError)
	seed := fs.Int64("seed", 1, "")
	planS := fs.String("plan", "zone,region,prime,reorg", "comma separated step kinds: zone|region|prime|reorg, each optionally +size")
	factor := fs.Int("sizefactor", 4000, "ValueSize multiplier of the +size steps")
	out := fs.String("out", "", "result json")
	verbose := fs.Bool("v", false, "")
	fs.Int("steps", 0, "(ignored; use -plan)")
	fs.Parse(args)
	chain.FastParams()
	for d := range types.TrimDepths {
		types.TrimDepths[d] = 4
	}
	ctl := &faultdb.Ctl{}
	e, err := chain.Boot(chain.EnvOptions{Net: mininet.Options{Quiet: !*verbose, MinerPreference: 0.5,
		WrapDB: func(ctx int, db ethdb.Database) ethdb.Database { return faultdb.WrapNamed(db, ctl, dbNames[ctx]) }}, Seed: uint64(*seed)})
	if err != nil {
		fatal(3, "boot:", err)
	}
	defer e.Net.Close()
	r, err := chain.NewRunner(e, *seed)
	if err != nil {
		fatal(3, err)
	}
	n := e.Net
	r.Verbose = *verbose
	head, err := r.WarmUp()
	if err != nil {
		fatal(3, "warm-up:", err)
	}
	for i := 0; i < 3; i++ {
		r.RandomContent(4)
		if head, err = r.MineOn(head, -1); err != nil {
			fatal(3, "mine:", err)
		}
	}

	var failures []crashFailure
	type stepInfo struct {
		Kind          string       `json:"kind"`
		Order         int          `json:"order"`
		Ops           []faultdb.Op `json:"ops"`
		Points        int          `json:"points"`  // crash points enumerated
		Skipped       int          `json:"skipped"` // prefixes inside a run of pure trie-node batches (+size steps only)
		NTx           int          `json:"ntx"`
		Retries       int          `json:"retries"`        // refusals "cannot append yet" answered while recovering (self-healing path)
		RetryWindows  []string     `json:"retry_windows"`  // crash windows that needed it
		InboundEtxs   int          `json:"inbound_etxs"`   // ETXs in the compared inbound records of the continuation (reference run)
		RecordsCmp    int          `json:"records_compared"`
		SpecPositions []int        `json:"spec_positions"` // number of specification-level writes that survived, per enumerated crash point
		RedoSpec      [][]string   `json:"redo_spec"`      // specification-level writes issued while the interrupted step was completed, per crash point (nil if recovery failed earlier)
	}
	var stepsOut []stepInfo
	totalPoints := 0

	heads := func() (common.Hash, common.Hash, common.Hash) {
		return n.PrimeCore().CurrentHeader().Hash(), n.RegionCore().CurrentHeader().Hash(), n.ZoneCore().CurrentHeader().Hash()
	}
	// a fresh process on (copies of) the given images, pending header rebuilt on its own heads
	boot := func(im image) error {
		ctl.NewGeneration() // whatever the previous incarnation still tries to write is lost
		ctl.Disarm()
		if err := n.RestartAll(im.copy()); err != nil {
			return err
		}
		p, rg, z := heads()
		return n.SetHead(p, rg, z)
	}
	seal := func(order int) *mininet.Mined {
		if err := n.Refill(); err != nil {
			fatal(3, "refill:", err)
		}
		ph, err := n.Pending()
		if err != nil {
			fatal(3, "pending:", err)
		}
		if _, err := n.Seal(ph, order, 1<<24); err != nil {
			fatal(3, "seal:", err)
		}
		m, err := n.Assemble(ph)
		if err != nil {
			fatal(3, "assemble:", err)
		}
		if m.Order != order {
			fatal(3, "assembled block has order", m.Order, "want", order)
		}
		return m
	}
	copyMined := func(m *mininet.Mined) (*mininet.Mined, error) {
		cp := &mininet.Mined{Order: m.Order, Hash: m.Hash}
		for ctx := mininet.Zone; ctx >= m.Order; ctx-- {
			b, err := mininet.RoundTrip(m.Blocks[ctx], mininet.Locs[ctx])
			if err != nil {
				return nil, err
			}
			cp.Blocks[ctx] = b
		}
		return cp, nil
	}
	// offer a block as a peer would: body to every level it belongs to, Core.InsertChain at its order level (again while
	// the node answers "cannot append yet"), then make it the head.  Unlike mininet.Insert this never calls Slice.Append
	// directly: InsertChain's follow-up work (pending ETXs to the dominant chain) is part of what must survive a crash.
	offer := func(m *mininet.Mined, retries *int) error {
		var err error
		for try := 0; try < 16; try++ {
			var cp *mininet.Mined
			if cp, err = copyMined(m); err != nil {
				return err
			}
			for ctx := mininet.Zone; ctx >= cp.Order; ctx-- {
				n.Cores[ctx].Slice().WriteBlock(cp.Blocks[ctx])
			}
			if _, err = n.Cores[cp.Order].InsertChain(types.WorkObjects{cp.Blocks[cp.Order]}); err == nil {
				for ctx := mininet.Zone; ctx >= cp.Order; ctx-- {
					if n.Cores[ctx].GetHeaderByHash(cp.Hash) == nil || n.Cores[ctx].Slice().HeaderChain().GetTerminiByHash(cp.Hash) == nil {
						// InsertChain swallows the reason; ask Append for it (diagnosis of a failure only)
						_, aerr := n.Cores[cp.Order].Slice().Append(cp.Blocks[cp.Order], common.Hash{}, false, nil)
						return fmt.Errorf("block was not appended at level %s: %v", dbNames[ctx], aerr)
					}
				}
				return n.Advance(cp)
			}
			if !retryable(err) {
				return err
			}
			*retries++
		}
		return fmt.Errorf("still refused after 16 offers: %w", err)
	}

	// ---- independent observations
	zoneChecks := func() (string, error) {
		z := n.ZoneCore()
		H := z.CurrentHeader()
		if H == nil {
			return "b-head", fmt.Errorf("zone: no current header")
		}
		if H.NumberU64(common.ZONE_CTX) == 0 {
			return "", nil
		}
		st, err := chain.ScanState(n.DBs[mininet.Zone], mininet.ZoneLoc)
		if err != nil {
			return "b-scan", err
		}
		root, size := st.Commitment()
		if root != H.UTXORoot() {
			return "b-commitment", fmt.Errorf("head %d: UTXO root in header does not match the stored 'ut'/'cl' records", H.NumberU64(2))
		}
		if size != rawdb.ReadUTXOSetSize(n.DBs[mininet.Zone], H.Hash()) {
			return "b-commitment", fmt.Errorf("head %d: stored UTXO set size does not match the number of records", H.NumberU64(2))
		}
		if _, err := z.Processor().StateAt(H.EVMRoot(), H.EtxSetRoot(), H.QuaiStateSize()); err != nil {
			return "b-state", fmt.Errorf("head state does not open: %v", err)
		}
		return "", nil
	}
	canonChecks := func() (string, error) {
		for ctx := 0; ctx < 3; ctx++ {
			c := n.Cores[ctx]
			cur := c.CurrentHeader()
			if cur == nil {
				return "b-head", fmt.Errorf("%s: no current header", dbNames[ctx])
			}
			if rawdb.ReadHeadBlockHash(n.DBs[ctx]) != cur.Hash() {
				return "b-head", fmt.Errorf("%s: reported head is not the stored head pointer", dbNames[ctx])
			}
			if c.GetBlockByHash(cur.Hash()) == nil {
				return "b-head", fmt.Errorf("%s: block of the reported head is not readable", dbNames[ctx])
			}
			for cur.NumberU64(ctx) > 0 {
				if rawdb.ReadCanonicalHash(n.DBs[ctx], cur.NumberU64(ctx)) != cur.Hash() {
					return "b-canonical", fmt.Errorf("%s: canonical index at %d does not point to the head's ancestor", dbNames[ctx], cur.NumberU64(ctx))
				}
				if cur = c.GetHeaderByHash(cur.ParentHash(ctx)); cur == nil {
					return "b-canonical", fmt.Errorf("%s: ancestor header missing", dbNames[ctx])
				}
			}
		}
		return "", nil
	}
	// ETX bookkeeping of the given blocks at every level + zone ledger digest + heads, as raw database records
	// (only records the protocol consumes: pending ETXs 'pe' are read by the region when it rolls up its zones, rollups 'pr'
	// by prime; the copies of 'pe' in prime and of 'pr' in region are never read by anything)
	recPrefixes := [3][]string{{"ie", "pr", "tk", "ma"}, {"ie", "pe", "tk", "ma"}, {"ie", "tk", "ma"}}
	records := func(hashes []common.Hash) (map[string]string, int) {
		out := map[string]string{}
		netx := 0
		for ctx := 0; ctx < 3; ctx++ {
			for i, h := range hashes {
				for _, p := range recPrefixes[ctx] {
					v, _ := n.DBs[ctx].Get(append([]byte(p), h.Bytes()...))
					out[fmt.Sprintf("%s:%s:%d", dbNames[ctx], p, i)] = hex.EncodeToString(v)
				}
				netx += len(rawdb.ReadInboundEtxs(n.DBs[ctx], h))
			}
			out[dbNames[ctx]+":head"] = n.Cores[ctx].CurrentHeader().Hash().Hex()
		}
		if st, err := chain.ScanState(n.DBs[mininet.Zone], mininet.ZoneLoc); err == nil {
			out["zone:ledger"] = st.Digest()
		} else {
			out["zone:ledger"] = "scan failed: " + err.Error()
		}
		return out, netx
	}

	plan := strings.Split(*planS, ",")
	for step, kindFull := range plan {
		kind := strings.TrimSuffix(kindFull, "+size")
		inflated := strings.HasSuffix(kindFull, "+size")
		sf := 0
		if inflated {
			sf = *factor
		}
		// ---- prepare the step on a fresh process
		if err := boot(snapshotAll(n)); err != nil {
			fatal(3, "restart:", err)
		}
		P, R, Z := heads()
		var op func() error
		var want [3]common.Hash // heads after the step
		var m *mininet.Mined
		order, ntx := mininet.Zone, 0
		switch kind {
		case "zone", "region", "prime":
			order = map[string]int{"zone": mininet.Zone, "region": mininet.Region, "prime": mininet.Prime}[kind]
			r.ResetNonces()
			r.RandomContent(6)
			m = seal(order)
			ntx = len(m.Blocks[mininet.Zone].Transactions())
			want = [3]common.Hash{P, R, m.Hash}
			if order <= mininet.Region {
				want[mininet.Region] = m.Hash
			}
			if order <= mininet.Prime {
				want[mininet.Prime] = m.Hash
			}
			op = func() error {
				cp, err := copyMined(m)
				if err != nil {
					return err
				}
				if err := n.Insert(cp); err != nil {
					return err
				}
				return n.Advance(cp)
			}
		case "reorg":
			// H -> A1 ; H -> B1 -> B2 (head) ; switch to A1
			mk := func() *mininet.Mined {
				r.ResetNonces()
				r.RandomContent(3)
				b := seal(mininet.Zone)
				if err := n.Insert(b); err != nil {
					fatal(3, "fork insert:", err)
				}
				if err := n.SetHead(P, R, b.Hash); err != nil {
					fatal(3, "fork advance:", err)
				}
				return b
			}
			a1 := mk()
			if err := n.SetHead(P, R, Z); err != nil {
				fatal(3, "back to fork point:", err)
			}
			mk()
			mk()
			want = [3]common.Hash{P, R, a1.Hash}
			op = func() error { return n.SetHead(P, R, a1.Hash) }
		default:
			fatal(3, "unknown step kind", kindFull)
		}
		I0 := snapshotAll(n)
		redo := func(retries *int) error {
			if m != nil {
				if err := offer(m, retries); err != nil {
					return err
				}
			} else if err := op(); err != nil {
				return err
			}
			p, rg, z := heads()
			if [3]common.Hash{p, rg, z} != want {
				return fmt.Errorf("interrupted step did not complete: heads prime=%v region=%v zone=%v", p == want[0], rg == want[1], z == want[2])
			}
			return nil
		}

		// ---- reference run: no crash; records the write sequence, then mines the continuation
		if err := boot(I0); err != nil {
			fatal(3, "restart:", err)
		}
		ctl.SetSizeFactor(sf)
		ctl.Arm(-1)
		if err := op(); err != nil {
			fatal(3, "step fails without any crash:", err)
		}
		ops, _ := ctl.Seen()
		ctl.Disarm()
		ctl.SetSizeFactor(0)
		if p, rg, z := heads(); [3]common.Hash{p, rg, z} != want {
			fatal(3, "step without crash did not reach the expected heads")
		}
		var cont []*mininet.Mined
		for i, o := range []int{mininet.Zone, mininet.Region, mininet.Prime, mininet.Zone} {
			if i == 0 || i == 3 {
				r.ResetNonces()
				r.RandomContent(3)
			}
			x := seal(o)
			if err := n.Insert(x); err != nil {
				fatal(3, "continuation insert:", err)
			}
			if err := n.Advance(x); err != nil {
				fatal(3, "continuation advance:", err)
			}
			cont = append(cont, x)
		}
		var hashes []common.Hash
		if m != nil {
			hashes = append(hashes, m.Hash)
		}
		for _, x := range cont {
			hashes = append(hashes, x.Hash)
		}
		ref, refEtx := records(hashes)
		N := len(ops)
		info := stepInfo{Kind: kindFull, Order: order, Ops: ops, NTx: ntx, InboundEtxs: refEtx, RecordsCmp: len(ref)}

		// ---- every prefix is a crash of the whole process
		retryWin := map[string]bool{}
		for i := 0; i <= N; i++ {
			if inflated && i > 1 && i < N && ops[i-1].Class == "triebatch" && ops[i].Class == "triebatch" && ops[i-2].Class == "triebatch" {
				// inside a run of content-addressed trie-node commits (the one size-triggered flush the unchanged code has):
				// the first window of each run is enumerated, the others are equivalent
				info.Skipped++
				continue
			}
			if err := boot(I0); err != nil {
				fatal(3, "restart:", err)
			}
			ctl.SetSizeFactor(sf)
			ctl.Arm(i)
			op() // the process dies after i write operations; later writes (to any database) are lost
			seen, dropped := ctl.Seen()
			window := "start|"
			if k := len(seen); k > 0 {
				window = opName(&seen[k-1]) + "|"
			}
			if dropped != nil {
				window += opName(dropped)
			} else {
				window += "end"
			}
			specPos := 0
			for _, o := range seen {
				if specClass(&o) != "" {
					specPos++
				}
			}
			F := snapshotAll(n)
			ctl.SetSizeFactor(0)
			totalPoints++
			info.Points++
			info.SpecPositions = append(info.SpecPositions, specPos)
			info.RedoSpec = append(info.RedoSpec, nil)
			fail := func(phase string, err error) {
				failures = append(failures, crashFailure{step, kindFull, i, N, window, phase, err.Error()})
			}
			if err := func() error { // (a) all three levels open
				ctl.NewGeneration()
				ctl.Disarm()
				return n.RestartAll(F.copy())
			}(); err != nil {
				fail("a-restart", err)
				continue
			}
			if phase, err := zoneChecks(); err != nil {
				fail(phase, err)
				continue
			}
			if phase, err := canonChecks(); err != nil {
				fail(phase, err)
				continue
			}
			retries := 0
			if kind == "zone" || kind == "reorg" {
				// the dominant chains did not move: the pending header can be rebuilt on the reported heads right away
				if p, rg, z := heads(); p != P || rg != R {
					fail("b-head", fmt.Errorf("a zone-level step moved a dominant head"))
					continue
				} else if err := n.SetHead(p, rg, z); err != nil {
					fail("c-pending-header", err)
					continue
				}
			}
			ctl.Arm(-1)
			err := redo(&retries)
			redoOps, _ := ctl.Seen()
			ctl.Disarm()
			if err != nil {
				fail("d-redo", err)
				continue
			}
			rs := []string{}
			for _, o := range redoOps {
				if c := specClass(&o); c != "" {
					rs = append(rs, c)
				}
			}
			info.RedoSpec[len(info.RedoSpec)-1] = rs
			if phase, err := zoneChecks(); err != nil {
				fail("d-redo/"+phase, err)
				continue
			}
			bad := false
			for k, x := range cont {
				if err := offer(x, &retries); err != nil {
					fail(fmt.Sprintf("e-continue-%d-order%d", k, x.Order), err)
					bad = true
					break
				}
			}
			if bad {
				continue
			}
			got, _ := records(hashes)
			var diff []string
			for k, v := range ref {
				if got[k] != v {
					diff = append(diff, fmt.Sprintf("%s(%d bytes, reference %d)", k, len(got[k])/2, len(v)/2))
				}
			}
			if len(diff) > 0 {
				sort.Strings(diff)
				fail("f-records", fmt.Errorf("records differ from the node that did not crash: %s", strings.Join(diff, " ")))
				continue
			}
			if phase, err := zoneChecks(); err != nil {
				fail("f-records/"+phase, err)
				continue
			}
			if _, err := n.MineOne(-1); err != nil {
				fail("g-mine-on", err)
				continue
			}
			if retries > 0 {
				info.Retries += retries
				retryWin[window] = true
			}
		}
		for w := range retryWin {
			info.RetryWindows = append(info.RetryWindows, w)
		}
		sort.Strings(info.RetryWindows)
		stepsOut = append(stepsOut, info)

		// ---- apply for real and continue from there
		if err := boot(I0); err != nil {
			fatal(3, "restart:", err)
		}
		if err := op(); err != nil {
			fatal(3, "real step:", err)
		}
	}
	res := map[string]interface{}{"steps": stepsOut, "crash_points": totalPoints, "failures": failures, "sizefactor": *factor}
	b, _ := json.MarshalIndent(res, "", " ")
	if err := os.WriteFile(*out, b, 0o644); err != nil {
		fatal(3, err)
	}
	fmt.Printf("{\"crash_points\":%d,\"failures\":%d,\"steps\":%d}\n", totalPoints, len(failures), len(stepsOut))
}

// specClass maps a recorded write operation to the write of spec/HierCrash.tla / spec/ZoneChain.tla it realises
// ("" = not consistency relevant: trie nodes, pending headers, lookup entries ...).
func specClass(o *faultdb.Op) string {
	switch o.Class {
	case "body", "appendbatch", "canon", "head", "blockbatch", "rollbackbatch", "rollbackbatch-without-head", "pendingetxs", "pendingetxsrollup", "inboundetxs":
		return o.DB + ":" + o.Class
	}
	return ""
}
