package main

import (
	"encoding/json"
	"flag"
	"fmt"
	"math/big"
	"os"

	"github.com/dominant-strategies/go-quai/common"
	"github.com/dominant-strategies/go-quai/core/rawdb"
	"github.com/dominant-strategies/go-quai/core/types"
	"github.com/dominant-strategies/go-quai/trie"
	"verifharness/chain"
	"verifharness/mininet"
)

// tamper mode (C07): every block the node's own worker assembles must append; every single-component
// deviation of such a block — re-sealed with a fresh nonce, so that only the rule under test can refuse
// it — must be rejected by Slice.Append or HeaderChain.SetCurrentHeader, leaving chain state untouched.

type mutation struct {
	Name  string
	Apply func(wo *types.WorkObject) bool // false = not applicable to this block
}

func flip(h common.Hash) common.Hash { h[31] ^= 0x01; return h }

func reroot(wo *types.WorkObject) {
	wo.Header().SetTxHash(types.DeriveSha(wo.Transactions(), trie.NewStackTrie(nil)))
	wo.Header().SetOutboundEtxHash(types.DeriveSha(wo.OutboundEtxs(), trie.NewStackTrie(nil)))
}

func firstOfType(txs types.Transactions, typ byte) int {
	for i, t := range txs {
		if t.Type() == typ {
			return i
		}
	}
	return -1
}

func mutations() []mutation {
	H := func(name string, f func(h *types.Header)) mutation {
		return mutation{name, func(wo *types.WorkObject) bool { f(wo.Header()); return true }}
	}
	ms := []mutation{
		H("evm-root", func(h *types.Header) { h.SetEVMRoot(flip(h.EVMRoot())) }),
		H("utxo-root", func(h *types.Header) { h.SetUTXORoot(flip(h.UTXORoot())) }),
		H("etx-set-root", func(h *types.Header) { h.SetEtxSetRoot(flip(h.EtxSetRoot())) }),
		H("receipt-hash", func(h *types.Header) { h.SetReceiptHash(flip(h.ReceiptHash())) }),
		H("outbound-etx-hash", func(h *types.Header) { h.SetOutboundEtxHash(flip(h.OutboundEtxHash())) }),
		H("tx-hash", func(h *types.Header) { h.SetTxHash(flip(h.TxHash())) }),
		H("uncle-hash", func(h *types.Header) { h.SetUncleHash(flip(h.UncleHash())) }),
		H("gas-used+1", func(h *types.Header) { h.SetGasUsed(h.GasUsed() + 1) }),
		H("state-used+1", func(h *types.Header) { h.SetStateUsed(h.StateUsed() + 1) }),
		H("quai-state-size+1", func(h *types.Header) { h.SetQuaiStateSize(new(big.Int).Add(h.QuaiStateSize(), big.NewInt(1))) }),
		H("avg-tx-fees+1", func(h *types.Header) { h.SetAvgTxFees(new(big.Int).Add(h.AvgTxFees(), big.NewInt(1))) }),
		H("total-fees+1", func(h *types.Header) { h.SetTotalFees(new(big.Int).Add(h.TotalFees(), big.NewInt(1))) }),
	}
	body := func(name string, f func(wo *types.WorkObject) bool) mutation {
		return mutation{name, func(wo *types.WorkObject) bool {
			if !f(wo) {
				return false
			}
			reroot(wo)
			return true
		}}
	}
	ms = append(ms,
		body("drop-last-tx", func(wo *types.WorkObject) bool {
			txs := wo.Transactions()
			if len(txs) == 0 {
				return false
			}
			wo.Body().SetTransactions(append(types.Transactions{}, txs[:len(txs)-1]...))
			return true
		}),
		body("drop-first-tx", func(wo *types.WorkObject) bool {
			txs := wo.Transactions()
			if len(txs) == 0 {
				return false
			}
			wo.Body().SetTransactions(append(types.Transactions{}, txs[1:]...))
			return true
		}),
		body("duplicate-tx", func(wo *types.WorkObject) bool {
			txs := wo.Transactions()
			i := firstOfType(txs, types.QuaiTxType)
			if i < 0 {
				i = firstOfType(txs, types.QiTxType)
			}
			if i < 0 {
				return false
			}
			wo.Body().SetTransactions(append(append(types.Transactions{}, txs...), txs[i]))
			return true
		}),
		body("duplicate-inbound-etx", func(wo *types.WorkObject) bool {
			txs := wo.Transactions()
			i := firstOfType(txs, types.ExternalTxType)
			if i < 0 {
				return false
			}
			out := append(types.Transactions{}, txs[:i+1]...)
			out = append(out, txs[i])
			out = append(out, txs[i+1:]...)
			wo.Body().SetTransactions(out)
			return true
		}),
		body("swap-adjacent-txs", func(wo *types.WorkObject) bool {
			txs := append(types.Transactions{}, wo.Transactions()...)
			for i := 0; i+1 < len(txs); i++ {
				if txs[i].Hash() != txs[i+1].Hash() {
					txs[i], txs[i+1] = txs[i+1], txs[i]
					wo.Body().SetTransactions(txs)
					return true
				}
			}
			return false
		}),
		body("swap-inbound-etxs", func(wo *types.WorkObject) bool {
			txs := append(types.Transactions{}, wo.Transactions()...)
			for i := 0; i+1 < len(txs); i++ {
				if txs[i].Type() == types.ExternalTxType && txs[i+1].Type() == types.ExternalTxType && txs[i].Hash() != txs[i+1].Hash() {
					txs[i], txs[i+1] = txs[i+1], txs[i]
					wo.Body().SetTransactions(txs)
					return true
				}
			}
			return false
		}),
		body("drop-all-inbound-etxs", func(wo *types.WorkObject) bool {
			var out types.Transactions
			n := 0
			for _, t := range wo.Transactions() {
				if t.Type() == types.ExternalTxType {
					n++
					continue
				}
				out = append(out, t)
			}
			if n == 0 {
				return false
			}
			wo.Body().SetTransactions(out)
			return true
		}),
		body("drop-first-inbound-etx", func(wo *types.WorkObject) bool {
			txs := wo.Transactions()
			i := firstOfType(txs, types.ExternalTxType)
			if i < 0 {
				return false
			}
			wo.Body().SetTransactions(append(append(types.Transactions{}, txs[:i]...), txs[i+1:]...))
			return true
		}),
		body("alter-inbound-etx-value", func(wo *types.WorkObject) bool {
			txs := append(types.Transactions{}, wo.Transactions()...)
			i := firstOfType(txs, types.ExternalTxType)
			if i < 0 {
				return false
			}
			x, ok := txs[i].Inner().(*types.ExternalTx)
			if !ok {
				return false
			}
			cp := *x
			cp.Value = new(big.Int).Add(x.Value, big.NewInt(1))
			txs[i] = types.NewTx(&cp)
			wo.Body().SetTransactions(txs)
			return true
		}),
		body("unknown-inbound-etx", func(wo *types.WorkObject) bool {
			to := mininet.QuaiAddr(0x55)
			etx := types.NewTx(&types.ExternalTx{To: &to, Gas: 21000, Value: big.NewInt(12345), EtxType: types.DefaultType,
				OriginatingTxHash: common.HexToHash("0xabcdef"), ETXIndex: 0, Sender: mininet.QuaiAddr(0x56)})
			wo.Body().SetTransactions(append(types.Transactions{etx}, wo.Transactions()...))
			return true
		}),
		body("drop-outbound-etx", func(wo *types.WorkObject) bool {
			e := wo.OutboundEtxs()
			if len(e) == 0 {
				return false
			}
			wo.Body().SetOutboundEtxs(append(types.Transactions{}, e[:len(e)-1]...))
			return true
		}),
		body("alter-outbound-etx-value", func(wo *types.WorkObject) bool {
			e := wo.OutboundEtxs()
			if len(e) == 0 {
				return false
			}
			in := e[0].Inner()
			x, ok := in.(*types.ExternalTx)
			if !ok {
				return false
			}
			cp := *x
			cp.Value = new(big.Int).Add(x.Value, big.NewInt(1))
			out := append(types.Transactions{types.NewTx(&cp)}, e[1:]...)
			wo.Body().SetOutboundEtxs(out)
			return true
		}),
		body("extra-outbound-etx", func(wo *types.WorkObject) bool {
			to := mininet.QuaiAddr(0x57)
			etx := types.NewTx(&types.ExternalTx{To: &to, Gas: 21000, Value: big.NewInt(777), EtxType: types.CoinbaseType,
				OriginatingTxHash: common.HexToHash("0x1234"), ETXIndex: uint16(len(wo.OutboundEtxs())), Sender: to, Data: []byte{0}})
			wo.Body().SetOutboundEtxs(append(append(types.Transactions{}, wo.OutboundEtxs()...), etx))
			return true
		}),
	)
	// body changed but roots left alone
	ms = append(ms, mutation{"body-without-root-update", func(wo *types.WorkObject) bool {
		txs := wo.Transactions()
		if len(txs) == 0 {
			return false
		}
		wo.Body().SetTransactions(append(types.Transactions{}, txs[:len(txs)-1]...))
		return true
	}})
	return ms
}

func chainImage(n *mininet.Net) (string, error) {
	db := n.DBs[mininet.Zone]
	st, err := chain.ScanState(db, mininet.ZoneLoc)
	if err != nil {
		return "", err
	}
	hd := n.ZoneCore().CurrentHeader()
	canon, head := chain.Canon(db, hd.NumberU64(2)+4)
	ms := rawdb.ReadMultiSet(db, hd.Hash())
	msh := "nil"
	if ms != nil {
		msh = ms.Hash().Hex()
	}
	return fmt.Sprintf("%s|%v|%x|%x|%s|%d", st.Digest(), canon, head, hd.Hash(), msh, rawdb.ReadUTXOSetSize(db, hd.Hash())), nil
}

func cmdTamper(args []string) {
	fs := flag.NewFlagSet("tamper", flag.ExitOnError)
	seed := fs.Int64("seed", 1, "")
	nblocks := fs.Int("blocks", 4, "")
	out := fs.String("out", "", "")
	traceOut := fs.String("trace", "", "ndjson trace for ZoneChainTrace.tla")
	verbose := fs.Bool("v", false, "")
	fs.Parse(args)
	chain.FastParams()
	for d := range types.TrimDepths {
		types.TrimDepths[d] = 4
	}
	e, err := chain.Boot(chain.EnvOptions{Net: mininet.Options{Quiet: !*verbose, MinerPreference: 0.5}, Seed: uint64(*seed)})
	if err != nil {
		fatal(3, "boot:", err)
	}
	defer e.Net.Close()
	r, err := chain.NewRunner(e, *seed)
	if err != nil {
		fatal(3, err)
	}
	n := e.Net
	// the node refusing a block it assembled itself is exactly what C07 forbids: report it (own-block-rejected is recorded by
	// the runner) instead of dying
	giveUp := func(where string, err error) {
		if len(r.Problems) == 0 {
			fatal(3, where, err)
		}
		res := map[string]interface{}{"outcomes": []interface{}{}, "problems": r.Problems, "mutants_offered": 0, "blocks": *nblocks, "aborted": where + ": " + err.Error()}
		bts, _ := json.MarshalIndent(res, "", " ")
		os.WriteFile(*out, bts, 0o644)
		if *traceOut != "" {
			r.WriteEvents(*traceOut)
		}
		fmt.Printf("{\"mutants_offered\":0,\"problems\":%d}\n", len(r.Problems))
		os.Exit(0)
	}
	head, err := r.WarmUp()
	if err != nil {
		giveUp("warm-up", err)
	}
	for i := 0; i < 2; i++ {
		r.RandomContent(4)
		if head, err = r.MineOn(head, -1); err != nil {
			giveUp("mine", err)
		}
	}
	type outcome struct {
		Block    int    `json:"block"`
		Mutation string `json:"mutation"`
		Result   string `json:"result"` // rejected-by-append | rejected-by-sethead | ACCEPTED | not-applicable | reseal-failed
		Err      string `json:"err,omitempty"`
		Trace    bool   `json:"left_trace"`
	}
	var outcomes []outcome
	var problems []chain.Problem
	applied := 0
	ms := mutations()
	for b := 0; b <= *nblocks; b++ {
		// the last round tampers with an EMPTY block (no transaction, no inbound ETX, hence no receipt): its declared results
		// (receipt hash, gas, roots ...) are checked exactly like those of a full block
		empty := b == *nblocks
		if empty {
			for i := 0; i < 3; i++ { // drain the pool and the ETX queue
				if _, err := r.MineOn(r.Blocks2Head(), mininet.Zone); err != nil {
					giveUp("draining block", err)
				}
			}
		}
		if b%2 == 1 && !empty {
			// let the dominant chains confirm the ETXs emitted so far, so that the next zone block has inbound
			// ETXs to execute (coinbases of several blocks, conversions)
			for _, ord := range []int{mininet.Region, mininet.Prime} {
				if _, err := r.MineOn(r.Blocks2Head(), ord); err != nil {
					giveUp("confirming block", err)
				}
			}
		}
		parentID := r.Blocks2Head()
		if !empty {
			r.RandomContent(5)
		}
		// the honest block is appended first (its effects are learnt from database scans), then rolled back, the
		// mutants are offered on the parent, and finally the honest block becomes head again
		id, err := r.MineOn(parentID, mininet.Zone)
		if err != nil {
			problems = append(problems, r.Problems...)
			break
		}
		honest := r.Mined[id].Blocks[mininet.Zone]
		if err := r.SetHead(parentID, true); err != nil {
			fatal(3, "cannot roll back to the parent:", err)
		}
		bi := r.Blocks[parentID]
		P, R, parent := bi.PHash, bi.RHash, bi.Hash
		pre, err := chainImage(n)
		if err != nil {
			fatal(3, err)
		}
		for _, mu := range ms {
			wo, err := mininet.RoundTrip(honest, mininet.ZoneLoc)
			if err != nil {
				fatal(3, err)
			}
			if !mu.Apply(wo) {
				outcomes = append(outcomes, outcome{b, mu.Name, "not-applicable", "", false})
				continue
			}
			wo.WorkObjectHeader().SetHeaderHash(wo.Header().Hash())
			if _, err := n.Seal(wo, mininet.Zone, 1<<24); err != nil {
				outcomes = append(outcomes, outcome{b, mu.Name, "reseal-failed", err.Error(), false})
				continue
			}
			rt, err := mininet.RoundTrip(wo, mininet.ZoneLoc)
			if err != nil {
				outcomes = append(outcomes, outcome{b, mu.Name, "rejected-by-codec", err.Error(), false})
				continue
			}
			applied++
			mm := &mininet.Mined{Order: mininet.Zone, Hash: rt.Hash()}
			mm.Blocks[mininet.Zone] = rt
			o := outcome{Block: b, Mutation: mu.Name}
			if err := n.Insert(mm); err != nil {
				o.Result, o.Err = "rejected-by-append", err.Error()
			} else if err := n.SetHead(P, R, mm.Hash); err != nil {
				o.Result, o.Err = "rejected-by-sethead", err.Error()
			} else if n.ZoneCore().CurrentHeader().Hash() == mm.Hash {
				o.Result = "ACCEPTED"
				problems = append(problems, chain.Problem{Kind: "tampered-block-accepted", Info: map[string]interface{}{"block": b, "mutation": mu.Name, "ntx": len(honest.Transactions())}})
			} else {
				o.Result = "rejected-by-sethead"
			}
			accepted := o.Result == "ACCEPTED"
			if n.ZoneCore().CurrentHeader().Hash() != parent {
				if err := n.SetHead(P, R, parent); err != nil {
					fatal(3, "cannot return to the honest parent:", err)
				}
			} else {
				n.SetHead(P, R, parent) // rebuild the pending header after a failed switch
			}
			post, err := chainImage(n)
			if err != nil {
				fatal(3, err)
			}
			if post != pre && !accepted {
				o.Trace = true
				problems = append(problems, chain.Problem{Kind: "rejected-block-left-trace", Info: map[string]interface{}{"block": b, "mutation": mu.Name, "result": o.Result}})
			}
			if len(o.Err) > 160 {
				o.Err = o.Err[:160]
			}
			outcomes = append(outcomes, o)
			if err := r.LogTamper(id, mm.Hash, mu.Name, accepted, post == pre); err != nil {
				fatal(3, err)
			}
		}
		// the honest block must become head again
		if err := r.SetHead(id, true); err != nil || r.Blocks2Head() != id {
			problems = append(problems, chain.Problem{Kind: "own-block-rejected", Info: map[string]interface{}{"block": b, "err": fmt.Sprint(err)}})
			break
		}
	}
	problems = append(problems, r.Problems...)
	if *traceOut != "" {
		if err := r.WriteEvents(*traceOut); err != nil {
			fatal(3, err)
		}
	}
	res := map[string]interface{}{"outcomes": outcomes, "problems": problems, "mutants_offered": applied, "blocks": *nblocks}
	bts, _ := json.MarshalIndent(res, "", " ")
	if err := os.WriteFile(*out, bts, 0o644); err != nil {
		fatal(3, err)
	}
	fmt.Printf("{\"mutants_offered\":%d,\"problems\":%d}\n", applied, len(problems))
}
