package main

import (
	"encoding/json"
	"fmt"
	"math/big"
	"os"
	"runtime"
	"sort"
	"strings"
	"sync"
	"sync/atomic"
	"time"

	"github.com/dominant-strategies/go-quai/common"
	"github.com/dominant-strategies/go-quai/consensus"
	"github.com/dominant-strategies/go-quai/core"
	"github.com/dominant-strategies/go-quai/core/rawdb"
	"github.com/dominant-strategies/go-quai/core/state"
	"github.com/dominant-strategies/go-quai/core/types"
	"github.com/dominant-strategies/go-quai/crypto"
	"github.com/dominant-strategies/go-quai/ethdb"
	"github.com/dominant-strategies/go-quai/event"
	"github.com/dominant-strategies/go-quai/log"
	"github.com/dominant-strategies/go-quai/params"
	"verifharness/wallet"
)

// ---------------------------------------------------------------- definitions (mirror of MCQiPool.tla / the first trace line)

type OutDef struct {
	Den  int    `json:"den"`
	To   string `json:"to"`
	ID   string `json:"id"`
	Zone string `json:"zone"`
}
type TxDef struct {
	Ins   []string `json:"ins"`
	Keys  []string `json:"keys"`
	Outs  []OutDef `json:"outs"`
	Chain bool     `json:"chain"`
	Sig   bool     `json:"sig"`
}
type GenDef struct {
	Den   int    `json:"den"`
	Owner string `json:"owner"`
	Lock  uint64 `json:"lock"`
}
type BlockDef struct {
	Parent string   `json:"parent"`
	Body   []string `json:"body"`
}
type Defs struct {
	Txs    map[string]TxDef    `json:"txs"`
	Gen    map[string]GenDef   `json:"gen"`
	Blocks map[string]BlockDef `json:"blocks"`
	Cap    int                 `json:"cap"`
	MinFee int                 `json:"minfee"`
}

var (
	location = common.Location{0, 0}
	chainID  = big.NewInt(9000)
)

func fatal(err error) {
	if err != nil {
		fmt.Fprintln(os.Stderr, "qipooldrv fatal:", err)
		os.Exit(3)
	}
}

// denominations the specification knows (QiPool.tla Val); checked against the code's table at start
var specVal = map[int]int64{0: 1, 1: 5, 2: 10, 3: 50, 4: 100, 5: 500, 6: 1000, 7: 5000, 8: 10000}

func checkDenominations() {
	for d, v := range specVal {
		if types.Denominations[uint8(d)] == nil || types.Denominations[uint8(d)].Int64() != v {
			fatal(fmt.Errorf("denomination %d is %v in the code, %d in the specification", d, types.Denominations[uint8(d)], v))
		}
	}
}

// ---------------------------------------------------------------- world: real keys, outpoints and signed transactions for the definitions

type world struct {
	defs    Defs
	mu      sync.Mutex
	keys    map[string]wallet.Key
	inner   map[string]*types.QiTx // signed
	hash    map[string]common.Hash
	byHash  map[common.Hash]string
	outAttr map[string]GenDef // every outpoint id (genesis and created, local) -> attributes
	validSomewhere map[string]bool
	chainID *big.Int                  // chain id the valid transactions are signed for
	realOut map[string]types.OutPoint // genesis outpoint id -> existing outpoint of a real chain (worker mode)
}

func newWorld(d Defs) *world { return newWorldWith(d, chainID, nil, nil) }

func newWorldWith(d Defs, cid *big.Int, keys map[string]wallet.Key, realOut map[string]types.OutPoint) *world {
	w := &world{defs: d, keys: map[string]wallet.Key{}, inner: map[string]*types.QiTx{}, hash: map[string]common.Hash{},
		byHash: map[common.Hash]string{}, outAttr: map[string]GenDef{}, chainID: cid, realOut: realOut}
	for k, v := range keys {
		w.keys[k] = v
	}
	for id, g := range d.Gen {
		w.outAttr[id] = g
	}
	for _, t := range d.Txs {
		for _, o := range t.Outs {
			if o.Zone == "local" {
				w.outAttr[o.ID] = GenDef{Den: o.Den, Owner: o.To, Lock: 0}
			}
		}
	}
	ids := make([]string, 0, len(d.Txs))
	for id := range d.Txs {
		ids = append(ids, id)
	}
	sort.Strings(ids)
	for _, id := range ids {
		w.build(id, 0)
	}
	return w
}

func (w *world) key(name string) wallet.Key {
	if k, ok := w.keys[name]; ok {
		return k
	}
	seed := uint64(11)
	for _, c := range name {
		seed = seed*131 + uint64(c)
	}
	k := wallet.Grind(seed, true, location)
	w.keys[name] = k
	return k
}

func genesisOutpoint(id string) types.OutPoint {
	return types.OutPoint{TxHash: crypto.Keccak256Hash([]byte("verif-qipool-genesis-" + id)), Index: 0}
}

// the transaction that creates outpoint id (created, local or not) and the output index
func (w *world) creator(id string) (string, int, bool) {
	for tid, t := range w.defs.Txs {
		for i, o := range t.Outs {
			if o.ID == id {
				return tid, i, true
			}
		}
	}
	return "", 0, false
}

func (w *world) outpoint(id string, depth int) types.OutPoint {
	if op, ok := w.realOut[id]; ok {
		return op
	}
	if _, ok := w.defs.Gen[id]; ok {
		return genesisOutpoint(id)
	}
	if tid, i, ok := w.creator(id); ok {
		w.build(tid, depth+1)
		return types.OutPoint{TxHash: w.hash[tid], Index: uint16(i)}
	}
	// an outpoint that never exists
	return types.OutPoint{TxHash: crypto.Keccak256Hash([]byte("verif-qipool-nowhere-" + id)), Index: 0}
}

func (w *world) addr(o OutDef) []byte {
	b := append([]byte{}, w.key(o.To).Addr.Bytes()...)
	if o.Zone == "inactive" {
		b[0] = 0x01 // zone (0,1): not an active chain at expansion 0
	}
	return b
}

func (w *world) build(id string, depth int) {
	if _, ok := w.inner[id]; ok {
		return
	}
	if depth > len(w.defs.Txs) {
		fatal(fmt.Errorf("cyclic transaction definitions at %s", id))
	}
	d := w.defs.Txs[id]
	var ins []wallet.In
	for i, o := range d.Ins {
		ins = append(ins, wallet.In{Out: w.outpoint(o, depth), Key: w.key(d.Keys[i])})
	}
	var outs []types.TxOut
	for _, o := range d.Outs {
		outs = append(outs, types.TxOut{Denomination: uint8(o.Den), Address: w.addr(o)})
	}
	cid := w.chainID
	if !d.Chain {
		cid = new(big.Int).Add(w.chainID, big.NewInt(1))
	}
	var signKeys []wallet.Key
	if !d.Sig {
		for range ins {
			signKeys = append(signKeys, w.key("intruder"))
		}
	}
	signer := types.NewSigner(cid, location)
	t, err := wallet.QiTx(signer, cid, ins, outs, nil, signKeys)
	fatal(err)
	inner := &types.QiTx{ChainID: cid, Signature: t.GetSchnorrSignature()}
	inner.TxIn = append(inner.TxIn, t.TxIn()...)
	inner.TxOut = append(inner.TxOut, t.TxOut()...)
	w.inner[id] = inner
	w.hash[id] = t.Hash()
	if other, dup := w.byHash[t.Hash()]; dup {
		fatal(fmt.Errorf("transactions %s and %s have the same hash", id, other))
	}
	w.byHash[t.Hash()] = id
}

// a fresh transaction object (pools write into the objects they hold: time stamps, caches)
func (w *world) tx(id string) *types.Transaction {
	in, ok := w.inner[id]
	if !ok {
		fatal(fmt.Errorf("unknown transaction %q", id))
	}
	return types.NewTx(in)
}

func (w *world) fee(id string) int64 {
	d := w.defs.Txs[id]
	var s int64
	for _, o := range d.Ins {
		s += specVal[w.outAttr[o].Den]
	}
	for _, o := range d.Outs {
		s -= specVal[o.Den]
	}
	return s
}

// ---------------------------------------------------------------- stub chain with a UTXO database

type sblock struct {
	id     string
	wo     *types.WorkObject
	parent *sblock
	num    uint64
	live   map[string]bool // outpoint ids unspent after this block
}

type stubChain struct {
	w        *world
	mu       sync.RWMutex
	blocks   map[string]*sblock
	byHash   map[common.Hash]*sblock
	head     *sblock
	dbLive   map[string]bool
	db       ethdb.Database
	feed     event.Feed
	headCh   chan<- core.ChainHeadEvent
	sdb      state.Database
	terminus *types.WorkObject
	lg       *log.Logger
	baseFee  *big.Int
	loopSeen int32 // TxPool.loop has read its initial head
}

// chain parameters: with this exchange rate and difficulty one qit converts into far more Quai than any
// transaction of the universes needs at base fee 1 wei, and a fee of 0 qits converts into 0 (MinFee = 1)
var (
	stubExchangeRate = new(big.Int).Lsh(big.NewInt(1), 70)
	stubDifficulty   = big.NewInt(1_000_000_000)
)

func (c *stubChain) mkHeader(num uint64, parent common.Hash, salt uint64, txs []*types.Transaction) *types.WorkObject {
	wo := types.EmptyZoneWorkObject()
	wo.WorkObjectHeader().SetNumber(new(big.Int).SetUint64(num))
	wo.WorkObjectHeader().SetParentHash(parent)
	wo.WorkObjectHeader().SetNonce(types.EncodeNonce(salt))
	wo.WorkObjectHeader().SetTime(salt)
	wo.WorkObjectHeader().SetDifficulty(new(big.Int).Set(stubDifficulty))
	wo.WorkObjectHeader().SetPrimeTerminusNumber(big.NewInt(0))
	wo.Header().SetGasLimit(5_000_000)
	wo.Header().SetBaseFee(new(big.Int).Set(c.baseFee))
	wo.Header().SetExchangeRate(new(big.Int).Set(stubExchangeRate))
	wo.Header().SetEVMRoot(types.EmptyRootHash)
	wo.Body().SetTransactions(txs)
	return wo
}

func newStubChain(w *world, lg *log.Logger) *stubChain {
	c := &stubChain{w: w, blocks: map[string]*sblock{}, byHash: map[common.Hash]*sblock{}, dbLive: map[string]bool{}, lg: lg,
		baseFee: big.NewInt(1)}
	c.db = rawdb.NewMemoryDatabase(lg)
	c.sdb = state.NewDatabase(rawdb.NewMemoryDatabase(lg))
	c.terminus = c.mkHeader(0, common.Hash{}, 999_999, nil)
	// blocks in topological order
	var order []string
	done := map[string]bool{}
	for len(order) < len(w.defs.Blocks) {
		progress := false
		ids := make([]string, 0)
		for id := range w.defs.Blocks {
			ids = append(ids, id)
		}
		sort.Strings(ids)
		for _, id := range ids {
			bd := w.defs.Blocks[id]
			if done[id] || (bd.Parent != "none" && !done[bd.Parent]) {
				continue
			}
			done[id] = true
			order = append(order, id)
			progress = true
		}
		if !progress {
			fatal(fmt.Errorf("block definitions are not a tree"))
		}
	}
	for i, id := range order {
		bd := w.defs.Blocks[id]
		b := &sblock{id: id, live: map[string]bool{}}
		var phash common.Hash
		if bd.Parent == "none" {
			for o := range w.defs.Gen {
				b.live[o] = true
			}
			c.head = b
		} else {
			b.parent = c.blocks[bd.Parent]
			b.num = b.parent.num + 1
			phash = b.parent.wo.Hash()
			for o := range b.parent.live {
				b.live[o] = true
			}
		}
		var txs []*types.Transaction
		for _, tid := range bd.Body {
			td := w.defs.Txs[tid]
			for _, o := range td.Ins {
				delete(b.live, o)
			}
			for _, o := range td.Outs {
				if o.Zone == "local" {
					b.live[o.ID] = true
				}
			}
			txs = append(txs, w.tx(tid))
		}
		b.wo = c.mkHeader(b.num, phash, uint64(i+1), txs)
		c.blocks[id] = b
		c.byHash[b.wo.Hash()] = b
		rawdb.WriteUTXOSetSize(c.db, b.wo.Hash(), uint64(len(b.live)+8))
	}
	c.materialise(c.head)
	return c
}

// materialise makes the database show exactly the unspent set of b
func (c *stubChain) materialise(b *sblock) {
	for o := range c.dbLive {
		if !b.live[o] {
			op := c.w.outpoint(o, 0)
			rawdb.DeleteUTXO(c.db, op.TxHash, op.Index)
			delete(c.dbLive, o)
		}
	}
	for o := range b.live {
		if !c.dbLive[o] {
			a := c.w.outAttr[o]
			op := c.w.outpoint(o, 0)
			e := &types.UtxoEntry{Denomination: uint8(a.Den), Address: c.w.key(a.Owner).Addr.Bytes()}
			if a.Lock != 0 {
				e.Lock = new(big.Int).SetUint64(a.Lock)
			}
			fatal(rawdb.CreateUTXO(c.db, op.TxHash, op.Index, e))
			c.dbLive[o] = true
		}
	}
}

// switchTo makes b the chain's head (database and CurrentBlock); the head event is sent separately
func (c *stubChain) switchTo(id string) *sblock {
	c.mu.Lock()
	defer c.mu.Unlock()
	b := c.blocks[id]
	if b == nil {
		fatal(fmt.Errorf("unknown block %q", id))
	}
	c.materialise(b)
	c.head = b
	return b
}

func (c *stubChain) announce(b *sblock) { c.feed.Send(core.ChainHeadEvent{Block: b.wo}) }

func (c *stubChain) idOf(wo *types.WorkObject) string {
	if wo == nil {
		return ""
	}
	c.mu.RLock()
	defer c.mu.RUnlock()
	if b, ok := c.byHash[wo.Hash()]; ok {
		return b.id
	}
	return "?"
}

func (c *stubChain) headID() string {
	c.mu.RLock()
	defer c.mu.RUnlock()
	return c.head.id
}

func (c *stubChain) CurrentBlock() *types.WorkObject {
	c.mu.RLock()
	wo := c.head.wo
	c.mu.RUnlock()
	if atomic.LoadInt32(&c.loopSeen) == 0 {
		// TxPool.loop reads the head it will name as the old head of the first reset when the goroutine starts;
		// the harness must not move the chain before that (a node starts its pool long before the next block)
		pcs := make([]uintptr, 8)
		n := runtime.Callers(2, pcs)
		frames := runtime.CallersFrames(pcs[:n])
		for {
			f, more := frames.Next()
			if strings.HasSuffix(f.Function, "(*TxPool).loop") {
				atomic.StoreInt32(&c.loopSeen, 1) // after the head was read
			}
			if !more {
				break
			}
		}
	}
	return wo
}
func (c *stubChain) GetBlock(hash common.Hash, number uint64) *types.WorkObject {
	c.mu.RLock()
	defer c.mu.RUnlock()
	if b, ok := c.byHash[hash]; ok && b.num == number {
		return b.wo
	}
	return nil
}
func (c *stubChain) StateAt(root, etxRoot common.Hash, quaiStateSize *big.Int) (*state.StateDB, error) {
	return state.New(types.EmptyRootHash, types.EmptyRootHash, big.NewInt(0), c.sdb, c.sdb, nil, location, c.lg)
}
func (c *stubChain) SubscribeChainHeadEvent(ch chan<- core.ChainHeadEvent) event.Subscription {
	c.headCh = ch
	return c.feed.Subscribe(ch)
}
func (c *stubChain) IsGenesisHash(hash common.Hash) bool                             { return false }
func (c *stubChain) CheckIfEtxIsEligible(hash common.Hash, loc common.Location) bool { return true }
func (c *stubChain) Engine(header *types.WorkObjectHeader) consensus.Engine          { return nil }
func (c *stubChain) GetHeaderOrCandidateByHash(h common.Hash) *types.WorkObject      { return c.GetHeaderByHash(h) }
func (c *stubChain) NodeCtx() int                                                    { return common.ZONE_CTX }
func (c *stubChain) GetMaxTxInWorkShare() uint64                                     { return 100000 }
func (c *stubChain) CheckInCalcOrderCache(common.Hash) (*big.Int, int, bool)         { return nil, 0, false }
func (c *stubChain) AddToCalcOrderCache(common.Hash, int, *big.Int)                  {}
func (c *stubChain) CalcBaseFee(*types.WorkObject) *big.Int                          { return new(big.Int).Set(c.baseFee) }
func (c *stubChain) CalcOrder(*types.WorkObject) (*big.Int, int, error) {
	return big.NewInt(0), common.ZONE_CTX, nil
}
func (c *stubChain) GetHeaderByHash(h common.Hash) *types.WorkObject {
	c.mu.RLock()
	defer c.mu.RUnlock()
	if b, ok := c.byHash[h]; ok {
		return b.wo
	}
	return c.terminus // the prime terminus of every stub block
}
func (c *stubChain) GetBlockByHash(h common.Hash) *types.WorkObject {
	c.mu.RLock()
	defer c.mu.RUnlock()
	if b, ok := c.byHash[h]; ok {
		return b.wo
	}
	return nil
}

// ---------------------------------------------------------------- abstract Qi pool state

type absState struct {
	Pool  []string `json:"pool"`  // LRU order, oldest first
	Fees  []int64  `json:"fees"`  // fee recorded with each entry
	Cache []string `json:"cache"` // transactions with a cached fee (sorted)
	Head  string   `json:"head"`  // the chain's head
	// observations outside the TLA+ state
	Anomalies []string         `json:"-"`
	CacheFee  map[string]int64 `json:"-"`
	Broadcast []string         `json:"-"`
	Seq       uint64           `json:"-"`
}

func (w *world) abstract(s *core.VerifQiSnapshot, head string) *absState {
	a := &absState{Pool: []string{}, Fees: []int64{}, Cache: []string{}, Head: head, CacheFee: map[string]int64{}, Seq: s.Seq}
	anom := func(f string, x ...interface{}) { a.Anomalies = append(a.Anomalies, fmt.Sprintf(f, x...)) }
	for _, e := range s.Entries {
		id, ok := w.byHash[e.Key]
		if !ok {
			anom("IndexesAgree: qiPool holds an unknown key %x", e.Key)
			continue
		}
		if e.Tx == nil || e.Tx.Hash() != e.Key {
			anom("IndexesAgree: qiPool entry %s holds another transaction", id)
		}
		fee := int64(-1)
		if e.Fee != nil && e.Fee.IsInt64() {
			fee = e.Fee.Int64()
		} else {
			anom("IndexesAgree: qiPool entry %s has no fee", id)
		}
		a.Pool = append(a.Pool, id)
		a.Fees = append(a.Fees, fee)
	}
	h16 := map[[16]byte]string{}
	for h, id := range w.byHash {
		h16[[16]byte(h[:16])] = id
	}
	for k, v := range s.Fees {
		id, ok := h16[k]
		if !ok {
			anom("IndexesAgree: qiTxFees holds an unknown key %x", k)
			continue
		}
		a.Cache = append(a.Cache, id)
		a.CacheFee[id] = v.Int64()
	}
	sort.Strings(a.Cache)
	for _, h := range s.Broadcast {
		if id, ok := w.byHash[h]; ok {
			a.Broadcast = append(a.Broadcast, id)
		} else {
			anom("broadcast set holds an unknown Qi transaction %x", h)
		}
	}
	if len(s.Entries) > s.Capacity {
		anom("SizeLimit: %d entries, capacity %d", len(s.Entries), s.Capacity)
	}
	return a
}

// native evaluation of the Qi invariants of C19 on a snapshot (literal transcription of the property)
func (w *world) checkState(a *absState, cap int) []string {
	v := append([]string{}, a.Anomalies...)
	seen := map[string]bool{}
	for i, id := range a.Pool {
		if seen[id] {
			v = append(v, fmt.Sprintf("IndexesAgree: %s is in qiPool twice", id))
		}
		seen[id] = true
		if a.Fees[i] != w.fee(id) {
			v = append(v, fmt.Sprintf("FeeIsInputsMinusOutputs: %s recorded with fee %d, inputs - outputs = %d", id, a.Fees[i], w.fee(id)))
		}
		if cf, ok := a.CacheFee[id]; ok && cf != a.Fees[i] {
			v = append(v, fmt.Sprintf("IndexesAgree: %s pooled with fee %d, cached fee %d", id, a.Fees[i], cf))
		}
	}
	for id, cf := range a.CacheFee {
		if cf != w.fee(id) {
			v = append(v, fmt.Sprintf("FeeIsInputsMinusOutputs: cached fee of %s is %d, inputs - outputs = %d", id, cf, w.fee(id)))
		}
	}
	if len(a.Pool) > cap {
		v = append(v, fmt.Sprintf("SizeLimit: %d pooled, capacity %d", len(a.Pool), cap))
	}
	sort.Strings(v)
	return v
}

func classify(err error) string {
	if err == nil {
		return "ok"
	}
	if err == core.ErrAlreadyKnown {
		return "known"
	}
	m := err.Error()
	switch {
	case strings.Contains(m, "inactive chain"):
		return "inactive"
	case strings.Contains(m, "at least one input"):
		return "noinputs"
	case strings.Contains(m, "wrong chain ID"):
		return "chainid"
	case strings.Contains(m, "spends non-existent UTXO"):
		return "missing"
	case strings.Contains(m, "spends locked UTXO"):
		return "locked"
	case strings.Contains(m, "with invalid pubkey"):
		return "owner"
	case strings.Contains(m, "Duplicate address"):
		return "dupaddr"
	case strings.Contains(m, "is less than the amount"):
		return "value"
	case strings.Contains(m, "insufficient fee"):
		return "fee"
	case strings.Contains(m, "invalid signature"):
		return "sig"
	}
	return "unexpected: " + m
}

// ---------------------------------------------------------------- harness: one real pool + stub chain + hook recorder

type violation struct {
	Kind      string      `json:"kind"`
	What      string      `json:"what"`
	Detail    interface{} `json:"detail,omitempty"`
	Behaviour interface{} `json:"behaviour,omitempty"`
}

type runEvent struct {
	seq    uint64
	reset  bool
	old    string
	new    string
	before *absState // at reorgBegin
	after  *absState // at reorg
}

type harness struct {
	w     *world
	chain *stubChain
	pool  *core.TxPool
	cap   int

	mu       sync.Mutex
	cond     *sync.Cond
	runs     []*runEvent // completed runs with a reset
	cur      *runEvent
	nruns    uint64        // completed runs of any kind
	holdNext bool          // block the next run without a reset at its beginning
	held     chan struct{} // closed when a run is being held
	release  chan struct{} // closed to let the held run go on
	markers  map[common.Hash]func(seq uint64, st *absState)
	vmu      sync.Mutex
	viols    []violation
}

var (
	registry sync.Map
	hookOnce sync.Once
	errLog   = &errorLogWatcher{counts: map[string]int{}}
	abortAll int32
)

type errorLogWatcher struct {
	mu     sync.Mutex
	counts map[string]int
	panics []string
}

func (w *errorLogWatcher) Write(b []byte) (int, error) {
	w.mu.Lock()
	defer w.mu.Unlock()
	s := string(b)
	if strings.Contains(s, "Panicked") {
		if len(w.panics) < 5 {
			w.panics = append(w.panics, s)
		}
		return len(b), nil
	}
	msg := s
	if i := strings.Index(s, "] "); i >= 0 {
		msg = s[i+2:]
	}
	if len(msg) > 60 {
		msg = msg[:60]
	}
	w.counts[strings.TrimSpace(msg)]++
	return len(b), nil
}

func quietLog() *log.Logger {
	l := log.Global
	l.SetOutput(errLog)
	l.SetLevel(2) // logrus.ErrorLevel
	return l
}

type eventSink interface {
	onEvent(p *core.TxPool, seq uint64, ev string, args []interface{})
}

func installHook() {
	hookOnce.Do(func() {
		core.VerifSetPoolEventHook(func(p *core.TxPool, seq uint64, ev string, args []interface{}) {
			if h, ok := registry.Load(p); ok {
				h.(eventSink).onEvent(p, seq, ev, args)
			}
		})
	})
}

type poolOpts struct {
	cap       int
	reorgFreq time.Duration
}

func newHarness(w *world, o poolOpts) *harness {
	installHook()
	lg := quietLog()
	h := &harness{w: w, cap: o.cap, markers: map[common.Hash]func(uint64, *absState){}}
	h.cond = sync.NewCond(&h.mu)
	h.chain = newStubChain(w, lg)
	cfg := core.TxPoolConfig{
		NoLocals: false, Journal: "", Rejournal: time.Hour,
		PriceLimit: 1_000_000_000, PriceBump: 10,
		AccountSlots: 16, GlobalSlots: 64, AccountQueue: 16, GlobalQueue: 64,
		MaxSenders: 10000, MaxFeesCached: 10000, SendersChBuffer: 4096, QiPoolSize: uint64(o.cap),
		QiTxLifetime: time.Hour, Lifetime: time.Hour, ReorgFrequency: o.reorgFreq,
	}
	cc := *params.Blake3PowLocalChainConfig
	cc.Location = location
	cc.ChainID = new(big.Int).Set(chainID)
	h.pool = core.NewTxPool(cfg, &cc, h.chain, lg, h.chain.db)
	registry.Store(h.pool, h)
	for deadline := time.Now().Add(20 * time.Second); atomic.LoadInt32(&h.chain.loopSeen) == 0; {
		if time.Now().After(deadline) {
			fatal(fmt.Errorf("TxPool.loop did not start within 20s"))
		}
		time.Sleep(50 * time.Microsecond)
	}
	return h
}

func (h *harness) stop() {
	done := make(chan struct{})
	go func() { h.pool.Stop(); close(done) }()
	select {
	case <-done:
	case <-time.After(20 * time.Second):
		h.violate("stuck", "TxPool.Stop did not return within 20s", goroutineDump())
	}
	registry.Delete(h.pool)
	core.VerifForgetPool(h.pool)
}

func goroutineDump() string {
	buf := make([]byte, 1<<20)
	n := runtime.Stack(buf, true)
	return string(buf[:n])
}

func (h *harness) violate(kind, what string, detail interface{}) {
	if kind == "stuck" {
		atomic.StoreInt32(&abortAll, 1)
	}
	h.vmu.Lock()
	defer h.vmu.Unlock()
	if len(h.viols) < 20 {
		h.viols = append(h.viols, violation{Kind: kind, What: what, Detail: detail})
	}
}

func (h *harness) violations() []violation {
	h.vmu.Lock()
	defer h.vmu.Unlock()
	return append([]violation{}, h.viols...)
}

// onEvent runs with pool.mu held
func (h *harness) onEvent(p *core.TxPool, seq uint64, ev string, args []interface{}) {
	switch ev {
	case "reorgBegin":
		r, _ := args[0].(*core.VerifReset)
		h.mu.Lock()
		if r == nil {
			if h.holdNext {
				h.holdNext = false
				h.cur = nil
				held, release := h.held, h.release
				h.mu.Unlock()
				close(held)
				<-release
				return
			}
			h.cur = nil
			h.mu.Unlock()
			return
		}
		h.cur = &runEvent{seq: seq, reset: true, old: h.chain.idOf(r.Old), new: h.chain.idOf(r.New)}
		h.mu.Unlock()
		st := h.w.abstract(p.VerifQiSnapshotLocked(), h.chain.headID())
		h.mu.Lock()
		if h.cur != nil {
			h.cur.before = st
		}
		h.mu.Unlock()
	case "reorg":
		h.mu.Lock()
		cur := h.cur
		h.cur = nil
		h.mu.Unlock()
		if cur != nil {
			cur.after = h.w.abstract(p.VerifQiSnapshotLocked(), h.chain.headID())
			if v := h.w.checkState(cur.after, h.cap); len(v) > 0 {
				h.violate("invariant", v[0], map[string]interface{}{"all": v, "after_reset": cur.new, "state": cur.after})
			}
		}
		h.mu.Lock()
		if cur != nil {
			h.runs = append(h.runs, cur)
		}
		h.nruns++
		h.cond.Broadcast()
		h.mu.Unlock()
	case "add":
		// a marker (Quai) transaction submitted together with a Qi transaction: the snapshot taken here lies
		// in the same critical section as the Qi admission
		tx := args[0].(*types.Transaction)
		h.mu.Lock()
		fn := h.markers[tx.Hash()]
		delete(h.markers, tx.Hash())
		h.mu.Unlock()
		if fn != nil {
			fn(seq, h.w.abstract(p.VerifQiSnapshotLocked(), h.chain.headID()))
		}
	}
}

func (h *harness) waitFor(d time.Duration, pred func() bool) bool {
	deadline := time.Now().Add(d)
	h.mu.Lock()
	defer h.mu.Unlock()
	for !pred() {
		if time.Now().After(deadline) {
			return false
		}
		t := time.AfterFunc(10*time.Millisecond, h.cond.Broadcast)
		h.cond.Wait()
		t.Stop()
	}
	return true
}

func (h *harness) snapshot() *absState {
	return h.w.abstract(h.pool.VerifQiSnapshot(), h.chain.headID())
}

// addOne hands one Qi transaction to the pool the way the network / RPC layers do; a panic is recovered and reported
func (h *harness) addOne(id string, local bool) (res string) {
	defer func() {
		if r := recover(); r != nil {
			res = fmt.Sprintf("panic: %v", r)
		}
	}()
	tx := h.w.tx(id)
	if local {
		return classify(h.pool.AddLocal(tx))
	}
	return classify(h.pool.AddRemotes([]*types.Transaction{tx})[0])
}

// addCall hands Qi transactions to the pool in ONE call (AddRemotes / AddLocals), optionally followed by a marker
// (Quai) transaction whose "add" hook event marks the critical section.  Result: "panic: ..." | "batch" | for a
// single transaction the class of the answer.  addTxs writes the errors of Qi transactions into the first free
// result slots, so with a marker the marker's own error can sit in slot 0: the Qi answer is the first error
// of a Qi class.
func (h *harness) addCall(ids []string, local bool, marker *types.Transaction) (res string) {
	defer func() {
		if r := recover(); r != nil {
			res = fmt.Sprintf("panic: %v", r)
		}
	}()
	var txs []*types.Transaction
	for _, id := range ids {
		tx := h.w.tx(id)
		if local {
			tx.SetLocal(true)
		}
		txs = append(txs, tx)
	}
	if marker != nil {
		txs = append(txs, marker)
	}
	var errs []error
	if local {
		errs = h.pool.AddLocals(txs)
	} else {
		errs = h.pool.AddRemotes(txs)
	}
	if len(ids) != 1 {
		return "batch"
	}
	if marker == nil {
		return classify(errs[0])
	}
	for _, e := range errs {
		if c := classify(e); c != "ok" && !strings.HasPrefix(c, "unexpected") {
			return c
		}
	}
	return "ok"
}

// poolHead: the head the pool last reset to
func (h *harness) poolHead() string {
	h.mu.Lock()
	defer h.mu.Unlock()
	if len(h.runs) == 0 {
		for id, b := range h.w.defs.Blocks {
			if b.Parent == "none" {
				return id
			}
		}
	}
	return h.runs[len(h.runs)-1].new
}

func (w *world) computeValidSomewhere() {
	w.validSomewhere = map[string]bool{}
	lg := quietLog()
	c := newStubChain(w, lg)
	for _, b := range c.blocks {
		for id := range w.defs.Txs {
			if w.defs.validate(id, b.live, b.num) == "ok" {
				w.validSomewhere[id] = true
			}
		}
	}
}

func (h *harness) remove(id string) {
	hash := h.w.hash[id]
	h.pool.RemoveQiTxs([]*common.Hash{&hash})
}

// waitFeeCached waits until feesGoroutine has stored the fee of id
func (h *harness) waitFeeCached(id string) bool {
	deadline := time.Now().Add(5 * time.Second)
	for time.Now().Before(deadline) {
		for _, c := range h.snapshot().Cache {
			if c == id {
				return true
			}
		}
		time.Sleep(200 * time.Microsecond)
	}
	return false
}

// deliver sends the head events of blocks (announced earlier by switchTo) so that the pool handles them as ONE
// reset request (old head of the first, new head of the last); returns the reset run
func (h *harness) deliver(blocks []*sblock) (*runEvent, string) {
	h.mu.Lock()
	from := len(h.runs)
	h.mu.Unlock()
	if len(blocks) > 1 {
		// hold a run without reset at its beginning (it owns pool.mu; scheduleReorgLoop cannot launch the next
		// run before this one is done), let loop() pass all the events on, then let go
		h.mu.Lock()
		h.held, h.release = make(chan struct{}), make(chan struct{})
		h.holdNext = true
		held, release := h.held, h.release
		h.mu.Unlock()
		select {
		case <-held:
		case <-time.After(10 * time.Second):
			return nil, "no reorg run to hold within 10s"
		}
		for _, b := range blocks {
			h.chain.announce(b)
			deadline := time.Now().Add(5 * time.Second)
			for len(h.chain.headCh) > 0 && time.Now().Before(deadline) {
				time.Sleep(100 * time.Microsecond)
			}
			time.Sleep(2 * time.Millisecond) // loop() hands the request to scheduleReorgLoop, which is idle
		}
		close(release)
	} else {
		h.chain.announce(blocks[0])
	}
	last := blocks[len(blocks)-1].id
	ok := h.waitFor(10*time.Second, func() bool {
		for _, r := range h.runs[from:] {
			if r.new == last {
				return true
			}
		}
		return false
	})
	if !ok {
		return nil, "head event not served by a reset run within 10s"
	}
	h.mu.Lock()
	defer h.mu.Unlock()
	if len(h.runs)-from != 1 {
		return h.runs[len(h.runs)-1], fmt.Sprintf("split:%d", len(h.runs)-from)
	}
	return h.runs[len(h.runs)-1], ""
}

func loadDefs(path string) Defs {
	b, err := os.ReadFile(path)
	fatal(err)
	var wrap struct {
		Defs Defs `json:"defs"`
	}
	fatal(json.Unmarshal(b, &wrap))
	return wrap.Defs
}
