package main

import (
	"bufio"
	"encoding/json"
	"flag"
	"fmt"
	"os"
	"reflect"
	"strings"
	"sync"
	"sync/atomic"
	"time"
)

// one record of a behaviour emitted by TLC from spec/QiPool.tla (hist)
type step struct {
	Op   string    `json:"op"`
	Tx   string    `json:"tx"`
	Res  string    `json:"res"`
	B    string    `json:"b"`
	K    int       `json:"k"`
	Old  string    `json:"old"`
	New  string    `json:"new"`
	Kind string    `json:"kind"`
	Rj   []string  `json:"rj"`
	St   *absState `json:"st"`
}

type mismatch struct {
	Behaviour int         `json:"behaviour"`
	Step      int         `json:"step"`
	Op        string      `json:"op"`
	Field     string      `json:"field"`
	Expected  interface{} `json:"expected"`
	Got       interface{} `json:"got"`
	Prefix    []step      `json:"prefix"`
}

func sameStrings(a, b []string) bool {
	if len(a) != len(b) {
		return false
	}
	return len(a) == 0 || reflect.DeepEqual(a, b)
}

func sameInts(a, b []int64) bool {
	if len(a) != len(b) {
		return false
	}
	return len(a) == 0 || reflect.DeepEqual(a, b)
}

func sortedCopy(a []string) []string {
	out := append([]string{}, a...)
	for i := 1; i < len(out); i++ {
		for j := i; j > 0 && out[j] < out[j-1]; j-- {
			out[j], out[j-1] = out[j-1], out[j]
		}
	}
	return out
}

// first field in which the implementation's Qi pool differs from the specified one
func diffState(exp, got *absState) (string, interface{}, interface{}) {
	if !sameStrings(exp.Pool, got.Pool) {
		return "qiPool", exp.Pool, got.Pool
	}
	if !sameInts(exp.Fees, got.Fees) {
		return "fees", exp.Fees, got.Fees
	}
	if !sameStrings(sortedCopy(exp.Cache), got.Cache) {
		return "feeCache", sortedCopy(exp.Cache), got.Cache
	}
	if exp.Head != got.Head {
		return "head", exp.Head, got.Head
	}
	return "", nil, nil
}

type behResult struct {
	status string // ok | mismatch | deviated | stuck
	steps  int
	mis    *mismatch
	viols  []violation
	panics int
}

func replayOne(w *world, cap int, tick time.Duration, bi int, beh []step) behResult {
	h := newHarness(w, poolOpts{cap: cap, reorgFreq: tick})
	defer h.stop()
	res := behResult{status: "ok"}
	var announced []*sblock // heads the chain switched to whose events the pool has not seen yet
	stuck := func(what string) behResult {
		res.status = "stuck"
		h.violate("stuck", what, goroutineDump())
		res.viols = h.violations()
		return res
	}
	for si, st := range beh {
		mis := func(field string, exp, g interface{}) behResult {
			res.status = "mismatch"
			res.mis = &mismatch{bi, si, st.Op, field, exp, g, beh[:si+1]}
			res.viols = h.violations()
			return res
		}
		var got *absState
		switch st.Op {
		case "add":
			r := h.addOne(st.Tx, false)
			if strings.HasPrefix(r, "panic:") {
				res.panics++
				h.violate("panic", r, map[string]interface{}{"tx": st.Tx, "def": w.defs.Txs[st.Tx], "head": h.chain.headID(),
					"class": panicClass(w, st.Tx)})
				r = "panic"
			}
			if r != st.Res {
				return mis("result", st.Res, r)
			}
			if r == "ok" {
				if !h.waitFeeCached(st.Tx) {
					return mis("feeCache", "fee of "+st.Tx+" cached", "not cached within 5s")
				}
			}
			got = h.snapshot()
		case "remove":
			h.remove(st.Tx)
			got = h.snapshot()
		case "sethead":
			announced = append(announced, h.chain.switchTo(st.B))
			got = h.snapshot()
		case "reset":
			if st.K < 1 || st.K > len(announced) {
				fatal(fmt.Errorf("behaviour %d step %d: reset of %d events, %d announced", bi, si, st.K, len(announced)))
			}
			run, problem := h.deliver(announced[:st.K])
			announced = announced[st.K:]
			if run == nil {
				return stuck(problem)
			}
			if problem != "" {
				// the events were not merged into one request (scheduling): not the behaviour asked for
				res.status = "deviated"
				return res
			}
			if run.old != st.Old || run.new != st.New {
				return mis("reset-request", []string{st.Old, st.New}, []string{run.old, run.new})
			}
			got = run.after
			// fees of re-validated transactions travel through feesCh
			for _, id := range st.St.Cache {
				if !h.waitFeeCached(id) {
					return mis("feeCache", "fee of "+id+" cached", "not cached within 5s")
				}
			}
			got.Cache = h.snapshot().Cache
		default:
			fatal(fmt.Errorf("unknown op %q in behaviour %d", st.Op, bi))
		}
		res.steps++
		if v := w.checkState(got, cap); len(v) > 0 {
			h.violate("invariant", v[0], map[string]interface{}{"all": v, "state": got, "step": si})
		}
		if f, e, g := diffState(st.St, got); f != "" {
			return mis(f, e, g)
		}
	}
	res.viols = h.violations()
	return res
}

// panicClass names what is special about the transaction a call panicked on (no panic is specified: every panic of
// a pool call is a violation; before fix 20862e4b an output to an inactive zone plus a refusal panicked addTxs)
func panicClass(w *world, id string) string {
	for _, o := range w.defs.Txs[id].Outs {
		if o.Zone == "inactive" {
			return "inactive-output-and-refused"
		}
	}
	return "other"
}

func cmdReplay(args []string) {
	fs := flag.NewFlagSet("replay", flag.ExitOnError)
	defsPath := fs.String("defs", "", "universe (JSON printed by TLC)")
	in := fs.String("in", "", "behaviours ndjson (TLC hist values)")
	out := fs.String("out", "", "result json")
	workers := fs.Int("workers", 16, "")
	tick := fs.Duration("tick", 3*time.Millisecond, "ReorgFrequency of the replay pools")
	maxMis := fs.Int("maxmis", 20, "")
	fs.Parse(args)
	d := loadDefs(*defsPath)
	w := newWorld(d)
	f, err := os.Open(*in)
	fatal(err)
	sc := bufio.NewScanner(f)
	sc.Buffer(make([]byte, 1<<20), 1<<28)
	var behs [][]step
	for sc.Scan() {
		var b []step
		if err := json.Unmarshal(sc.Bytes(), &b); err != nil {
			fatal(fmt.Errorf("behaviour %d: %v", len(behs), err))
		}
		if len(b) > 0 {
			behs = append(behs, b)
		}
	}
	var mu sync.Mutex
	status := map[string]int{}
	ops := map[string]int{}
	results := map[string]int{}
	steps, retries, panics := 0, 0, 0
	var mism []mismatch
	var viols []violation
	jobs := make(chan int)
	var wg sync.WaitGroup
	for k := 0; k < *workers; k++ {
		wg.Add(1)
		go func() {
			defer wg.Done()
			for bi := range jobs {
				if atomic.LoadInt32(&abortAll) != 0 {
					mu.Lock()
					status["skipped"]++
					mu.Unlock()
					continue
				}
				var r behResult
				for try := 0; try < 4; try++ {
					r = replayOne(w, d.Cap, *tick, bi, behs[bi])
					if r.status != "deviated" {
						break
					}
					mu.Lock()
					retries++
					mu.Unlock()
				}
				mu.Lock()
				status[r.status]++
				steps += r.steps
				panics += r.panics
				if r.status == "ok" {
					for _, s := range behs[bi] {
						ops[s.Op]++
						if s.Op == "add" {
							results[s.Res]++
						} else if s.Op == "reset" {
							results["reset-"+s.Kind]++
							if s.K > 1 {
								results["reset-merged"]++
							}
							if len(s.Rj) > 0 {
								results["reset-reinjecting"]++
							}
						}
					}
				}
				if r.mis != nil && len(mism) < *maxMis {
					mism = append(mism, *r.mis)
				}
				for _, v := range r.viols {
					if len(viols) < *maxMis {
						v.Behaviour = behs[bi]
						viols = append(viols, v)
					}
				}
				mu.Unlock()
			}
		}()
	}
	for bi := range behs {
		jobs <- bi
	}
	close(jobs)
	wg.Wait()
	errLog.mu.Lock()
	res := map[string]interface{}{"behaviours": len(behs), "status": status, "steps_compared": steps,
		"schedule_retries": retries, "mismatches": mism, "violations": viols, "ops": ops, "results": results,
		"panics_caught": panics, "error_logs": errLog.counts, "panics": errLog.panics}
	b, _ := json.MarshalIndent(res, "", " ")
	errLog.mu.Unlock()
	fatal(os.WriteFile(*out, b, 0o644))
}
