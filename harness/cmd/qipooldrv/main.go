// qipooldrv binds spec/QiPool.tla to the Qi side of the real core.TxPool (C19) and to the real worker's
// selection of Qi transactions (C01, last sentence).
//
//	qipooldrv replay -defs defs.json -in behaviours.ndjson -out result.json
//	    every behaviour emitted by TLC is executed on a fresh real pool over a stub chain that serves the UTXO
//	    reads of the Qi validation; accept / refusal class and the pool's Qi content (LRU order, fees, fee cache)
//	    are compared after every step.
//	qipooldrv random -seed S -universes U -scenarios N -steps K [-producers P] -outdir dir -result r.json
//	    seeded random universes and schedules (sequential and with concurrent producers, head changes, removals);
//	    one trace file per universe for spec/QiPoolTrace.tla.
//	qipooldrv worker -seed S -rounds R -out trace.ndjson -result r.json
//	    a real in-process node (mininet): adversarial Qi transactions go to the real pool, the real worker
//	    assembles the pending block; the included Qi transactions are logged with the pool snapshot.
//	qipooldrv probe -defs defs.json
package main

import (
	"fmt"
	"os"
)

func main() {
	if len(os.Args) < 2 {
		fmt.Fprintln(os.Stderr, "usage: qipooldrv replay|random|worker|probe ...")
		os.Exit(2)
	}
	checkDenominations()
	switch os.Args[1] {
	case "replay":
		cmdReplay(os.Args[2:])
	case "random":
		cmdRandom(os.Args[2:])
	case "worker":
		cmdWorker(os.Args[2:])
	case "probe":
		cmdProbe(os.Args[2:])
	default:
		os.Exit(2)
	}
}
