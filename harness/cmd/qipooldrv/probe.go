package main

import (
	"flag"
	"fmt"
	"math/big"
	"sort"
	"time"

	"github.com/dominant-strategies/go-quai/consensus/misc"
)

// probe: what the real pool answers for every transaction of the universe at every head (development aid)
func cmdProbe(args []string) {
	fs := flag.NewFlagSet("probe", flag.ExitOnError)
	defs := fs.String("defs", "", "")
	fs.Parse(args)
	d := loadDefs(*defs)
	w := newWorld(d)
	h := newHarness(w, poolOpts{cap: 100, reorgFreq: 5 * time.Millisecond})
	defer h.stop()
	hd := h.chain.CurrentBlock()
	for _, q := range []int64{0, 1, 5} {
		fmt.Println("QiToQuai", q, "=", misc.QiToQuai(hd, stubExchangeRate, stubDifficulty, big.NewInt(q)))
	}
	ids := make([]string, 0)
	for id := range d.Txs {
		ids = append(ids, id)
	}
	sort.Strings(ids)
	bids := make([]string, 0)
	for id := range d.Blocks {
		bids = append(bids, id)
	}
	sort.Strings(bids)
	for _, b := range bids {
		h.chain.switchTo(b)
		for _, id := range ids {
			hh := newHarness(w, poolOpts{cap: 100, reorgFreq: 5 * time.Millisecond})
			hh.chain.switchTo(b)
			r := hh.addOne(id, false)
			st := hh.snapshot()
			fmt.Printf("head %s add %s -> %s pool=%v fees=%v\n", b, id, r, st.Pool, st.Fees)
			hh.stop()
		}
	}
}
