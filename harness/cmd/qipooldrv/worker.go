package main

import (
	"encoding/json"
	"flag"
	"fmt"
	"math/big"
	"math/rand"
	"os"
	"path/filepath"
	"sort"
	"strings"
	"sync"
	"time"

	"github.com/dominant-strategies/go-quai/common"
	"github.com/dominant-strategies/go-quai/consensus/misc"
	"github.com/dominant-strategies/go-quai/core"
	"github.com/dominant-strategies/go-quai/core/types"
	"verifharness/chain"
	"verifharness/mininet"
	"verifharness/wallet"
)

// ---------------------------------------------------------------- worker mode: real node (mininet), real pool, real worker
//
// Adversarial Qi transactions (conflicting pairs, one outpoint named twice, spends of outputs of pooled
// transactions, wrong owner, bad signature, ...) are handed to the node's pool; the node's worker assembles the
// pending block from the pool (Net.Refill inside Runner.MineOn); the block is sealed, inserted and made the head;
// the pool resets on the real ChainHeadEvent.  Logged for spec/QiPoolTrace.tla: every add (answer + pool
// content), the worker's selection (the Qi transactions of the block, with the pool content it was made from),
// the head changes and reset runs (pool content at the end of the run, observed by the hook under pool.mu), and the
// removals the worker requests asynchronously.

type wrun struct {
	seq           uint64
	old, new      common.Hash
	chainHead     common.Hash // the chain's head when the run began
	before, after *core.VerifQiSnapshot
}

type poolRecorder struct {
	mu       sync.Mutex
	cur      *wrun
	runs     []*wrun
	headHash func() common.Hash
}

func (pr *poolRecorder) onEvent(p *core.TxPool, seq uint64, ev string, args []interface{}) {
	switch ev {
	case "reorgBegin":
		r, _ := args[0].(*core.VerifReset)
		pr.mu.Lock()
		pr.cur = nil
		if r != nil && r.New != nil {
			pr.cur = &wrun{seq: seq, new: r.New.Hash(), before: p.VerifQiSnapshotLocked(), chainHead: pr.headHash()}
			if r.Old != nil {
				pr.cur.old = r.Old.Hash()
			}
		}
		pr.mu.Unlock()
	case "reorg":
		pr.mu.Lock()
		if pr.cur != nil {
			pr.cur.after = p.VerifQiSnapshotLocked()
			pr.runs = append(pr.runs, pr.cur)
			pr.cur = nil
		}
		pr.mu.Unlock()
	}
}

func (pr *poolRecorder) take() []*wrun {
	pr.mu.Lock()
	defer pr.mu.Unlock()
	out := pr.runs
	pr.runs = nil
	return out
}

type workerRun struct {
	e       *chain.Env
	r       *chain.Runner
	pool    *core.TxPool
	rec     *poolRecorder
	w       *world
	rng     *rand.Rand
	evs     []*tev
	blockOf map[common.Hash]string // real block hash -> block id of the universe
	rid     map[string]int         // block id -> runner's abstract block id
	head    string                 // block id of the head, as the trace has it
	live    map[string]bool        // universe outpoints unspent at `head` (driver's book-keeping, from block bodies)
	liveAt  map[string]map[string]bool
	numAt   map[string]uint64
	h0      uint64
	last    *absState // pool content as last logged
	nb, nt  int
	stats   map[string]int
	viols   []violation
	sub     uint64
	seen    map[string]bool
	shapes  map[string]string
	evq     []string // heads announced in the trace and not yet served by a reset run
	served  map[common.Hash]bool
}

func (wr *workerRun) violate(kind, what string, detail interface{}) {
	if len(wr.viols) < 20 {
		wr.viols = append(wr.viols, violation{Kind: kind, What: what, Detail: detail})
	}
}

func (wr *workerRun) snapshot() *absState {
	return wr.w.abstract(wr.pool.VerifQiSnapshot(), wr.head)
}

func (wr *workerRun) log(e *tev) {
	wr.sub++
	e.sub = wr.sub
	wr.evs = append(wr.evs, e)
	wr.stats[e.Op]++
	if e.St != nil {
		wr.last = absOf(e.St)
		for _, id := range e.St.Pool {
			wr.seen[id] = true
		}
	}
}

func (wr *workerRun) check(a *absState, where string) {
	if v := wr.w.checkState(a, 1<<30); len(v) > 0 {
		wr.violate("invariant", v[0], map[string]interface{}{"all": v, "state": a, "where": where})
	}
}

// removals requested by the worker (AsyncRemoveQiTxs) show up as transactions that left the pool on their own
func (wr *workerRun) syncRemovals() *absState {
	wr.processRuns() // a reset run that came late is logged where it happened
	st := wr.snapshot()
	wr.removalsUpTo(st)
	return st
}

// log an asyncremove event for every transaction of the last logged pool content that st no longer holds
func (wr *workerRun) removalsUpTo(st *absState) {
	if wr.last == nil {
		return
	}
	now := map[string]bool{}
	for _, id := range st.Pool {
		now[id] = true
	}
	cur := append([]string{}, wr.last.Pool...)
	fees := append([]int64{}, wr.last.Fees...)
	cache, cfees := wr.last.Cache, cacheFees(wr.last)
	for i := 0; i < len(cur); {
		if now[cur[i]] {
			i++
			continue
		}
		id := cur[i]
		cur = append(append([]string{}, cur[:i]...), cur[i+1:]...)
		fees = append(append([]int64{}, fees[:i]...), fees[i+1:]...)
		ls := &logState{Pool: append([]string{}, cur...), Fees: append([]int64{}, fees...), Cache: cache, Cfees: cfees, Head: wr.head}
		wr.log(&tev{Op: "asyncremove", Tx: id, Res: "removed", St: ls})
	}
}

func cacheFees(a *absState) []int64 {
	out := []int64{}
	for _, id := range a.Cache {
		out = append(out, a.CacheFee[id])
	}
	return out
}

func (wr *workerRun) add(id string) string {
	wr.syncRemovals()
	res := func() (res string) {
		defer func() {
			if r := recover(); r != nil {
				res = fmt.Sprintf("panic: %v", r)
			}
		}()
		return classify(wr.pool.AddRemotes([]*types.Transaction{wr.w.tx(id)})[0])
	}()
	if strings.HasPrefix(res, "panic:") {
		wr.violate("panic", res, map[string]interface{}{"tx": id, "class": panicClass(wr.w, id)})
		res = "panic"
	}
	st := wr.snapshot()
	wr.check(st, "add")
	wr.log(&tev{Op: "add", Txs: []string{id}, Res: res, St: toLog(st)})
	wr.stats["add:"+res]++
	return res
}

// sethead event: the chain's database and head are at block b, a head event for the pool is (normally) on its way
func (wr *workerRun) logSetHead(b string) {
	wr.head = b
	wr.live = copySet(wr.liveAt[b])
	ls := toLog(wr.last)
	ls.Head = b
	wr.log(&tev{Op: "sethead", B: b, St: ls})
	wr.evq = append(wr.evq, b)
}

// processRuns logs the reset runs the pool made since the last call.  The chain switches its head (database) and
// announces it; the pool serves the announcements later.  A run for block X while the chain is already at C != X:
// X was announced (possibly once more) before the chain moved on to C.  A run for a block announced earlier with
// other announcements before it: the pool merged them into one request.
func (wr *workerRun) processRuns() bool {
	for _, run := range wr.rec.take() {
		id, ok := wr.blockOf[run.new]
		if !ok {
			wr.violate("harness", "the pool reset to a block the driver does not know", nil)
			return false
		}
		pos := -1
		for i, b := range wr.evq {
			if b == id {
				pos = i
				break
			}
		}
		if pos < 0 {
			wr.logSetHead(id)
			if c, known := wr.blockOf[run.chainHead]; known && c != id {
				wr.logSetHead(c)
			}
			for i, b := range wr.evq {
				if b == id {
					pos = i
					break
				}
			}
		}
		after := wr.w.abstract(run.after, wr.head)
		wr.check(after, "reset")
		before := wr.w.abstract(run.before, wr.head)
		// the worker builds a pending block on the new head as soon as the chain has it, before the pool's reset
		// run: its removal requests can be served before the run
		wr.removalsUpTo(before)
		wr.log(&tev{Op: "reset", K: pos + 1, Old: wr.blockOf[run.old], New: id, St: toLog(after), before: before})
		wr.evq = wr.evq[pos+1:]
		wr.served[run.new] = true
	}
	return true
}

// drainResets waits until the pool has served the head event of block `wait` and logs the runs.  The node does not
// always issue a head event (Slice.GeneratePendingHeader returns early when a pending header on that block exists):
// then the chain is at the block, the pool has not been told, and the trace says exactly that (sethead, no reset).
func (wr *workerRun) drainResets(wait common.Hash) bool {
	deadline := time.Now().Add(5 * time.Second)
	for {
		if !wr.processRuns() {
			return false
		}
		if wr.served[wait] {
			delete(wr.served, wait)
			return true
		}
		if time.Now().After(deadline) {
			cur := wr.e.Net.ZoneCore().CurrentHeader()
			if cur.Hash() != wait {
				info := fmt.Sprintf("awaited %x (%s); chain head %x (%s) number %d; trace head %s; events logged %d\n", wait[:6], wr.blockOf[wait],
					cur.Hash().Bytes()[:6], wr.blockOf[cur.Hash()], cur.NumberU64(common.ZONE_CTX), wr.head, len(wr.evs))
				wr.violate("stuck", "the pool did not reset to the new head within 5s and the chain is elsewhere", info+goroutineDump())
				return false
			}
			id := wr.blockOf[wait]
			announced := false
			for _, b := range wr.evq {
				if b == id {
					announced = true
				}
			}
			if !announced {
				wr.logSetHead(id)
			}
			wr.stats["head_event_not_served_in_time"]++
			return true
		}
		time.Sleep(200 * time.Microsecond)
	}
}

func copySet(m map[string]bool) map[string]bool {
	out := map[string]bool{}
	for k := range m {
		out[k] = true
	}
	return out
}

// mine one block on the block with id `parent` from the pool as it is; logs select, sethead, reset
func (wr *workerRun) mineOn(parent string) bool {
	if wr.head != parent {
		// switch back first (the pool sees a head event for the old block), so that the pool content the worker
		// selects from can be observed between the switch and the refill
		if err := wr.r.SetHead(wr.rid[parent], true); err != nil {
			wr.violate("harness", "SetHead: "+err.Error(), nil)
			return false
		}
		hash := wr.e.Net.ZoneCore().CurrentHeader().Hash()
		if !wr.drainResets(hash) {
			return false
		}
	}
	st := wr.syncRemovals()
	wr.check(st, "select")
	// assumption guard (not an oracle): the worker drops pooled transactions whose fee per gas is below the base fee
	// without a trace; the scenarios keep fees far above that, otherwise the run says so instead of judging
	if ph, err := wr.e.Net.Pending(); err == nil && ph.BaseFee() != nil {
		hd := wr.e.Net.ZoneCore().CurrentHeader()
		for i, id := range st.Pool {
			inQuai := misc.QiToQuai(ph, hd.ExchangeRate(), ph.Difficulty(), big.NewInt(st.Fees[i]))
			perGas := new(big.Int).Div(inQuai, big.NewInt(int64(types.CalculateBlockQiTxGas(wr.w.tx(id), 0, mininet.ZoneLoc))))
			if perGas.Cmp(new(big.Int).Mul(ph.BaseFee(), big.NewInt(5))) < 0 {
				wr.violate("harness", fmt.Sprintf("fee per gas of %s (%v) is not far above the base fee %v", id, perGas, ph.BaseFee()), nil)
				return false
			}
			if os.Getenv("QIPOOL_DEBUG") != "" {
				fmt.Fprintf(os.Stderr, "fee guard %s fee=%d perGas=%v baseFee=%v\n", id, st.Fees[i], perGas, ph.BaseFee())
			}
		}
	}
	problems := len(wr.r.Problems)
	rid, err := wr.r.MineOn(wr.rid[parent], -1)
	if err != nil {
		for _, p := range wr.r.Problems[problems:] {
			if p.Kind == "own-block-rejected" {
				wr.violate("own-block-rejected", fmt.Sprint(p.Info["err"]), map[string]interface{}{"pool": st, "parent": parent})
			}
		}
		wr.violate("harness", "MineOn: "+err.Error(), nil)
		return false
	}
	blk := wr.e.Net.ZoneCore().GetBlockByHash(wr.r.Blocks[rid].Hash)
	if blk == nil {
		wr.violate("harness", "mined block not found", nil)
		return false
	}
	sel := []string{}
	for _, tx := range blk.Transactions() {
		if tx.Type() != types.QiTxType {
			continue
		}
		id, ok := wr.w.byHash[tx.Hash()]
		if !ok {
			wr.violate("harness", "the block holds a Qi transaction that is not of the universe", nil)
			return false
		}
		sel = append(sel, id)
	}
	wr.log(&tev{Op: "select", Sel: &sel, St: toLog(st)})
	wr.stats["selected"] += len(sel)
	wr.nb++
	id := fmt.Sprintf("b%d", wr.nb)
	wr.blockOf[blk.Hash()] = id
	wr.rid[id] = rid
	wr.w.defs.Blocks[id] = BlockDef{Parent: parent, Body: sel}
	live := copySet(wr.liveAt[parent])
	for _, t := range sel {
		applyTx(&wr.w.defs, live, t)
	}
	wr.liveAt[id] = live
	wr.numAt[id] = wr.numAt[parent] + 1
	return wr.drainResets(blk.Hash())
}

func (wr *workerRun) newTx(t TxDef) string {
	// the same content is the same transaction (same hash): reuse the definition
	key := fmt.Sprint(t.Ins, t.Keys, t.Chain, t.Sig)
	for _, o := range t.Outs {
		key += fmt.Sprint("|", o.Den, o.To)
	}
	if id, ok := wr.shapes[key]; ok {
		return id
	}
	defer func() { wr.shapes[key] = fmt.Sprintf("t%d", wr.nt) }()
	wr.nt++
	id := fmt.Sprintf("t%d", wr.nt)
	for i := range t.Outs {
		t.Outs[i].ID = fmt.Sprintf("%s.%d", id, i)
		t.Outs[i].Zone = "local"
	}
	wr.w.defs.Txs[id] = t
	for _, o := range t.Outs {
		wr.w.outAttr[o.ID] = GenDef{Den: o.Den, Owner: o.To}
	}
	wr.w.build(id, 0)
	return id
}

func cmdWorker(args []string) {
	fs := flag.NewFlagSet("worker", flag.ExitOnError)
	seed := fs.Int64("seed", 1, "")
	rounds := fs.Int("rounds", 8, "")
	outdir := fs.String("outdir", "", "")
	result := fs.String("result", "", "")
	verbose := fs.Bool("v", false, "")
	fs.Parse(args)
	chain.FastParams()
	for d := range types.TrimDepths {
		types.TrimDepths[d] = 1 << 40 // no trimming during the run
	}
	e, err := chain.Boot(chain.EnvOptions{Net: mininet.Options{Quiet: !*verbose, MinerPreference: 0.5}, Seed: uint64(*seed)})
	fatal(err)
	defer e.Net.Close()
	r, err := chain.NewRunner(e, *seed)
	fatal(err)
	rec := &poolRecorder{headHash: func() common.Hash { return e.Net.ZoneCore().CurrentHeader().Hash() }}
	installHook()
	registry.Store(e.Net.ZoneCore().TxPool(), rec)
	if _, err := r.WarmUp(); err != nil {
		fatal(fmt.Errorf("warm-up: %w", err))
	}
	// the pool serves head events asynchronously: start only when it has reset to the head after warm-up (the node
	// does not issue a head event for every head change - see drainResets; then one more block is mined)
	synced := false
	for attempt := 0; attempt < 6 && !synced; attempt++ {
		for deadline := time.Now().Add(5 * time.Second); time.Now().Before(deadline) && !synced; {
			for _, run := range rec.take() {
				if run.new == e.Net.ZoneCore().CurrentHeader().Hash() {
					synced = true
				}
			}
			time.Sleep(time.Millisecond)
		}
		if !synced {
			if _, err := r.MineOn(r.Blocks2Head(), -1); err != nil {
				fatal(fmt.Errorf("extra block after warm-up: %w", err))
			}
		}
	}
	if !synced {
		fatal(fmt.Errorf("the pool did not reset to the head after warm-up"))
	}
	wr := &workerRun{e: e, r: r, pool: e.Net.ZoneCore().TxPool(), rec: rec, rng: rand.New(rand.NewSource(*seed)),
		blockOf: map[common.Hash]string{}, rid: map[string]int{}, liveAt: map[string]map[string]bool{}, numAt: map[string]uint64{},
		stats: map[string]int{}, seen: map[string]bool{}, shapes: map[string]string{}, served: map[common.Hash]bool{}}

	// the universe: outputs the harness' keys own at the head after warm-up (block b0)
	wr.h0 = e.Height()
	st, err := chain.ScanState(e.Net.DBs[mininet.Zone], mininet.ZoneLoc)
	fatal(err)
	keys := map[string]wallet.Key{}
	keyOf := map[string]string{}
	for i, k := range e.Qi {
		name := fmt.Sprintf("k%d", i+1)
		keys[name] = k
		keyOf[string(k.Addr.Bytes())] = name
	}
	d := Defs{Txs: map[string]TxDef{}, Gen: map[string]GenDef{}, Blocks: map[string]BlockDef{"b0": {Parent: "none", Body: []string{}}}, Cap: 1 << 20, MinFee: 1}
	realOut := map[string]types.OutPoint{}
	var ukeys []string
	for k := range st.Utxos {
		ukeys = append(ukeys, k)
	}
	sort.Strings(ukeys)
	perOwner := map[string]int{}
	for _, k := range ukeys {
		u := st.Utxos[k]
		owner, ok := keyOf[string(u.Addr)]
		// denominations of 100 qits and more: every fee of the scenarios is then far above the worker's base-fee filter
		if !ok || u.Denom < 4 || u.Denom > 8 || perOwner[owner] >= 6 {
			continue
		}
		perOwner[owner]++
		id := fmt.Sprintf("g%d", len(d.Gen)+1)
		lock := uint64(0)
		if u.Lock > wr.h0 {
			lock = u.Lock - wr.h0
		}
		d.Gen[id] = GenDef{Den: int(u.Denom), Owner: owner, Lock: lock}
		realOut[id] = types.OutPoint{TxHash: u.TxHash, Index: u.Index}
	}
	if len(d.Gen) < 6 {
		fatal(fmt.Errorf("only %d usable Qi outputs after warm-up", len(d.Gen)))
	}
	wr.w = newWorldWith(d, e.ChainID, keys, realOut)
	headHash := e.Net.ZoneCore().CurrentHeader().Hash()
	wr.blockOf[headHash] = "b0"
	wr.rid["b0"] = r.Blocks2Head()
	wr.head = "b0"
	wr.liveAt["b0"] = map[string]bool{}
	for id := range d.Gen {
		wr.liveAt["b0"][id] = true
	}
	wr.live = copySet(wr.liveAt["b0"])
	wr.rec.take()
	first := wr.snapshot()
	if len(first.Pool) != 0 || len(first.Anomalies) != 0 {
		fatal(fmt.Errorf("the Qi pool is not empty after warm-up: %v %v", first.Pool, first.Anomalies))
	}
	wr.evs = append(wr.evs, &tev{Op: "tracereset", G: "b0"})
	wr.last = first
	if len(first.Cache) > 0 {
		fatal(fmt.Errorf("the fee cache is not empty after warm-up"))
	}
	ok := wr.scenario(*rounds)
	// the trace
	nEvents := 0
	files := []string{}
	if *outdir != "" && !ok {
		// what was logged before the run gave up (diagnosis only)
		if f, err := os.Create(filepath.Join(*outdir, "qipooltrace.partial.ndjson")); err == nil {
			enc := json.NewEncoder(f)
			for _, ev := range wr.evs {
				enc.Encode(ev)
			}
			f.Close()
		}
	}
	if *outdir != "" && ok {
		db, _ := json.Marshal(map[string]interface{}{"defs": wr.w.defs})
		fatal(os.WriteFile(filepath.Join(*outdir, "qipooldefs.json"), db, 0o644))
		path := filepath.Join(*outdir, "qipooltrace.ndjson")
		f, err := os.Create(path)
		fatal(err)
		enc := json.NewEncoder(f)
		for i, ev := range wr.evs {
			ev.seq = uint64(i) // already in order
		}
		for _, ev := range linearise(wr.evs) {
			fatal(enc.Encode(ev))
			nEvents++
		}
		f.Close()
		files = append(files, path)
	}
	for _, p := range r.Problems {
		if p.Kind == "accepted-block-spends-missing-output" || p.Kind == "spent-output-still-present" {
			wr.violate(p.Kind, fmt.Sprint(p.Info), nil)
		}
	}
	res := map[string]interface{}{"completed": ok, "events": nEvents, "blocks": wr.nb, "transactions": wr.nt, "stats": wr.stats,
		"violations": wr.viols, "files": files, "height0": wr.h0, "genesis_outputs": len(d.Gen)}
	b, _ := json.MarshalIndent(res, "", " ")
	if *result != "" {
		fatal(os.WriteFile(*result, b, 0o644))
	} else {
		fmt.Println(string(b))
	}
}

// ---------------------------------------------------------------- the scenario: rounds of adversarial submissions and mined blocks

func (wr *workerRun) unlockedLive(minDen int) []string {
	var out []string
	for o := range wr.live {
		a := wr.w.outAttr[o]
		if a.Lock <= wr.numAt[wr.head] && a.Den >= minDen {
			out = append(out, o)
		}
	}
	sort.Strings(out)
	return out
}

func (wr *workerRun) otherKey(not ...string) string {
	names := []string{"k1", "k2", "k3", "k4"}
	for {
		k := names[wr.rng.Intn(len(names))]
		ok := true
		for _, n := range not {
			if n == k {
				ok = false
			}
		}
		if ok {
			return k
		}
	}
}

// a well-formed spend of ins with one output `drop` denominations below the largest input
func (wr *workerRun) spend(ins []string, drop int) TxDef {
	t := TxDef{Chain: true, Sig: true}
	max := 0
	for _, o := range ins {
		a := wr.w.outAttr[o]
		t.Ins = append(t.Ins, o)
		t.Keys = append(t.Keys, a.Owner)
		if a.Den > max {
			max = a.Den
		}
	}
	den := max - drop
	if den < 0 {
		den = 0
	}
	t.Outs = []OutDef{{Den: den, To: wr.otherKey(t.Keys...)}}
	return t
}

func (wr *workerRun) scenario(rounds int) bool {
	forkFrom := ""
	for round := 0; round < rounds; round++ {
		free := wr.unlockedLive(4)
		wr.rng.Shuffle(len(free), func(i, j int) { free[i], free[j] = free[j], free[i] })
		take := func() string {
			if len(free) == 0 {
				return ""
			}
			o := free[0]
			free = free[1:]
			return o
		}
		var ids []string
		kinds := wr.rng.Perm(7)
		for _, kind := range kinds[:2+wr.rng.Intn(2)] {
			switch kind {
			case 0: // two transactions spending the same output, different fees
				if o := take(); o != "" {
					ids = append(ids, wr.newTx(wr.spend([]string{o}, 1)), wr.newTx(wr.spend([]string{o}, 2)))
				}
			case 1: // one output named twice, outputs worth more than the output
				if o := take(); o != "" {
					t := wr.spend([]string{o, o}, 0)
					ids = append(ids, wr.newTx(t))
					if wr.rng.Intn(2) == 0 {
						ids = append(ids, wr.newTx(wr.spend([]string{o}, 1)))
					}
				}
			case 2: // two owners (MuSig2) and a conflicting spend of one of the inputs
				o1, o2 := take(), take()
				if o1 != "" && o2 != "" && wr.w.outAttr[o1].Owner != wr.w.outAttr[o2].Owner {
					ids = append(ids, wr.newTx(wr.spend([]string{o1, o2}, 1)), wr.newTx(wr.spend([]string{o2}, 1+wr.rng.Intn(2))))
				}
			case 3: // [a, b] where b is also spent alone with a higher fee, and a is spent alone with a lower one
				a, b := take(), take()
				if a != "" && b != "" {
					ids = append(ids, wr.newTx(wr.spend([]string{b}, 3)), wr.newTx(wr.spend([]string{a, b}, 1)), wr.newTx(wr.spend([]string{a}, 1)))
				}
			case 4: // a locked output, a wrong owner, a bad signature
				for o := range wr.live {
					if wr.w.outAttr[o].Lock > wr.numAt[wr.head] {
						ids = append(ids, wr.newTx(wr.spend([]string{o}, 1)))
						break
					}
				}
				if o := take(); o != "" {
					t := wr.spend([]string{o}, 1)
					t.Keys[0] = wr.otherKey(t.Keys[0], t.Outs[0].To)
					ids = append(ids, wr.newTx(t))
					t2 := wr.spend([]string{o}, 2)
					t2.Sig = false
					ids = append(ids, wr.newTx(t2))
				}
			case 5: // a plain spend and a spend of its output (not yet created)
				if o := take(); o != "" {
					t := wr.spend([]string{o}, 1)
					id := wr.newTx(t)
					ids = append(ids, id)
					if wr.w.defs.Txs[id].Outs[0].Den >= 4 {
						ids = append(ids, wr.newTx(wr.spend([]string{id + ".0"}, 1)))
					}
				}
			case 6: // spends of outputs created by transactions of earlier blocks
				for o := range wr.live {
					if strings.Contains(o, ".") && wr.w.outAttr[o].Den >= 4 {
						ids = append(ids, wr.newTx(wr.spend([]string{o}, 1)))
						break
					}
				}
			}
		}
		wr.rng.Shuffle(len(ids), func(i, j int) { ids[i], ids[j] = ids[j], ids[i] })
		for _, id := range ids {
			if len(wr.last.Pool) >= 6 {
				break // the specification enumerates the orders the worker's sort may produce
			}
			wr.add(id)
		}
		// re-offer pooled and earlier transactions now and then (known / missing answers)
		if len(wr.w.defs.Txs) > 3 && wr.rng.Intn(2) == 0 {
			wr.add(fmt.Sprintf("t%d", 1+wr.rng.Intn(wr.nt)))
		}
		parent := wr.head
		if forkFrom != "" && wr.rng.Intn(2) == 0 {
			parent = forkFrom // a sibling of the current head: the pool goes through a reorg
			forkFrom = ""
		} else if wr.rng.Intn(3) == 0 {
			forkFrom = wr.head
		}
		if !wr.mineOn(parent) {
			return false
		}
		// let the worker look at the pool on the new head: it asks for the removal of what it cannot include
		if err := wr.e.Net.Refill(); err != nil {
			wr.violate("harness", "refill: "+err.Error(), nil)
			return false
		}
		time.Sleep(3 * time.Millisecond)
		// what stays pooled for ever (a transaction naming one output twice is skipped as a double spend in every
		// block, never removed) is taken out through the pool's interface every other round: rounds stay small
		if round%2 == 1 {
			st := wr.syncRemovals()
			for _, id := range st.Pool {
				if wr.rng.Intn(3) != 0 {
					h := wr.w.hash[id]
					wr.pool.RemoveQiTxs([]*common.Hash{&h})
					now := wr.snapshot()
					wr.log(&tev{Op: "remove", Tx: id, Res: "removed", St: toLog(now)})
				}
			}
		}
	}
	// leftovers: what stays pooled for ever (transactions the worker skips as double spends) is removed through the
	// pool's interface so that later rounds stay small
	time.Sleep(20 * time.Millisecond)
	st := wr.syncRemovals()
	wr.check(st, "end")
	// every fee of a transaction that was pooled reaches the cache
	deadline := time.Now().Add(30 * time.Second)
	for {
		missing := ""
		for id := range wr.seen {
			if _, ok := st.CacheFee[id]; !ok {
				missing = id
			}
		}
		if missing == "" {
			break
		}
		if time.Now().After(deadline) {
			wr.violate("stuck", "fee of "+missing+" never reached qiTxFees", nil)
			return false
		}
		time.Sleep(time.Millisecond)
		st = wr.syncRemovals()
	}
	wr.log(&tev{Op: "quiesce", before: st})
	return true
}
