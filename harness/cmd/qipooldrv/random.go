package main

import (
	"crypto/ecdsa"
	"encoding/json"
	"flag"
	"fmt"
	"math/big"
	"math/rand"
	"os"
	"path/filepath"
	"sort"
	"strings"
	"sync"
	"sync/atomic"
	"time"

	"github.com/dominant-strategies/go-quai/common"
	"github.com/dominant-strategies/go-quai/core/types"
	"github.com/dominant-strategies/go-quai/crypto"
)

// ---------------------------------------------------------------- trace records (one line each; read by spec/QiPoolTrace.tla)

type logState struct {
	Pool  []string `json:"pool"`
	Fees  []int64  `json:"fees"`
	Cache []string `json:"cache"`
	Cfees []int64  `json:"cfees"`
	Head  string   `json:"head"`
}

type tev struct {
	Op    string    `json:"op"`
	Txs   []string  `json:"txs,omitempty"`
	Tx    string    `json:"tx,omitempty"`
	Res   string    `json:"res,omitempty"`
	B     string    `json:"b,omitempty"`
	K     int       `json:"k,omitempty"`
	Old   string    `json:"old,omitempty"`
	New   string    `json:"new,omitempty"`
	Cache *[]string `json:"cache,omitempty"`
	Cfees *[]int64  `json:"cfees,omitempty"`
	Full  *bool     `json:"full,omitempty"`
	Sel   *[]string `json:"sel,omitempty"`
	G     string    `json:"g,omitempty"`
	St    *logState `json:"st,omitempty"`
	// not logged
	seq    uint64    // position in the pool's own linearisation
	sub    uint64    // order among events with the same seq (driver-exclusive operations)
	before *absState // reset: the snapshot at the beginning of the run
}

func toLog(a *absState) *logState {
	s := &logState{Pool: append([]string{}, a.Pool...), Fees: append([]int64{}, a.Fees...), Cache: append([]string{}, a.Cache...), Cfees: []int64{}, Head: a.Head}
	for _, id := range s.Cache {
		s.Cfees = append(s.Cfees, a.CacheFee[id])
	}
	return s
}

func feesync(a *absState, full bool) *tev {
	l := toLog(a)
	return &tev{Op: "feesync", Cache: &l.Cache, Cfees: &l.Cfees, Full: &full}
}

// writeTrace sorts the events of one scenario into the pool's order and adds the feesync lines
func linearise(evs []*tev) []*tev {
	sort.SliceStable(evs, func(i, j int) bool {
		if evs[i].seq != evs[j].seq {
			return evs[i].seq < evs[j].seq
		}
		return evs[i].sub < evs[j].sub
	})
	var out []*tev
	last := ""
	sync := func(a *absState, full bool) {
		key := strings.Join(a.Cache, ",")
		if key != last || full {
			out = append(out, feesync(a, full))
			last = key
		}
	}
	for _, e := range evs {
		switch e.Op {
		case "tracereset":
			last = ""
			out = append(out, e)
		case "quiesce":
			sync(e.before, true)
		case "reset":
			sync(e.before, false)
			out = append(out, e)
			sync(absOf(e.St), false)
		case "resync":
			out = append(out, e)
			last = strings.Join(e.St.Cache, ",")
		default:
			out = append(out, e)
			if e.St != nil {
				sync(absOf(e.St), false)
			}
		}
	}
	return out
}

func absOf(l *logState) *absState {
	a := &absState{Pool: l.Pool, Fees: l.Fees, Cache: l.Cache, Head: l.Head, CacheFee: map[string]int64{}}
	for i, id := range l.Cache {
		a.CacheFee[id] = l.Cfees[i]
	}
	return a
}

// ---------------------------------------------------------------- random universes

// the harness' own transcription of the admission rule (used to build sequentially valid block bodies and to know
// which transactions can ever be admitted; TLC re-checks the bodies: ASSUME ConstantsOK)
func (d *Defs) attr(o string) (GenDef, bool) {
	if g, ok := d.Gen[o]; ok {
		return g, true
	}
	for _, t := range d.Txs {
		for _, out := range t.Outs {
			if out.ID == o && out.Zone == "local" {
				return GenDef{Den: out.Den, Owner: out.To}, true
			}
		}
	}
	return GenDef{}, false
}

func (d *Defs) validate(id string, live map[string]bool, h uint64) string {
	t := d.Txs[id]
	for _, o := range t.Outs {
		if o.Zone == "inactive" {
			return "inactive" // addQiTxs refuses it at once
		}
	}
	if len(t.Ins) == 0 {
		return "noinputs"
	}
	if !t.Chain {
		return "chainid"
	}
	var in, out int64
	for i, o := range t.Ins {
		a, _ := d.attr(o)
		if !live[o] {
			return "missing"
		}
		if a.Lock > h {
			return "locked"
		}
		if t.Keys[i] != a.Owner {
			return "owner"
		}
		in += specVal[a.Den]
	}
	seen := map[string]bool{}
	for _, k := range t.Keys {
		seen[k] = true
	}
	for _, o := range t.Outs {
		if seen[o.To] {
			return "dupaddr"
		}
		seen[o.To] = true
		out += specVal[o.Den]
	}
	if out > in {
		return "value"
	}
	if in-out < int64(d.MinFee) {
		return "fee"
	}
	if !t.Sig {
		return "sig"
	}
	return "ok"
}

func applyTx(d *Defs, live map[string]bool, id string) {
	t := d.Txs[id]
	for _, o := range t.Ins {
		delete(live, o)
	}
	for _, o := range t.Outs {
		if o.Zone == "local" {
			live[o.ID] = true
		}
	}
}

func genUniverse(r *rand.Rand, nblocks int, pfx string, cap int) Defs {
	d := Defs{Txs: map[string]TxDef{}, Gen: map[string]GenDef{}, Blocks: map[string]BlockDef{}, Cap: cap, MinFee: 1}
	keys := []string{"k1", "k2", "k3", "k4"}
	ng := 5 + r.Intn(3)
	var gens []string
	for i := 1; i <= ng; i++ {
		id := fmt.Sprintf("%sg%d", pfx, i)
		lock := uint64(0)
		if r.Intn(4) == 0 {
			lock = uint64(1 + r.Intn(3))
		}
		d.Gen[id] = GenDef{Den: 1 + r.Intn(3), Owner: keys[r.Intn(3)], Lock: lock}
		gens = append(gens, id)
	}
	n := 0
	newID := func() string { n++; return fmt.Sprintf("%st%d", pfx, n) }
	shapes := map[string]bool{}
	// two definitions with the same content would be one transaction (same hash)
	fresh := func(t TxDef) bool {
		k := fmt.Sprint(t.Ins, t.Keys, t.Chain, t.Sig)
		for _, o := range t.Outs {
			k += fmt.Sprint("|", o.Den, o.To, o.Zone)
		}
		if shapes[k] {
			return false
		}
		shapes[k] = true
		return true
	}
	otherKey := func(not ...string) string {
		for {
			k := keys[r.Intn(len(keys))]
			ok := true
			for _, x := range not {
				if x == k {
					ok = false
				}
			}
			if ok {
				return k
			}
		}
	}
	// a well-formed spend of the given outpoints: outputs of smaller denominations to keys that do not sign
	mk := func(ins []string) (TxDef, string) {
		id := newID()
		t := TxDef{Chain: true, Sig: true}
		maxDen := 0
		for _, o := range ins {
			a, _ := d.attr(o)
			t.Ins = append(t.Ins, o)
			t.Keys = append(t.Keys, a.Owner)
			if a.Den > maxDen {
				maxDen = a.Den
			}
		}
		to := otherKey(t.Keys...)
		den := 0
		if maxDen > 0 {
			den = r.Intn(maxDen) // strictly smaller than the largest input: fee >= 1, no merging of denominations
		}
		t.Outs = []OutDef{{Den: den, To: to, ID: id + ".0", Zone: "local"}}
		if maxDen >= 2 && r.Intn(3) == 0 {
			to2 := otherKey(append(append([]string{}, t.Keys...), to)...)
			t.Outs = append(t.Outs, OutDef{Den: 0, To: to2, ID: id + ".1", Zone: "local"})
		}
		return t, id
	}
	var spendable []string // outpoint ids transactions may name (genesis + created)
	spendable = append(spendable, gens...)
	var base []string
	for i := 0; i < 7+r.Intn(4); i++ {
		ins := []string{spendable[r.Intn(len(spendable))]}
		if r.Intn(4) == 0 {
			o2 := spendable[r.Intn(len(spendable))]
			if o2 != ins[0] {
				ins = append(ins, o2)
			}
		}
		t, id := mk(ins)
		if !fresh(t) {
			continue
		}
		d.Txs[id] = t
		base = append(base, id)
		if r.Intn(2) == 0 {
			spendable = append(spendable, t.Outs[0].ID) // chains of transactions
		}
	}
	// deviations of well-formed transactions
	for i := 0; i < 7; i++ {
		src := d.Txs[base[r.Intn(len(base))]]
		id := newID()
		t := TxDef{Ins: append([]string{}, src.Ins...), Keys: append([]string{}, src.Keys...), Chain: true, Sig: true}
		for j, o := range src.Outs {
			o.ID = fmt.Sprintf("%s.%d", id, j)
			t.Outs = append(t.Outs, o)
		}
		switch i {
		case 0: // the same outpoint named twice
			t.Ins = append(t.Ins, t.Ins[0])
			t.Keys = append(t.Keys, t.Keys[0])
		case 1: // wrong owner
			t.Keys[0] = otherKey(t.Keys[0])
		case 2:
			t.Sig = false
		case 3:
			t.Chain = false
		case 4: // outputs worth more than the inputs
			a, _ := d.attr(t.Ins[0])
			t.Outs[0].Den = a.Den + 1
			if len(t.Ins) > 1 {
				t.Outs[0].Den = 4
			}
		case 5: // fee 0
			if len(t.Ins) == 1 {
				a, _ := d.attr(t.Ins[0])
				t.Outs = []OutDef{{Den: a.Den, To: t.Outs[0].To, ID: id + ".0", Zone: "local"}}
			}
		case 6: // an output to a zone that is not active
			t.Outs[0].Zone = "inactive"
		}
		if fresh(t) {
			d.Txs[id] = t
		}
	}
	// block tree with sequentially valid bodies
	type bl struct {
		id   string
		num  uint64
		live map[string]bool
	}
	g := bl{id: pfx + "b0", live: map[string]bool{}}
	for _, o := range gens {
		g.live[o] = true
	}
	d.Blocks[pfx+"b0"] = BlockDef{Parent: "none", Body: []string{}}
	blocks := []bl{g}
	ids := make([]string, 0, len(d.Txs))
	for id := range d.Txs {
		ids = append(ids, id)
	}
	sort.Strings(ids)
	for i := 1; i <= nblocks; i++ {
		p := blocks[r.Intn(len(blocks))]
		if r.Intn(2) == 0 {
			p = blocks[len(blocks)-1]
		}
		b := bl{id: fmt.Sprintf("%sb%d", pfx, i), num: p.num + 1, live: map[string]bool{}}
		for o := range p.live {
			b.live[o] = true
		}
		body := []string{}
		for _, j := range r.Perm(len(ids)) {
			if len(body) >= r.Intn(3) {
				break
			}
			id := ids[j]
			t := d.Txs[id]
			dup := false
			for a := range t.Ins {
				for b := a + 1; b < len(t.Ins); b++ {
					if t.Ins[a] == t.Ins[b] {
						dup = true
					}
				}
			}
			inact := false
			for _, o := range t.Outs {
				if o.Zone != "local" {
					inact = true
				}
			}
			if !dup && !inact && d.validate(id, b.live, b.num) == "ok" {
				applyTx(&d, b.live, id)
				body = append(body, id)
			}
		}
		d.Blocks[b.id] = BlockDef{Parent: p.id, Body: body}
		blocks = append(blocks, b)
	}
	return d
}

// ---------------------------------------------------------------- scenario runner

type scenario struct {
	h        *harness
	w        *world
	r        *rand.Rand
	evs      []*tev
	mu       sync.Mutex // evs
	txIDs    []string
	blockIDs []string
	announced []*sblock
	opMu     sync.RWMutex // writers: operations that have no event of their own in the pool (remove, head switch)
	subCtr   uint64
	markerKey *ecdsa.PrivateKey
	markerTo  common.Address
	markerN   uint64
	stats    map[string]int
	seen     map[string]bool // transactions seen pooled in some logged snapshot
}

func (s *scenario) log(e *tev) {
	s.mu.Lock()
	s.evs = append(s.evs, e)
	if e.St != nil {
		for _, id := range e.St.Pool {
			s.seen[id] = true
		}
	}
	s.stats[e.Op]++
	if e.Op == "add" {
		s.stats["add:"+e.Res]++
	}
	s.mu.Unlock()
}

func (s *scenario) check(a *absState, where string) {
	if v := s.w.checkState(a, s.h.cap); len(v) > 0 {
		s.h.violate("invariant", v[0], map[string]interface{}{"all": v, "state": a, "where": where})
	}
}

func (s *scenario) pickTxs(n int, noInactive bool) []string {
	var out []string
	used := map[string]bool{}
	for len(out) < n {
		id := s.txIDs[s.r.Intn(len(s.txIDs))]
		if used[id] {
			continue
		}
		if noInactive && panicClass(s.w, id) != "other" {
			continue
		}
		used[id] = true
		out = append(out, id)
	}
	return out
}

// sequential add: the snapshot after the call is exact because nothing else runs
func (s *scenario) seqAdd(ids []string, local bool) {
	res := s.h.addCall(ids, local, nil)
	if strings.HasPrefix(res, "panic:") {
		s.notePanic(ids, res)
		res = "panic"
	}
	st := s.h.snapshot()
	s.check(st, "add")
	s.log(&tev{Op: "add", Txs: ids, Res: res, St: toLog(st), seq: st.Seq, sub: s.nextSub()})
}

func (s *scenario) notePanic(ids []string, res string) {
	class := "other"
	for _, id := range ids {
		if panicClass(s.w, id) != "other" {
			class = panicClass(s.w, id)
		}
	}
	s.h.violate("panic", res, map[string]interface{}{"txs": ids, "class": class, "head": s.h.chain.headID()})
}

func (s *scenario) nextSub() uint64 { return atomic.AddUint64(&s.subCtr, 1) }

func (s *scenario) seqRemove(id string) {
	before := s.h.snapshot()
	s.h.remove(id)
	st := s.h.snapshot()
	res := "absent"
	for _, p := range before.Pool {
		if p == id {
			res = "removed"
		}
	}
	s.check(st, "remove")
	s.log(&tev{Op: "remove", Tx: id, Res: res, St: toLog(st), seq: st.Seq, sub: s.nextSub()})
}

func (s *scenario) setHead(id string) bool {
	if s.h.chain.headID() == id {
		return false
	}
	b := s.h.chain.switchTo(id)
	s.announced = append(s.announced, b)
	st := s.h.snapshot()
	s.log(&tev{Op: "sethead", B: id, St: toLog(st), seq: st.Seq, sub: s.nextSub()})
	return true
}

// deliver the first k announced head events as one reset request
func (s *scenario) reset(k int) bool {
	for try := 0; ; try++ {
		run, problem := s.h.deliver(s.announced[:k])
		if run == nil {
			s.h.violate("stuck", problem, goroutineDump())
			return false
		}
		if strings.HasPrefix(problem, "split:") {
			// the pool served the events one by one (the held run ended before the second event arrived): log what happened
			s.h.mu.Lock()
			n := 0
			fmt.Sscanf(problem, "split:%d", &n)
			runs := append([]*runEvent{}, s.h.runs[len(s.h.runs)-n:]...)
			s.h.mu.Unlock()
			done := 0
			for _, r := range runs {
				kk := 0
				for i := done; i < k; i++ {
					if s.announced[i].id == r.new {
						kk = i - done + 1
					}
				}
				if kk == 0 {
					s.h.violate("harness", "cannot attribute a reset run to the announced heads", nil)
					return false
				}
				s.logReset(r, kk)
				done += kk
			}
			s.announced = s.announced[k:]
			return true
		}
		s.logReset(run, k)
		s.announced = s.announced[k:]
		return true
	}
}

func (s *scenario) logReset(run *runEvent, k int) {
	s.check(run.after, "reset")
	s.log(&tev{Op: "reset", K: k, Old: run.old, New: run.new, St: toLog(run.after), seq: run.seq, before: run.before})
}

// quiesce: every fee of a transaction that was seen pooled has reached the cache
func (s *scenario) quiesce() bool {
	deadline := time.Now().Add(10 * time.Second)
	for {
		st := s.h.snapshot()
		missing := ""
		s.mu.Lock()
		for id := range s.seen {
			if _, ok := st.CacheFee[id]; !ok {
				missing = id
			}
		}
		s.mu.Unlock()
		if missing == "" {
			s.check(st, "quiesce")
			s.log(&tev{Op: "quiesce", seq: st.Seq, sub: s.nextSub(), before: st})
			return true
		}
		if time.Now().After(deadline) {
			s.h.violate("stuck", "fee of "+missing+" never reached qiTxFees", nil)
			return false
		}
		time.Sleep(200 * time.Microsecond)
	}
}

func (s *scenario) sequentialSteps(n int) bool {
	for i := 0; i < n; i++ {
		switch x := s.r.Intn(100); {
		case x < 50:
			s.seqAdd(s.pickTxs(1, false), s.r.Intn(5) == 0)
		case x < 60:
			s.seqAdd(s.pickTxs(2+s.r.Intn(2), false), false)
		case x < 70:
			st := s.h.snapshot()
			if len(st.Pool) > 0 && s.r.Intn(4) != 0 {
				s.seqRemove(st.Pool[s.r.Intn(len(st.Pool))])
			} else {
				s.seqRemove(s.txIDs[s.r.Intn(len(s.txIDs))])
			}
		case x < 88:
			if len(s.announced) < 3 {
				s.setHead(s.blockIDs[s.r.Intn(len(s.blockIDs))])
			}
			if len(s.announced) > 0 && s.r.Intn(3) != 0 {
				if !s.reset(1 + s.r.Intn(len(s.announced))) {
					return false
				}
			}
		default:
			if len(s.announced) > 0 {
				if !s.reset(1 + s.r.Intn(len(s.announced))) {
					return false
				}
			}
		}
	}
	for len(s.announced) > 0 {
		if !s.reset(len(s.announced)) {
			return false
		}
	}
	return s.quiesce()
}

// ---------------------------------------------------------------- concurrent phase A: every operation is placed exactly

func (s *scenario) marker() *types.Transaction {
	n := atomic.AddUint64(&s.markerN, 1)
	to := s.markerTo
	inner := &types.QuaiTx{ChainID: new(big.Int).Set(chainID), Nonce: n, GasPrice: big.NewInt(2_000_000_000), Gas: 21000, To: &to, Value: big.NewInt(1), Data: []byte{}}
	tx, err := types.SignTx(types.NewTx(inner), types.NewSigner(chainID, location), s.markerKey)
	fatal(err)
	return tx
}

func (s *scenario) concAdd(r *rand.Rand) {
	var ids []string
	s.mu.Lock()
	if r.Intn(5) == 0 {
		ids = s.pickTxsWith(r, 2+r.Intn(2), true)
	} else {
		ids = s.pickTxsWith(r, 1, false)
	}
	s.mu.Unlock()
	m := s.marker()
	var got *absState
	var seq uint64
	done := make(chan struct{})
	s.h.mu.Lock()
	s.h.markers[m.Hash()] = func(sq uint64, st *absState) { seq, got = sq, st; close(done) }
	s.h.mu.Unlock()
	s.opMu.RLock()
	res := s.h.addCall(ids, r.Intn(6) == 0, m)
	s.opMu.RUnlock()
	if strings.HasPrefix(res, "panic:") {
		s.notePanic(ids, res)
		res = "panic"
	}
	select {
	case <-done:
	case <-time.After(5 * time.Second):
		s.h.violate("harness", "no marker event for an add call", map[string]interface{}{"txs": ids, "res": res})
		return
	}
	s.check(got, "add")
	s.log(&tev{Op: "add", Txs: ids, Res: res, St: toLog(got), seq: seq})
}

func (s *scenario) pickTxsWith(r *rand.Rand, n int, noInactive bool) []string {
	var out []string
	used := map[string]bool{}
	for len(out) < n {
		id := s.txIDs[r.Intn(len(s.txIDs))]
		if used[id] || (noInactive && panicClass(s.w, id) != "other") {
			continue
		}
		used[id] = true
		out = append(out, id)
	}
	return out
}

func (s *scenario) concurrentA(producers, opsEach int) bool {
	var wg sync.WaitGroup
	ok := int32(1)
	stop := make(chan struct{})
	for p := 0; p < producers; p++ {
		wg.Add(1)
		r := rand.New(rand.NewSource(s.r.Int63()))
		go func() {
			defer wg.Done()
			for i := 0; i < opsEach; i++ {
				s.concAdd(r)
			}
		}()
	}
	// removals and head changes: exclusive with the adds at the level of the driver (they have no event of their
	// own in the pool), concurrent with the pool's own goroutines
	var wg2 sync.WaitGroup
	wg2.Add(1)
	r2 := rand.New(rand.NewSource(s.r.Int63()))
	go func() {
		defer wg2.Done()
		for {
			select {
			case <-stop:
				return
			default:
			}
			time.Sleep(time.Duration(200+r2.Intn(1500)) * time.Microsecond)
			if r2.Intn(2) == 0 {
				s.opMu.Lock()
				st := s.h.snapshot()
				id := s.txIDs[r2.Intn(len(s.txIDs))]
				if len(st.Pool) > 0 && r2.Intn(4) != 0 {
					id = st.Pool[r2.Intn(len(st.Pool))]
				}
				s.seqRemove(id)
				s.opMu.Unlock()
			} else {
				s.opMu.Lock()
				moved := s.setHead(s.blockIDs[r2.Intn(len(s.blockIDs))])
				if moved && r2.Intn(4) == 0 {
					s.setHead(s.blockIDs[r2.Intn(len(s.blockIDs))]) // two events, one request
				}
				s.opMu.Unlock()
				if len(s.announced) > 0 {
					// the reset runs while the producers keep adding
					if !s.reset(len(s.announced)) {
						atomic.StoreInt32(&ok, 0)
						return
					}
				}
			}
		}
	}()
	wg.Wait()
	close(stop)
	wg2.Wait()
	return atomic.LoadInt32(&ok) == 1 && s.quiesce()
}

// ---------------------------------------------------------------- concurrent phase B: nothing is placed, only the quiescent state counts

func (s *scenario) stressB(workers, opsEach int) bool {
	var wg sync.WaitGroup
	var lastHead atomic.Value
	lastHead.Store(s.h.chain.headID())
	for p := 0; p < workers; p++ {
		wg.Add(1)
		r := rand.New(rand.NewSource(s.r.Int63()))
		kind := p % 4
		go func() {
			defer wg.Done()
			for i := 0; i < opsEach; i++ {
				switch kind {
				case 0, 1: // adds, single and batched, remote and local
					ids := s.pickTxsWith(r, 1+r.Intn(3), true)
					if res := s.h.addCall(ids, r.Intn(4) == 0, nil); strings.HasPrefix(res, "panic:") {
						s.notePanic(ids, res)
					}
				case 2: // removals, the worker's asynchronous path included; readers
					var hs []*common.Hash
					for _, id := range s.pickTxsWith(r, 1+r.Intn(2), false) {
						h := s.w.hash[id]
						hs = append(hs, &h)
					}
					if r.Intn(2) == 0 {
						s.h.pool.AsyncRemoveQiTxs(hs)
					} else {
						s.h.pool.RemoveQiTxs(hs)
					}
					for _, e := range s.h.pool.QiPoolPending() {
						if e.Tx() == nil || e.MinerFee() == nil {
							s.h.violate("invariant", "IndexesAgree: QiPoolPending returned an entry without transaction or fee", nil)
						}
					}
					s.h.pool.Get(*hs[0])
					s.h.pool.Stats()
				case 3: // head changes with their events, not waited for
					if i%4 == 0 {
						b := s.h.chain.switchTo(s.blockIDs[r.Intn(len(s.blockIDs))])
						s.h.chain.announce(b)
						lastHead.Store(b.id)
					} else {
						time.Sleep(100 * time.Microsecond)
					}
				}
			}
		}()
	}
	wg.Wait()
	// quiescence: the last head event served, the asynchronous removals and fees applied
	want := lastHead.Load().(string)
	if s.h.chain.headID() != want {
		// two head movers raced: take the chain's head as it is and announce it once more
		b := s.h.chain.switchTo(s.h.chain.headID())
		s.h.chain.announce(b)
		want = b.id
	}
	if s.h.poolHead() != want {
		if !s.h.waitFor(10*time.Second, func() bool { return len(s.h.runs) > 0 && s.h.runs[len(s.h.runs)-1].new == want && len(s.h.chain.headCh) == 0 }) {
			s.h.violate("stuck", "head event not served by a reset run within 10s (stress phase)", goroutineDump())
			return false
		}
	}
	var st *absState
	stable := 0
	prev := ""
	deadline := time.Now().Add(10 * time.Second)
	for stable < 5 {
		snap := s.h.pool.VerifQiSnapshot()
		st = s.w.abstract(snap, s.h.chain.headID())
		key := fmt.Sprint(st.Pool, st.Cache, snap.FeesQueued, snap.InvalidQueued)
		if key == prev && snap.FeesQueued == 0 && snap.InvalidQueued == 0 && len(s.h.chain.headCh) == 0 {
			stable++
		} else {
			stable = 0
		}
		prev = key
		if time.Now().After(deadline) {
			s.h.violate("stuck", "the pool's asynchronous Qi goroutines did not settle within 10s", goroutineDump())
			return false
		}
		time.Sleep(2 * time.Millisecond)
	}
	s.check(st, "stress")
	for _, id := range st.Pool {
		if !s.w.validSomewhere[id] {
			s.h.violate("invariant", "PoolTxsOnceValid: "+id+" is pooled but valid at no block of the universe", map[string]interface{}{"state": st})
		}
	}
	s.announced = nil
	s.log(&tev{Op: "resync", St: toLog(st), seq: st.Seq, sub: s.nextSub()})
	return true
}

// ---------------------------------------------------------------- command

func cmdRandom(args []string) {
	fs := flag.NewFlagSet("random", flag.ExitOnError)
	seed := fs.Int64("seed", 1, "")
	universes := fs.Int("universes", 3, "")
	scenarios := fs.Int("scenarios", 8, "per universe")
	steps := fs.Int("steps", 40, "sequential steps per scenario")
	producers := fs.Int("producers", 0, "concurrent producers (0: sequential scenarios only)")
	opsEach := fs.Int("ops", 25, "operations per producer")
	nblocks := fs.Int("blocks", 6, "")
	parallel := fs.Int("parallel", 4, "scenarios run in parallel")
	outdir := fs.String("outdir", "", "one trace file per universe")
	result := fs.String("result", "", "")
	tick := fs.Duration("tick", 20*time.Millisecond, "ReorgFrequency")
	capFlag := fs.Int("cap", 0, "QiPoolSize of every pool (0: drawn from the seed, 3..5)")
	fs.Parse(args)
	rootRng := rand.New(rand.NewSource(*seed))
	var mu sync.Mutex
	stats := map[string]int{}
	var viols []violation
	nScen, nEvents := 0, 0
	cap := 3 + rootRng.Intn(3)
	if *capFlag > 0 {
		cap = *capFlag
	}
	merged := Defs{Txs: map[string]TxDef{}, Gen: map[string]GenDef{}, Blocks: map[string]BlockDef{}, Cap: cap, MinFee: 1}
	var all [][]*tev
	for u := 0; u < *universes; u++ {
		ur := rand.New(rand.NewSource(rootRng.Int63()))
		pfx := fmt.Sprintf("u%d", u)
		d := genUniverse(ur, *nblocks, pfx, cap)
		for k, v := range d.Txs {
			merged.Txs[k] = v
		}
		for k, v := range d.Gen {
			merged.Gen[k] = v
		}
		for k, v := range d.Blocks {
			merged.Blocks[k] = v
		}
		w := newWorld(d)
		w.computeValidSomewhere()
		traces := make([][]*tev, *scenarios)
		seeds := make([]int64, *scenarios)
		for i := range seeds {
			seeds[i] = ur.Int63()
		}
		sem := make(chan struct{}, *parallel)
		var wg sync.WaitGroup
		for si := 0; si < *scenarios; si++ {
			wg.Add(1)
			sem <- struct{}{}
			go func(si int) {
				defer wg.Done()
				defer func() { <-sem }()
				if atomic.LoadInt32(&abortAll) != 0 {
					return
				}
				h := newHarness(w, poolOpts{cap: d.Cap, reorgFreq: *tick})
				s := &scenario{h: h, w: w, r: rand.New(rand.NewSource(seeds[si])), stats: map[string]int{}, seen: map[string]bool{}}
				for id := range d.Txs {
					s.txIDs = append(s.txIDs, id)
				}
				sort.Strings(s.txIDs)
				for id := range d.Blocks {
					s.blockIDs = append(s.blockIDs, id)
				}
				sort.Strings(s.blockIDs)
				s.markerKey, s.markerTo = grindQuaiKey(fmt.Sprintf("marker-%d-%d", u, si))
				s.evs = append(s.evs, &tev{Op: "tracereset", G: pfx + "b0"})
				ok := s.sequentialSteps(*steps)
				if ok && *producers > 0 {
					ok = s.concurrentA(*producers, *opsEach)
					if ok {
						ok = s.stressB(*producers, *opsEach)
					}
					if ok {
						ok = s.sequentialSteps(*steps / 3)
					}
				}
				h.stop()
				mu.Lock()
				for k, v := range s.stats {
					stats[k] += v
				}
				for _, v := range h.violations() {
					if len(viols) < 40 {
						v.Behaviour = map[string]interface{}{"universe": u, "scenario": si}
						viols = append(viols, v)
					}
				}
				if ok {
					traces[si] = linearise(s.evs)
					nScen++
				}
				mu.Unlock()
			}(si)
		}
		wg.Wait()
		for _, tr := range traces {
			if tr != nil {
				all = append(all, tr)
			}
		}
	}
	files := []string{}
	if *outdir != "" {
		path := filepath.Join(*outdir, "qipooltrace.ndjson")
		f, err := os.Create(path)
		fatal(err)
		enc := json.NewEncoder(f)
		db, _ := json.Marshal(map[string]interface{}{"defs": merged})
		fatal(os.WriteFile(filepath.Join(*outdir, "qipooldefs.json"), db, 0o644))
		for _, tr := range all {
			for _, e := range tr {
				fatal(enc.Encode(e))
				nEvents++
			}
		}
		f.Close()
		files = append(files, path)
	}
	errLog.mu.Lock()
	res := map[string]interface{}{"universes": *universes, "scenarios_completed": nScen, "events": nEvents, "stats": stats,
		"violations": viols, "files": files, "error_logs": errLog.counts, "panics": errLog.panics}
	b, _ := json.MarshalIndent(res, "", " ")
	errLog.mu.Unlock()
	if *result != "" {
		fatal(os.WriteFile(*result, b, 0o644))
	} else {
		fmt.Println(string(b))
	}
}

func grindQuaiKey(tag string) (*ecdsa.PrivateKey, common.Address) {
	for i := 0; ; i++ {
		seed := crypto.Keccak256([]byte(fmt.Sprintf("verif-qipool-%s-%d", tag, i)))
		k, err := crypto.ToECDSA(seed)
		if err != nil {
			continue
		}
		a := crypto.PubkeyToAddress(k.PublicKey, location)
		b := a.Bytes()
		if b[0] == 0x00 && b[1] <= 127 {
			return k, a
		}
	}
}

