package main

import (
	"fmt"
	"math/big"
	"os"

	"github.com/dominant-strategies/go-quai/common"
	"github.com/dominant-strategies/go-quai/core/types"
	"verifharness/chain"
	"verifharness/conv"
	"verifharness/mininet"
)

func cmdProbe(args []string) {
	chain.FastParams()
	pref := 0.0
	if len(args) > 1 && args[1] == "qi" {
		pref = 1.0
	}
	e, err := chain.Boot(chain.EnvOptions{Net: mininet.Options{Quiet: true, MinerPreference: pref, LockupByte: 1}, Seed: 1})
	if err != nil {
		fmt.Println("boot", err)
		os.Exit(3)
	}
	defer e.Net.Close()
	s := conv.NewSim(e)
	head := 0
	pat := "zpzrpzzzrpzzzzzz"
	if len(args) > 0 {
		pat = args[0]
	}
	cb := e.Quai[0].Addr
	for _, c := range pat {
		order := -1
		switch c {
		case 'z':
			order = mininet.Zone
		case 'r':
			order = mininet.Region
		case 'p':
			order = mininet.Prime
		case 'w':
			// inject a work share built from the current pending header
			ph, err := e.Net.Pending()
			if err != nil {
				fmt.Println(err)
				continue
			}
			ws := types.CopyWorkObjectHeader(ph.WorkObjectHeader())
			ws.SetPrimaryCoinbase(e.Quai[2].Addr)
			target := new(big.Int).Div(common.Big2e256, ws.Difficulty())
			wsTarget := new(big.Int).Mul(target, big.NewInt(8))
			for n := uint64(1 << 40); ; n++ {
				ws.SetNonce(types.EncodeNonce(n))
				h := new(big.Int).SetBytes(ws.Hash().Bytes())
				if h.Cmp(target) > 0 && h.Cmp(wsTarget) <= 0 {
					break
				}
			}
			fmt.Printf("   inject workshare %x number=%d: %v\n", ws.Hash().Bytes()[:4], ws.NumberU64(), e.Net.ZoneCore().SendWorkShare(ws))
			continue
		}
		id, err := s.MineOn(head, order)
		if err != nil {
			fmt.Println("mine:", err)
			os.Exit(3)
		}
		head = id
		b := s.Blocks[id]
		zb := s.ZoneBlock(id)
		st, _ := e.Net.ZoneCore().Processor().State()
		ia, _ := cb.InternalAddress()
		fmt.Printf("== block %d h=%d order=%d coinbase=%x data=%x uncles=%d bal(cb)=%s\n", id, b.Height, b.Order, zb.PrimaryCoinbase().Bytes()[:3], zb.Data(), len(zb.Uncles()), st.GetBalance(ia))
		for i, tx := range zb.Transactions() {
			if tx.Type() == types.ExternalTxType {
				fmt.Printf("   in[%d] ETX type=%d val=%s to=%x orig=%x:%d datalen=%d lockup=%d\n", i, tx.EtxType(), tx.Value(), tx.To().Bytes()[:3], tx.OriginatingTxHash().Bytes()[:4], tx.ETXIndex(), len(tx.Data()), tx.Data()[0])
			}
		}
		for i, tx := range zb.OutboundEtxs() {
			fmt.Printf("   out[%d] ETX type=%d val=%s to=%x orig=%x:%d datalen=%d share=%x\n", i, tx.EtxType(), tx.Value(), tx.To().Bytes()[:3], tx.OriginatingTxHash().Bytes()[:4], tx.ETXIndex(), len(tx.Data()), tx.Data()[len(tx.Data())-32:len(tx.Data())-28])
		}
		sc, _ := chain.ScanState(e.Net.DBs[mininet.Zone], mininet.ZoneLoc)
		tot := map[string]*big.Int{}
		for _, u := range sc.Utxos {
			k := fmt.Sprintf("%x/lock%d", u.Addr[:3], u.Lock)
			if tot[k] == nil {
				tot[k] = new(big.Int)
			}
			tot[k].Add(tot[k], types.Denominations[u.Denom])
		}
		if len(tot) > 0 {
			fmt.Println("   utxo totals:", tot)
		}
		for _, l := range sc.Lockups {
			fmt.Printf("   cl owner=%x miner=%x byte=%d epoch=%d bal=%s unlock=%d n=%d\n", l.Owner.Bytes()[:3], l.Miner.Bytes()[:3], l.LockupByte, l.Epoch, l.Balance, l.UnlockHeight, l.Elements)
		}
	}
}
