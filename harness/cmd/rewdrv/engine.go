package main

// Scenario engine of rewdrv (C13): chains whose blocks ask for rewards of each ledger / lockup byte / data
// layout, injected work shares, a lockup-owner contract that claims, forks across unlock heights.  After
// every block the complete state of all tracked Quai accounts, Qi addresses and every 'cl' lockup record
// must equal what the independent oracle (harness/conv, chain-aware) derives from the PARENT block's state
// and the block's contents; the event log is validated by spec/LockupTrace.tla.

import (
	"bytes"
	"encoding/binary"
	"encoding/hex"
	"fmt"
	"math/big"
	"math/rand"
	"os"
	"sort"
	"strings"
	"time"

	"github.com/dominant-strategies/go-quai/common"
	"github.com/dominant-strategies/go-quai/core/types"
	"github.com/dominant-strategies/go-quai/core/vm"
	"github.com/dominant-strategies/go-quai/crypto"
	"github.com/dominant-strategies/go-quai/params"
	"verifharness/chain"
	"verifharness/conv"
	"verifharness/mininet"
	"verifharness/wallet"
)

// AB: canonical map key / comparison form of an address (common.Address wraps a pointer)
type AB = common.AddressBytes

func ab(a common.Address) AB { return a.Bytes20() }

type Problem struct {
	Kind string                 `json:"kind"`
	Info map[string]interface{} `json:"info"`
}

type driverError string

func fatalf(f string, a ...interface{}) { panic(driverError(fmt.Sprintf(f, a...))) }

type Reward struct {
	ID       int
	Share    int // share id: own share of block k = k, work share w = 100 + w
	Hash     common.Hash
	Miner    int
	To       common.Address
	Qi       bool
	Byte     uint8
	Layout   string // plain | contract | delegate | malformed
	Contract int
	CAddr    common.Address
	Delegate common.Address
	Value    *big.Int // value of the coinbase ETX
	Issuer   int
}

type Claim struct {
	Caller   int
	CallerA  common.Address
	Miner    int
	MinerA   common.Address
	Byte     uint8
	Epoch    uint32
	To       common.Address
	TxHash   common.Hash
	Sender   common.Address
	Paid     bool
	Value    *big.Int
	WantPaid bool
	EtxGas   uint64
	Kind     string
}

type LockRec struct {
	Owner, Miner, Delegate common.Address
	Byte                   uint8
	Epoch                  uint32
	Balance                *big.Int
	Unlock                 uint32
	Elements               uint16
	Rewards                []int
}

func (l *LockRec) key() string {
	return fmt.Sprintf("%x/%x/%d/%d", l.Owner.Bytes(), l.Miner.Bytes(), l.Byte, l.Epoch)
}

type Snapshot struct {
	Bal    map[AB]*big.Int
	Exists map[AB]bool
	Utxo   map[string]chain.Utxo
	Locks  map[string]*LockRec
}

type ClaimEtx struct {
	To    common.Address
	Value *big.Int
	Gas   uint64
	Hash  common.Hash
}

type BlockRec struct {
	ID, Parent int
	H          uint64
	Miner      int
	Byte       uint8
	Layout     string
	Contract   int
	Uncles     []int
	Issued     []*Reward
	Arrive     []*Reward
	ArriveHash map[int]common.Hash // reward id -> hash of the ETX as executed
	Claims     []*Claim
	ClaimEtxs  []ClaimEtx
	Snap       *Snapshot // actual state after the block
	Exp        *Snapshot // state the oracle expects after the block
}

type WorkShare struct {
	ID     int
	Hdr    *types.WorkObjectHeader
	Miner  int
	Number uint64
}

type Engine struct {
	S        *conv.Sim
	E        *chain.Env
	R        *rand.Rand
	Blocks   map[int]*BlockRec
	Events   []map[string]interface{}
	Problems []Problem
	Head     int
	Stats    map[string]int

	minerIDs   map[AB]int
	minerAddr  map[int]common.Address
	newAcct    map[int]bool
	contractID map[AB]int
	hasCode    map[int]bool
	trackedQ   map[AB]string
	trackedQi  map[string]string
	shares     map[common.Hash]*WorkShare
	nextWS     int
	OwnerA     common.Address
	OwnerB     common.Address
	NoCodeC    common.Address
	Lockup     common.Address
	claimKeys  []wallet.Key
	claimIdx   int
	RecvQuai   common.Address
	RecvQi     common.Address
	wsMiners   []common.Address
	pendingTx  map[common.Hash]*Claim
	rewardSeq  int
	Samples    []map[string]interface{}
}

func (g *Engine) problem(kind string, kv ...interface{}) {
	m := map[string]interface{}{}
	for i := 0; i+1 < len(kv); i += 2 {
		m[kv[i].(string)] = fmt.Sprint(kv[i+1])
	}
	g.Problems = append(g.Problems, Problem{kind, m})
}

func (g *Engine) minerID(a common.Address) int {
	if id, ok := g.minerIDs[ab(a)]; ok {
		return id
	}
	id := len(g.minerIDs) + 1
	g.minerIDs[ab(a)] = id
	g.minerAddr[id] = a
	return id
}

func (g *Engine) gasPrice() *big.Int {
	ph, err := g.E.Net.Pending()
	if err != nil || ph.BaseFee() == nil {
		return big.NewInt(params.GWei)
	}
	return new(big.Int).Mul(ph.BaseFee(), big.NewInt(2))
}

func (g *Engine) addTx(tx *types.Transaction) error {
	var err error
	for dl := time.Now().Add(3 * time.Second); time.Now().Before(dl); time.Sleep(5 * time.Millisecond) {
		err = g.E.AddTx(tx)
		if err == nil || !(strings.Contains(err.Error(), "insufficient funds") || strings.Contains(err.Error(), "nonce")) {
			return err
		}
	}
	return err
}

func (g *Engine) stateNonce(a common.Address) uint64 {
	st, _ := g.E.Net.ZoneCore().Processor().State()
	ia, _ := a.InternalAddress()
	return st.GetNonce(ia)
}

// ---------------------------------------------------------------- contracts

// deploy: forwarder to the lockup precompile:
//   CALLDATASIZE PUSH1 0 PUSH1 0 CALLDATACOPY
//   PUSH1 0 PUSH1 0 CALLDATASIZE PUSH1 0 PUSH1 0 PUSH20 <lockup> GAS CALL  POP STOP
func (g *Engine) deployOwner(from wallet.Key, salt0 byte) common.Address {
	rt := []byte{0x36, 0x60, 0x00, 0x60, 0x00, 0x37, 0x60, 0x00, 0x60, 0x00, 0x36, 0x60, 0x00, 0x60, 0x00, 0x73}
	rt = append(rt, g.Lockup.Bytes()...)
	rt = append(rt, 0x5a, 0xf1, 0x50, 0x00)
	init := []byte{0x60, byte(len(rt)), 0x80, 0x60, 0x0b, 0x60, 0x00, 0x39, 0x60, 0x00, 0xf3}
	code := append(init, rt...)
	nonce := g.stateNonce(from.Addr)
	var addr common.Address
	for salt := uint32(0); ; salt++ {
		c := append(append([]byte{}, code...), salt0, byte(salt>>16), byte(salt>>8), byte(salt))
		addr = crypto.CreateAddress(from.Addr, nonce, c, mininet.ZoneLoc)
		if _, err := addr.InternalAndQuaiAddress(); err == nil {
			code = c
			break
		}
	}
	tx, err := conv.QuaiTxAL(g.E.Signer, g.E.ChainID, from, nonce, nil, big.NewInt(0), 500000, g.gasPrice(), code, []common.Address{addr})
	if err != nil {
		fatalf("sign: %v", err)
	}
	if err := g.addTx(tx); err != nil {
		fatalf("deploy: %v", err)
	}
	return addr
}

func (g *Engine) codeAt(a common.Address) bool {
	st, _ := g.E.Net.ZoneCore().Processor().State()
	ia, err := a.InternalAddress()
	if err != nil {
		return false
	}
	return len(st.GetCode(ia)) != 0
}

// submitClaim: a transaction to contract `caller` whose calldata is the 53-byte claim request.
func (g *Engine) submitClaim(caller common.Address, miner common.Address, b uint8, epoch uint32, to common.Address, kind string) *Claim {
	k := g.claimKeys[g.claimIdx%len(g.claimKeys)]
	g.claimIdx++
	etxGas := uint64(120000)
	data := make([]byte, 53)
	copy(data[0:20], miner.Bytes())
	copy(data[20:40], to.Bytes())
	data[40] = b
	binary.BigEndian.PutUint32(data[41:45], epoch)
	binary.BigEndian.PutUint64(data[45:53], etxGas)
	tx, err := conv.QuaiTxAL(g.E.Signer, g.E.ChainID, k, g.stateNonce(k.Addr), &caller, big.NewInt(0), 400000, g.gasPrice(), data, []common.Address{g.Lockup, to, miner})
	if err != nil {
		fatalf("sign: %v", err)
	}
	if err := g.addTx(tx); err != nil {
		g.Stats["claim_tx_rejected_by_pool"]++
		return nil
	}
	c := &Claim{Caller: g.contractID[ab(caller)], CallerA: caller, Miner: g.minerID(miner), MinerA: miner, Byte: b, Epoch: epoch, To: to, TxHash: tx.Hash(), Sender: k.Addr, EtxGas: etxGas, Kind: kind}
	g.pendingTx[tx.Hash()] = c
	return c
}

// ---------------------------------------------------------------- mining with a requested coinbase profile

type Profile struct {
	Miner    int    `json:"miner"` // 1 Quai coinbase, 2 / 6 Quai accounts that do not exist yet, 3 Qi coinbase
	Qi       bool   `json:"qi"`
	Byte     uint8  `json:"byte"`
	Layout   string `json:"layout"`
	Contract string `json:"contract"` // "A" | "B" | "nocode" | ""
}

func (g *Engine) contractAddr(name string) common.Address {
	switch name {
	case "A":
		return g.OwnerA
	case "B":
		return g.OwnerB
	case "nocode":
		return g.NoCodeC
	}
	return common.Address{}
}

func (g *Engine) dataFor(p Profile, delegate common.Address) []byte {
	d := []byte{p.Byte}
	switch p.Layout {
	case "contract":
		d = append(d, g.contractAddr(p.Contract).Bytes()...)
	case "delegate":
		d = append(d, g.contractAddr(p.Contract).Bytes()...)
		d = append(d, delegate.Bytes()...)
	case "malformed":
		d = append(d, 0xde, 0xad, 0xbe) // 4 bytes: neither 1, 21 nor 41
	}
	return d
}

func (g *Engine) mineWith(parent int, p Profile, order int) int {
	if p.Miner == 0 {
		p.Miner = 1
		if p.Qi {
			p.Miner = 3
		}
	}
	coinbase := g.minerAddr[p.Miner]
	p.Qi = coinbase.IsInQiLedgerScope()
	if g.S.Head() != parent {
		if err := g.S.SetHead(parent); err != nil {
			g.problem("head-switch-failed", "to", parent, "err", err)
			fatalf("sethead: %v", err)
		}
	}
	// the miner's identity and request travel in the sealed header (what Slice.GetPendingHeader does for a
	// miner-specific coinbase); no worker setter is used (they can deadlock against the pending-header loop)
	data := g.dataFor(p, g.RecvQuai)
	g.S.EditPending = func(ph *types.WorkObject) {
		ph.WorkObjectHeader().SetPrimaryCoinbase(coinbase)
		ph.WorkObjectHeader().SetData(data)
	}
	id, err := g.S.MineOn(parent, order)
	g.S.EditPending = nil
	if err != nil {
		g.problem("own-block-rejected", "err", err, "parent", parent)
		fatalf("mine: %v", err)
	}
	g.Head = id
	g.observe(id, p)
	return id
}

// injectShare: a work share for the block about to be mined on the current head (hash between the block
// target and the work-share target), asking for a plain reward to `miner`.
func (g *Engine) injectShare(miner common.Address, data []byte) *WorkShare {
	if err := g.E.Net.Refill(); err != nil {
		fatalf("refill: %v", err)
	}
	ph, err := g.E.Net.Pending()
	if err != nil {
		fatalf("pending: %v", err)
	}
	ws := types.CopyWorkObjectHeader(ph.WorkObjectHeader())
	ws.SetPrimaryCoinbase(miner)
	ws.SetData(data)
	target := new(big.Int).Div(common.Big2e256, ws.Difficulty())
	wsTarget := new(big.Int).Mul(target, big.NewInt(8))
	for n := uint64(1<<40) + uint64(g.R.Int63n(1<<30)); ; n++ {
		ws.SetNonce(types.EncodeNonce(n))
		h := new(big.Int).SetBytes(ws.Hash().Bytes())
		if h.Cmp(target) > 0 && h.Cmp(wsTarget) <= 0 {
			break
		}
	}
	if err := g.E.Net.ZoneCore().SendWorkShare(ws); err != nil {
		g.Stats["share_rejected_by_worker"]++
		return nil
	}
	w := &WorkShare{Hdr: ws, Miner: g.minerID(miner), Number: ws.NumberU64()}
	w.ID = g.wsID(w.Number, w.Miner, data[0])
	g.shares[ws.Hash()] = w
	g.Stats["shares_injected"]++
	return w
}

// wsID: the id of a work share encodes its attributes (number * 10000 + miner * 100 + lockup byte * 10 + sequence digit)
func (g *Engine) wsID(number uint64, miner int, b uint8) int {
	base := int(number)*10000 + miner*100 + int(b)*10
	for seq := 0; seq < 10; seq++ {
		used := false
		for _, w := range g.shares {
			if w.ID == base+seq {
				used = true
			}
		}
		if !used {
			return base + seq
		}
	}
	fatalf("too many work shares with the same attributes")
	return 0
}

// ---------------------------------------------------------------- observation / oracle

func (g *Engine) snapshot() *Snapshot {
	s := &Snapshot{Bal: map[AB]*big.Int{}, Exists: map[AB]bool{}, Utxo: map[string]chain.Utxo{}, Locks: map[string]*LockRec{}}
	st, err := g.E.Net.ZoneCore().Processor().State()
	if err != nil {
		fatalf("state: %v", err)
	}
	for a := range g.trackedQ {
		ia, _ := common.Bytes20ToAddress(a, mininet.ZoneLoc).InternalAddress()
		s.Bal[a] = new(big.Int).Set(st.GetBalance(ia))
		s.Exists[a] = st.Exist(ia)
	}
	sc, err := chain.ScanState(g.E.Net.DBs[mininet.Zone], mininet.ZoneLoc)
	if err != nil {
		fatalf("scan: %v", err)
	}
	for k, u := range sc.Utxos {
		if _, ok := g.trackedQi[string(u.Addr)]; ok {
			s.Utxo[k] = u
		}
	}
	for _, l := range sc.Lockups {
		r := &LockRec{Owner: l.Owner, Miner: l.Miner, Delegate: l.Delegate, Byte: l.LockupByte, Epoch: l.Epoch, Balance: l.Balance, Unlock: l.UnlockHeight, Elements: l.Elements}
		s.Locks[r.key()] = r
	}
	return s
}

func copySnap(s *Snapshot) *Snapshot {
	c := &Snapshot{Bal: map[AB]*big.Int{}, Exists: map[AB]bool{}, Utxo: map[string]chain.Utxo{}, Locks: map[string]*LockRec{}}
	for k, v := range s.Bal {
		c.Bal[k] = new(big.Int).Set(v)
	}
	for k, v := range s.Exists {
		c.Exists[k] = v
	}
	for k, v := range s.Utxo {
		c.Utxo[k] = v
	}
	for k, v := range s.Locks {
		l := *v
		l.Balance = new(big.Int).Set(v.Balance)
		l.Rewards = append([]int{}, v.Rewards...)
		c.Locks[k] = &l
	}
	return c
}

func (g *Engine) ancestorAt(b int, h uint64) *BlockRec {
	for x := b; x > 0; x = g.Blocks[x].Parent {
		if g.Blocks[x].H == h {
			return g.Blocks[x]
		}
	}
	return nil
}

// rewardByShare: the reward issued for a share on the chain ending in b.
func (g *Engine) rewardByShare(b int, h common.Hash) *Reward {
	for x := b; x > 0; x = g.Blocks[x].Parent {
		for _, r := range g.Blocks[x].Issued {
			if r.Hash == h {
				return r
			}
		}
	}
	return nil
}

func layoutOf(data []byte, zone common.Location) (string, common.Address, common.Address) {
	switch len(data) {
	case 1 + 32:
		return "plain", common.Address{}, common.Address{}
	case 1 + 20 + 32:
		return "contract", common.BytesToAddress(data[1:21], zone), common.Zero
	case 1 + 40 + 32:
		return "delegate", common.BytesToAddress(data[1:21], zone), common.BytesToAddress(data[21:41], zone)
	}
	return "malformed", common.Address{}, common.Address{}
}

// expectedIssue: the coinbase ETXs block `id` must emit, from the protocol rule (share split by intrinsic
// log-entropy over the block InclusionDepth below and the work shares of its height).
type issueExp struct {
	To    common.Address
	Value *big.Int
	Data  []byte
	Hash  common.Hash
	Share int
}

func (g *Engine) expectedIssue(id int) []issueExp {
	b := g.Blocks[id]
	depth := uint64(params.WorkSharesInclusionDepth)
	if b.H <= depth {
		return nil
	}
	zb := g.S.ZoneBlock(id)
	tgt := g.ancestorAt(id, b.H-depth)
	if tgt == nil {
		fatalf("no target block for %d", id)
	}
	tb := g.S.ZoneBlock(tgt.ID)
	pt := g.E.Net.ZoneCore().GetHeaderByHash(zb.PrimeTerminusHash())
	if pt == nil {
		fatalf("prime terminus of block %d not found", id)
	}
	xr := pt.ExchangeRate()
	type sh struct {
		hdr *types.WorkObjectHeader
		ent *big.Int
		id  int
	}
	shares := []sh{{tb.WorkObjectHeader(), common.IntrinsicLogEntropy(tb.Hash()), tgt.ID}}
	total := new(big.Int).Set(shares[0].ent)
	// uncle lists: parent, grandparent, ..., target block, then the block itself
	var lists [][]*types.WorkObjectHeader
	x := b.Parent
	for i := uint64(0); i < depth; i++ {
		lists = append(lists, g.S.ZoneBlock(x).Uncles())
		x = g.Blocks[x].Parent
	}
	lists = append(lists, zb.Uncles())
	blockTarget := func(u *types.WorkObjectHeader) *big.Int { return new(big.Int).Div(common.Big2e256, u.Difficulty()) }
	for _, l := range lists {
		for _, u := range l {
			if u.NumberU64() != b.H-depth {
				continue
			}
			var ent *big.Int
			if new(big.Int).SetBytes(u.Hash().Bytes()).Cmp(blockTarget(u)) > 0 {
				ent = common.IntrinsicLogEntropy(u.Hash()) // a work share: its own intrinsic entropy
			} else {
				ent = common.IntrinsicLogEntropy(common.BytesToHash(blockTarget(u).Bytes())) // a full uncle: the target's weight
			}
			total.Add(total, ent)
			sid := 0
			if w := g.shares[u.Hash()]; w != nil {
				sid = 100 + w.ID
			}
			shares = append(shares, sh{u, ent, sid})
		}
	}
	rate, err := conv.NewRate(tb.WorkObjectHeader().NumberU64(), tb.PrimeTerminusNumber().Uint64(), tb.Difficulty(), xr)
	if err != nil {
		fatalf("oracle: %v", err)
	}
	reward := new(big.Int).Add(rate.QuaiPerBlock, tb.AvgTxFees())
	reward.Add(reward, new(big.Int).Div(tb.TotalFees(), big.NewInt(2)))
	var out []issueExp
	for _, s := range shares {
		v := new(big.Int).Mul(reward, s.ent)
		v.Div(v, total)
		to := s.hdr.PrimaryCoinbase()
		if to.IsInQiLedgerScope() {
			v = rate.QuaiToQi(v)
		}
		if v.Sign() == 0 {
			v = big.NewInt(1)
		}
		out = append(out, issueExp{To: to, Value: v, Data: append(append([]byte{}, s.hdr.Data()...), s.hdr.Hash().Bytes()...), Hash: s.hdr.Hash(), Share: s.id})
	}
	return out
}

func (g *Engine) observe(id int, p Profile) {
	sb := g.S.Blocks[id]
	zb := g.S.ZoneBlock(id)
	h := sb.Height
	b := &BlockRec{ID: id, Parent: sb.Parent, H: h, Byte: zb.Data()[0], ArriveHash: map[int]common.Hash{}}
	g.Blocks[id] = b
	b.Miner = g.minerID(zb.PrimaryCoinbase())
	lay, ca, _ := layoutOf(append(append([]byte{}, zb.Data()...), make([]byte, 32)...), mininet.ZoneLoc)
	b.Layout = lay
	if lay == "contract" || lay == "delegate" {
		b.Contract = g.contractID[ab(ca)]
	}
	if zb.PrimaryCoinbase().IsInQiLedgerScope() != p.Qi || zb.Data()[0] != p.Byte || lay != p.Layout {
		fatalf("block %d was not mined with the requested profile %+v (coinbase qi=%v byte=%d layout=%s)", id, p, zb.PrimaryCoinbase().IsInQiLedgerScope(), zb.Data()[0], lay)
	}
	for _, u := range zb.Uncles() {
		if w := g.shares[u.Hash()]; w != nil {
			b.Uncles = append(b.Uncles, w.ID)
		} else if _, known := g.S.ID(u.Hash()); known {
			// a block of an abandoned branch, included as an uncle by the worker
			w := &WorkShare{Hdr: u, Miner: g.minerID(u.PrimaryCoinbase()), Number: u.NumberU64()}
			w.ID = g.wsID(w.Number, w.Miner, u.Data()[0])
			g.shares[u.Hash()] = w
			g.Events = append(g.Events, map[string]interface{}{"op": "share", "id": w.ID, "miner": w.Miner, "number": int(w.Number), "byte": int(u.Data()[0]), "uncle_block": true})
			b.Uncles = append(b.Uncles, w.ID)
			g.Stats["side_blocks_included_as_uncles"]++
		} else {
			g.problem("unknown-uncle-included", "block", id, "hash", u.Hash().Hex()[:12])
		}
	}
	sort.Ints(b.Uncles)
	// a work share appears at most once on a chain
	for x := b.Parent; x > 0; x = g.Blocks[x].Parent {
		for _, w := range g.Blocks[x].Uncles {
			for _, mine := range b.Uncles {
				if w == mine {
					g.problem("work-share-included-twice-on-one-chain", "share", w, "blocks", fmt.Sprint(x, id))
				}
			}
		}
	}

	// ---- issuance
	exp := g.expectedIssue(id)
	var got []*types.Transaction
	for _, o := range zb.OutboundEtxs() {
		if o.EtxType() == types.CoinbaseType {
			got = append(got, o)
		}
	}
	amtOK := len(exp) == len(got)
	if !amtOK {
		g.problem("reward-count-differs-from-share-rule", "block", id, "h", h, "have", len(got), "want", len(exp))
	}
	for i, o := range got {
		share := o.Data()[len(o.Data())-32:]
		sh := common.BytesToHash(share)
		layout, caddr, del := layoutOf(o.Data(), mininet.ZoneLoc)
		r := &Reward{Hash: sh, Miner: g.minerID(*o.To()), To: *o.To(), Qi: o.To().IsInQiLedgerScope(), Byte: o.Data()[0], Layout: layout, CAddr: caddr, Delegate: del,
			Value: new(big.Int).Set(o.Value()), Issuer: id}
		if layout == "contract" || layout == "delegate" {
			r.Contract = g.contractID[ab(caddr)]
		}
		r.ID = id*10 + i + 1
		if i < len(exp) {
			r.Share = exp[i].Share
			e := exp[i]
			if e.Hash != sh || !bytes.Equal(e.Data, o.Data()) || !e.To.Equal(*o.To()) {
				amtOK = false
				g.problem("reward-issued-for-wrong-share", "block", id, "h", h, "index", i, "have_share", sh.Hex()[:12], "want_share", e.Hash.Hex()[:12])
			} else if e.Value.Cmp(o.Value()) != 0 {
				amtOK = false
				g.problem("reward-amount-differs-from-formula", "block", id, "h", h, "index", i, "qi", r.Qi, "have", o.Value(), "want", e.Value)
			}
		}
		if prev := g.rewardByShare(b.Parent, sh); prev != nil {
			g.problem("share-rewarded-twice-on-one-chain", "share", sh.Hex()[:12], "first", prev.Issuer, "again", id)
		}
		b.Issued = append(b.Issued, r)
		g.Stats["rewards_issued"]++
		g.trackMiner(r)
	}

	// ---- transactions of the block
	receipts := g.E.Net.ZoneCore().GetReceiptsByHash(sb.Hash)
	txs := zb.Transactions()
	untracked := map[AB]bool{}
	type feeEv struct {
		a AB
		d *big.Int
	}
	var fees []feeEv
	for i, tx := range txs {
		switch tx.Type() {
		case types.ExternalTxType:
			switch tx.EtxType() {
			case types.CoinbaseType:
				sh := common.BytesToHash(tx.Data()[len(tx.Data())-32:])
				r := g.rewardByShare(id, sh)
				if r == nil {
					g.problem("coinbase-etx-for-unknown-share", "block", id, "share", sh.Hex()[:12])
					continue
				}
				if r.Value.Cmp(tx.Value()) != 0 || !r.To.Equal(*tx.To()) {
					g.problem("coinbase-etx-changed-in-transit", "reward", r.ID, "have", tx.Value(), "want", r.Value)
				}
				for x := b.Parent; x > 0; x = g.Blocks[x].Parent {
					for _, a := range g.Blocks[x].Arrive {
						if a.ID == r.ID {
							g.problem("reward-delivered-twice-on-one-chain", "reward", r.ID, "first", x, "again", id)
						}
					}
				}
				b.Arrive = append(b.Arrive, r)
				b.ArriveHash[r.ID] = tx.Hash()
				g.Stats["rewards_arrived"]++
			case types.CoinbaseLockupType:
				b.ClaimEtxs = append(b.ClaimEtxs, ClaimEtx{To: *tx.To(), Value: new(big.Int).Set(tx.Value()), Gas: tx.Gas(), Hash: tx.Hash()})
			}
		case types.QuaiTxType:
			tmpl := g.pendingTx[tx.Hash()]
			from, _ := types.Sender(g.E.Signer, tx)
			var c *Claim
			if tmpl != nil {
				// a claim transaction may be included again on another branch (the pool re-injects it after a reorg)
				cp := *tmpl
				cp.Paid, cp.Value, cp.WantPaid = false, nil, false
				c = &cp
			}
			if c == nil {
				untracked[ab(from)] = true
				if tx.To() != nil {
					untracked[ab(*tx.To())] = true
				}
				continue
			}
			fees = append(fees, feeEv{ab(from), new(big.Int).Mul(new(big.Int).SetUint64(receipts[i].GasUsed), tx.GasPrice())})
			for _, o := range zb.OutboundEtxs() {
				if o.OriginatingTxHash() == tx.Hash() && o.EtxType() == types.CoinbaseLockupType {
					if c.Paid {
						g.problem("claim-emitted-two-etxs", "tx", tx.Hash().Hex()[:12])
					}
					c.Paid, c.Value = true, new(big.Int).Set(o.Value())
					if !o.To().Equal(c.To) || o.Gas() != c.EtxGas {
						g.problem("claim-etx-fields-differ", "to", o.To().Hex(), "gas", o.Gas())
					}
				}
			}
			b.Claims = append(b.Claims, c)
		}
	}

	// ---- the oracle's expected state = parent's ACTUAL state + the protocol's effects of this block
	base := g.Blocks[b.Parent]
	var e *Snapshot
	if base == nil {
		e = &Snapshot{Bal: map[AB]*big.Int{}, Exists: map[AB]bool{}, Utxo: map[string]chain.Utxo{}, Locks: map[string]*LockRec{}}
	} else {
		e = copySnap(base.Snap)
		// rewards accumulated per record are tracked by the oracle (the database only has the balance)
		for k, l := range base.Exp.Locks {
			if x := e.Locks[k]; x != nil {
				x.Rewards = append([]int{}, l.Rewards...)
			}
		}
	}
	bal := func(x common.Address) *big.Int {
		a := ab(x)
		if e.Bal[a] == nil {
			e.Bal[a] = new(big.Int)
		}
		return e.Bal[a]
	}
	var credits, lost, mints []int
	// 1. redemption scan: for each depth in table order, plain Quai rewards that arrived depth blocks ago
	for _, d := range params.LockupByteToBlockDepth {
		if h <= d {
			continue
		}
		a := g.ancestorAt(id, h-d)
		if a == nil {
			continue
		}
		for _, r := range a.Arrive {
			if r.Qi || r.Layout != "plain" || params.LockupByteToBlockDepth[r.Byte] != d {
				continue
			}
			amt := conv.CoinbaseValueWithLockup(r.Value, r.Byte, h)
			if _, tracked := g.trackedQ[ab(r.To)]; !tracked {
				continue
			}
			if !e.Exists[ab(r.To)] {
				fee := conv.NewAccountFee(g.S.ZoneBlock(b.Parent).QuaiStateSize())
				if amt.Cmp(fee) < 0 {
					lost = append(lost, r.ID)
					continue
				}
				amt.Sub(amt, fee)
				e.Exists[ab(r.To)] = true
				g.Stats["credit_to_new_account"]++
			}
			bal(r.To).Add(bal(r.To), amt)
			credits = append(credits, r.ID)
			g.Stats["credits"]++
			if r.Byte > 0 && amt.Cmp(r.Value) > 0 {
				g.Stats["credits_with_lockup_bonus"]++
			}
		}
	}
	// 2. transactions in order: arrivals, claim transactions, claim ETXs
	epoch := uint32(h/params.CoinbaseEpochBlocks) + 1
	ai, ci, ei := 0, 0, 0
	for _, tx := range txs {
		switch {
		case tx.Type() == types.ExternalTxType && tx.EtxType() == types.CoinbaseType:
			if ai >= len(b.Arrive) {
				continue
			}
			r := b.Arrive[ai]
			ai++
			if b.ArriveHash[r.ID] != tx.Hash() {
				continue
			}
			depth := params.LockupByteToBlockDepth[r.Byte]
			switch {
			case r.Layout == "malformed":
				lost = append(lost, r.ID)
			case r.Layout == "contract" || r.Layout == "delegate":
				if !g.hasCode[r.Contract] {
					lost = append(lost, r.ID)
					break
				}
				val := conv.CoinbaseValueWithLockup(r.Value, r.Byte, h)
				k := (&LockRec{Owner: r.CAddr, Miner: r.To, Byte: r.Byte, Epoch: epoch}).key()
				rec := e.Locks[k]
				unlock := h + depth
				if rec == nil {
					rec = &LockRec{Owner: r.CAddr, Miner: r.To, Byte: r.Byte, Epoch: epoch, Balance: new(big.Int), Unlock: uint32(unlock - unlock%params.CoinbaseEpochBlocks)}
					e.Locks[k] = rec
				}
				rec.Balance.Add(rec.Balance, val)
				rec.Elements++
				rec.Delegate = r.Delegate
				rec.Rewards = append(rec.Rewards, r.ID)
				g.Stats["locks_accumulated"]++
			case r.Qi:
				val := conv.CoinbaseValueWithLockup(r.Value, r.Byte, h)
				plan, _ := conv.MintPlan(val, 1<<62, 1, -1)
				idx := 0
				for d := len(conv.Denoms) - 1; d >= 0; d-- {
					for j := uint64(0); j < plan[uint8(d)]; j++ {
						key := fmt.Sprintf("%x:%d", tx.Hash().Bytes(), idx)
						if _, tr := g.trackedQi[string(r.To.Bytes())]; tr {
							e.Utxo[key] = chain.Utxo{TxHash: tx.Hash(), Index: uint16(idx), Denom: uint8(d), Addr: r.To.Bytes(), Lock: h + depth}
						}
						idx++
					}
				}
				mints = append(mints, r.ID)
				g.Stats["qi_rewards_minted"]++
			}
		case tx.Type() == types.QuaiTxType:
			if ci < len(b.Claims) && b.Claims[ci].TxHash == tx.Hash() {
				c := b.Claims[ci]
				ci++
				k := (&LockRec{Owner: c.CallerA, Miner: c.MinerA, Byte: c.Byte, Epoch: c.Epoch}).key()
				rec := e.Locks[k]
				c.WantPaid = rec != nil && rec.Elements > 0 && c.Epoch < epoch && uint64(rec.Unlock) <= h
				g.Stats["claims_attempted"]++
				if c.WantPaid {
					g.Stats["claims_paid_expected"]++
					if c.Paid && c.Value.Cmp(rec.Balance) != 0 {
						g.problem("claim-amount-differs-from-accumulated-balance", "block", id, "have", c.Value, "want", rec.Balance, "kind", c.Kind)
					}
					delete(e.Locks, k)
				}
				if c.Paid != c.WantPaid {
					why := "paid-but-must-be-refused"
					if c.WantPaid {
						why = "refused-but-must-be-paid"
					}
					un, el := uint32(0), uint16(0)
					if rec != nil {
						un, el = rec.Unlock, rec.Elements
					}
					g.problem("claim-outcome-differs-from-rule", "block", id, "h", h, "what", why, "kind", c.Kind, "owner_is_caller", rec != nil, "epoch", c.Epoch, "current_epoch", epoch,
						"unlock", un, "elements", el, "miner_qi", c.MinerA.IsInQiLedgerScope(), "to_qi", c.To.IsInQiLedgerScope(), "byte", c.Byte, "receipt", receiptOf(receipts, c.TxHash))
					if c.Paid && rec != nil {
						delete(e.Locks, k)
					}
				}
			}
		case tx.Type() == types.ExternalTxType && tx.EtxType() == types.CoinbaseLockupType:
			if ei >= len(b.ClaimEtxs) {
				continue
			}
			ce := b.ClaimEtxs[ei]
			ei++
			if ce.To.IsInQuaiLedgerScope() {
				if _, tr := g.trackedQ[ab(ce.To)]; tr {
					bal(ce.To).Add(bal(ce.To), ce.Value)
					e.Exists[ab(ce.To)] = true
				}
			} else {
				plan, _ := conv.MintPlan(ce.Value, ce.Gas, params.CallValueTransferGas, -1)
				idx := 0
				for d := len(conv.Denoms) - 1; d >= 0; d-- {
					for j := uint64(0); j < plan[uint8(d)]; j++ {
						if _, tr := g.trackedQi[string(ce.To.Bytes())]; tr {
							key := fmt.Sprintf("%x:%d", ce.Hash.Bytes(), idx)
							e.Utxo[key] = chain.Utxo{TxHash: ce.Hash, Index: uint16(idx), Denom: uint8(d), Addr: ce.To.Bytes(), Lock: 0}
						}
						idx++
					}
				}
			}
			g.Stats["claim_etxs_executed"]++
			if os.Getenv("REWDRV_DEBUG") != "" {
				for ri, rc := range receipts {
					if rc.TxHash == ce.Hash {
						fmt.Fprintf(os.Stderr, "DEBUG claim etx in block %d h=%d: to=%x qi=%v value=%s gas=%d receipt status=%d gasUsed=%d idx=%d\n", id, h, ce.To.Bytes()[:4], ce.To.IsInQiLedgerScope(), ce.Value, ce.Gas, rc.Status, rc.GasUsed, ri)
					}
				}
			}
		}
	}
	for _, f := range fees {
		if _, tr := g.trackedQ[f.a]; tr {
			if e.Bal[f.a] == nil {
				e.Bal[f.a] = new(big.Int)
			}
			e.Bal[f.a].Sub(e.Bal[f.a], f.d)
		}
	}
	b.Exp = e
	b.Snap = g.snapshot()
	if h == 1 { // genesis allocations are credited in block 1
		for a := range g.trackedQ {
			untracked[a] = true
		}
	}
	balOK, qiOK, lockOK := g.compare(b, untracked)
	// the oracle continues from the ACTUAL state (one deviation is reported once)
	for k, l := range b.Snap.Locks {
		if x := e.Locks[k]; x != nil {
			l.Rewards = x.Rewards
		}
	}

	// ---- event for the trace specification
	rw := func(rs []*Reward) []map[string]interface{} {
		out := []map[string]interface{}{}
		for _, r := range rs {
			out = append(out, map[string]interface{}{"id": r.ID, "share": r.Share, "miner": r.Miner, "byte": int(r.Byte), "layout": r.Layout, "contract": r.Contract, "amt": 1})
		}
		return out
	}
	cl := []map[string]interface{}{}
	paid := []int{}
	for i, c := range b.Claims {
		cl = append(cl, map[string]interface{}{"caller": c.Caller, "miner": c.Miner, "byte": int(c.Byte), "epoch": int(c.Epoch)})
		if c.Paid {
			paid = append(paid, i+1)
		}
	}
	locks := [][]int{}
	for _, l := range b.Snap.Locks {
		locks = append(locks, []int{g.contractID[ab(l.Owner)], g.minerID(l.Miner), int(l.Byte), int(l.Epoch), int(l.Unlock), int(l.Elements)})
	}
	sort.Slice(locks, func(i, j int) bool { return fmt.Sprint(locks[i]) < fmt.Sprint(locks[j]) })
	// Qi outputs minted in this block, straight from the database scan
	mintObs := [][]int{}
	for _, r := range b.Arrive {
		if !r.Qi || r.Layout != "plain" {
			continue
		}
		var lockH int
		n := 0
		for _, u := range b.Snap.Utxo {
			if u.TxHash == b.ArriveHash[r.ID] {
				lockH = int(u.Lock)
				n++
			}
		}
		if n > 0 {
			mintObs = append(mintObs, []int{r.ID, lockH})
		}
	}
	sort.Slice(mintObs, func(i, j int) bool { return mintObs[i][0] < mintObs[j][0] })
	if credits == nil {
		credits = []int{}
	}
	sort.Ints(credits)
	sort.Ints(lost)
	if b.Uncles == nil {
		b.Uncles = []int{}
	}
	ev := map[string]interface{}{"op": "mine", "b": id, "p": b.Parent, "h": int(h), "miner": b.Miner, "byte": int(b.Byte), "layout": b.Layout, "contract": b.Contract,
		"uncles": b.Uncles, "issued": rw(b.Issued), "arrive": rw(b.Arrive), "claims": cl,
		"obs": map[string]interface{}{"credits": credits, "bal_ok": balOK, "qi_ok": qiOK, "lock_amounts_ok": lockOK, "amt_ok": amtOK, "mints": mintObs, "locks": locks, "paid": paid}}
	g.Events = append(g.Events, ev)
	if len(g.Samples) < 5 && (len(credits) > 0 || len(paid) > 0) {
		g.Samples = append(g.Samples, map[string]interface{}{"block": id, "height": h, "credited_rewards": credits, "claims_paid": paid, "lock_records_after": locks})
	}
}

func (g *Engine) trackMiner(r *Reward) {
	if r.Qi {
		g.trackedQi[string(r.To.Bytes())] = "miner"
	} else if _, ok := g.trackedQ[ab(r.To)]; !ok {
		g.trackedQ[ab(r.To)] = "miner"
	}
}

// compare the actual state after block b with the oracle's expectation.
func (g *Engine) compare(b *BlockRec, untracked map[AB]bool) (balOK, qiOK, lockOK bool) {
	balOK, qiOK, lockOK = true, true, true
	h := b.H
	var addrs []AB
	for a := range g.trackedQ {
		addrs = append(addrs, a)
	}
	sort.Slice(addrs, func(i, j int) bool { return bytes.Compare(addrs[i][:], addrs[j][:]) < 0 })
	for _, a := range addrs {
		if untracked[a] {
			continue
		}
		want := b.Exp.Bal[a]
		if want == nil {
			want = new(big.Int)
		}
		have := b.Snap.Bal[a]
		if have == nil {
			have = new(big.Int)
		}
		if have.Cmp(want) != 0 {
			balOK = false
			diff := new(big.Int).Sub(have, want)
			g.problem("quai-balance-differs-from-reward-rule", "account", g.trackedQ[a], "miner", g.minerIDs[a], "block", b.ID, "h", h, "have_minus_expected", diff, "class", g.classify(b, a, diff))
		}
	}
	for k, u := range b.Snap.Utxo {
		w, ok := b.Exp.Utxo[k]
		if !ok {
			qiOK = false
			g.problem("qi-output-unexplained", "block", b.ID, "h", h, "denom", u.Denom, "lock", u.Lock, "owner", g.trackedQi[string(u.Addr)])
		} else if w.Denom != u.Denom || w.Lock != u.Lock || !bytes.Equal(w.Addr, u.Addr) {
			qiOK = false
			g.problem("qi-output-differs", "block", b.ID, "h", h, "have_lock", u.Lock, "want_lock", w.Lock, "have_denom", u.Denom, "want_denom", w.Denom)
		}
	}
	for k := range b.Exp.Utxo {
		if _, ok := b.Snap.Utxo[k]; !ok {
			w := b.Exp.Utxo[k]
			if base := g.Blocks[b.Parent]; base != nil && w.Denom <= types.MaxTrimDenomination && w.Lock == 0 {
				if _, pre := base.Snap.Utxo[k]; pre {
					continue // small unlocked outputs are trimmed by the protocol after TrimDepths[denomination] blocks (C06)
				}
			}
			qiOK = false
			g.problem("qi-output-missing", "block", b.ID, "h", h, "key", k[:12]+k[len(k)-3:], "denom", w.Denom, "lock", w.Lock)
		}
	}
	for k, l := range b.Snap.Locks {
		w := b.Exp.Locks[k]
		if w == nil {
			lockOK = false
			g.problem("lockup-record-unexplained", "block", b.ID, "h", h, "key", k[len(k)-8:], "balance", l.Balance)
			continue
		}
		if w.Balance.Cmp(l.Balance) != 0 || w.Unlock != l.Unlock || w.Elements != l.Elements || !w.Delegate.Equal(l.Delegate) {
			lockOK = false
			g.problem("lockup-record-differs", "block", b.ID, "h", h, "have", fmt.Sprint(l.Balance, l.Unlock, l.Elements), "want", fmt.Sprint(w.Balance, w.Unlock, w.Elements),
				"delegate_ok", w.Delegate.Equal(l.Delegate))
		}
	}
	for k, w := range b.Exp.Locks {
		if _, ok := b.Snap.Locks[k]; !ok {
			lockOK = false
			cl := ""
			for _, c := range b.Claims {
				cl += fmt.Sprintf("[%s caller=%d miner=%d byte=%d epoch=%d paid=%v want=%v]", c.Kind, c.Caller, c.Miner, c.Byte, c.Epoch, c.Paid, c.WantPaid)
			}
			// what happened to this record on blocks that are not ancestors of b (abandoned branches)?
			anc := map[int]bool{}
			for x := b.ID; x > 0; x = g.Blocks[x].Parent {
				anc[x] = true
			}
			side := ""
			for x := 1; x < b.ID; x++ {
				ob := g.Blocks[x]
				if ob == nil || anc[x] {
					continue
				}
				for _, c := range ob.Claims {
					if (&LockRec{Owner: c.CallerA, Miner: c.MinerA, Byte: c.Byte, Epoch: c.Epoch}).key() == k {
						side += fmt.Sprintf("[block %d h=%d claim paid=%v]", x, ob.H, c.Paid)
					}
				}
				if _, has := ob.Snap.Locks[k]; has {
					side += fmt.Sprintf("[block %d h=%d has record n=%d]", x, ob.H, ob.Snap.Locks[k].Elements)
				} else {
					side += fmt.Sprintf("[block %d h=%d no record]", x, ob.H)
				}
			}
			g.problem("lockup-record-missing", "block", b.ID, "parent", b.Parent, "h", h, "key", k[len(k)-8:], "balance", w.Balance, "rewards", w.Rewards, "unlock", w.Unlock, "claims", cl, "arrived", len(b.Arrive), "side_branches", side)
		}
	}
	return
}

// classify an unexplained balance change: a reward credited at another height?
func (g *Engine) classify(b *BlockRec, a AB, diff *big.Int) string {
	for x := b.ID; x > 0; x = g.Blocks[x].Parent {
		for _, r := range g.Blocks[x].Arrive {
			if ab(r.To) != a || r.Qi || r.Layout != "plain" {
				continue
			}
			due := g.Blocks[x].H + params.LockupByteToBlockDepth[r.Byte]
			for _, hh := range []uint64{b.H, due} {
				v := conv.CoinbaseValueWithLockup(r.Value, r.Byte, hh)
				if new(big.Int).Abs(diff).Cmp(v) == 0 {
					switch {
					case diff.Sign() > 0 && b.H < due:
						return "credited-early"
					case diff.Sign() > 0 && b.H > due:
						return "credited-late-or-twice"
					case diff.Sign() > 0:
						return "credited-twice"
					default:
						return "credit-missing"
					}
				}
			}
		}
	}
	return "other"
}

func receiptOf(rs types.Receipts, h common.Hash) string {
	for _, r := range rs {
		if r.TxHash == h {
			return fmt.Sprintf("status=%d gasUsed=%d", r.Status, r.GasUsed)
		}
	}
	return "?"
}

func lockKeyString(l *LockRec) string { return hex.EncodeToString(l.Owner.Bytes()[:3]) }

var _ = vm.LockupContractAddresses
