// rewdrv — C13: mining rewards and lockups on the real in-process prime/region/zone network.
//
//   rewdrv random -seed N -steps K -out trace.ndjson [-bonus] [-shapes file]
//   rewdrv probe <pattern>
package main

import (
	"bufio"
	"encoding/json"
	"flag"
	"fmt"
	"math/big"
	"math/rand"
	"os"
	"time"

	"github.com/dominant-strategies/go-quai/common"
	"github.com/dominant-strategies/go-quai/core/vm"
	"github.com/dominant-strategies/go-quai/params"
	"verifharness/chain"
	"verifharness/conv"
	"verifharness/mininet"
	"verifharness/wallet"
)

type ShapeStep struct {
	Op       string          `json:"op"` // mine | sethead
	P        int             `json:"p"`
	B        int             `json:"b"`
	Miner    int             `json:"miner"`
	Byte     int             `json:"byte"`
	Layout   string          `json:"layout"`
	Contract int             `json:"contract"`
	Uncles   []int           `json:"uncles"`
	Claims   json.RawMessage `json:"claims"`
}

func ether(n int64) *big.Int { return new(big.Int).Mul(big.NewInt(n), big.NewInt(params.Ether)) }

func setParams(bonus bool) {
	chain.FastParams()
	if bonus {
		// lockup bonus from block 8 on, "years" of 12 blocks (first-year rate, linear decline, terminal rate)
		params.BlocksPerMonth = 4
		params.BlocksPerYear = 12
	}
}

var orders = []int{mininet.Zone, mininet.Region, mininet.Prime, mininet.Zone, -1}

func (g *Engine) randomProfile() Profile {
	p := Profile{Miner: []int{1, 1, 1, 3, 3, 2, 6}[g.R.Intn(7)], Byte: uint8(g.R.Intn(4)), Layout: "plain"}
	switch x := g.R.Intn(100); {
	case x < 45:
	case x < 75:
		p.Layout, p.Contract = "contract", "A"
	case x < 84:
		p.Layout, p.Contract = "delegate", "A"
	case x < 90:
		p.Layout, p.Contract = "contract", "nocode"
	case x < 94:
		p.Layout, p.Contract = "contract", "B"
	default:
		p.Layout = "malformed"
	}
	return p
}

// claims: attempts on every live tranche of the current head (owner and non-owner, whatever the timing:
// the rule decides), and repeated attempts on tranches that were already paid.
func (g *Engine) submitClaims(force bool) {
	hb := g.Blocks[g.Head]
	if hb == nil {
		return
	}
	for _, l := range hb.Snap.Locks {
		to := g.RecvQuai
		if l.Miner.IsInQiLedgerScope() {
			to = g.RecvQi
		}
		if force || g.R.Intn(3) == 0 {
			g.submitClaim(l.Owner, l.Miner, l.Byte, l.Epoch, to, "owner")
			if g.R.Intn(4) == 0 {
				g.submitClaim(l.Owner, l.Miner, l.Byte, l.Epoch, to, "owner-twice-in-one-block")
			}
		}
		if g.R.Intn(5) == 0 {
			other := g.OwnerB
			if l.Owner.Equal(g.OwnerB) {
				other = g.OwnerA
			}
			g.submitClaim(other, l.Miner, l.Byte, l.Epoch, to, "non-owner")
		}
	}
	// again, after payment (walk a few ancestors for claims that were paid)
	n := 0
	for x := g.Head; x > 0 && n < 6; x = g.Blocks[x].Parent {
		n++
		for _, c := range g.Blocks[x].Claims {
			if c.Paid && g.R.Intn(3) == 0 {
				g.submitClaim(c.CallerA, c.MinerA, c.Byte, c.Epoch, c.To, "again-after-payment")
			}
		}
	}
}

func (g *Engine) maybeShares() {
	if g.R.Intn(5) < 2 {
		n := 1 + g.R.Intn(2)
		for i := 0; i < n; i++ {
			m := g.wsMiners[g.R.Intn(len(g.wsMiners))]
			w := g.injectShare(m, []byte{uint8(g.R.Intn(2))})
			if w != nil {
				g.Events = append(g.Events, map[string]interface{}{"op": "share", "id": w.ID, "miner": w.Miner, "number": int(w.Number), "byte": int(w.Hdr.Data()[0])})
			}
		}
	}
	// now and then offer a share that is already on the chain once more
	if g.R.Intn(6) == 0 {
		for _, w := range g.shares {
			if w.Number+uint64(params.WorkSharesInclusionDepth)+2 >= g.E.Height() {
				g.E.Net.ZoneCore().SendWorkShare(w.Hdr)
				g.Stats["shares_reoffered"]++
				break
			}
		}
	}
}

func runScenario(seed int64, scen int, bonus bool, steps int, shape []ShapeStep, verbose bool) (g *Engine, derr string) {
	setParams(bonus)
	e, err := chain.Boot(chain.EnvOptions{Net: mininet.Options{Quiet: !verbose, MinerPreference: 0, GasCeil: params.StateCeil}, Seed: uint64(seed), NQuai: 12, NQi: 6, QuaiFunding: ether(100000)})
	if err != nil {
		return nil, "boot: " + err.Error()
	}
	defer e.Net.Close()
	g = &Engine{S: conv.NewSim(e), E: e, R: rand.New(rand.NewSource(seed)), Blocks: map[int]*BlockRec{}, Stats: map[string]int{},
		minerIDs: map[AB]int{}, minerAddr: map[int]common.Address{}, newAcct: map[int]bool{}, contractID: map[AB]int{}, hasCode: map[int]bool{},
		trackedQ: map[AB]string{}, trackedQi: map[string]string{}, shares: map[common.Hash]*WorkShare{}, pendingTx: map[common.Hash]*Claim{}, nextWS: scen * 1000}
	defer func() {
		if r := recover(); r != nil {
			if de, ok := r.(driverError); ok {
				derr = string(de)
				return
			}
			panic(r)
		}
	}()
	for dl := time.Now().Add(5 * time.Second); time.Now().Before(dl); time.Sleep(2 * time.Millisecond) {
		if e.Net.PrimeCore().Slice().ReadBestPh() != nil && e.Net.RegionCore().Slice().ReadBestPh() != nil && e.Net.ZoneCore().Slice().ReadBestPh() != nil {
			break
		}
	}
	g.Lockup = vm.LockupContractAddresses[[2]byte{0, 0}]
	// fixed miner identities: 1 Quai coinbase, 2 new-account share miner, 3 Qi coinbase, 4 share miner (Quai), 5 share miner (Qi), 6 another new account
	fresh1 := wallet.Grind(uint64(seed)*7919+11, false, mininet.ZoneLoc).Addr
	fresh2 := wallet.Grind(uint64(seed)*7919+12, false, mininet.ZoneLoc).Addr
	for _, a := range []common.Address{e.Quai[0].Addr, fresh1, e.Qi[0].Addr, e.Quai[2].Addr, e.Qi[2].Addr, fresh2} {
		g.minerID(a)
	}
	g.wsMiners = []common.Address{fresh1, e.Quai[2].Addr, e.Qi[2].Addr, fresh2, e.Quai[2].Addr}
	g.RecvQuai, g.RecvQi = e.Quai[3].Addr, e.Qi[3].Addr
	g.claimKeys = e.Quai[4:10]
	for _, a := range []common.Address{e.Quai[0].Addr, fresh1, fresh2, e.Quai[2].Addr, g.RecvQuai} {
		g.trackedQ[ab(a)] = "account"
	}
	for _, k := range g.claimKeys {
		g.trackedQ[ab(k.Addr)] = "claim-sender"
	}
	for _, a := range []common.Address{e.Qi[0].Addr, e.Qi[2].Addr, g.RecvQi} {
		g.trackedQi[string(a.Bytes())] = "qi"
	}
	g.NoCodeC = wallet.Grind(uint64(seed)*7919+13, false, mininet.ZoneLoc).Addr
	s0 := g.snapshot()
	g.Blocks[0] = &BlockRec{ID: 0, Parent: -1, Snap: s0, Exp: copySnap(s0), ArriveHash: map[int]common.Hash{}}
	g.Events = append(g.Events, map[string]interface{}{"op": "tracereset"})
	plain := Profile{Layout: "plain"}
	g.mineWith(0, plain, mininet.Zone)
	g.mineWith(g.Head, plain, mininet.Prime)
	g.OwnerA = g.deployOwner(e.Quai[10], 0xA1)
	g.OwnerB = g.deployOwner(e.Quai[11], 0xB2)
	g.contractID[ab(g.OwnerA)], g.contractID[ab(g.OwnerB)], g.contractID[ab(g.NoCodeC)] = 7, 9, 8
	for i := 0; i < 5 && !(g.codeAt(g.OwnerA) && g.codeAt(g.OwnerB)); i++ {
		g.mineWith(g.Head, plain, mininet.Zone)
	}
	if !(g.codeAt(g.OwnerA) && g.codeAt(g.OwnerB)) {
		fatalf("lockup-owner contracts were not deployed")
	}
	g.hasCode[7], g.hasCode[9] = true, true

	if shape == nil {
		var tips []int // tips of abandoned branches
		for i := 0; i < steps; i++ {
			parent := g.Head
			switch x := g.R.Intn(20); {
			case x < 2 && g.Blocks[g.Head].H > 8: // fork one to three blocks below the head
				back := 1 + g.R.Intn(3)
				tips = append(tips, g.Head)
				for j := 0; j < back && g.Blocks[parent].Parent > 0; j++ {
					parent = g.Blocks[parent].Parent
				}
				g.Stats["forks"]++
			case x == 2 && len(tips) > 0: // back to an abandoned branch
				t := tips[len(tips)-1]
				tips = append(tips[:len(tips)-1], g.Head)
				g.setHead(t)
				parent = t
			}
			if parent == g.Head {
				g.maybeShares()
				g.submitClaims(false)
			}
			g.mineWith(parent, g.randomProfile(), orders[i%len(orders)])
		}
	} else {
		base := g.Head
		local := []int{base}
		for i, st := range shape {
			switch st.Op {
			case "mine":
				if st.P >= len(local) {
					fatalf("bad shape")
				}
				p := Profile{Miner: st.Miner, Byte: uint8(st.Byte), Layout: st.Layout}
				switch st.Contract {
				case 7:
					p.Contract = "A"
				case 8:
					p.Contract = "nocode"
				case 9:
					p.Contract = "B"
				}
				parent := local[st.P]
				if parent == g.Head {
					if len(st.Uncles) > 0 {
						w := g.injectShare(g.wsMiners[g.R.Intn(2)], []byte{0})
						if w != nil {
							g.Events = append(g.Events, map[string]interface{}{"op": "share", "id": w.ID, "miner": w.Miner, "number": int(w.Number), "byte": 0})
						}
					}
					if len(st.Claims) > 2 {
						g.submitClaims(true)
					}
				}
				local = append(local, g.mineWith(parent, p, orders[i%len(orders)]))
			case "sethead":
				if st.B < len(local) {
					g.setHead(local[st.B])
				}
			}
		}
	}
	// let the lockups run out and be claimed
	for i := 0; i < 12; i++ {
		g.submitClaims(i%3 == 0)
		g.mineWith(g.Head, Profile{Layout: "plain", Byte: uint8(i % 2)}, orders[i%len(orders)])
	}
	return g, ""
}

// setHead switches to an existing block and compares the node's state with the state recorded when that
// block was the head (a reorg across unlock heights must reproduce it exactly).
func (g *Engine) setHead(b int) {
	if err := g.S.SetHead(b); err != nil {
		g.problem("head-switch-failed", "to", b, "err", err)
		fatalf("sethead: %v", err)
	}
	g.Head = b
	g.Stats["head_switches"]++
	now := g.snapshot()
	was := g.Blocks[b].Snap
	ok := true
	for a, v := range was.Bal {
		if now.Bal[a] == nil || now.Bal[a].Cmp(v) != 0 {
			ok = false
			g.problem("balance-after-reorg-differs", "block", b, "account", g.trackedQ[a], "have", now.Bal[a], "want", v)
		}
	}
	if len(now.Locks) != len(was.Locks) {
		ok = false
	}
	for k, l := range was.Locks {
		n := now.Locks[k]
		if n == nil || n.Balance.Cmp(l.Balance) != 0 || n.Unlock != l.Unlock || n.Elements != l.Elements || !n.Delegate.Equal(l.Delegate) {
			ok = false
			have := "absent"
			if n != nil {
				have = fmt.Sprintf("bal=%s unlock=%d n=%d delegate=%x", n.Balance, n.Unlock, n.Elements, n.Delegate.Bytes()[:4])
			}
			class := "other"
			if n != nil && n.Balance.Cmp(l.Balance) == 0 && n.Unlock == l.Unlock && n.Elements == l.Elements {
				class = "delegate-only"
			}
			g.problem("lockup-record-after-reorg-differs", "block", b, "key", k[len(k)-8:], "class", class, "have", have,
				"want", fmt.Sprintf("bal=%s unlock=%d n=%d delegate=%x", l.Balance, l.Unlock, l.Elements, l.Delegate.Bytes()[:4]))
		}
	}
	if len(now.Utxo) != len(was.Utxo) {
		ok = false
		g.problem("qi-outputs-after-reorg-differ", "block", b, "have", len(now.Utxo), "want", len(was.Utxo))
	}
	g.Events = append(g.Events, map[string]interface{}{"op": "sethead", "b": b, "state_ok": ok})
}

func cmdRandom(args []string) {
	fs := flag.NewFlagSet("random", flag.ExitOnError)
	seed := fs.Int64("seed", 1, "")
	steps := fs.Int("steps", 40, "")
	nscen := fs.Int("n", 1, "number of scenarios")
	out := fs.String("out", "", "trace ndjson")
	bonus := fs.Bool("bonus", false, "compressed months/years so that the lockup bonus applies")
	shapes := fs.String("shapes", "", "ndjson: TLC-generated histories of spec/Lockup.tla")
	verbose := fs.Bool("v", false, "")
	fs.Parse(args)
	var shp [][]ShapeStep
	if *shapes != "" {
		f, err := os.Open(*shapes)
		if err != nil {
			fmt.Fprintln(os.Stderr, err)
			os.Exit(3)
		}
		sc := bufio.NewScanner(f)
		sc.Buffer(make([]byte, 1<<20), 1<<24)
		for sc.Scan() {
			var one []ShapeStep
			if err := json.Unmarshal(sc.Bytes(), &one); err != nil {
				fmt.Fprintln(os.Stderr, "bad shape:", err)
				os.Exit(3)
			}
			shp = append(shp, one)
		}
		f.Close()
		*nscen = len(shp)
	}
	driverErr := ""
	var all []map[string]interface{}
	var problems []Problem
	stats := map[string]int{}
	var samples []map[string]interface{}
	blocks := 0
	for si := 0; si < *nscen; si++ {
		var shape []ShapeStep
		if shp != nil {
			shape = shp[si]
		}
		g, derr := runScenario(*seed*1000+int64(si), si+1, *bonus && si%2 == 0 || (*bonus && shp != nil), *steps, shape, *verbose)
		if derr != "" {
			// the node stopped cooperating (own block rejected, ...): keep what was observed so far
			fmt.Fprintln(os.Stderr, "driver error:", derr)
			driverErr = derr
			if g == nil {
				os.Exit(3)
			}
		}
		if driverErr != "" && len(g.Problems) == 0 {
			os.Exit(3)
		}
		all = append(all, g.Events...)
		for _, p := range g.Problems {
			p.Info["scenario"] = fmt.Sprint(si)
			problems = append(problems, p)
		}
		for k, v := range g.Stats {
			stats[k] += v
		}
		blocks += len(g.S.Blocks) - 1
		if len(samples) < 5 {
			samples = append(samples, g.Samples...)
		}
		if driverErr != "" {
			break
		}
	}
	if *out != "" {
		w, err := os.Create(*out)
		if err != nil {
			fmt.Fprintln(os.Stderr, err)
			os.Exit(3)
		}
		bw := bufio.NewWriter(w)
		enc := json.NewEncoder(bw)
		for _, ev := range all {
			enc.Encode(ev)
		}
		bw.Flush()
		w.Close()
	}
	b, _ := json.Marshal(map[string]interface{}{"scenarios": *nscen, "events": len(all), "blocks": blocks, "problems": problems, "stats": stats, "samples": samples, "bonus": *bonus, "driver_error": driverErr})
	fmt.Println(string(b))
}

func main() {
	if len(os.Args) < 2 {
		fmt.Fprintln(os.Stderr, "usage: rewdrv probe|random ...")
		os.Exit(2)
	}
	switch os.Args[1] {
	case "probe":
		cmdProbe(os.Args[2:])
	case "random":
		cmdRandom(os.Args[2:])
	default:
		fmt.Fprintln(os.Stderr, "unknown subcommand")
		os.Exit(2)
	}
}
