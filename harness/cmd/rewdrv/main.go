package main

import (
	"fmt"
	"os"
)

func main() {
	if len(os.Args) < 2 {
		fmt.Fprintln(os.Stderr, "usage: rewdrv probe|random ...")
		os.Exit(2)
	}
	switch os.Args[1] {
	case "probe":
		cmdProbe(os.Args[2:])
	default:
		fmt.Fprintln(os.Stderr, "unknown subcommand")
		os.Exit(2)
	}
}
