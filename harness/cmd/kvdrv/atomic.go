package main

// atomic: KV.tla's BWrite is ONE step - there is no state in which some but not all operations of a committed batch are
// visible.  Sequential replay cannot see whether an engine honours that; this probe commits batches from one goroutine while
// others read through the same interface:
//   writer:   for g = 1..G: a batch that puts value g under every one of K keys; Write
//   reader A: v0 := Get(first key); vL := Get(last key)   -> vL >= v0   (whoever sees batch g at its first key sees all of it)
//   reader B: one iterator over the K keys                -> a single value (an iterator is a view of ONE database state)
// plus, after the writer has finished, Has/Get of every key = G.

import (
	"encoding/binary"
	"encoding/json"
	"flag"
	"fmt"
	"io"
	"sync"
	"sync/atomic"

	"github.com/dominant-strategies/go-quai/log"
)

func cmdAtomic(args []string) {
	fs := flag.NewFlagSet("atomic", flag.ExitOnError)
	dir := fs.String("dir", "", "scratch dir")
	nkeys := fs.Int("keys", 20000, "")
	rounds := fs.Int("rounds", 25, "")
	fs.Parse(args)
	log.Global.SetOutput(io.Discard)
	bes := openBackends(*dir, nil)
	type res struct {
		Backend   string `json:"backend"`
		PairReads int64  `json:"pair_reads"`
		IterReads int64  `json:"iter_reads"`
		TornPairs int64  `json:"torn_pairs"`
		TornIters int64  `json:"torn_iterators"`
		FinalBad  int    `json:"final_bad"`
		Example   string `json:"example,omitempty"`
	}
	var out []res
	for _, be := range bes {
		keys := make([][]byte, *nkeys)
		for i := range keys {
			keys[i] = []byte(fmt.Sprintf("atm%08d", i))
		}
		val := func(g uint64) []byte { b := make([]byte, 8); binary.BigEndian.PutUint64(b, g); return b }
		gen := func(b []byte) uint64 {
			if len(b) != 8 {
				return 0
			}
			return binary.BigEndian.Uint64(b)
		}
		// generation 0 committed before the readers start
		b0 := be.db.NewBatch()
		for _, k := range keys {
			b0.Put(k, val(0))
		}
		must(b0.Write())
		var r res
		r.Backend = be.name
		var done int32
		var mu sync.Mutex
		var wg sync.WaitGroup
		note := func(s string) {
			mu.Lock()
			if r.Example == "" {
				r.Example = s
			}
			mu.Unlock()
		}
		wg.Add(2)
		go func() { // reader A
			defer wg.Done()
			for atomic.LoadInt32(&done) == 0 {
				a, err1 := be.db.Get(keys[0])
				z, err2 := be.db.Get(keys[len(keys)-1])
				if err1 != nil || err2 != nil {
					continue
				}
				atomic.AddInt64(&r.PairReads, 1)
				if gen(z) < gen(a) {
					atomic.AddInt64(&r.TornPairs, 1)
					note(fmt.Sprintf("first key shows batch %d, last key (read afterwards) still %d", gen(a), gen(z)))
				}
			}
		}()
		go func() { // reader B
			defer wg.Done()
			for atomic.LoadInt32(&done) == 0 {
				it := be.db.NewIterator([]byte("atm"), nil)
				first, n, torn := uint64(0), 0, false
				for it.Next() {
					g := gen(it.Value())
					if n == 0 {
						first = g
					} else if g != first {
						torn = true
					}
					n++
				}
				it.Release()
				atomic.AddInt64(&r.IterReads, 1)
				if torn || n != len(keys) {
					atomic.AddInt64(&r.TornIters, 1)
					note(fmt.Sprintf("one iterator saw %d keys with mixed batch numbers (first %d)", n, first))
				}
			}
		}()
		for g := 1; g <= *rounds; g++ {
			b := be.db.NewBatch()
			for _, k := range keys {
				b.Put(k, val(uint64(g)))
			}
			must(b.Write())
		}
		atomic.StoreInt32(&done, 1)
		wg.Wait()
		for _, k := range keys {
			v, err := be.db.Get(k)
			if err != nil || gen(v) != uint64(*rounds) {
				r.FinalBad++
			}
		}
		for _, k := range keys {
			be.db.Delete(k)
		}
		out = append(out, r)
		be.close()
	}
	b, _ := json.Marshal(map[string]interface{}{"results": out, "keys": *nkeys, "rounds": *rounds})
	fmt.Println(string(b))
}
