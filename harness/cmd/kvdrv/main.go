// kvdrv binds spec/KV.tla to the real ethdb back-ends (C17).
//
//	kvdrv replay  -in behaviours.ndjson -out result.json [-values small|large] [-dir scratch]
//	    every behaviour (a JSON array of call records with the spec's expected result) is applied to
//	    leveldb, pebble, memorydb, table(memorydb) and table(leveldb); every observation is compared
//	    with the spec's expectation.
//	kvdrv random -seed S -n N -depth D -out traces.ndjson
//	    seeded random call sequences over a larger universe; each back-end's observations are logged
//	    one event per call for validation by spec/KVTrace.tla.
package main

import (
	"bufio"
	"bytes"
	"encoding/json"
	"flag"
	"fmt"
	"io"
	"math/rand"
	"os"
	"path/filepath"
	"reflect"
	"sort"
	"sync"

	"github.com/dominant-strategies/go-quai/common"
	"github.com/dominant-strategies/go-quai/core/rawdb"
	"github.com/dominant-strategies/go-quai/ethdb"
	"github.com/dominant-strategies/go-quai/ethdb/leveldb"
	"github.com/dominant-strategies/go-quai/ethdb/memorydb"
	"github.com/dominant-strategies/go-quai/ethdb/pebble"
	"github.com/dominant-strategies/go-quai/log"
)

type Call struct {
	Op  string        `json:"op"`
	B   int           `json:"b"`
	K   []int         `json:"k"`
	V   int           `json:"v"`
	P   []int         `json:"p"`
	S   []int         `json:"s"`
	T   int           `json:"t"`
	Res []interface{} `json:"res,omitempty"`
}

// order-preserving; 0x61/0x62 are adjacent so that an iterator upper bound computed from a prefix ending in 0xff has a live key just behind it
var symByte = map[int]byte{1: 0x00, 2: 0x61, 3: 0x62, 4: 0xff}
var byteSym = map[byte]int{0x00: 1, 0x61: 2, 0x62: 3, 0xff: 4}

func keyBytes(k []int) []byte {
	out := make([]byte, len(k))
	for i, s := range k {
		out[i] = symByte[s]
	}
	return out
}
func keySyms(b []byte) []interface{} {
	out := make([]interface{}, len(b))
	for i, c := range b {
		if s, ok := byteSym[c]; ok {
			out[i] = float64(s)
		} else {
			out[i] = float64(-int(c) - 100)
		}
	}
	return out
}

type valueMap struct {
	large bool
	cache map[int][]byte
}

func (vm *valueMap) bytes(v int) []byte {
	if v == 0 {
		return []byte{}
	}
	if b, ok := vm.cache[v]; ok {
		return b
	}
	var b []byte
	if !vm.large {
		b = []byte{byte(v)}
	} else {
		r := rand.New(rand.NewSource(int64(v) * 7919))
		b = make([]byte, 1+r.Intn(9000))
		r.Read(b)
		b[0] = byte(v)
	}
	vm.cache[v] = b
	return b
}
func (vm *valueMap) abstract(b []byte) float64 {
	if len(b) == 0 {
		return 0
	}
	v := int(b[0])
	if bytes.Equal(vm.bytes(v), b) {
		return float64(v)
	}
	return -99
}

type backend struct {
	name  string
	db    ethdb.Database
	close func()
}

func openBackends(dir string, only map[string]bool) []*backend {
	lg := log.Global
	var out []*backend
	add := func(name string, mk func() (ethdb.Database, func())) {
		if only != nil && !only[name] {
			return
		}
		db, cl := mk()
		out = append(out, &backend{name, db, cl})
	}
	add("leveldb", func() (ethdb.Database, func()) {
		d, err := leveldb.New(filepath.Join(dir, "ldb"), 16, 16, "", false, lg, common.Location{0, 0})
		must(err)
		return rawdb.NewDatabase(d), func() { d.Close() }
	})
	add("pebble", func() (ethdb.Database, func()) {
		d, err := pebble.New(filepath.Join(dir, "pdb"), 16, 16, "", false, lg, common.Location{0, 0})
		must(err)
		return rawdb.NewDatabase(d), func() { d.Close() }
	})
	add("memorydb", func() (ethdb.Database, func()) {
		return rawdb.NewDatabase(memorydb.New(lg)), func() {}
	})
	add("table-memorydb", func() (ethdb.Database, func()) {
		return rawdb.NewTable(rawdb.NewDatabase(memorydb.New(lg)), "tp-", common.Location{0, 0}, lg), func() {}
	})
	add("table-leveldb", func() (ethdb.Database, func()) {
		d, err := leveldb.New(filepath.Join(dir, "ldb2"), 16, 16, "", false, lg, common.Location{0, 0})
		must(err)
		// a neighbouring key outside the table prefix must never be visible through the table
		must(d.Put([]byte("tp"), []byte("outside-low")))
		must(d.Put([]byte("tp."), []byte("outside-high")))
		return rawdb.NewTable(rawdb.NewDatabase(d), "tp-", common.Location{0, 0}, lg), func() { d.Close() }
	})
	return out
}

func must(err error) {
	if err != nil {
		fmt.Fprintln(os.Stderr, "kvdrv fatal:", err)
		os.Exit(3)
	}
}

// session = one back-end executing one behaviour
type session struct {
	be      *backend
	vm      *valueMap
	batches map[int]ethdb.Batch
	touched map[string]bool
}

func (s *session) batch(b int) ethdb.Batch {
	if x, ok := s.batches[b]; ok {
		return x
	}
	x := s.be.db.NewBatch()
	s.batches[b] = x
	return x
}

func (s *session) do(c *Call) (res []interface{}) {
	defer func() {
		if r := recover(); r != nil {
			res = []interface{}{"panic", fmt.Sprint(r)}
		}
	}()
	errRes := func(err error) []interface{} { return []interface{}{"err", err.Error()} }
	ok := []interface{}{"ok"}
	k := keyBytes(c.K)
	switch c.Op {
	case "put":
		s.touched[string(k)] = true
		if err := s.be.db.Put(k, s.vm.bytes(c.V)); err != nil {
			return errRes(err)
		}
		return ok
	case "del":
		if err := s.be.db.Delete(k); err != nil {
			return errRes(err)
		}
		return ok
	case "get":
		v, err := s.be.db.Get(k)
		if err != nil {
			has, herr := s.be.db.Has(k)
			if herr == nil && !has {
				return []interface{}{"notfound"}
			}
			return errRes(err)
		}
		return []interface{}{"val", s.vm.abstract(v)}
	case "compact":
		if err := s.be.db.Compact(nil, nil); err != nil {
			return errRes(err)
		}
		return ok
	case "has":
		h, err := s.be.db.Has(k)
		if err != nil {
			return errRes(err)
		}
		return []interface{}{"has", h}
	case "iter":
		it := s.be.db.NewIterator(keyBytes(c.P), keyBytes(c.S))
		items := []interface{}{}
		for it.Next() {
			items = append(items, []interface{}{keySyms(it.Key()), s.vm.abstract(it.Value())})
			if len(items) > 1000 {
				break
			}
		}
		err := it.Error()
		it.Release()
		if err != nil {
			return errRes(err)
		}
		return []interface{}{"iter", items}
	case "bput":
		s.touched[string(k)] = true
		if err := s.batch(c.B).Put(k, s.vm.bytes(c.V)); err != nil {
			return errRes(err)
		}
		return ok
	case "bdel":
		if err := s.batch(c.B).Delete(k); err != nil {
			return errRes(err)
		}
		return ok
	case "setpending":
		s.batch(c.B).SetPending(c.V == 1)
		return ok
	case "getpending":
		del, v := s.batch(c.B).GetPending(k)
		if len(v) == 0 { // nil and empty are one observation (see KV.tla BGetPending)
			return []interface{}{"pend", del, float64(-1)}
		}
		return []interface{}{"pend", del, s.vm.abstract(v)}
	case "write":
		if err := s.batch(c.B).Write(); err != nil {
			return errRes(err)
		}
		return ok
	case "reset":
		s.batch(c.B).Reset()
		return ok
	case "size":
		return []interface{}{"size", float64(s.batch(c.B).ValueSize())}
	case "replay":
		var w ethdb.KeyValueWriter
		if c.T == 0 {
			w = s.be.db
		} else {
			w = s.batch(c.T)
		}
		for _, o := range replayKeys(s, c.B) {
			s.touched[o] = true
		}
		if err := s.batch(c.B).Replay(w); err != nil {
			return errRes(err)
		}
		return ok
	}
	return []interface{}{"unknown-op", c.Op}
}

// keys queued in a batch are not observable through the interface; the driver remembers all keys a
// behaviour ever mentions instead (cleanup only)
func replayKeys(s *session, b int) []string { return nil }

func (s *session) cleanup(all [][]byte) {
	for _, k := range all {
		s.be.db.Delete(k)
	}
}

func norm(x interface{}) interface{} {
	// JSON numbers are float64 on both sides; normalise nested slices
	b, _ := json.Marshal(x)
	var y interface{}
	json.Unmarshal(b, &y)
	return y
}

type Mismatch struct {
	Backend   string        `json:"backend"`
	Behaviour int           `json:"behaviour"`
	Step      int           `json:"step"`
	Call      Call          `json:"call"`
	Expected  interface{}   `json:"expected"`
	Got       interface{}   `json:"got"`
	Prefix    []Call        `json:"prefix"`
}

func universe(maxLen int) [][]byte {
	var out [][]byte
	var rec func(cur []int)
	rec = func(cur []int) {
		if len(cur) > 0 {
			out = append(out, keyBytes(cur))
		}
		if len(cur) == maxLen {
			return
		}
		for s := 1; s <= 4; s++ {
			rec(append(append([]int{}, cur...), s))
		}
	}
	rec(nil)
	return out
}

func cmdReplay(args []string) {
	fs := flag.NewFlagSet("replay", flag.ExitOnError)
	in := fs.String("in", "", "behaviours ndjson")
	out := fs.String("out", "", "result json")
	dir := fs.String("dir", "", "scratch dir for on-disk back-ends")
	values := fs.String("values", "small", "small|large")
	maxMis := fs.Int("maxmis", 50, "")
	fs.Parse(args)
	log.Global.SetOutput(io.Discard)
	bes := openBackends(*dir, nil)
	uni := universe(3)
	f, err := os.Open(*in)
	must(err)
	sc := bufio.NewScanner(f)
	sc.Buffer(make([]byte, 1<<20), 1<<26)
	type stat struct{ Behaviours, Calls, Mismatches int }
	stats := map[string]*stat{}
	for _, be := range bes {
		stats[be.name] = &stat{}
	}
	var behs [][]Call
	for sc.Scan() {
		var beh []Call
		if err := json.Unmarshal(sc.Bytes(), &beh); err != nil {
			must(fmt.Errorf("behaviour %d: %v", len(behs), err))
		}
		behs = append(behs, beh)
	}
	n := len(behs)
	opCount := map[string]int{}
	for _, beh := range behs {
		for _, c := range beh {
			opCount[c.Op]++
		}
	}
	var mu sync.Mutex
	var wg sync.WaitGroup
	var mism []Mismatch
	for _, be := range bes {
		wg.Add(1)
		go func(be *backend) {
			defer wg.Done()
			st := stats[be.name]
			for bi, beh := range behs {
				s := &session{be: be, vm: &valueMap{large: *values == "large", cache: map[int][]byte{}}, batches: map[int]ethdb.Batch{}, touched: map[string]bool{}}
				st.Behaviours++
				for i := range beh {
					c := beh[i]
					got := norm(s.do(&c))
					exp := norm(c.Res)
					st.Calls++
					if !reflect.DeepEqual(got, exp) {
						st.Mismatches++
						mu.Lock()
						if len(mism) < *maxMis {
							mism = append(mism, Mismatch{be.name, bi, i, c, exp, got, beh[:i]})
						}
						mu.Unlock()
						break // the rest of the behaviour is no longer meaningful for this back-end
					}
				}
				var ks [][]byte
				for _, c := range beh {
					if len(c.K) > 0 {
						ks = append(ks, keyBytes(c.K))
					}
				}
				s.cleanup(ks)
			}
		}(be)
	}
	wg.Wait()
	_ = uni
	for _, be := range bes {
		be.close()
	}
	res := map[string]interface{}{"behaviours": n, "backends": stats, "mismatches": mism, "ops": opCount}
	b, _ := json.MarshalIndent(res, "", " ")
	must(os.WriteFile(*out, b, 0o644))
}

// ---------------------------------------------------------------- random traces for KVTrace.tla

func cmdRandom(args []string) {
	fs := flag.NewFlagSet("random", flag.ExitOnError)
	seed := fs.Int64("seed", 1, "")
	n := fs.Int("n", 20, "traces")
	depth := fs.Int("depth", 40, "calls per trace")
	out := fs.String("out", "", "trace ndjson (events of all back-ends, separated by reset events)")
	dir := fs.String("dir", "", "scratch dir")
	values := fs.String("values", "small", "")
	nvals := fs.Int("nvals", 3, "")
	versions := fs.Int("versions", 0, "systematic write histories of this length on one key instead of random calls")
	fs.Parse(args)
	log.Global.SetOutput(io.Discard)
	bes := openBackends(*dir, nil)
	uni := universe(3)
	r := rand.New(rand.NewSource(*seed))
	w, err := os.Create(*out)
	must(err)
	bw := bufio.NewWriter(w)
	enc := json.NewEncoder(bw)
	hot := [][]int{{1}, {2, 3}, {2, 4, 4}}
	rk := func() []int { // keys of length 1..3; half of the time one of three hot keys (histories need several writes to ONE key)
		if r.Intn(2) == 0 {
			return append([]int{}, hot[r.Intn(len(hot))]...)
		}
		k := make([]int, 1+r.Intn(3))
		for i := range k {
			k[i] = 1 + r.Intn(4)
		}
		return k
	}
	rp := func() []int { // prefixes of length 0..2
		k := make([]int, r.Intn(3))
		for i := range k {
			k[i] = 1 + r.Intn(4)
		}
		return k
	}
	disagreements := 0
	total := 0
	// -versions L: instead of random calls, EVERY write history of length 1..L on one key (direct put of two values, direct
	// delete, and the same three through a batch: queue, write, reset), followed by a compaction and the observations get / has /
	// iterate: what the engine keeps internally about overwritten versions and tombstones must never show through the interface
	var plans [][]Call
	if *versions > 0 {
		key := []int{2, 3}
		mk := func(op string, b, v int) Call { return Call{Op: op, B: b, K: key, V: v, P: []int{}, S: []int{}} }
		nk := func(op string, b int) Call { return Call{Op: op, B: b, K: []int{}, P: []int{}, S: []int{}} }
		macros := [][]Call{
			{mk("put", 0, 0)}, {mk("put", 0, 1)}, {mk("del", 0, 0)},
			{mk("bput", 1, 0), nk("write", 1), nk("reset", 1)}, {mk("bput", 1, 1), nk("write", 1), nk("reset", 1)}, {mk("bdel", 1, 0), nk("write", 1), nk("reset", 1)},
		}
		obsv := []Call{nk("compact", 0), mk("get", 0, 0), mk("has", 0, 0), {Op: "iter", K: []int{}, P: []int{2}, S: []int{}}}
		var rec func(prefix []Call, left int)
		rec = func(prefix []Call, left int) {
			if len(prefix) > 0 {
				plans = append(plans, append(append([]Call{}, prefix...), obsv...))
			}
			if left == 0 {
				return
			}
			for _, m := range macros {
				rec(append(append([]Call{}, prefix...), m...), left-1)
			}
		}
		rec(nil, *versions)
		*n = len(plans)
	}
	for t := 0; t < *n; t++ {
		// generate the call sequence once, within the interface contract (mirrors the guards of KV.tla)
		written := map[int]bool{}
		qlen := map[int]int{}
		var calls []Call
		if plans != nil {
			calls = plans[t]
		}
		for plans == nil && len(calls) < *depth {
			c := Call{K: []int{}, P: []int{}, S: []int{}}
			b := 1 + r.Intn(2)
			switch x := r.Intn(20); {
			case x < 2:
				c.Op, c.K, c.V = "put", rk(), r.Intn(*nvals)
			case x < 3:
				c.Op, c.K = "del", rk()
			case x < 4:
				c.Op, c.K = "get", rk()
			case x < 5:
				c.Op, c.K = "has", rk()
				if r.Intn(3) == 0 {
					c = Call{Op: "compact", K: []int{}, P: []int{}, S: []int{}}
				}
			case x < 7:
				c.Op, c.P, c.S = "iter", rp(), rp()
			case x < 11:
				if written[b] {
					continue
				}
				c.Op, c.B, c.K, c.V = "bput", b, rk(), r.Intn(*nvals)
				qlen[b]++
			case x < 13:
				if written[b] {
					continue
				}
				c.Op, c.B, c.K = "bdel", b, rk()
				qlen[b]++
			case x < 14:
				if written[b] {
					continue
				}
				c.Op, c.B, c.V = "setpending", b, 1
				if r.Intn(4) == 0 {
					c.V = 0
				}
			case x < 16:
				c.Op, c.B, c.K = "getpending", b, rk()
			case x < 17:
				if written[b] {
					continue
				}
				c.Op, c.B = "write", b
				written[b] = true
			case x < 18:
				c.Op, c.B = "reset", b
				written[b] = false
				qlen[b] = 0
			case x < 19:
				if written[b] || qlen[b] != 0 {
					continue
				}
				c.Op, c.B = "size", b
			default:
				tgt := r.Intn(3)
				if tgt == b || (tgt != 0 && written[tgt]) { // the source may have been written already (replay after write)
					continue
				}
				c.Op, c.B, c.T = "replay", b, tgt
				if tgt != 0 {
					qlen[tgt] += qlen[b]
				}
			}
			calls = append(calls, c)
		}
		var ref [][]interface{}
		for bi, be := range bes {
			s := &session{be: be, vm: &valueMap{large: *values == "large", cache: map[int][]byte{}}, batches: map[int]ethdb.Batch{}, touched: map[string]bool{}}
			enc.Encode(map[string]interface{}{"op": "tracereset", "backend": be.name, "trace": t, "b": 0, "k": []int{}, "v": 0, "p": []int{}, "s": []int{}, "t": 0, "res": []interface{}{"init"}})
			for i := range calls {
				c := calls[i]
				res := s.do(&c)
				c.Res = res
				ev := map[string]interface{}{"op": c.Op, "b": c.B, "k": c.K, "v": c.V, "p": c.P, "s": c.S, "t": c.T, "res": res, "backend": be.name, "trace": t}
				enc.Encode(ev)
				total++
				if bi == 0 {
					ref = append(ref, res)
				} else if !reflect.DeepEqual(norm(res), norm(ref[i])) {
					disagreements++
				}
			}
			s.cleanup(uni)
		}
	}
	bw.Flush()
	w.Close()
	for _, be := range bes {
		be.close()
	}
	names := []string{}
	for _, be := range bes {
		names = append(names, be.name)
	}
	sort.Strings(names)
	b, _ := json.Marshal(map[string]interface{}{"traces": *n * len(bes), "events": total, "cross_backend_disagreements": disagreements, "backends": names})
	fmt.Println(string(b))
}

func main() {
	if len(os.Args) < 2 {
		fmt.Fprintln(os.Stderr, "usage: kvdrv replay|random ...")
		os.Exit(2)
	}
	switch os.Args[1] {
	case "replay":
		cmdReplay(os.Args[2:])
	case "random":
		cmdRandom(os.Args[2:])
	case "atomic":
		cmdAtomic(os.Args[2:])
	default:
		os.Exit(2)
	}
}
