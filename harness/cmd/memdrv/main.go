// memdrv binds spec/EvmMem.tla to the real go-quai EVM interpreter (C15, memory-metering half).
//
//	memdrv facts  -out facts.json
//	    vm.VerifJumpTableFacts() of the jump table the interpreter really uses, plus, for every
//	    opcode that has a memorySize function, a BEHAVIOURAL measurement of whether executing it
//	    charges at least the memory-expansion cost (chargesMem), obtained by running real programs.
//	memdrv run    -seed S -n N -out trace.ndjson -result result.json [-maxbytes B]
//	    directed programs for EVERY opcode with a memorySize function (zero size, offset-only,
//	    small, word-crossing, 1 KiB .. 16 MiB, uint64-overflowing operands; empty and non-empty
//	    memory; small and large gas budget) and N seeded random programs mixing memory opcodes,
//	    nested CALL*/CREATE2 frames, LOGn, *COPY, SHA3, ETX, RETURN/REVERT.  A vm.Tracer records per
//	    interpreter step the frame's Memory.Len() and gas; one ndjson event per step is written for
//	    spec/EvmMemTrace.tla and an independent oracle (the memory cost formula transcribed below,
//	    NOT vm.memoryGasCost) judges every step.
//	memdrv replay -in replay.json -result result.json [-out trace.ndjson]
//	    re-runs exactly the program stored in a replay object.
package main

import (
	"bufio"
	"encoding/hex"
	"encoding/json"
	"flag"
	"fmt"
	"io"
	"math/big"
	"math/rand"
	"os"
	"sort"
	"strings"
	"time"

	"github.com/dominant-strategies/go-quai/common"
	"github.com/dominant-strategies/go-quai/core"
	"github.com/dominant-strategies/go-quai/core/rawdb"
	"github.com/dominant-strategies/go-quai/core/state"
	"github.com/dominant-strategies/go-quai/core/vm"
	"github.com/dominant-strategies/go-quai/crypto"
	"github.com/dominant-strategies/go-quai/log"
	"github.com/dominant-strategies/go-quai/params"
)

// ---------------------------------------------------------------------------------------------
// The oracle: protocol formula for the total cost of holding w words of memory
// (yellow paper C_mem: G_memory*w + floor(w^2/512), G_memory = 3).  Transcribed, not imported.

func memCost(words uint64) uint64 { return 3*words + words*words/512 }

func wordsOf(bytes int) uint64 { return (uint64(bytes) + 31) / 32 }

// ---------------------------------------------------------------------------------------------
// Environment

var location = common.Location{0, 0}

var bigMiB = []uint64{64} // -bigmib: sizes of the oracle-only requests beyond 16 MiB

var logAll bool // -allsteps: write every interpreter step to the trace

const (
	originHex   = "0x000000000000000000000000000000000000a11c"
	contractHex = "0x00000000000000000000000000000000c0de0001"
	helperAHex  = "0x00000000000000000000000000000000c0de00a1"
	helperBHex  = "0x00000000000000000000000000000000c0de00b2"
	emptyHex    = "0x00000000000000000000000000000000c0de00e0" // existing account without code
	absentHex   = "0x00000000000000000000000000000000c0de00ff" // no such account
	externalHex = "0x01000000000000000000000000000000000000e7" // another zone: valid ETX destination
	blockNumber = 4000000                                      // > params.MaxCodeSizeForkHeight: PUSH0/TLOAD/TSTORE/MCOPY enabled
	primeTerm   = 10000000                                     // beyond every PrimeTerminusNumber fork gate
)

// Program is everything that determines one execution; it is the replay object.
type Program struct {
	Label   string            `json:"label"`
	Code    string            `json:"code"`              // hex, code of the called contract
	Helpers map[string]string `json:"helpers,omitempty"` // address -> code hex
	Access  []string          `json:"access,omitempty"`  // extra access-list addresses (CREATE2 targets)
	Input   string            `json:"input,omitempty"`   // hex call data
	Gas     uint64            `json:"gas"`
	Block   uint64            `json:"block"`
	Seed    int64             `json:"seed"`
	NoTrace bool              `json:"notrace,omitempty"` // numbers exceed TLC's 32-bit integers: judged by the driver's oracle only
}

type Event struct {
	Ev string `json:"ev"`           // tracereset | step | fault | traceend
	P  int    `json:"p"`            // program index
	Op string `json:"op,omitempty"` // opcode name
	D  int    `json:"d"`            // call depth (1 = transaction's top frame)
	Mb uint64 `json:"mb"`           // frame memory before the step, words
	Ma uint64 `json:"ma"`           // frame memory after interpreter.Run's resize, words
	Gb uint64 `json:"gb"`           // frame gas before the step
	Ga uint64 `json:"ga"`           // frame gas after constant+dynamic gas were charged
	Fg uint64 `json:"fg"`           // gas the frame was entered with
	Tg uint64 `json:"tg"`           // gas left in the top-level frame at this moment
	G  uint64 `json:"gas"`          // (tracereset) gas of the transaction's call
}

type Violation struct {
	Kind     string  `json:"kind"`
	Op       string  `json:"op"`
	Depth    int     `json:"depth"`
	MemFrom  uint64  `json:"mem_before_bytes"`
	MemTo    uint64  `json:"mem_after_bytes"`
	Paid     uint64  `json:"gas_charged_in_step"`
	Needed   uint64  `json:"expansion_cost"`
	Spent    uint64  `json:"frame_gas_spent"`
	HoldCost uint64  `json:"cost_of_memory_held"`
	Program  Program `json:"program"`
	Index    int     `json:"program_index"`
	Note     string  `json:"note,omitempty"`
}

type opStat struct {
	Steps    int    `json:"steps"`
	Grew     int    `json:"grew"`
	Faults   int    `json:"faults"`
	MaxWords uint64 `json:"max_words"`
}

type Result struct {
	Programs     int                  `json:"programs"`
	Directed     int                  `json:"directed_programs"`
	Random       int                  `json:"random_programs"`
	NoTrace      int                  `json:"programs_not_in_trace"`
	Steps        int                  `json:"steps"`
	LoggedSteps  int                  `json:"logged_steps"`
	LoggedBroken int                  `json:"logged_states_bound_broken"`
	LoggedFaults int                  `json:"logged_faults"`
	UnpaidTraced map[string]int       `json:"unpaid_growth_steps_in_trace"`
	Events       int                  `json:"events"`
	MaxDepth     int                  `json:"max_depth"`
	Frames       int                  `json:"frames"`
	Faults       int                  `json:"faults"`
	Panics       int                  `json:"panics"`
	PeakMemBytes uint64               `json:"peak_mem_bytes"`
	Classes      map[string]int       `json:"classes"` // "OP/grew|same/paid|unpaid" -> count
	PerOp        map[string]*opStat   `json:"per_op"`
	MemSizeOps   []string             `json:"memsize_ops"`
	NeverGrew    []string             `json:"memsize_ops_never_grew"`
	Violations   []Violation          `json:"violations"` // first per (kind, op)
	ViolationCnt map[string]int       `json:"violation_count"`
	Anomalies    []string             `json:"anomalies"`
	Samples      [][]Event            `json:"samples"`
	WorstUnpaid  map[string]Violation `json:"worst_unpaid,omitempty"`
	WallSeconds  float64              `json:"wall_s"`
	BoundBroken  int                  `json:"steps_with_memory_bound_broken"`
	TotalBroken  int                  `json:"steps_with_total_bound_broken"`
}

type frame struct {
	contract *vm.Contract
	entryGas uint64
	words    uint64
	spent    uint64 // entryGas - gas left, as of the frame's last step
	seen     bool   // a step of this frame has been logged
}

type tracer struct {
	prog     *Program
	idx      int
	facts    map[byte]*OpFact
	frames   []frame
	topGas   uint64
	events   []Event
	res      *Result
	culprits int // unpaid growth steps seen in this program
	log      bool
	all      bool   // log every step
	lastPc   uint64 // pc / code / depth of the last step seen (to attribute a panic in mem.Resize)
	lastCode []byte
	lastD    int
	lastGas  uint64
}

func (t *tracer) CaptureStart(env *vm.EVM, from common.Address, to common.Address, create bool, input []byte, gas uint64, value *big.Int) {
}
func (t *tracer) CaptureEnd(output []byte, gasUsed uint64, d time.Duration, err error) {}

func (t *tracer) anomaly(format string, a ...interface{}) {
	if len(t.res.Anomalies) < 50 {
		t.res.Anomalies = append(t.res.Anomalies, fmt.Sprintf("program %d (%s): ", t.idx, t.prog.Label)+fmt.Sprintf(format, a...))
	}
}

// align the shadow frame stack with the depth the interpreter reports
func (t *tracer) enter(depth int, scope *vm.ScopeContext, gas uint64) *frame {
	if depth < 1 || depth > len(t.frames)+1 {
		t.anomaly("depth jumped from %d to %d", len(t.frames), depth)
		for len(t.frames) < depth-1 {
			t.frames = append(t.frames, frame{})
		}
	}
	if depth <= len(t.frames) {
		t.frames = t.frames[:depth]
		if t.frames[depth-1].contract != scope.Contract {
			// a sibling frame started without a parent step in between: impossible in interpreter.Run
			t.anomaly("frame at depth %d replaced without a parent step", depth)
			t.frames[depth-1] = frame{contract: scope.Contract, entryGas: gas}
			t.res.Frames++
		}
	} else {
		t.frames = append(t.frames, frame{contract: scope.Contract, entryGas: gas})
		t.res.Frames++
		if depth > t.res.MaxDepth {
			t.res.MaxDepth = depth
		}
	}
	return &t.frames[depth-1]
}

func (t *tracer) topLeft() uint64 {
	if len(t.frames) > 0 && t.frames[0].contract != nil {
		return t.frames[0].contract.Gas
	}
	return t.topGas
}

func (t *tracer) CaptureState(env *vm.EVM, pc uint64, op vm.OpCode, gas, cost uint64, scope *vm.ScopeContext, rData []byte, depth int, err error, loc common.Location) {
	// NOTE: `cost` is not used: interpreter.Run accumulates it across steps in this fork.
	f := t.enter(depth, scope, gas)
	t.lastPc, t.lastCode, t.lastD, t.lastGas = pc, scope.Contract.Code, depth, scope.Contract.Gas
	memLen := scope.Memory.Len()
	if memLen%32 != 0 {
		t.anomaly("memory length %d is not a multiple of 32 at %s", memLen, op)
	}
	after := wordsOf(memLen)
	before := f.words
	ga := scope.Contract.Gas
	name := op.String()
	st := t.res.PerOp[name]
	if st == nil {
		st = &opStat{}
		t.res.PerOp[name] = st
	}
	if err != nil {
		// called from Run's deferred function: the step aborted BEFORE mem.Resize
		t.fault(name, depth, f, before, after, gas, ga)
		st.Faults++
		return
	}
	t.res.Steps++
	st.Steps++
	if ga > gas {
		t.anomaly("gas increased inside step %s: %d -> %d", name, gas, ga)
		ga = gas
	}
	if after < before {
		t.anomaly("memory shrank in step %s: %d -> %d words", name, before, after)
	}
	paid := gas - ga
	grew := after > before
	var needed uint64
	if grew {
		needed = memCost(after) - memCost(before)
		st.Grew++
		if after > st.MaxWords {
			st.MaxWords = after
		}
	}
	f.words = after
	if uint64(memLen) > t.res.PeakMemBytes {
		t.res.PeakMemBytes = uint64(memLen)
	}
	var spent uint64
	if f.entryGas >= ga {
		spent = f.entryGas - ga
	} else {
		t.anomaly("frame gas %d exceeds entry gas %d at %s", ga, f.entryGas, name)
	}
	unpaid := grew && paid < needed
	cls := name + "/" + map[bool]string{true: "grew", false: "same"}[grew] + "/" + map[bool]string{true: "unpaid", false: "paid"}[unpaid]
	if fa := t.facts[byte(op)]; fa != nil && (fa.HasMemSize || grew) {
		t.res.Classes[cls]++
	}
	mk := func(kind string) Violation {
		return Violation{Kind: kind, Op: name, Depth: depth, MemFrom: before * 32, MemTo: after * 32, Paid: paid, Needed: needed,
			Spent: spent, HoldCost: memCost(after), Program: *t.prog, Index: t.idx}
	}
	if unpaid {
		t.culprits++
		t.violation(mk("unpaid-memory"))
		if t.log {
			t.res.UnpaidTraced[name]++
		}
	}
	f.spent = spent
	// state form of the property: what a frame holds is covered by what that frame has spent
	if memCost(after) > spent && t.culprits == 0 {
		t.violation(mk("memory-bound"))
	}
	// all live frames together against the transaction's spending
	var sum uint64
	anyBroken := false
	for i := range t.frames {
		c := memCost(t.frames[i].words)
		sum += c
		if c > t.frames[i].spent {
			anyBroken = true
		}
	}
	if anyBroken {
		t.res.BoundBroken++
	}
	tl := t.topLeft()
	if t.topGas >= tl && sum > t.topGas-tl {
		t.res.TotalBroken++
		if t.culprits == 0 {
			t.violation(mk("memory-bound-total"))
		}
	}
	// the trace for TLC holds every step of an opcode with memorySize, every step that changed memory
	// (whatever the opcode) and the first step of every frame; all other steps are judged above only
	if fa := t.facts[byte(op)]; t.log && (t.all || !f.seen || after != before || fa == nil || fa.HasMemSize) {
		t.events = append(t.events, Event{Ev: "step", P: t.idx, Op: name, D: depth, Mb: before, Ma: after, Gb: gas, Ga: ga, Fg: f.entryGas, Tg: tl})
		t.res.LoggedSteps++
		if anyBroken {
			t.res.LoggedBroken++
		}
		f.seen = true
	}
}

func (t *tracer) fault(name string, depth int, f *frame, before, after, gas, ga uint64) {
	t.res.Faults++
	if after != before {
		t.anomaly("memory changed (%d -> %d words) in a step that failed (%s)", before, after, name)
		// growth in a step that consumed the whole frame is still paid by nothing in particular: judge it
		if after > before {
			t.culprits++
			t.violation(Violation{Kind: "unpaid-memory", Op: name, Depth: depth, MemFrom: before * 32, MemTo: after * 32,
				Needed: memCost(after) - memCost(before), Program: *t.prog, Index: t.idx})
		}
		f.words = after
	}
	if t.log {
		t.res.LoggedFaults++
		f.seen = true
		t.events = append(t.events, Event{Ev: "fault", P: t.idx, Op: name, D: depth, Mb: before, Ma: after, Gb: gas, Ga: ga, Fg: f.entryGas, Tg: t.topLeft()})
	}
}

func (t *tracer) CaptureFault(env *vm.EVM, pc uint64, op vm.OpCode, gas, cost uint64, scope *vm.ScopeContext, depth int, err error) {
	// error raised by operation.execute: the step itself was already logged by CaptureState
	if depth >= 1 && depth <= len(t.frames) {
		t.frames = t.frames[:depth]
		f := &t.frames[depth-1]
		after := wordsOf(scope.Memory.Len())
		name := op.String()
		if st := t.res.PerOp[name]; st != nil {
			st.Faults++
		}
		t.fault(name, depth, f, f.words, after, gas, scope.Contract.Gas)
	}
}

func (t *tracer) violation(v Violation) {
	key := v.Kind + "/" + v.Op
	t.res.ViolationCnt[key]++
	if t.res.ViolationCnt[key] == 1 {
		t.res.Violations = append(t.res.Violations, v)
	}
	if v.Kind == "unpaid-memory" {
		if w, ok := t.res.WorstUnpaid[v.Op]; !ok || v.MemTo > w.MemTo {
			t.res.WorstUnpaid[v.Op] = v
		}
	}
}

func mustAddr(h string) (common.Address, common.InternalAddress) {
	a := common.HexToAddress(h, location)
	ia, err := a.InternalAndQuaiAddress()
	if err != nil {
		fatal("address %s is not an in-scope Quai address: %v", h, err)
	}
	return a, ia
}

func unhex(s string) []byte {
	b, err := hex.DecodeString(strings.TrimPrefix(s, "0x"))
	if err != nil {
		fatal("bad hex: %v", err)
	}
	return b
}

func fatal(format string, a ...interface{}) {
	fmt.Fprintf(os.Stderr, "memdrv: "+format+"\n", a...)
	os.Exit(3)
}

// execute runs one program on a fresh state through evm.Call, exactly as core.StateTransition does
// for a transaction whose `to` is a contract (minus intrinsic gas / fee accounting).
func execute(p *Program, idx int, facts map[byte]*OpFact, res *Result, logEvents bool) (*tracer, uint64, error) {
	chainConfig := *params.TestChainConfig
	chainConfig.Location = location
	db := rawdb.NewMemoryDatabase(log.Global)
	statedb, err := state.New(common.Hash{}, common.Hash{}, new(big.Int), state.NewDatabase(db), state.NewDatabase(db), nil, location, log.Global)
	if err != nil {
		fatal("state.New: %v", err)
	}
	origin, originI := mustAddr(originHex)
	contract, contractI := mustAddr(contractHex)
	_, emptyI := mustAddr(emptyHex)
	statedb.CreateAccount(originI)
	statedb.AddBalance(originI, new(big.Int).Lsh(big.NewInt(1), 100))
	statedb.CreateAccount(contractI)
	statedb.AddBalance(contractI, new(big.Int).Lsh(big.NewInt(1), 100))
	statedb.SetNonce(contractI, 1)
	statedb.SetCode(contractI, unhex(p.Code))
	statedb.CreateAccount(emptyI)
	statedb.AddBalance(emptyI, big.NewInt(1))
	statedb.PrepareAccessList(origin, &contract, vm.ActivePrecompiles(chainConfig.Rules(big.NewInt(int64(p.Block))), location), nil, false)
	for _, h := range []string{emptyHex, absentHex, helperAHex, helperBHex} {
		statedb.AddAddressToAccessList(common.HexToAddress(h, location).Bytes20())
	}
	hk := make([]string, 0, len(p.Helpers))
	for h := range p.Helpers {
		hk = append(hk, h)
	}
	sort.Strings(hk)
	for _, h := range hk {
		a, ia := mustAddr(h)
		statedb.CreateAccount(ia)
		statedb.SetNonce(ia, 1)
		statedb.AddBalance(ia, new(big.Int).Lsh(big.NewInt(1), 80))
		statedb.SetCode(ia, unhex(p.Helpers[h]))
		statedb.AddAddressToAccessList(a.Bytes20())
	}
	for _, h := range p.Access {
		statedb.AddAddressToAccessList(common.HexToAddress(h, location).Bytes20())
	}
	logEvents = logEvents && !p.NoTrace
	tr := &tracer{prog: p, idx: idx, facts: facts, res: res, topGas: p.Gas, log: logEvents, all: logAll || strings.HasPrefix(p.Label, "probe-")}
	if logEvents {
		tr.events = append(tr.events, Event{Ev: "tracereset", P: idx, G: p.Gas})
	}
	blockCtx := vm.BlockContext{
		CanTransfer:         core.CanTransfer,
		Transfer:            core.Transfer,
		GetHash:             func(n uint64) common.Hash { return common.BytesToHash(crypto.Keccak256([]byte(fmt.Sprint(n)))) },
		CheckIfEtxEligible:  func(common.Hash, common.Location) bool { return true },
		PrimaryCoinbase:     origin,
		GasLimit:            p.Gas,
		BlockNumber:         new(big.Int).SetUint64(p.Block),
		Time:                big.NewInt(1700000000),
		Difficulty:          big.NewInt(1000000),
		BaseFee:             big.NewInt(1),
		QuaiStateSize:       new(big.Int),
		PrimeTerminusNumber: primeTerm,
	}
	txCtx := vm.TxContext{Origin: origin, GasPrice: big.NewInt(1), Hash: common.HexToHash("0x01")}
	evm := vm.NewEVM(blockCtx, txCtx, statedb, &chainConfig, vm.Config{Debug: true, Tracer: tr}, nil)
	res.Programs++
	var left uint64
	var cerr error
	func() {
		defer func() {
			if r := recover(); r != nil {
				tr.panicked(fmt.Sprint(r))
				cerr = fmt.Errorf("panic: %v", r)
			}
		}()
		_, left, _, cerr = evm.Call(vm.AccountRef(origin), contract, unhex(p.Input), p.Gas, new(big.Int))
	}()
	return tr, left, cerr
}

// panicked: the interpreter panicked.  Run's mem.Resize comes before CaptureState, so the step that
// panicked was not seen; in the straight-line programs generated here it is the instruction after
// the last one seen (the first instruction of the code when nothing was seen in that frame).
func (t *tracer) panicked(msg string) {
	name := "?"
	code, pc := t.lastCode, t.lastPc
	if code == nil {
		code = unhex(t.prog.Code)
	} else {
		o := vm.OpCode(code[pc])
		pc++
		if o >= vm.PUSH1 && o <= vm.PUSH32 {
			pc += uint64(o-vm.PUSH1) + 1
		}
		if callers[o] { // the child frame's first instruction is unknown here
			pc = uint64(len(code))
		}
	}
	if pc < uint64(len(code)) {
		name = vm.OpCode(code[pc]).String()
	}
	kind := "panic"
	if strings.Contains(msg, "makeslice") || strings.Contains(msg, "out of memory") || strings.Contains(msg, "out of range") {
		kind = "resize-panic" // make([]byte, n) in Memory.Resize with an n nobody paid for
	}
	t.res.Panics++
	t.violation(Violation{Kind: kind, Op: name, Depth: t.lastD, Paid: 0, Spent: t.topGas - t.topLeft(), Program: *t.prog, Index: t.idx, Note: msg})
}

// ---------------------------------------------------------------------------------------------
// Byte-code assembly

type asm struct{ b []byte }

func (a *asm) op(o vm.OpCode) *asm { a.b = append(a.b, byte(o)); return a }

// push the minimal PUSHn for v
func (a *asm) push(v uint64) *asm {
	var buf [8]byte
	n := 0
	for x := v; x > 0; x >>= 8 {
		n++
	}
	if n == 0 {
		n = 1
	}
	for i := 0; i < n; i++ {
		buf[n-1-i] = byte(v >> (8 * uint(i)))
	}
	a.b = append(a.b, byte(vm.PUSH1)+byte(n-1))
	a.b = append(a.b, buf[:n]...)
	return a
}

func (a *asm) pushBytes(v []byte) *asm {
	if len(v) == 0 || len(v) > 32 {
		fatal("pushBytes: %d bytes", len(v))
	}
	a.b = append(a.b, byte(vm.PUSH1)+byte(len(v)-1))
	a.b = append(a.b, v...)
	return a
}

func addrBytes(h string) []byte { return unhex(h) }

// operand layout of every opcode that declares a memorySize in the jump table: for each stack slot
// (index = position from the top, as in stack.Back(i)) what it means.
type slotKind int

const (
	sOff0   slotKind = iota // offset of region 0
	sLen0                   // length of region 0
	sOff1                   // offset of region 1
	sLen1                   // length of region 1
	sZero                   // 0
	sWord                   // arbitrary value
	sAddr                   // an address to call / copy from
	sGas                    // gas to forward
	sValue                  // value to transfer
	sSrc                    // MCOPY source offset
	sExt                    // out-of-zone address (ETX destination)
	sEtxGas                 // ETX gas limit
	sFee                    // ETX tip / fee cap
	sSalt
)

type layout struct {
	slots   []slotKind
	fixLen  uint64 // if >0: region 0 has no length operand, its length is this constant
	pushes  int    // results left on the stack
	ends    bool   // halts the frame
	regions int
}

var layouts = map[vm.OpCode]layout{
	vm.SHA3:           {slots: []slotKind{sOff0, sLen0}, pushes: 1, regions: 1},
	vm.CALLDATACOPY:   {slots: []slotKind{sOff0, sZero, sLen0}, regions: 1},
	vm.CODECOPY:       {slots: []slotKind{sOff0, sZero, sLen0}, regions: 1},
	vm.RETURNDATACOPY: {slots: []slotKind{sOff0, sZero, sLen0}, regions: 1},
	vm.EXTCODECOPY:    {slots: []slotKind{sAddr, sOff0, sZero, sLen0}, regions: 1},
	vm.MLOAD:          {slots: []slotKind{sOff0}, fixLen: 32, pushes: 1, regions: 1},
	vm.MSTORE:         {slots: []slotKind{sOff0, sWord}, fixLen: 32, regions: 1},
	vm.MSTORE8:        {slots: []slotKind{sOff0, sWord}, fixLen: 1, regions: 1},
	vm.MCOPY:          {slots: []slotKind{sOff0, sSrc, sLen0}, regions: 1},
	vm.LOG0:           {slots: []slotKind{sOff0, sLen0}, regions: 1},
	vm.LOG1:           {slots: []slotKind{sOff0, sLen0, sWord}, regions: 1},
	vm.LOG2:           {slots: []slotKind{sOff0, sLen0, sWord, sWord}, regions: 1},
	vm.LOG3:           {slots: []slotKind{sOff0, sLen0, sWord, sWord, sWord}, regions: 1},
	vm.LOG4:           {slots: []slotKind{sOff0, sLen0, sWord, sWord, sWord, sWord}, regions: 1},
	vm.CREATE:         {slots: []slotKind{sZero, sOff0, sLen0}, pushes: 1, regions: 1},
	vm.CREATE2:        {slots: []slotKind{sZero, sOff0, sLen0, sSalt}, pushes: 1, regions: 1},
	vm.CALL:           {slots: []slotKind{sGas, sAddr, sValue, sOff0, sLen0, sOff1, sLen1}, pushes: 1, regions: 2},
	vm.CALLCODE:       {slots: []slotKind{sGas, sAddr, sValue, sOff0, sLen0, sOff1, sLen1}, pushes: 1, regions: 2},
	vm.DELEGATECALL:   {slots: []slotKind{sGas, sAddr, sOff0, sLen0, sOff1, sLen1}, pushes: 1, regions: 2},
	vm.STATICCALL:     {slots: []slotKind{sGas, sAddr, sOff0, sLen0, sOff1, sLen1}, pushes: 1, regions: 2},
	vm.RETURN:         {slots: []slotKind{sOff0, sLen0}, ends: true, regions: 1},
	vm.REVERT:         {slots: []slotKind{sOff0, sLen0}, ends: true, regions: 1},
	vm.ETX:            {slots: []slotKind{sZero, sExt, sValue, sEtxGas, sFee, sFee, sOff0, sLen0, sOff1, sLen1}, pushes: 1, regions: 2},
}

var callers = map[vm.OpCode]bool{vm.CALL: true, vm.CALLCODE: true, vm.DELEGATECALL: true, vm.STATICCALL: true, vm.CREATE: true, vm.CREATE2: true}

type region struct{ off, ln uint64 }

type args struct {
	r      [2]region
	addr   string
	gas    uint64
	value  uint64
	src    uint64
	word   uint64
	etxGas uint64
	fee    uint64
	salt   []byte
	keep   bool // leave results on the stack (no POP)
}

// snippet: push the operands of `op` (deepest first), execute it, drop its results
func snippet(a *asm, op vm.OpCode, g args) {
	l, ok := layouts[op]
	if !ok {
		fatal("no operand layout for %s", op)
	}
	for i := len(l.slots) - 1; i >= 0; i-- {
		switch l.slots[i] {
		case sOff0:
			a.push(g.r[0].off)
		case sLen0:
			a.push(g.r[0].ln)
		case sOff1:
			a.push(g.r[1].off)
		case sLen1:
			a.push(g.r[1].ln)
		case sZero:
			a.push(0)
		case sWord:
			a.push(g.word)
		case sAddr:
			h := g.addr
			if h == "" {
				h = absentHex
			}
			a.pushBytes(addrBytes(h))
		case sGas:
			a.push(g.gas)
		case sValue:
			a.push(g.value)
		case sSrc:
			a.push(g.src)
		case sExt:
			a.pushBytes(addrBytes(externalHex))
		case sEtxGas:
			a.push(g.etxGas)
		case sFee:
			a.push(g.fee)
		case sSalt:
			if len(g.salt) > 0 {
				a.pushBytes(g.salt)
			} else {
				a.push(0)
			}
		}
	}
	a.op(op)
	if !g.keep {
		for i := 0; i < l.pushes; i++ {
			a.op(vm.POP)
		}
	}
}

// ---------------------------------------------------------------------------------------------
// Facts

type OpFact struct {
	Op         int    `json:"op"`
	Name       string `json:"name"`
	HasMemSize bool   `json:"hasMemSize"`
	HasDynGas  bool   `json:"hasDynGas"`
	ChargesMem bool   `json:"chargesMem"` // measured; false when !HasMemSize
	Calls      bool   `json:"calls"`
	MemSizeFn  string `json:"memSizeFn,omitempty"`
	DynGasFn   string `json:"dynGasFn,omitempty"`
	ForkGated  bool   `json:"forkGated,omitempty"`
	Writes     bool   `json:"writes,omitempty"`
	Probe      *Probe `json:"probe,omitempty"`
}

// Probe: the opcode asked for W1 resp. W2 words through a one-word region at the end, from empty memory
type Probe struct {
	W1, W2       uint64
	Grew1, Grew2 bool
	Paid1, Paid2 uint64 // gas charged in that step
	Cost1, Cost2 uint64 // memCost(W)
	Code2        string `json:"code_w2"`
	BigBytes     uint64 `json:"big_request_bytes,omitempty"` // for unmetered opcodes: a 64 MiB request under 100k gas
	BigMemLen    uint64 `json:"big_mem_len,omitempty"`
	BigGasUsed   uint64 `json:"big_gas_used,omitempty"`
	BigCode      string `json:"big_code,omitempty"`
	BigGas       uint64 `json:"big_gas,omitempty"`
}

func baseFacts() ([]*OpFact, map[byte]*OpFact) {
	var out []*OpFact
	m := map[byte]*OpFact{}
	for _, f := range vm.VerifJumpTableFacts() {
		o := &OpFact{Op: int(f.Op), Name: f.Name, HasMemSize: f.HasMemSize, HasDynGas: f.HasDynGas, MemSizeFn: f.MemSizeFn,
			DynGasFn: f.DynGasFn, ForkGated: f.ForkGated, Writes: f.Writes, Calls: callers[vm.OpCode(f.Op)]}
		out = append(out, o)
		m[f.Op] = o
	}
	return out, m
}

func endRegion(op vm.OpCode, words uint64) args {
	l := layouts[op]
	ln := uint64(32)
	if l.fixLen > 0 {
		ln = l.fixLen
	}
	g := stdArgs()
	g.r[0] = region{words*32 - ln, ln}
	return g
}

func stdArgs() args {
	return args{addr: absentHex, gas: 0, value: 0, word: 0xabcdef, etxGas: 21000, fee: 1}
}

func newResult() *Result {
	return &Result{Classes: map[string]int{}, PerOp: map[string]*opStat{}, ViolationCnt: map[string]int{}, UnpaidTraced: map[string]int{}, WorstUnpaid: map[string]Violation{}}
}

// first step event of `name` at depth 1
func firstStep(tr *tracer, name string) *Event {
	for i := range tr.events {
		if tr.events[i].Ev == "step" && tr.events[i].Op == name && tr.events[i].D == 1 {
			return &tr.events[i]
		}
	}
	return nil
}

func measureFacts() []*OpFact {
	list, byOp := baseFacts()
	for _, f := range list {
		if !f.HasMemSize {
			continue
		}
		op := vm.OpCode(f.Op)
		if _, ok := layouts[op]; !ok {
			fatal("opcode %s (0x%x) has a memorySize function but memdrv knows no operand layout for it: extend `layouts`", f.Name, f.Op)
		}
		pr := &Probe{W1: 1024, W2: 32768}
		pr.Cost1, pr.Cost2 = memCost(pr.W1), memCost(pr.W2)
		for i, w := range []uint64{pr.W1, pr.W2} {
			a := &asm{}
			snippet(a, op, endRegion(op, w))
			a.op(vm.STOP)
			p := &Program{Label: "probe-" + f.Name, Code: hex.EncodeToString(a.b), Gas: 1000000000, Block: blockNumber}
			tr, _, _ := execute(p, 0, byOp, newResult(), true)
			ev := firstStep(tr, f.Name)
			if ev == nil {
				continue
			}
			grew, paid := ev.Ma == w && ev.Mb == 0, ev.Gb-ev.Ga
			if i == 0 {
				pr.Grew1, pr.Paid1 = grew, paid
			} else {
				pr.Grew2, pr.Paid2 = grew, paid
				pr.Code2 = p.Code
			}
		}
		f.ChargesMem = pr.Grew1 && pr.Grew2 && pr.Paid1 >= pr.Cost1 && pr.Paid2 >= pr.Cost2 && pr.Paid2-pr.Paid1 >= pr.Cost2-pr.Cost1
		if pr.Grew2 && !f.ChargesMem {
			// how much memory for how little gas?  (not part of the TLC-validated trace: numbers exceed 2^31)
			a := &asm{}
			g := stdArgs()
			g.r[0] = region{0, 64 << 20}
			snippet(a, op, g)
			a.op(vm.STOP)
			p := &Program{Label: "big-" + f.Name, Code: hex.EncodeToString(a.b), Gas: 100000, Block: blockNumber}
			r := newResult()
			_, left, _ := execute(p, 0, byOp, r, false)
			pr.BigBytes, pr.BigMemLen, pr.BigGasUsed, pr.BigCode, pr.BigGas = 64<<20, r.PeakMemBytes, p.Gas-left, p.Code, p.Gas
		}
		f.Probe = pr
	}
	return list
}

// ---------------------------------------------------------------------------------------------
// Program generation

const maxReq = 16<<20 - 64 // largest region end ever requested (TLC integers: memCost must stay < 2^31)

var budgets = []uint64{100000, 1000000000}

func directed(list []*OpFact) []*Program {
	var out []*Program
	add := func(label string, a *asm, gas uint64) {
		out = append(out, &Program{Label: label, Code: hex.EncodeToString(a.b), Gas: gas, Block: blockNumber,
			Helpers: map[string]string{helperAHex: helperReturn64, helperBHex: helperRevertBig}, Input: strings.Repeat("a5", 100)})
	}
	type rv struct {
		name string
		r    region
	}
	big64 := ^uint64(0)
	for _, f := range list {
		if !f.HasMemSize {
			continue
		}
		op := vm.OpCode(f.Op)
		l := layouts[op]
		var vars []rv
		if l.fixLen == 0 {
			vars = []rv{
				{"zero", region{0, 0}}, {"offset-only", region{1 << 20, 0}}, {"offset-only-huge", region{big64, 0}},
				{"one-byte", region{0, 1}}, {"word", region{0, 32}}, {"cross", region{31, 2}}, {"33", region{0, 33}},
				{"1k-end", region{1024 - 32, 32}}, {"64k-end", region{65536 - 32, 32}}, {"1M-end", region{1<<20 - 32, 32}},
				{"1M-end1", region{1<<20 - 1, 1}}, {"16M-end", region{maxReq - 32, 32}},
				{"4k-span", region{0, 4096}}, {"1M-span", region{0, 1 << 20}}, {"16M-span", region{0, maxReq}},
				{"ovf-off", region{big64, 1}}, {"ovf-len", region{1, big64}}, {"ovf-sum", region{big64 - 10, 32}},
				{"len-2^63", region{0, 1 << 63}}, {"off-2^40", region{1 << 40, 0}},
			}
		} else {
			vars = []rv{
				{"0", region{0, 0}}, {"1", region{1, 0}}, {"31", region{31, 0}}, {"32", region{32, 0}},
				{"1k-end", region{1024 - l.fixLen, 0}}, {"64k-end", region{65536 - l.fixLen, 0}}, {"1M-end", region{1<<20 - l.fixLen, 0}},
				{"1M", region{1 << 20, 0}}, {"16M-end", region{maxReq - l.fixLen, 0}},
				{"ovf-off", region{big64, 0}}, {"ovf-sum", region{big64 - 10, 0}},
			}
		}
		for _, gas := range budgets {
			for _, v := range vars {
				if !f.ChargesMem && v.r.ln != 0 && v.r.off < 1<<62 && v.r.ln < 1<<62 && v.r.off+v.r.ln > maxReq {
					continue // nothing would stop the allocation: do not ask for terabytes (2^63 panics in makeslice without allocating)
				}
				for ri := 0; ri < l.regions; ri++ {
					for _, pre := range []bool{false, true} {
						if pre && gas != budgets[0] && (v.r.ln > 4096 || v.r.off > 1<<21) {
							continue // keep the expensive combinations few
						}
						a := &asm{}
						if pre { // non-empty memory first, so that growth is incremental
							snippet(a, vm.MSTORE, args{r: [2]region{{0x1000, 0}}, word: 7})
						}
						g := stdArgs()
						g.r[ri] = v.r
						if op == vm.CALL || op == vm.CALLCODE || op == vm.DELEGATECALL || op == vm.STATICCALL {
							g.addr, g.gas = helperAHex, 50000
						}
						if op == vm.EXTCODECOPY {
							g.addr = helperAHex
						}
						if op == vm.RETURNDATACOPY && v.r.ln <= 64 { // make return data available
							snippet(a, vm.STATICCALL, args{addr: helperAHex, gas: 30000})
						}
						snippet(a, op, g)
						if !l.ends { // again: no further growth, nothing to pay
							snippet(a, op, g)
							a.op(vm.MSIZE).op(vm.POP).op(vm.STOP)
						}
						add(fmt.Sprintf("dir/%s/%s/r%d/pre=%v/gas=%d", f.Name, v.name, ri, pre, gas), a, gas)
					}
				}
			}
			// both regions at once, second larger / smaller
			if l.regions == 2 {
				for _, pr := range [][2]region{{{0, 64}, {4096, 64}}, {{8192, 32}, {0, 32}}, {{0, 1 << 19}, {1 << 19, 1 << 19}}, {{1 << 20, 0}, {100, 5}}} {
					a := &asm{}
					g := stdArgs()
					g.r = pr
					g.addr, g.gas = helperBHex, 100000
					snippet(a, op, g)
					a.op(vm.MSIZE).op(vm.POP).op(vm.STOP)
					add(fmt.Sprintf("dir/%s/both/%d/gas=%d", f.Name, pr[1].off, gas), a, gas)
				}
			}
		}
	}
	// beyond 16 MiB (64 MiB, 256 MiB through a one-word region at the end) with enough gas to pay for it:
	// not part of the TLC trace (gas > 2^31), judged by the driver's oracle only
	for _, f := range list {
		if !f.HasMemSize {
			continue
		}
		op := vm.OpCode(f.Op)
		for _, mib := range bigMiB {
			a := &asm{}
			snippet(a, vm.MSTORE, args{r: [2]region{{0x1000, 0}}, word: 7})
			snippet(a, op, endRegion(op, mib<<20/32))
			a.op(vm.STOP)
			gas := memCost(mib<<20/32) + 10000000
			add(fmt.Sprintf("dir/%s/%dM-end-notrace/gas=%d", f.Name, mib, gas), a, gas)
			out[len(out)-1].NoTrace = true
		}
	}
	// recursion: the contract grows its memory, then calls itself with all gas; ~40 live frames under 1e9 gas
	for _, gas := range []uint64{1000000, 20000000} {
		a := &asm{}
		snippet(a, vm.MSTORE, args{r: [2]region{{40000, 0}}, word: 1})
		snippet(a, vm.CALL, args{addr: contractHex, gas: 0xffffffffffff, r: [2]region{{0, 64}, {50000, 64}}})
		snippet(a, vm.ETX, args{r: [2]region{{0, 1 << 16}, {0, 1 << 16}}, etxGas: 21000, fee: 1})
		a.op(vm.GAS)
		a.push(600000)
		a.op(vm.LT) // stop recursing when little gas is left: JUMPI over nothing is not needed, the CALL just fails
		a.op(vm.POP).op(vm.STOP)
		add(fmt.Sprintf("dir/recursion/gas=%d", gas), a, gas)
	}
	return out
}

// helper contracts: code built once
var helperReturn64, helperRevertBig string

func init() {
	a := &asm{}
	snippet(a, vm.MSTORE, args{r: [2]region{{0x400, 0}}, word: 0x1234})
	snippet(a, vm.RETURN, args{r: [2]region{{0x400 - 32, 64}}})
	helperReturn64 = hex.EncodeToString(a.b)
	b := &asm{}
	snippet(b, vm.MSTORE8, args{r: [2]region{{5000, 0}}, word: 1})
	snippet(b, vm.SHA3, args{r: [2]region{{0, 6000}}})
	snippet(b, vm.REVERT, args{r: [2]region{{100, 300}}})
	helperRevertBig = hex.EncodeToString(b.b)
}

type gen struct {
	r      *rand.Rand
	memOps []vm.OpCode
}

func (g *gen) size() uint64 {
	switch x := g.r.Intn(100); {
	case x < 10:
		return 0
	case x < 45:
		return uint64(g.r.Intn(200))
	case x < 75:
		return uint64(g.r.Intn(8192))
	case x < 90:
		return uint64(g.r.Intn(256 << 10))
	case x < 97:
		return uint64(g.r.Intn(2 << 20))
	default:
		return uint64(g.r.Intn(maxReq / 2))
	}
}

func (g *gen) region() region {
	off, ln := g.size(), g.size()
	if g.r.Intn(40) == 0 {
		off = ^uint64(0) - uint64(g.r.Intn(64)) // overflow path
	}
	if off < ^uint64(0)-1000 && off+ln > maxReq {
		ln = 0
	}
	return region{off, ln}
}

var fillers = []vm.OpCode{vm.JUMPDEST, vm.GAS, vm.MSIZE, vm.CALLVALUE, vm.ADDRESS, vm.PC, vm.CALLDATASIZE, vm.RETURNDATASIZE, vm.NUMBER}

// body emits n snippets; calls go to `targets`
func (g *gen) body(a *asm, n int, targets []string, salts map[string][]byte, allowEnd bool) {
	for i := 0; i < n; i++ {
		if g.r.Intn(5) == 0 {
			f := fillers[g.r.Intn(len(fillers))]
			a.op(f)
			if f != vm.JUMPDEST {
				a.op(vm.POP)
			}
			continue
		}
		if g.r.Intn(60) == 0 { // a fault: stack underflow / undefined opcode
			a.op([]vm.OpCode{vm.ADD, vm.OpCode(0x0c), vm.OpCode(0xef)}[g.r.Intn(3)])
			continue
		}
		op := g.memOps[g.r.Intn(len(g.memOps))]
		l := layouts[op]
		if l.ends && !(allowEnd && i == n-1) {
			op, l = vm.MSTORE, layouts[vm.MSTORE]
		}
		ar := stdArgs()
		ar.r[0] = g.region()
		if l.regions == 2 {
			ar.r[1] = g.region()
			if op == vm.ETX && ar.r[0].off < 1<<60 && ar.r[1].off < 1<<60 && ar.r[0].off+ar.r[0].ln+ar.r[1].off+ar.r[1].ln > maxReq {
				ar.r[1] = region{}
				if ar.r[0].off+ar.r[0].ln > maxReq {
					ar.r[0] = region{}
				}
			}
		}
		ar.src = g.size()
		if op == vm.MCOPY && ar.src+ar.r[0].ln > maxReq {
			ar.src = 0
		}
		ar.word = g.r.Uint64()
		ar.gas = []uint64{0, 2300, 40000, 1000000, 0xffffffffffff}[g.r.Intn(5)]
		if len(targets) > 0 && g.r.Intn(4) != 0 {
			ar.addr = targets[g.r.Intn(len(targets))]
		} else {
			ar.addr = []string{absentHex, emptyHex, emptyHex, "0x0000000000000000000000000000000000000004"}[g.r.Intn(4)]
		}
		if (op == vm.CALL || op == vm.CALLCODE || op == vm.ETX) && g.r.Intn(3) == 0 {
			ar.value = uint64(1 + g.r.Intn(1000))
		}
		if op == vm.ETX {
			ar.etxGas = []uint64{21000, 100000, 5}[g.r.Intn(3)]
			ar.fee = uint64(g.r.Intn(3))
		}
		if op == vm.CREATE2 && salts != nil && g.r.Intn(2) == 0 {
			// a prepared CREATE2: init code is written to memory first, salt ground by the driver
			for k, s := range salts {
				init := unhex(k)
				writeInit(a, init)
				ar.r[0] = region{0, uint64(len(init))}
				ar.salt = s
				break
			}
		}
		snippet(a, op, ar)
	}
}

// writeInit stores `code` at memory offset 0 (MSTOREs of 32-byte chunks)
func writeInit(a *asm, code []byte) {
	for i := 0; i < len(code); i += 32 {
		chunk := make([]byte, 32)
		copy(chunk, code[i:])
		a.pushBytes(chunk)
		a.push(uint64(i))
		a.op(vm.MSTORE)
	}
}

// grind a CREATE2 salt so that the child lands on an in-scope Quai address of this zone
func grindSalt(creator common.Address, init []byte) ([]byte, string, bool) {
	h := crypto.Keccak256(init)
	for i := 0; i < 200000; i++ {
		var salt [32]byte
		salt[31], salt[30], salt[29] = byte(i), byte(i>>8), byte(i>>16)
		addr := crypto.CreateAddress2(creator, salt, h, location)
		if _, err := addr.InternalAndQuaiAddress(); err == nil {
			s := salt[:]
			for len(s) > 1 && s[0] == 0 {
				s = s[1:]
			}
			return s, addr.Hex(), true
		}
	}
	return nil, "", false
}

func (g *gen) program(i int, seed int64) *Program {
	p := &Program{Label: fmt.Sprintf("rnd/%d", i), Block: blockNumber, Seed: seed, Helpers: map[string]string{}}
	p.Gas = []uint64{30000, 100000, 100000, 1000000, 30000000, 1000000000}[g.r.Intn(6)]
	if g.r.Intn(25) == 0 {
		p.Block = 1000 // before the PUSH0/MCOPY fork: those opcodes must fault, not resize
	}
	in := make([]byte, g.r.Intn(300))
	g.r.Read(in)
	p.Input = hex.EncodeToString(in)
	// helper B: leaf; helper A: may call B
	b := &asm{}
	g.body(b, 1+g.r.Intn(8), nil, nil, true)
	b.op(vm.STOP)
	p.Helpers[helperBHex] = hex.EncodeToString(b.b)
	a := &asm{}
	g.body(a, 1+g.r.Intn(8), []string{helperBHex}, nil, true)
	a.op(vm.STOP)
	p.Helpers[helperAHex] = hex.EncodeToString(a.b)
	// CREATE2 child: init code that uses memory and returns a little runtime code
	var salts map[string][]byte
	if g.r.Intn(3) == 0 {
		ic := &asm{}
		g.body(ic, 1+g.r.Intn(4), nil, nil, false)
		snippet(ic, vm.RETURN, args{r: [2]region{{0, uint64(g.r.Intn(40))}}})
		creator := common.HexToAddress(contractHex, location)
		if s, addr, ok := grindSalt(creator, ic.b); ok && len(ic.b) <= 640 {
			salts = map[string][]byte{hex.EncodeToString(ic.b): s}
			p.Access = append(p.Access, addr)
		}
	}
	m := &asm{}
	g.body(m, 3+g.r.Intn(22), []string{helperAHex, helperBHex}, salts, true)
	m.op(vm.STOP)
	p.Code = hex.EncodeToString(m.b)
	return p
}

// ---------------------------------------------------------------------------------------------
// Commands

func factMaps(list []*OpFact) map[byte]*OpFact {
	m := map[byte]*OpFact{}
	for _, f := range list {
		m[byte(f.Op)] = f
	}
	return m
}

func writeJSON(path string, v interface{}) {
	b, err := json.MarshalIndent(v, "", " ")
	if err != nil {
		fatal("%v", err)
	}
	if err := os.WriteFile(path, b, 0o644); err != nil {
		fatal("%v", err)
	}
}

type traceWriter struct {
	f *os.File
	w *bufio.Writer
	n int
}

func newTraceWriter(path string) *traceWriter {
	if path == "" {
		return nil
	}
	f, err := os.Create(path)
	if err != nil {
		fatal("%v", err)
	}
	return &traceWriter{f: f, w: bufio.NewWriterSize(f, 1<<20)}
}

func (t *traceWriter) write(evs []Event) {
	if t == nil {
		return
	}
	for i := range evs {
		e := &evs[i]
		switch e.Ev {
		case "tracereset":
			fmt.Fprintf(t.w, `{"ev":"tracereset","p":%d,"gas":%d}`+"\n", e.P, e.G)
		default:
			fmt.Fprintf(t.w, `{"ev":"%s","p":%d,"op":%q,"d":%d,"mb":%d,"ma":%d,"gb":%d,"ga":%d,"fg":%d,"tg":%d}`+"\n",
				e.Ev, e.P, e.Op, e.D, e.Mb, e.Ma, e.Gb, e.Ga, e.Fg, e.Tg)
		}
		t.n++
	}
}

func (t *traceWriter) close() int {
	if t == nil {
		return 0
	}
	fmt.Fprintf(t.w, `{"ev":"traceend","p":-1}`+"\n")
	t.n++
	t.w.Flush()
	t.f.Close()
	return t.n
}

func runPrograms(progs []*Program, facts map[byte]*OpFact, res *Result, tw *traceWriter, base int) {
	for i, p := range progs {
		tr, _, _ := execute(p, base+i, facts, res, tw != nil)
		if p.NoTrace {
			res.NoTrace++
		}
		tw.write(tr.events)
		if tw != nil && len(res.Samples) < 3 && len(tr.events) > 6 && (i%97 == 5 || strings.Contains(p.Label, "ETX/1M-end/r0/pre=false")) {
			n := len(tr.events)
			if n > 14 {
				n = 14
			}
			res.Samples = append(res.Samples, tr.events[:n])
		}
	}
}

func finish(res *Result, list []*OpFact, t0 time.Time) {
	for _, f := range list {
		if f.HasMemSize {
			res.MemSizeOps = append(res.MemSizeOps, f.Name)
			if st := res.PerOp[f.Name]; st == nil || st.Grew == 0 {
				res.NeverGrew = append(res.NeverGrew, f.Name)
			}
		}
	}
	res.WallSeconds = time.Since(t0).Seconds()
}

func main() {
	log.Global.SetOutput(io.Discard)
	vm.InitializePrecompiles(location)
	if len(os.Args) < 2 {
		fatal("usage: memdrv facts|run|replay ...")
	}
	fs := flag.NewFlagSet(os.Args[1], flag.ExitOnError)
	out := fs.String("out", "", "output file (facts.json / trace.ndjson)")
	result := fs.String("result", "", "result json")
	in := fs.String("in", "", "replay object")
	seed := fs.Int64("seed", 1, "seed")
	n := fs.Int("n", 300, "number of random programs")
	nodirected := fs.Bool("nodirected", false, "skip the directed per-opcode programs")
	fs.BoolVar(&logAll, "allsteps", false, "log every interpreter step (default: memorySize opcodes, memory changes, frame entries, faults)")
	big := fs.String("bigmib", "64", "comma separated MiB sizes for the oracle-only directed programs beyond 16 MiB")
	fs.Parse(os.Args[2:])
	bigMiB = nil
	for _, x := range strings.Split(*big, ",") {
		var v uint64
		if _, err := fmt.Sscan(x, &v); err == nil && v > 0 {
			bigMiB = append(bigMiB, v)
		}
	}
	t0 := time.Now()
	switch os.Args[1] {
	case "facts":
		list := measureFacts()
		writeJSON(*out, list)
	case "run":
		list := measureFacts()
		facts := factMaps(list)
		res := newResult()
		tw := newTraceWriter(*out)
		var dir []*Program
		if !*nodirected {
			dir = directed(list)
		}
		runPrograms(dir, facts, res, tw, 0)
		res.Directed = len(dir)
		g := &gen{r: rand.New(rand.NewSource(*seed))}
		for _, f := range list {
			if f.HasMemSize {
				g.memOps = append(g.memOps, vm.OpCode(f.Op))
				if vm.OpCode(f.Op) == vm.ETX || vm.OpCode(f.Op) == vm.MSTORE { // weight
					g.memOps = append(g.memOps, vm.OpCode(f.Op))
				}
			}
		}
		var rnd []*Program
		for i := 0; i < *n; i++ {
			rnd = append(rnd, g.program(i, *seed))
			if len(rnd) == 200 || i == *n-1 {
				runPrograms(rnd, facts, res, tw, res.Programs)
				res.Random += len(rnd)
				rnd = rnd[:0]
			}
		}
		res.Events = tw.close()
		finish(res, list, t0)
		writeJSON(*result, res)
	case "replay":
		var obj struct {
			Replay struct {
				Program Program `json:"program"`
			} `json:"replay"`
			Program *Program `json:"program"`
		}
		b, err := os.ReadFile(*in)
		if err != nil {
			fatal("%v", err)
		}
		if err := json.Unmarshal(b, &obj); err != nil {
			fatal("%v", err)
		}
		p := obj.Replay.Program
		if obj.Program != nil {
			p = *obj.Program
		}
		list := measureFacts()
		res := newResult()
		tw := newTraceWriter(*out)
		runPrograms([]*Program{&p}, factMaps(list), res, tw, 0)
		res.Events = tw.close()
		finish(res, list, t0)
		res.NeverGrew = nil
		writeJSON(*result, res)
	default:
		fatal("unknown command %s", os.Args[1])
	}
}
