package main

import (
	"fmt"
	"math/big"
	"os"

	"github.com/dominant-strategies/go-quai/core/rawdb"
	"github.com/dominant-strategies/go-quai/core/types"
	"github.com/dominant-strategies/go-quai/params"
	"verifharness/chain"
	"verifharness/mininet"
	"verifharness/wallet"
)

func check(e *chain.Env, tag string) {
	db := e.Net.DBs[2]
	st, err := chain.ScanState(db, mininet.ZoneLoc)
	if err != nil {
		panic(err)
	}
	root, size := st.Commitment()
	h := e.Net.ZoneCore().CurrentHeader()
	ok := root == h.UTXORoot() && size == rawdb.ReadUTXOSetSize(db, h.Hash())
	fmt.Printf("%s h=%d utxos=%d lockups=%d commitOK=%v txs=%d\n", tag, h.NumberU64(2), len(st.Utxos), len(st.Lockups), ok, len(e.Net.ZoneCore().GetBlockByHash(h.Hash()).Transactions()))
	if !ok {
		fmt.Println("  header root", h.UTXORoot(), "recomputed", root, "size hdr", rawdb.ReadUTXOSetSize(db, h.Hash()), "scan", size)
	}
}

func main() {
	chain.FastParams()
	e, err := chain.Boot(chain.EnvOptions{Net: mininet.Options{Quiet: os.Getenv("LOUD") == "", MinerPreference: 1}, Seed: 1})
	if err != nil {
		fmt.Println("boot:", err)
		os.Exit(1)
	}
	defer e.Net.Close()
	for i := 0; i < 30; i++ {
		if _, err := e.Net.MineOne(-1); err != nil {
			fmt.Println("mine", i, err)
			os.Exit(1)
		}
		check(e, "warm")
		sp, _ := e.Spendable(e.Qi[0])
		if len(sp) > 0 && i > 12 {
			break
		}
	}
	gp := func() *big.Int {
		ph, _ := e.Net.Pending()
		return new(big.Int).Mul(ph.BaseFee(), big.NewInt(2))
	}
	// Quai -> Qi conversion: plain transfer to an own-zone Qi address
	qiTo := e.Qi[1].Addr
	amt := new(big.Int).Mul(big.NewInt(50), big.NewInt(params.Ether))
	ctx, err := wallet.QuaiTx(e.Signer, e.ChainID, e.Quai[0], 0, &qiTo, amt, 200000, gp(), nil)
	if err != nil {
		panic(err)
	}
	fmt.Println("add conversion tx:", e.AddTx(ctx))
	to := e.Quai[1].Addr
	qtx, err := wallet.QuaiTx(e.Signer, e.ChainID, e.Quai[0], 1, &to, big.NewInt(12345), 30000, gp(), nil)
	if err != nil {
		panic(err)
	}
	fmt.Println("add quai tx:", e.AddTx(qtx))
	for i := 0; i < 16; i++ {
		if _, err := e.Net.MineOne(-1); err != nil {
			fmt.Println("mine", i, err)
			os.Exit(1)
		}
		check(e, "post")
	}
	sp, _ := e.Spendable(e.Qi[1])
	fmt.Println("spendable by Qi[1]", len(sp))
	for _, u := range sp {
		fmt.Println("  ", u.Key(), "denom", u.Denom, "lock", u.Lock)
	}
	if len(sp) > 0 {
		u := sp[0]
		for _, x := range sp {
			if x.Denom > u.Denom {
				u = x
			}
		}
		outs := []types.TxOut{{Denomination: u.Denom - 1, Address: e.Qi[2].Addr.Bytes()}, {Denomination: u.Denom - 1, Address: e.Qi[3].Addr.Bytes()}}
		tx, err := wallet.QiTx(e.Signer, e.ChainID, []wallet.In{{Out: types.OutPoint{TxHash: u.TxHash, Index: u.Index}, Key: e.Qi[1]}}, outs, nil, nil)
		if err != nil {
			panic(err)
		}
		fmt.Println("add qi tx:", e.AddTx(tx))
		for i := 0; i < 3; i++ {
			if _, err := e.Net.MineOne(-1); err != nil {
				fmt.Println("mine", i, err)
				os.Exit(1)
			}
			check(e, "postqi")
		}
	}
	st, _ := e.Net.ZoneCore().Processor().State()
	a1, _ := e.Quai[1].Addr.InternalAddress()
	fmt.Println("quai[1] balance", st.GetBalance(a1))
}
