package main

import (
	"fmt"
	"math/big"
	"os"
	"time"

	"github.com/dominant-strategies/go-quai/common"
	"github.com/dominant-strategies/go-quai/core/types"
	"github.com/dominant-strategies/go-quai/core/vm"
	"github.com/dominant-strategies/go-quai/params"
)

// The tracer turns the execution of a compiled abstract program into one event per specification action:
// marks placed by the compiler tell which abstract step an instruction belongs to; at the instruction after a step
// the real state (balances, ETX cache length, wrapped balances, lockup records) and the stack are read.

type rtFrame struct {
	depth   int
	script  *Script
	self    string
	pending *pendingOp
	lastOp  vm.OpCode
	fault   bool
	abort   bool // the fault is common.ErrExternalAddress handed up by a call opcode
	sdBenef string
}

type pendingOp struct {
	op      *Op
	hBefore int
	pre     Obs
	child   *rtFrame
	emitted bool
	amt     int64 // value operand actually on the stack (ETX / CONVERT)
}

type tracer struct {
	w        *World
	tx       *Tx
	prog     *Program
	env      *vm.EVM
	rt       []*rtFrame
	events   []*Step
	topSeen  bool
	topEnter bool
	topEnded *rtFrame
	byPtr    map[*byte]*Unit
	byCode   map[string]*Unit
	nSD      int
	abortOp  *Op // operation whose error is being handed up the frames
}

func newTracer(w *World, tx *Tx, prog *Program) *tracer {
	t := &tracer{w: w, tx: tx, prog: prog, byPtr: map[*byte]*Unit{}, byCode: map[string]*Unit{}}
	for _, u := range prog.units {
		t.byCode[string(u.code)] = u
	}
	return t
}

func (t *tracer) unit(code []byte) *Unit {
	if len(code) == 0 {
		return nil
	}
	if u, ok := t.byPtr[&code[0]]; ok {
		return u
	}
	u := t.byCode[string(code)]
	t.byPtr[&code[0]] = u
	return u
}

func (t *tracer) top() *rtFrame {
	if len(t.rt) == 0 {
		return nil
	}
	return t.rt[len(t.rt)-1]
}

func (t *tracer) frameAt(depth int) *rtFrame {
	if f := t.top(); f != nil && f.depth == depth {
		return f
	}
	return nil
}

func (t *tracer) unwindTo(depth int) {
	for {
		f := t.top()
		if f == nil || f.depth <= depth {
			return
		}
		t.rt = t.rt[:len(t.rt)-1]
		if p := t.top(); p != nil {
			if p.pending != nil {
				p.pending.child = f
			}
		} else {
			t.topEnded = f
		}
	}
}

func (t *tracer) emit(s *Step) {
	if s.C == nil {
		s.C = map[string]interface{}{"k": "-"}
	}
	if s.Out == nil {
		s.Out = []EtxView{}
	}
	if s.Dev == "" {
		s.Dev = "-"
	}
	s.Cmp = 1
	t.events = append(t.events, s)
}

func (t *tracer) obs(st, pu int64) Obs {
	o := t.w.observe(t.env, t.tx.Pf)
	o.St, o.Pu = st, pu
	return o
}

func (t *tracer) CaptureStart(env *vm.EVM, from common.Address, to common.Address, create bool, input []byte, gas uint64, value *big.Int) {
	t.env = env
	t.topSeen = true
	if create {
		t.w.addr["N"] = to
	}
	if t.tx.Pf > 0 { // ETX-cache index classes: the cache already holds Pf entries when the transaction body starts
		env.ETXCacheLock.Lock()
		for i := int64(0); i < t.tx.Pf; i++ {
			env.ETXCache = append(env.ETXCache, t.w.dummyEtx)
		}
		env.ETXCacheLock.Unlock()
	}
}

func (t *tracer) topEvent(enter bool) {
	y := t.tx.To
	k := t.tx.Kind
	if k == "create" {
		y = "N"
	}
	t.emit(&Step{A: "top", X: t.tx.Payer, Y: y, V: t.tx.V, C: map[string]interface{}{"k": k, "enter": enter}, Obs: t.obs(-1, -1)})
}

func (t *tracer) CaptureState(env *vm.EVM, pc uint64, op vm.OpCode, gas, cost uint64, scope *vm.ScopeContext, rData []byte, depth int, err error, _ common.Location) {
	if debugTrace {
		fmt.Fprintf(os.Stderr, "  state depth=%d pc=%d op=%s stack=%d err=%v self=%s\n", depth, pc, op, len(scope.Stack.Data()), err, t.w.nameOf(scope.Contract.Address()))
		if op == vm.CALL || op == vm.CALLCODE {
			d := scope.Stack.Data()
			fmt.Fprintf(os.Stderr, "    CALL gas=%s to=%x value=%s\n", d[len(d)-1].String(), d[len(d)-2].Bytes20(), d[len(d)-3].String())
		}
	}
	u := t.unit(scope.Contract.Code)
	if u == nil {
		return
	}
	t.unwindTo(depth)
	if err != nil { // the instruction did not execute: exceptional halt of this frame
		if f := t.frameAt(depth); f != nil {
			f.fault, f.lastOp = true, op
		}
		return
	}
	m := u.marks[pc]
	if m != nil && m.kind == markEntry {
		if m.script.isInit {
			t.w.addr["N"] = scope.Contract.Address()
		}
		self := t.w.nameOf(scope.Contract.Address())
		if p := t.top(); p != nil && p.pending != nil && !p.pending.emitted {
			o := p.pending.op
			y := o.Target
			if createOps[o.A] {
				y = "N"
			}
			t.emit(&Step{A: o.A, X: p.self, Y: y, V: o.V, C: map[string]interface{}{"k": o.A, "enter": true}, Obs: t.obs(-1, -1)})
			p.pending.emitted = true
		} else if p == nil && !t.topEnter {
			t.topEnter = true
			t.topEvent(true)
		}
		t.rt = append(t.rt, &rtFrame{depth: depth, script: m.script, self: self, lastOp: op})
		return
	}
	f := t.frameAt(depth)
	if f == nil {
		return
	}
	f.lastOp = op
	if m == nil {
		return
	}
	switch m.kind {
	case markOp:
		f.pending = &pendingOp{op: m.op, hBefore: len(scope.Stack.Data()), pre: t.obs(-1, -1), amt: m.op.Amt}
		if (op == vm.ETX || op == vm.CONVERT) && len(scope.Stack.Data()) >= 3 {
			d := scope.Stack.Data()
			f.pending.amt = valI64(d[len(d)-3].ToBig())
		}
		if op == vm.SELFDESTRUCT {
			d := scope.Stack.Data()
			b := d[len(d)-1].Bytes20()
			f.sdBenef = t.w.nameOf(common.Bytes20ToAddress(b, loc))
			t.nSD++
		}
	case markAfter:
		t.after(f, scope)
	}
}

func (t *tracer) CaptureFault(env *vm.EVM, pc uint64, op vm.OpCode, gas, cost uint64, scope *vm.ScopeContext, depth int, err error) {
	if debugTrace {
		fmt.Fprintf(os.Stderr, "  fault depth=%d pc=%d op=%s err=%v\n", depth, pc, op, err)
	}
	if t.unit(scope.Contract.Code) == nil {
		return
	}
	t.unwindTo(depth)
	if err == vm.ErrExecutionReverted { // REVERT is reported through CaptureFault as well
		return
	}
	if f := t.frameAt(depth); f != nil {
		f.fault, f.lastOp = true, op
		f.abort = err == common.ErrExternalAddress
		if f.abort && f.pending != nil && f.pending.child == nil {
			t.abortOp = f.pending.op
		}
	}
}

// the end of a frame unwound by an error handed up from a nested operation carries that operation's arguments
func (t *tracer) endStep(k, y string, f *rtFrame, o Obs) *Step {
	s := &Step{A: k, X: f.self, Y: y, Obs: o}
	if k == "abort" && t.abortOp != nil {
		a := t.abortOp
		s.Y, s.V = a.Dest, a.Amt
		s.C = map[string]interface{}{"k": a.A, "gl": a.Gl, "fee": a.Fee, "al": a.Al, "d": f.depth}
		t.abortOp = nil
	}
	return s
}

func (t *tracer) CaptureEnd(output []byte, gasUsed uint64, _ time.Duration, err error) {
	t.unwindTo(0)
	if !t.topEnter {
		t.topEvent(false)
		return
	}
	st := int64(1)
	if err != nil {
		st = 0
	}
	f := t.topEnded
	if f == nil {
		return
	}
	k, y := endKind(f, st)
	s := t.endStep(k, y, f, t.obs(st, 1))
	if err != nil {
		s.Note = err.Error()
		// the prefilled entries were appended after evm.Call took its snapshot (CaptureStart), so a failing top-level
		// frame truncates them as well; in the specification the prefill precedes the transaction
		if int64(len(t.env.ETXCache)) < t.tx.Pf {
			s.Obs.Netx += t.tx.Pf
		}
	}
	t.emit(s)
}

func endKind(f *rtFrame, st int64) (string, string) {
	if f.fault && f.abort {
		return "abort", "-"
	}
	if f.fault {
		return "fail", "-"
	}
	switch f.lastOp {
	case vm.STOP:
		return "stop", "-"
	case vm.REVERT:
		return "revert", "-"
	case vm.SELFDESTRUCT:
		return "sd", f.sdBenef
	case vm.RETURN:
		if f.script.isInit && st == 0 {
			return "retoog", "-"
		}
		if f.script.isInit {
			return "ret", "-"
		}
		return "stop", "-"
	}
	return "fail", "-"
}

var debugTrace = os.Getenv("EVMDRV_DEBUG") != ""

var pops = map[string]int{"pcall": 7, "call": 7, "ccall": 7, "dcall": 6, "scall": 6, "xfail": 7, "create": 3, "create2": 4, "ETX": 10, "CONVERT": 4, "UNWRAP": 7, "CLAIM": 7}

func (t *tracer) after(f *rtFrame, scope *vm.ScopeContext) {
	p := f.pending
	if p == nil {
		return
	}
	f.pending = nil
	d := scope.Stack.Data()
	h := len(d)
	pu := int64(h - (p.hBefore - pops[p.op.A]))
	st := int64(-1)
	if pu >= 1 && h > 0 {
		st = 1
		if d[h-1].IsZero() {
			st = 0
		}
	}
	if p.child != nil {
		k, y := endKind(p.child, st)
		t.emit(t.endStep(k, y, p.child, t.obs(st, pu)))
		return
	}
	if p.emitted {
		return
	}
	o := p.op
	switch o.A {
	case "pcall":
		t.emit(&Step{A: "pcall", X: f.self, Y: "P", V: o.V, C: map[string]interface{}{"k": "pcall", "oc": o.Gl, "enter": false}, Obs: t.obs(st, pu)})
	case "call", "dcall", "ccall", "scall", "create", "create2", "xfail":
		y := o.Target
		if createOps[o.A] {
			y = "N"
		}
		if o.A == "xfail" {
			y = o.Dest
		}
		a := o.A
		if a == "xfail" {
			a = "xcall-survived"
		}
		t.emit(&Step{A: a, X: f.self, Y: y, V: o.V, C: map[string]interface{}{"k": o.A, "enter": false}, Obs: t.obs(st, pu)})
	default:
		post := t.obs(st, pu)
		s := &Step{A: o.A, X: f.self, Y: o.Dest, V: p.amt,
			C: map[string]interface{}{"k": o.A, "gl": o.Gl, "fee": o.Fee, "al": o.Al}, Obs: post}
		var last *types.Transaction
		if post.Netx == p.pre.Netx+1 && len(t.env.ETXCache) > 0 {
			last = t.env.ETXCache[len(t.env.ETXCache)-1]
			v := t.w.etxView(last, o)
			s.Last = &v
		}
		s.Aon = t.w.allOrNothing(o, f.self, t.tx, p.pre, post, last)
		t.emit(s)
	}
}

func etxKind(e *types.Transaction, xsend bool) string {
	switch e.EtxType() {
	case types.DefaultType:
		if xsend {
			return "XCALL"
		}
		return "ETX"
	case types.ConversionType:
		if xsend {
			return "XCALL"
		}
		return "CONVERT"
	case types.CoinbaseLockupType:
		return "CLAIM"
	case types.UnwrapQiType:
		return "UNWRAP"
	}
	return "?"
}

func valI64(v *big.Int) int64 {
	if v.Cmp(maxU256) == 0 {
		return -1
	}
	return toI64(v)
}

// etxView projects a recorded ETX onto the fields the specification keeps; the destination is named by class
func (w *World) etxView(e *types.Transaction, o *Op) EtxView {
	v := EtxView{K: etxKind(e, o.A == "XCALL"), Val: valI64(e.Value()), Idx: int64(e.ETXIndex())}
	want := w.ext[o.Dest]
	if o.A == "CLAIM" {
		want = w.addrOf("E1")
	}
	if e.To() != nil && e.To().Equal(want) {
		v.To = o.Dest
	} else if e.To() != nil {
		v.To = w.nameOf(*e.To())
	} else {
		v.To = "nil"
	}
	return v
}

// allOrNothing evaluates C05's per-operation clause natively (math/big), independent of the specification:
// success <=> status 1, exactly one new ETX under the next free index, asset reduced by exactly value + fee;
// failure <=> status 0, no new ETX, asset unchanged; and exactly one status word in both cases.
func (w *World) allOrNothing(o *Op, self string, tx *Tx, pre, post Obs, last *types.Transaction) string {
	asset := func(ob Obs) *big.Int {
		switch o.A {
		case "UNWRAP":
			return big.NewInt(ob.Wq[self])
		case "CLAIM":
			if ob.Lk[self] == "unlocked" {
				return big.NewInt(w.lockVal)
			}
			return new(big.Int)
		}
		return big.NewInt(ob.Bal[self])
	}
	d := new(big.Int).Sub(asset(post), asset(pre))
	dn := post.Netx - pre.Netx
	if post.Pu != 1 {
		return "no-status-word"
	}
	switch post.St {
	case 1:
		if dn != 1 || last == nil {
			return "success-without-etx"
		}
		if int64(last.ETXIndex()) != pre.Netx {
			return "index-not-fresh"
		}
		fee := new(big.Int)
		switch o.A {
		case "ETX":
			if o.Fee == "one" {
				fee.Set(glValue(o.Gl))
			}
		case "CONVERT":
			fee.Mul(big.NewInt(tx.P), glValue(o.Gl))
		}
		want := new(big.Int).Neg(new(big.Int).Add(last.Value(), fee))
		if d.Cmp(want) != 0 {
			if new(big.Int).Neg(d).Cmp(new(big.Int).Add(last.Value(), fee)) < 0 {
				return "etx-carries-more-than-debited"
			}
			return "debit-differs-from-value-plus-fee"
		}
		return "ok"
	case 0:
		if dn != 0 {
			return "failure-with-etx"
		}
		if d.Sign() != 0 {
			return "debit-without-etx"
		}
		return "ok"
	}
	return "bad-status-word"
}

var _ = params.TxGas
