package main

import (
	"crypto/ecdsa"
	"crypto/sha256"
	"encoding/binary"
	"fmt"
	"io"
	"math/big"
	"sort"
	"strings"
	"sync"

	"github.com/dominant-strategies/go-quai/common"
	"github.com/dominant-strategies/go-quai/consensus"
	"github.com/dominant-strategies/go-quai/core"
	"github.com/dominant-strategies/go-quai/core/rawdb"
	"github.com/dominant-strategies/go-quai/core/state"
	"github.com/dominant-strategies/go-quai/core/types"
	"github.com/dominant-strategies/go-quai/core/vm"
	"github.com/dominant-strategies/go-quai/crypto"
	"github.com/dominant-strategies/go-quai/ethdb"
	"github.com/dominant-strategies/go-quai/log"
	"github.com/dominant-strategies/go-quai/params"
)

var loc = common.Location{0, 0}

const (
	stateSize    = 1000000 // QuaiStateSize of the parent block: makes the state-rent refund non-zero
	blockNumber  = 1000
	blockGasLim  = 12000000
	lockupByte   = byte(1)
	lockupEpoch  = uint32(0)
	precompileHex = "0x0000000000000000000000000000000000000007" // bn256ScalarMul of zone 0-0 (vm.InitializePrecompiles: location byte prefix + index)
	kQuaiAddrHex = "0x00640d82EF6552085e494DF2a2EAec18D8215913" // core/state_transition.go kQuaiSettingAddress
)

// fork heights are package variables of go-quai; the driver compresses them so that every regime is one
// prime-terminus number away
var regimePTN = map[string]uint64{"A": 50, "B": 150, "C": 205, "D": 300, "E": 405, "F": 500, "G": 700}

func setForks() {
	params.ControllerKickInBlock = 100
	params.KawPowForkBlock = 200
	params.KQuaiChangeHoldInterval = 20
	params.ShaEquivalentDifficultyForkBlock = 400
	params.SelfDestructRefundForkBlock = 600
}

// ---------------------------------------------------------------- chain context stub

type stubChain struct {
	parent   *types.WorkObject
	terminus *types.WorkObject
}

func (c *stubChain) Engine(*types.WorkObjectHeader) consensus.Engine               { return nil }
func (c *stubChain) GetHeaderOrCandidateByHash(common.Hash) *types.WorkObject      { return c.parent }
func (c *stubChain) NodeCtx() int                                                  { return common.ZONE_CTX }
func (c *stubChain) IsGenesisHash(common.Hash) bool                                { return false }
func (c *stubChain) GetHeaderByHash(common.Hash) *types.WorkObject                 { return c.terminus }
func (c *stubChain) GetBlockByHash(common.Hash) *types.WorkObject                  { return c.parent }
func (c *stubChain) CheckInCalcOrderCache(common.Hash) (*big.Int, int, bool)       { return nil, 0, false }
func (c *stubChain) AddToCalcOrderCache(common.Hash, int, *big.Int)                {}
func (c *stubChain) CalcBaseFee(*types.WorkObject) *big.Int                        { return big.NewInt(1) }
func (c *stubChain) CalcOrder(*types.WorkObject) (*big.Int, int, error)            { return big.NewInt(0), common.ZONE_CTX, nil }

// the deployed topology has a single zone; the stub makes zone {0,1} the only eligible destination
func (c *stubChain) CheckIfEtxIsEligible(_ common.Hash, to common.Location) bool {
	return to.Region() == 0 && to.Zone() == 1
}

// ---------------------------------------------------------------- world

type World struct {
	cfg      *params.ChainConfig
	diskdb   ethdb.Database
	statedb  *state.StateDB
	batch    ethdb.Batch
	names    []string
	addr     map[string]common.Address
	keys     map[string]*ecdsa.PrivateKey
	ext      map[string]common.Address
	lockup   common.Address
	miner    common.Address
	coinbase common.Address
	signer   types.Signer
	chain    *stubChain
	rent     *big.Int
	lockVal  int64
	dummyEtx *types.Transaction
	ntx      int
	noSalt   bool // leave the creation address to chance (exercises the grind-failure paths)
	logger   *log.Logger
}

var keyCache = map[string]*ecdsa.PrivateKey{}
var keyMu sync.Mutex

// deterministic key whose address lies in the Quai ledger of zone {0,0}
func eoaKey(name string) *ecdsa.PrivateKey {
	keyMu.Lock()
	defer keyMu.Unlock()
	if k, ok := keyCache[name]; ok {
		return k
	}
	for c := uint64(0); ; c++ {
		h := sha256.New()
		h.Write([]byte("verif-evmdrv-key/" + name + "/"))
		var b [8]byte
		binary.BigEndian.PutUint64(b[:], c)
		h.Write(b[:])
		k, err := crypto.ToECDSA(h.Sum(nil))
		if err != nil {
			continue
		}
		a := crypto.PubkeyToAddress(k.PublicKey, loc).Bytes()
		if a[0] == 0x00 && a[1] < 0x80 {
			keyCache[name] = k
			return k
		}
	}
}

func fixedAddr(b0, b1, last byte) common.Address {
	var a [20]byte
	a[0], a[1], a[19] = b0, b1, last
	a[10] = 0x5a
	return common.BytesToAddress(a[:], loc)
}

// newWorld builds the state a block starts from.  Coinbase-lockup records of the pre-state are COMMITTED in the
// database (written by earlier blocks), the block batch is empty with the pending view switched on: what
// StateProcessor.Process and the worker hand to the EVM.  lockInBatch stages them in the block batch instead (records
// created earlier in the same block).
func newWorld(pre *Pre) *World { return newWorldOpt(pre, false) }

func newWorldOpt(pre *Pre, lockInBatch bool) *World {
	lg := log.Global
	w := &World{addr: map[string]common.Address{}, keys: map[string]*ecdsa.PrivateKey{}, ext: map[string]common.Address{}, logger: lg}
	cc := *params.Blake3PowLocalChainConfig
	cc.Location = loc
	w.cfg = &cc
	w.lockup = vm.LockupContractAddresses[[2]byte{0, 0}]
	w.diskdb = rawdb.NewMemoryDatabase(lg)
	sdb := state.NewDatabase(w.diskdb)
	st, err := state.New(common.Hash{}, common.Hash{}, new(big.Int), sdb, state.NewDatabase(rawdb.NewMemoryDatabase(lg)), nil, loc, lg)
	must(err)
	w.statedb = st
	w.batch = w.diskdb.NewBatch()
	w.batch.SetPending(true)
	w.signer = types.NewSigner(w.cfg.ChainID, loc)
	w.miner = fixedAddr(0x00, 0x30, 0xaa)
	w.coinbase = fixedAddr(0x00, 0x31, 0xcb)
	w.ext["inscope"] = fixedAddr(0x00, 0x21, 0xd0)
	w.ext["elig"] = fixedAddr(0x01, 0x00, 0xe1)
	w.ext["inelig"] = fixedAddr(0x02, 0x00, 0xe2)
	w.ext["qiother"] = fixedAddr(0x01, 0x80, 0xe3)
	w.ext["qiown"] = fixedAddr(0x00, 0x80, 0xe4)
	for n := range pre.Bal {
		w.names = append(w.names, n)
	}
	sort.Strings(w.names)
	ki := byte(0)
	for _, n := range w.names {
		switch {
		case strings.HasPrefix(n, "E"):
			k := eoaKey(n)
			w.keys[n] = k
			w.addr[n] = crypto.PubkeyToAddress(k.PublicKey, loc)
		case strings.HasPrefix(n, "K"):
			ki++
			w.addr[n] = fixedAddr(0x00, 0x10, n[len(n)-1])
		case n == "Z":
			w.addr[n] = common.ZeroAddress(loc)
		case n == "F":
			w.addr[n] = fixedAddr(0x00, 0x20, 0xf1)
		case n == "Q":
			w.addr[n] = common.HexToAddress(kQuaiAddrHex, loc)
		case n == "P":
			w.addr[n] = common.HexToAddress(precompileHex, loc)
		case n == "N":
			// bound when a CREATE runs
		default:
			panic("unknown account name " + n)
		}
	}
	w.lockVal = pre.LockVal
	li, _ := w.lockup.InternalAndQuaiAddress()
	w.statedb.SetNonce(li, 1) // keeps the lockup contract's storage from being swept as an empty account
	for _, n := range w.names {
		if n == "N" {
			continue
		}
		ia := w.internal(n)
		if b := pre.Bal[n]; b != 0 {
			w.statedb.SetBalance(ia, big.NewInt(b))
		}
		if strings.HasPrefix(n, "K") {
			w.statedb.SetCode(ia, []byte{byte(vm.STOP)})
			w.statedb.SetNonce(ia, 1)
		}
		if v := pre.Wq[n]; v != 0 {
			w.statedb.SetState(li, common.BytesToHash(ia[:]), common.BigToHash(big.NewInt(v)))
		}
		var lockDst ethdb.KeyValueWriter = w.diskdb
		if lockInBatch {
			lockDst = w.batch
		}
		switch pre.Lk[n] {
		case "unlocked":
			_, err := rawdb.WriteCoinbaseLockup(lockDst, w.addr[n], w.miner, lockupByte, lockupEpoch, big.NewInt(pre.LockVal), 1, 1, common.Zero)
			must(err)
		case "locked":
			_, err := rawdb.WriteCoinbaseLockup(lockDst, w.addr[n], w.miner, lockupByte, lockupEpoch, big.NewInt(pre.LockVal), blockNumber+1000, 1, common.Zero)
			must(err)
		}
	}
	w.statedb.Finalize(false)
	w.rent = rentValue()
	to := w.ext["elig"]
	w.dummyEtx = types.NewTx(&types.ExternalTx{To: &to, Value: new(big.Int), Sender: w.coinbase, Gas: 0})
	w.chain = &stubChain{}
	return w
}

func (w *World) addrOf(n string) common.Address {
	a, ok := w.addr[n]
	if !ok {
		if n == "N" {
			return fixedAddr(0x00, 0x22, 0x99) // not created (yet): an address nobody uses
		}
		panic("no address for " + n)
	}
	return a
}

func (w *World) internal(n string) common.InternalAddress {
	ia, err := w.addrOf(n).InternalAndQuaiAddress()
	must(err)
	return ia
}

func (w *World) nameOf(a common.Address) string {
	for n, x := range w.addr {
		if x.Equal(a) {
			return n
		}
	}
	for n, x := range w.ext {
		if x.Equal(a) {
			return n
		}
	}
	if a.Equal(w.lockup) {
		return "L"
	}
	return "?" + a.Hex()
}

// toI64 maps an amount into the range the trace universe uses (TLC integers are 32 bit); anything beyond it
// can only be the product of a defect and is clamped so that it still differs from every specified value
func toI64(b *big.Int) int64 {
	const lim = 1 << 30
	if b.IsInt64() && b.Int64() > -lim && b.Int64() < lim {
		return b.Int64()
	}
	if b.Sign() < 0 {
		return -lim
	}
	return lim
}

// observe reads everything the specification's observation contains from the real state
func (w *World) observe(env *vm.EVM, pf int64) Obs {
	o := Obs{Bal: map[string]int64{}, Wq: map[string]int64{}, Lk: map[string]string{}, St: -1, Pu: -1}
	li, _ := w.lockup.InternalAndQuaiAddress()
	for _, n := range w.names {
		if _, bound := w.addr[n]; !bound {
			o.Bal[n], o.Wq[n], o.Lk[n] = 0, 0, "none"
			continue
		}
		ia := w.internal(n)
		o.Bal[n] = toI64(w.statedb.GetBalance(ia))
		o.Wq[n] = toI64(w.statedb.GetState(li, common.BytesToHash(ia[:])).Big())
		tranche := w.lockupHeight(n)
		switch {
		case tranche == 0:
			o.Lk[n] = "none"
		case tranche > blockNumber:
			o.Lk[n] = "locked"
		default:
			o.Lk[n] = "unlocked"
		}
	}
	if env != nil {
		o.Netx = int64(len(env.ETXCache))
	} else {
		o.Netx = pf
	}
	return o
}

// lockupHeight reads the unlock height of n's lockup record as the block sees it: the pending view of the block batch
// (a delete there hides the committed record) over the database.  Literal transcription of the record layout
// (32 bytes amount | 4 bytes unlock height | 2 bytes elements [| 20 bytes delegate]); 0 = no record.
// (rawdb.ReadCoinbaseLockup, the function ClaimCoinbaseLockup relies on, is deliberately not used.)
func (w *World) lockupHeight(n string) uint32 {
	key := rawdb.CoinbaseLockupKey(w.addr[n], w.miner, lockupByte, lockupEpoch)
	deleted, data := w.batch.GetPending(key)
	if deleted {
		return 0
	}
	if data == nil {
		data, _ = w.diskdb.Get(key)
	}
	if len(data) < 38 {
		return 0
	}
	return binary.BigEndian.Uint32(data[32:36])
}

// total of every balance in the state trie (catches value sitting on an account outside the universe)
type sumCollector struct {
	sum *big.Int
	n   int
}

func (c *sumCollector) OnRoot(common.Hash) {}
func (c *sumCollector) OnAccount(_ common.InternalAddress, a state.DumpAccount) {
	b, ok := new(big.Int).SetString(a.Balance, 10)
	if ok {
		c.sum.Add(c.sum, b)
	}
	c.n++
}

func (w *World) trieTotal() (*big.Int, int) {
	w.statedb.IntermediateRoot(true)
	c := &sumCollector{sum: new(big.Int)}
	w.statedb.DumpToCollector(c, &state.DumpConfig{SkipCode: true, SkipStorage: true, OnlyWithAddresses: false})
	return c.sum, c.n
}

func (w *World) universeTotal() *big.Int {
	s := new(big.Int)
	seen := map[common.InternalAddress]bool{}
	add := func(a common.Address) {
		ia, err := a.InternalAndQuaiAddress()
		if err != nil || seen[ia] {
			return
		}
		seen[ia] = true
		s.Add(s, w.statedb.GetBalance(ia))
	}
	for _, n := range w.names {
		if a, ok := w.addr[n]; ok {
			add(a)
		}
	}
	add(w.lockup)
	add(w.coinbase)
	add(w.miner)
	add(w.ext["inscope"])
	return s
}

func (w *World) header(rg string) (*types.WorkObject, *types.WorkObject) {
	ptn, ok := regimePTN[rg]
	if !ok {
		panic("unknown regime " + rg)
	}
	parent := types.EmptyWorkObject(common.ZONE_CTX)
	parent.WorkObjectHeader().SetNumber(big.NewInt(blockNumber - 1))
	parent.WorkObjectHeader().SetLocation(loc)
	parent.Header().SetQuaiStateSize(big.NewInt(stateSize))
	parent.Header().SetBaseFee(big.NewInt(1))
	h := types.EmptyWorkObject(common.ZONE_CTX)
	h.WorkObjectHeader().SetNumber(big.NewInt(blockNumber))
	h.WorkObjectHeader().SetLocation(loc)
	h.WorkObjectHeader().SetPrimeTerminusNumber(new(big.Int).SetUint64(ptn))
	h.WorkObjectHeader().SetPrimaryCoinbase(w.coinbase)
	h.WorkObjectHeader().SetDifficulty(big.NewInt(1000))
	h.WorkObjectHeader().SetTime(1700000000)
	h.Header().SetBaseFee(big.NewInt(1))
	h.Header().SetGasLimit(blockGasLim)
	h.Header().SetQuaiStateSize(new(big.Int))
	w.chain.parent = parent
	w.chain.terminus = parent
	return h, parent
}

// BaseFee (1) x CallNewAccountGas(state size): the protocol formula of the state-rent refund
func rentValue() *big.Int {
	return new(big.Int).Mul(big.NewInt(1), new(big.Int).SetUint64(params.CallNewAccountGas(big.NewInt(stateSize))))
}

func must(err error) {
	if err != nil {
		panic(fmt.Sprintf("evmdrv: %v", err))
	}
}

var _ core.ChainContext = (*stubChain)(nil)
var _ = io.Discard
