package main

import (
	"bufio"
	"sync"
	"sync/atomic"
	"encoding/json"
	"flag"
	"fmt"
	"math/rand"
	"os"
)

const U = 1000000

type gen struct {
	r        *rand.Rand
	maxDepth int
	maxOps   int
	created  bool
	minconv  int64
	accts    []string // call targets / beneficiaries (never "N")
	hosts    map[string]bool
}

func (g *gen) pick(xs ...string) string { return xs[g.r.Intn(len(xs))] }

func (g *gen) value() int64 {
	switch g.r.Intn(8) {
	case 0, 1, 2:
		return 0
	case 3:
		return 1
	case 4:
		return int64(g.r.Intn(3*U) + 1)
	case 5:
		return U
	case 6:
		return 2 * U
	}
	return 400 * U // more than anybody owns
}

// static: a read-only context: ETX / CONVERT there are write-protection halts (see wpEnd); the lockup contract is
// reachable (zero-value CALL) and must refuse
func (g *gen) sendOp(self string, static bool) *Op {
	o := &Op{Fee: "zero", Al: "empty", Gl: "ok"}
	x := g.r.Intn(100)
	if static {
		x = 75 + g.r.Intn(25)
	}
	switch {
	case x < 45:
		o.A = "ETX"
		o.Dest = g.pick("elig", "elig", "elig", "inelig", "inelig", "qiother", "inscope", "qiown")
		o.Gl = g.pick("ok", "ok", "ok", "ok", "lt", "gt64")
		o.Fee = g.pick("zero", "one", "one", "ovf")
		o.Al = g.pick("empty", "good", "good", "bad")
	case x < 75:
		o.A = "CONVERT"
		o.Dest = g.pick("qiown", "qiown", "qiown", "qiown", "inscope", "elig", "qiother")
		o.Gl = g.pick("ok", "ok", "ok", "lt", "gt64")
	case x < 90:
		o.A = "UNWRAP"
		o.Dest = g.pick("qiown", "qiown", "qiown", "elig", "inscope", "qiother")
		o.Gl = g.pick("ok", "ok", "ok", "gtavail")
	default:
		o.A = "CLAIM"
		o.Dest = "elig"
		o.Gl = g.pick("ok", "ok", "ok", "gtavail")
		o.Al = g.pick("match", "match", "match", "mismatch")
		return o
	}
	switch g.r.Intn(10) {
	case 0:
		o.Amt = 0
	case 1:
		o.Amt = g.minconv - 1
	case 2:
		o.Amt = g.minconv
	case 3:
		o.Amt = -1 // 2^256-1
	case 4:
		if o.A != "UNWRAP" {
			o.AmtMode = "bal"
		} else {
			o.Amt = U
		}
	case 5:
		if o.A != "UNWRAP" {
			o.AmtMode = "balp1"
		} else {
			o.Amt = 5 * U
		}
	case 6:
		o.Amt = 1
	default:
		o.Amt = int64(g.r.Intn(4*U) + 1)
	}
	return o
}

// self: the executing address (the host, except below DELEGATECALL / CALLCODE); static: read-only context
func (g *gen) script(host, self string, depth int, isInit, static bool) *Script {
	s := &Script{host: host, self: self, isInit: isInit, static: static}
	n := 0
	if depth <= g.maxDepth {
		n = g.r.Intn(g.maxOps + 1)
	}
	for i := 0; i < n; i++ {
		switch x := g.r.Intn(100); {
		case x < 45:
			t := g.accts[g.r.Intn(len(g.accts))]
			if g.r.Intn(3) == 0 {
				t = g.pick("K1", "K2", "K3")
			}
			o := &Op{A: "call", Target: t, V: g.value()}
			if g.r.Intn(9) == 0 {
				// CALL to a precompiled contract: succeeds (the value stays there) or fails by input / by gas (everything undone)
				o = &Op{A: "pcall", Target: "P", V: g.value(), Gl: g.pick("ok", "ok", "bad", "bad", "lowgas")}
				if static {
					o.V = 0
				}
				s.ops = append(s.ops, o)
				continue
			}
			switch y := g.r.Intn(100); {
			case y < 45:
			case y < 63:
				o.A, o.V = "dcall", 0
			case y < 80:
				o.A = "ccall"
			default:
				o.A, o.V = "scall", 0
			}
			if static && o.A == "call" {
				o.V = 0 // (a CALL with value is a write: see wpEnd)
			}
			if g.hosts[t] {
				switch o.A {
				case "dcall", "ccall":
					o.Sub = g.script(t, self, depth+1, false, static)
				case "scall":
					o.Sub = g.script(t, t, depth+1, false, true)
				default:
					o.Sub = g.script(t, t, depth+1, false, static)
				}
			}
			s.ops = append(s.ops, o)
		case x < 52:
			if g.created || depth >= g.maxDepth || static {
				continue
			}
			// CREATE hands 63/64 of the remaining gas to the init code: if that halts exceptionally the creator is
			// starved, so the creation is the last operation of its frame and the frame ends cheaply
			g.created = true
			s.ops = append(s.ops, &Op{A: g.pick("create", "create", "create2"), V: g.value(), Sub: g.script("N", "N", depth+1, true, false)})
			s.ops = append(s.ops, &Op{A: g.pick("stop", "stop", "revert", "fail")})
			return s
		default:
			o := g.sendOp(self, static)
			s.ops = append(s.ops, o)
			if o.A == "CLAIM" && g.r.Intn(3) == 0 {
				// the same tranche claimed again: the record is gone (deleted through the block batch), the claim must fail
				s.ops = append(s.ops, &Op{A: "CLAIM", Dest: "elig", Gl: "ok", Fee: "zero", Al: o.Al})
			}
		}
	}
	var end *Op
	x := g.r.Intn(100)
	if static && x >= 84 {
		x = g.r.Intn(84) // no SELFDESTRUCT / CALL to a foreign zone in a read-only context, except as write-protection halts
	}
	if static && g.r.Intn(3) == 0 {
		// a state-modifying instruction in a read-only context: exceptional halt (ErrWriteProtection)
		s.ops = append(s.ops, &Op{A: "wp", WpOp: g.pick("call", "create", "create2", "sd", "ETX", "ETX", "CONVERT", "sstore", "log")})
		return s
	}
	switch {
	case isInit && x < 45:
		end = &Op{A: "ret"}
	case isInit && x < 57:
		end = &Op{A: "retoog"}
	case x < 62:
		end = &Op{A: "stop"}
	case x < 76:
		end = &Op{A: "revert"}
	case x < 84:
		end = &Op{A: "fail"}
	case x < 89:
		end = &Op{A: "xfail", Dest: g.pick("elig", "inelig", "qiown", "qiother"), V: g.value()}
	default:
		end = &Op{A: "sd", Target: g.accts[g.r.Intn(len(g.accts))]}
	}
	s.ops = append(s.ops, end)
	return s
}

func (g *gen) pre() *Pre {
	p := &Pre{Bal: map[string]int64{}, Wq: map[string]int64{}, Lk: map[string]string{}, LockVal: U}
	for _, n := range []string{"E1", "E2", "E3", "K1", "K2", "K3", "Z", "F", "N", "Q", "P"} {
		p.Wq[n], p.Lk[n] = 0, "none"
		switch n[0] {
		case 'E':
			p.Bal[n] = int64(10*U + g.r.Intn(50*U))
		case 'K':
			p.Bal[n] = int64(g.r.Intn(3)) * int64(g.r.Intn(4*U))
			if g.r.Intn(2) == 0 {
				p.Wq[n] = int64(g.r.Intn(3*U) + 1)
			}
			p.Lk[n] = g.pick("none", "locked", "unlocked", "unlocked")
		case 'Z':
			p.Bal[n] = int64(g.r.Intn(2)) * int64(g.r.Intn(2*U))
		case 'Q':
			p.Bal[n] = int64(20*U + g.r.Intn(20*U))
		case 'P':
			p.Bal[n] = int64(1 + g.r.Intn(3)) // the precompile's account exists
		default:
			p.Bal[n] = 0
		}
	}
	return p
}

func (g *gen) tx() *Tx {
	tx := &Tx{P: int64(1 + g.r.Intn(2)), Rg: g.pick("A", "B", "C", "D", "E", "F", "G", "G", "G", "B", "F")}
	tx.Payer = g.pick("E1", "E2", "E3")
	tx.G = int64(600000 + g.r.Intn(2400000))
	if g.r.Intn(25) == 0 {
		tx.G = 20000
	}
	tx.V = g.value()
	switch x := g.r.Intn(100); {
	case x < 4:
		tx.Kind = "call" // a well-formed call to the precompile: the value stays on its address
		tx.To = "P"
	case x < 8:
		tx.Kind = "pbad" // malformed input: the transaction fails, the value must come back
		tx.To = "P"
	case x < 55:
		tx.Kind = "call"
		tx.To = g.accts[g.r.Intn(len(g.accts))]
		if g.r.Intn(3) > 0 {
			tx.To = g.pick("K1", "K2", "K3")
		}
		if g.hosts[tx.To] {
			tx.Body = g.script(tx.To, tx.To, 1, false, false)
		}
	case x < 63:
		if g.created {
			return g.tx()
		}
		g.created = true
		tx.Kind = "create"
		tx.To = "N"
		tx.Body = g.script("N", "N", 1, true, false)
	case x < 76:
		tx.Kind = "inbound"
		tx.Payer = "Z"
		tx.G, tx.P = 0, 0
		tx.To = g.pick("K1", "K2", "K3", "E1", "F", "Q")
		tx.Glc = g.pick("ok", "ok", "ok", "ok", "toohigh")
		if g.hosts[tx.To] {
			tx.Body = g.script(tx.To, tx.To, 1, false, false)
		}
	case x < 87:
		tx.Kind = "xsend"
		tx.To = g.pick("elig", "elig", "inelig", "qiother", "qiown", "qiown")
		tx.G = []int64{41999, 62999, 63000, 300000}[g.r.Intn(4)]
		if g.r.Intn(3) == 0 {
			tx.V = g.minconv
		}
	case x < 93:
		tx.Kind = "sdata"
		tx.V = 0
		tx.To = tx.Payer
		tx.Benef = g.accts[g.r.Intn(len(g.accts))]
	default:
		tx.Kind = "kquai"
		tx.Payer, tx.To, tx.V = "Q", "Q", 0
		tx.Dc = g.pick("freeze", "garbage")
	}
	if tx.Body != nil && tx.Kind == "inbound" && need(tx.Body) > 1800000 {
		return g.tx()
	}
	if tx.Body != nil && tx.Kind != "inbound" && tx.G > 20000 {
		n := int64(need(tx.Body)) + 120000
		if n > 2600000 {
			return g.tx() // too large a program for the gas limits the trace universe allows
		}
		tx.G = n + int64(g.r.Intn(400000))
	}
	if (tx.Kind == "call" || tx.Kind == "create" || tx.Kind == "inbound") && g.r.Intn(8) == 0 {
		tx.Pf = []int64{65535, 65536}[g.r.Intn(2)]
	}
	return tx
}

type scenario struct {
	pre    *Pre
	txs    []*Tx
	noSalt bool
	lockInBatch bool // lockup records staged in the block batch instead of committed in the database
	events []*Step
	herr   string
}

func cmdRandom(args []string) {
	fs := flag.NewFlagSet("random", flag.ExitOnError)
	seed := fs.Int64("seed", 1, "")
	n := fs.Int("n", 100, "scenarios")
	depth := fs.Int("depth", 4, "maximum call depth")
	maxOps := fs.Int("ops", 3, "operations per frame")
	maxTx := fs.Int("txs", 3, "transactions per scenario")
	out := fs.String("out", "", "trace ndjson")
	minconv := fs.Int64("minconv", 2000000, "")
	workers := fs.Int("workers", 8, "")
	fs.Parse(args)
	setup(*minconv)
	r := rand.New(rand.NewSource(*seed))
	// the programs depend on the seed only; they are executed in parallel and logged in order
	scs := make([]*scenario, *n)
	for sc := 0; sc < *n; sc++ {
		g := &gen{r: r, maxDepth: *depth, maxOps: *maxOps, minconv: *minconv,
			accts: []string{"E1", "E2", "E3", "K1", "K2", "K3", "Z", "F", "Q"}, hosts: map[string]bool{"K1": true, "K2": true, "K3": true}}
		s := &scenario{pre: g.pre(), noSalt: r.Intn(10) == 0, lockInBatch: r.Intn(4) == 0}
		for t := 0; t < 1+r.Intn(*maxTx); t++ {
			s.txs = append(s.txs, g.tx())
		}
		scs[sc] = s
	}
	var wg sync.WaitGroup
	next := int64(-1)
	for k := 0; k < *workers; k++ {
		wg.Add(1)
		go func() {
			defer wg.Done()
			for {
				i := int(atomic.AddInt64(&next, 1))
				if i >= len(scs) {
					return
				}
				s := scs[i]
				w := newWorldOpt(s.pre, s.lockInBatch)
				w.noSalt = s.noSalt
				for t, tx := range s.txs {
					events, err := w.runTx(tx)
					if err != nil {
						s.herr = fmt.Sprintf("scenario %d tx %d: %v", i, t, err)
						break
					}
					s.events = append(s.events, events...)
				}
			}
		}()
	}
	wg.Wait()
	f, err := os.Create(*out)
	must(err)
	bw := bufio.NewWriterSize(f, 1<<20)
	enc := json.NewEncoder(bw)
	stats := map[string]int{}
	// what the generated programs contain (frames by kind and context, write-protected instructions)
	var walk func(sc *Script, kind string)
	walk = func(sc *Script, kind string) {
		k := "prog:frame:" + kind
		if sc.static {
			k += ":static"
		}
		stats[k]++
		for _, o := range sc.ops {
			if o.A == "wp" {
				stats["prog:wp:"+o.WpOp]++
			}
			if sendOps[o.A] && sc.static {
				stats["prog:static:"+o.A]++
			}
			if sendOps[o.A] && sc.self != sc.host {
				stats["prog:as-caller:"+o.A]++
			}
			if o.Sub != nil {
				walk(o.Sub, o.A)
			}
		}
	}
	for _, s := range scs {
		for _, tx := range s.txs {
			if tx.Body != nil {
				walk(tx.Body, "top")
			}
		}
		if s.lockInBatch {
			stats["prog:lockups-in-batch"]++
		}
	}
	var harnessErrs []string
	ntx, nev := 0, 0
	for sc, s := range scs {
		pre := s.pre
		must(enc.Encode(&Step{A: "tracereset", X: "-", Y: "-", C: map[string]interface{}{"k": "-", "scenario": sc}, Res: "-", Dev: "-", Out: []EtxView{},
			Obs: Obs{Bal: pre.Bal, Wq: pre.Wq, Lk: pre.Lk, St: -1, Pu: -1, Ex: "init"}, Cmp: 0, Pre: pre}))
		nev++
		if s.herr != "" {
			harnessErrs = append(harnessErrs, s.herr)
		}
		for _, e := range s.events {
			if e.A == "txbegin" || e.A == "etxstage" {
				ntx++
			}
			if e.C == nil {
				e.C = map[string]interface{}{"k": "-"}
			}
			if e.Out == nil {
				e.Out = []EtxView{}
			}
			if e.Dev == "" {
				e.Dev = "-"
			}
			if e.Res == "" {
				e.Res = "-"
			}
			if e.Obs.Bal == nil || len(e.Obs.Bal) == 0 {
				e.Obs = Obs{Bal: pre.Bal, Wq: pre.Wq, Lk: pre.Lk, St: -1, Pu: -1}
			}
			if e.Obs.Ex == "" {
				e.Obs.Ex = "-"
			}
			e.Pre = nil
			e.C["scenario"] = sc
			must(enc.Encode(e))
			nev++
			stats[e.A]++
			if e.Aon != "" && e.Aon != "ok" {
				stats["aon:"+e.A+":"+e.Aon]++
			}
			if e.Nat != "" && e.Nat != "ok" {
				stats["nat-violation"]++
			}
		}
	}
	must(bw.Flush())
	must(f.Close())
	b, _ := json.Marshal(map[string]interface{}{"scenarios": *n, "txs": ntx, "events": nev, "stats": stats, "harness_errors": harnessErrs})
	fmt.Println(string(b))
}
