package main

import (
	"encoding/binary"
	"fmt"
	"math/big"

	"github.com/dominant-strategies/go-quai/common"
	"github.com/dominant-strategies/go-quai/core/types"
	"github.com/dominant-strategies/go-quai/core/vm"
	"github.com/dominant-strategies/go-quai/crypto"
	"github.com/dominant-strategies/go-quai/params"
	"github.com/dominant-strategies/go-quai/rlp"
)

// ---------------------------------------------------------------- event / history records (shared with the spec)

type Obs struct {
	Bal  map[string]int64  `json:"bal"`
	Netx int64             `json:"netx"`
	Wq   map[string]int64  `json:"wq"`
	Lk   map[string]string `json:"lk"`
	St   int64             `json:"st"`
	Pu   int64             `json:"pu"`
	Ex   string            `json:"ex"`
}

type EtxView struct {
	K   string `json:"k"`
	To  string `json:"to"`
	Val int64  `json:"val"`
	Idx int64  `json:"idx"`
}

type Pre struct {
	Bal     map[string]int64  `json:"bal"`
	Wq      map[string]int64  `json:"wq"`
	Lk      map[string]string `json:"lk"`
	LockVal int64             `json:"lockval"`
}

// Step is one record of a specification history (replay input) and one event of an implementation trace.
type Step struct {
	A    string                 `json:"a"`
	X    string                 `json:"x"`
	Y    string                 `json:"y"`
	V    int64                  `json:"v"`
	G    int64                  `json:"g"`
	P    int64                  `json:"p"`
	C    map[string]interface{} `json:"c"`
	Res  string                 `json:"res"`
	Dev  string                 `json:"dev"`
	Last *EtxView               `json:"last,omitempty"`
	Out  []EtxView              `json:"out"`
	Obs  Obs                    `json:"obs"`
	Cmp  int                    `json:"cmp"`
	Pre  *Pre                   `json:"pre,omitempty"`
	// implementation-side extras (ignored by the trace spec)
	Aon  string `json:"aon,omitempty"`  // native all-or-nothing verdict of an off-chain send: "ok" | reason
	Nat  string `json:"nat,omitempty"`  // native conservation verdict of a transaction: "ok" | reason
	Note string `json:"note,omitempty"` // free text (errors reported by the implementation)
}

func cstr(c map[string]interface{}, k string) string {
	if v, ok := c[k]; ok {
		if s, ok := v.(string); ok {
			return s
		}
	}
	return ""
}
func cint(c map[string]interface{}, k string) int64 {
	if v, ok := c[k]; ok {
		switch x := v.(type) {
		case float64:
			return int64(x)
		case int64:
			return x
		case int:
			return int64(x)
		}
	}
	return 0
}
func cbool(c map[string]interface{}, k string) bool {
	if v, ok := c[k]; ok {
		if b, ok := v.(bool); ok {
			return b
		}
	}
	return false
}

// ---------------------------------------------------------------- abstract programs

type Op struct {
	A      string // call dcall ccall scall create create2 ETX CONVERT UNWRAP CLAIM xfail | stop revert fail wp sd ret retoog
	WpOp   string // wp: the state-modifying instruction attempted in a read-only context (call create create2 sd ETX CONVERT sstore log)
	Target string
	V      int64
	Sub    *Script
	Dest   string
	Amt    int64
	AmtMode string // "" constant | "bal" own balance | "balp1" own balance + 1 (random programs)
	Gl     string
	Fee    string
	Al     string
}

type Script struct {
	id     int
	host   string // account whose code holds the script ("N": init code)
	self   string // executing address: the host, except in DELEGATECALL / CALLCODE frames (the caller's)
	static bool   // read-only context (random programs)
	isInit bool
	ops    []*Op
}

// frame-entering operations
var callOps = map[string]bool{"call": true, "dcall": true, "ccall": true, "scall": true}
var createOps = map[string]bool{"create": true, "create2": true}

// assignSelf computes the executing address of every script
func assignSelf(s *Script, self string) {
	s.self = self
	for _, o := range s.ops {
		if o.Sub == nil {
			continue
		}
		switch o.A {
		case "dcall", "ccall":
			assignSelf(o.Sub, self)
		default:
			assignSelf(o.Sub, o.Sub.host)
		}
	}
}

type Tx struct {
	Kind  string // call create sdata kquai xsend inbound
	Payer string
	To    string
	V     int64
	G     int64
	P     int64
	Rg    string
	Pf    int64
	Glc   string
	Benef string
	Dc    string
	Body  *Script
}

var endOps = map[string]bool{"stop": true, "revert": true, "fail": true, "wp": true, "sd": true, "ret": true, "retoog": true}
var sendOps = map[string]bool{"ETX": true, "CONVERT": true, "UNWRAP": true, "CLAIM": true, "XCALL": true}

// parseBehaviour splits a specification history into transactions; exp[i] are the records of transaction i.
func parseBehaviour(steps []*Step) (txs []*Tx, exp [][]*Step, err error) {
	i := 0
	for i < len(steps) {
		s := steps[i]
		start := i
		tx := &Tx{Payer: s.X, To: s.Y, V: s.V, G: s.G, P: s.P, Rg: cstr(s.C, "rg"), Pf: cint(s.C, "pf")}
		switch s.A {
		case "txbegin":
			tx.Kind = cstr(s.C, "k")
		case "etxstage":
			tx.Kind = "inbound"
			tx.Glc = cstr(s.C, "glc")
		default:
			return nil, nil, fmt.Errorf("step %d: expected a transaction start, got %q", i, s.A)
		}
		i++
		if s.Res != "reject" && i < len(steps) {
			n := steps[i]
			switch n.A {
			case "top":
				i++
				if cbool(n.C, "enter") {
					tx.Body, i, err = parseScript(steps, i, n.Y, cstr(n.C, "k") == "create")
					if err != nil {
						return nil, nil, err
					}
				}
			case "sdata":
				tx.Benef = n.Y
				i++
			case "kquai":
				tx.Dc = cstr(n.C, "k")
				i++
			case "XCALL":
				i++
			case "txend":
			default:
				return nil, nil, fmt.Errorf("step %d: unexpected %q after transaction start", i, n.A)
			}
			if tx.Kind != "sdata" && tx.Kind != "kquai" && i < len(steps) {
				if steps[i].A != "txend" {
					return nil, nil, fmt.Errorf("step %d: expected txend", i)
				}
				i++
			}
		}
		if tx.Kind == "sdata" && tx.Benef == "" {
			tx.Benef = tx.Payer // history stops before the branch is taken: any beneficiary will do
		}
		txs = append(txs, tx)
		exp = append(exp, steps[start:i])
	}
	return
}

// aborting: an "abort" record was met in a nested frame and the enclosing frames still have to end on it

type parser struct{ aborting bool }

func parseScript(steps []*Step, i int, host string, isInit bool) (*Script, int, error) {
	return (&parser{}).parseFrame(steps, i, host, isInit, 1)
}

func (ps *parser) parseFrame(steps []*Step, i int, host string, isInit bool, depth int) (*Script, int, error) {
	sc := &Script{host: host, isInit: isInit}
	endAbort := func() (*Script, int, error) {
		sc.ops = append(sc.ops, &Op{A: "stop"})
		if int(cint(steps[i].C, "d")) == depth {
			ps.aborting = false
			return sc, i + 1, nil
		}
		return sc, i, nil // the enclosing frames end on the same record
	}
	for i < len(steps) {
		s := steps[i]
		switch {
		case callOps[s.A] || createOps[s.A]:
			op := &Op{A: s.A, Target: s.Y, V: s.V}
			i++
			if cbool(s.C, "enter") {
				var err error
				h := s.Y
				if createOps[s.A] {
					h = "N"
				}
				op.Sub, i, err = ps.parseFrame(steps, i, h, createOps[s.A], depth+1)
				if err != nil {
					return nil, i, err
				}
			}
			sc.ops = append(sc.ops, op)
			if ps.aborting {
				return endAbort()
			}
		case s.A == "pcall":
			sc.ops = append(sc.ops, &Op{A: "pcall", Target: "P", V: s.V, Gl: cstr(s.C, "oc")})
			i++
		case sendOps[s.A]:
			sc.ops = append(sc.ops, &Op{A: s.A, Dest: s.Y, Amt: s.V, Gl: cstr(s.C, "gl"), Fee: cstr(s.C, "fee"), Al: cstr(s.C, "al")})
			i++
		case s.A == "abort":
			// an UNWRAP towards an external beneficiary: the operation never completes; this frame and its callers
			// (up to the nearest creation frame, whose depth the record carries) end here
			sc.ops = append(sc.ops, &Op{A: cstr(s.C, "k"), Dest: s.Y, Amt: s.V, Gl: cstr(s.C, "gl"), Fee: cstr(s.C, "fee"), Al: cstr(s.C, "al")})
			ps.aborting = true
			return endAbort()
		case s.A == "fail" && cstr(s.C, "k") == "wp":
			// exceptional halt by write protection: the frame attempts the named instruction in a read-only context
			sc.ops = append(sc.ops, &Op{A: "wp", WpOp: cstr(s.C, "op")})
			return sc, i + 1, nil
		case endOps[s.A]:
			sc.ops = append(sc.ops, &Op{A: s.A, Target: s.Y})
			return sc, i + 1, nil
		default:
			return nil, i, fmt.Errorf("step %d: %q inside a frame", i, s.A)
		}
	}
	// the history stops inside this frame: the driver lets it (and its callers) STOP
	sc.ops = append(sc.ops, &Op{A: "stop"})
	return sc, i, nil
}

// ---------------------------------------------------------------- compilation to bytecode

type Unit struct {
	code  []byte
	marks map[uint64]*mark
}

type Program struct {
	units    []*Unit
	hostCode map[string][]byte // account name -> runtime code to install
	txData   []byte
	nscripts int
}

type compiler struct {
	w     *World
	prog  *Program
	next  int
	hosts map[string][]*Script
}

var maxU256 = new(big.Int).Sub(new(big.Int).Lsh(big.NewInt(1), 256), big.NewInt(1))

func amount(v int64) *big.Int {
	if v == -1 {
		return new(big.Int).Set(maxU256)
	}
	return big.NewInt(v)
}

func idWord(id int) []byte {
	var w [32]byte
	binary.BigEndian.PutUint64(w[24:], uint64(id))
	return w[:]
}

func (w *World) compile(tx *Tx) *Program {
	c := &compiler{w: w, prog: &Program{hostCode: map[string][]byte{}}, next: 1, hosts: map[string][]*Script{}}
	if tx.Body != nil {
		assignSelf(tx.Body, tx.Body.host)
		c.number(tx.Body)
		c.collect(tx.Body)
	}
	for host, scripts := range c.hosts {
		u := c.dispatcher(scripts)
		c.prog.units = append(c.prog.units, u)
		c.prog.hostCode[host] = u.code
	}
	switch {
	case tx.Kind == "create" && tx.Body != nil:
		u := c.initUnit(tx.Body, tx.Payer, false)
		c.prog.txData = u.code
	case tx.Body != nil:
		c.prog.txData = idWord(tx.Body.id)
	case tx.Kind == "pbad":
		c.prog.txData = badPoint()
	case tx.Kind == "sdata":
		c.prog.txData = append([]byte("Suicide"), w.addrOf(tx.Benef).Bytes()...)
	case tx.Kind == "kquai":
		if tx.Dc == "freeze" {
			c.prog.txData = []byte("freeze")
		} else {
			c.prog.txData = []byte("garbage!")
		}
	}
	c.prog.nscripts = c.next - 1
	return c.prog
}

func (c *compiler) number(s *Script) {
	s.id = c.next
	c.next++
	for _, o := range s.ops {
		if o.Sub != nil {
			c.number(o.Sub)
		}
	}
}

// scripts executed as runtime code of a host contract (init scripts are embedded as blobs in their creator)
func (c *compiler) collect(s *Script) {
	if !s.isInit {
		c.hosts[s.host] = append(c.hosts[s.host], s)
	}
	for _, o := range s.ops {
		if o.Sub != nil {
			c.collect(o.Sub)
		}
	}
}

type blob struct {
	label string
	code  []byte
}

func (c *compiler) dispatcher(scripts []*Script) *Unit {
	a := newAsm()
	var blobs []blob
	a.pushU(0)
	a.op(vm.CALLDATALOAD)
	for _, s := range scripts {
		a.op(vm.DUP1)
		a.pushU(uint64(s.id))
		a.op(vm.EQ)
		a.pushLabel(fmt.Sprintf("s%d", s.id))
		a.op(vm.JUMPI)
	}
	a.op(vm.STOP)
	for _, s := range scripts {
		a.label(fmt.Sprintf("s%d", s.id))
		a.markHere(markEntry, s, nil)
		a.op(vm.JUMPDEST)
		a.op(vm.POP)
		c.body(a, s, &blobs)
	}
	for _, b := range blobs {
		a.label(b.label)
		a.raw(b.code)
	}
	return &Unit{code: a.assemble(), marks: a.marks}
}

// validCreate tells whether evm.Create finds an address of this zone's Quai ledger for (creator, nonce, code):
// either the plain CREATE address or one of the ground CREATE2-style addresses (address derivation only)
func (w *World) validCreate(creator common.Address, nonce uint64, code []byte) bool {
	if _, err := crypto.CreateAddress(creator, nonce, code, loc).InternalAndQuaiAddress(); err == nil {
		return true
	}
	_, _, err := vm.GrindContract(creator, nonce, 1<<40, 100, crypto.Keccak256Hash(code), big.NewInt(blockNumber), loc)
	return err == nil
}

func (c *compiler) initUnit(s *Script, creator string, create2 bool) *Unit {
	a := newAsm()
	var blobs []blob
	a.markHere(markEntry, s, nil)
	a.op(vm.JUMPDEST)
	c.body(a, s, &blobs)
	for _, b := range blobs {
		a.label(b.label)
		a.raw(b.code)
	}
	code := a.assemble()
	if !c.w.noSalt && !create2 {
		// trailing (unreachable) salt bytes chosen so that address grinding succeeds for the next few nonces of the creator
		ca := c.w.addrOf(creator)
		n0 := uint64(0)
		if ia, err := ca.InternalAndQuaiAddress(); err == nil {
			n0 = c.w.statedb.GetNonce(ia)
		}
		base := len(code)
		code = append(code, make([]byte, 8)...)
		for salt := uint64(0); ; salt++ {
			binary.BigEndian.PutUint64(code[base:], salt)
			if c.w.validCreate(ca, n0, code) && c.w.validCreate(ca, n0+1, code) && c.w.validCreate(ca, n0+2, code) {
				break
			}
		}
	}
	u := &Unit{code: code, marks: a.marks}
	c.prog.units = append(c.prog.units, u)
	return u
}

const (
	alMemOff     = 0x80
	maxCodeBytes = 24576
)

func (c *compiler) body(a *asm, s *Script, blobs *[]blob) {
	a.pushU(0x77) // sentinel below every operand: a missing status word does not underflow the stack
	for _, o := range s.ops {
		c.emitOp(a, s, o, blobs)
	}
	a.op(vm.STOP)
}

// wpOp is the instruction (with well-formed operands) a read-only frame attempts
func (c *compiler) wpOp(o *Op) *Op {
	switch o.WpOp {
	case "call":
		return &Op{A: "call", Target: "F", V: 1}
	case "create", "create2":
		return &Op{A: o.WpOp, V: 0}
	case "sd":
		return &Op{A: "sd", Target: "F"}
	case "ETX":
		return &Op{A: "ETX", Dest: "elig", Amt: 1, Gl: "ok", Fee: "one", Al: "empty"}
	case "CONVERT":
		return &Op{A: "CONVERT", Dest: "qiown", Amt: params.MinQuaiConversionAmount.Int64(), Gl: "ok"}
	case "sstore", "log":
		return &Op{A: o.WpOp}
	}
	panic("unknown write-protected instruction " + o.WpOp)
}

func (c *compiler) emitOp(a *asm, s *Script, o *Op, blobs *[]blob) {
	w := c.w
	{
		switch o.A {
		case "wp":
			c.emitOp(a, s, c.wpOp(o), blobs)
		case "pcall":
			// CALL to the precompile: "ok" empty input, "bad" a point off the curve, "lowgas" less than RequiredGas (even with the stipend)
			in := []byte{}
			gas := uint64(precompileCallGas)
			switch o.Gl {
			case "bad":
				in = badPoint()
				a.storeMem(0, in)
			case "lowgas":
				gas = 100
			}
			a.pushU(0) // retSize
			a.pushU(0)
			a.pushU(uint64(len(in)))
			a.pushU(0)
			a.pushBig(amount(o.V))
			a.pushRaw(w.addrOf("P").Bytes())
			a.pushU(gas)
			a.markHere(markOp, s, o)
			a.op(vm.CALL)
			a.markHere(markAfter, s, o)
			a.op(vm.JUMPDEST)
		case "sstore":
			a.pushU(1)
			a.pushU(1)
			a.markHere(markOp, s, o)
			a.op(vm.SSTORE)
		case "log":
			a.pushU(0)
			a.pushU(0)
			a.markHere(markOp, s, o)
			a.op(vm.LOG0)
		case "dcall", "scall":
			id := 0
			if o.Sub != nil {
				id = o.Sub.id
			}
			a.pushRaw(idWord(id))
			a.pushU(0)
			a.op(vm.MSTORE)
			a.pushU(0)  // retSize
			a.pushU(0)  // retOffset
			a.pushU(32) // inSize
			a.pushU(0)  // inOffset
			a.pushRaw(w.addrOf(o.Target).Bytes())
			if o.Sub != nil {
				a.pushU(need(o.Sub) + plainCallGas)
			} else {
				a.pushU(plainCallGas)
			}
			a.markHere(markOp, s, o)
			if o.A == "dcall" {
				a.op(vm.DELEGATECALL)
			} else {
				a.op(vm.STATICCALL)
			}
			a.markHere(markAfter, s, o)
			a.op(vm.JUMPDEST)
		case "call", "ccall", "xfail":
			id := 0
			if o.Sub != nil {
				id = o.Sub.id
			}
			a.pushRaw(idWord(id))
			a.pushU(0)
			a.op(vm.MSTORE)
			a.pushU(0)  // retSize
			a.pushU(0)  // retOffset
			a.pushU(32) // inSize
			a.pushU(0)  // inOffset
			a.pushBig(amount(o.V))
			var to common.Address
			if o.A == "xfail" {
				to = w.ext[o.Dest]
			} else {
				to = w.addrOf(o.Target)
			}
			a.pushRaw(to.Bytes())
			// an explicit gas allowance per call: an exceptional halt of the callee costs the caller that much, not 63/64
			// of everything it has (the specification does not model gas inside a transaction)
			if o.Sub != nil {
				a.pushU(need(o.Sub) + plainCallGas) // the callee may have been destroyed: re-creating the account costs gas
			} else {
				a.pushU(plainCallGas)
			}
			a.markHere(markOp, s, o)
			if o.A == "ccall" {
				a.op(vm.CALLCODE)
			} else {
				a.op(vm.CALL)
			}
			a.markHere(markAfter, s, o)
			a.op(vm.JUMPDEST) // observation point; the status word stays on the stack (an exit that pushes none must not underflow it)
		case "create", "create2":
			var code []byte
			if o.Sub != nil {
				code = c.initUnit(o.Sub, s.self, o.A == "create2").code
			} else {
				code = []byte{byte(vm.STOP)}
			}
			if o.A == "create2" {
				// no address grinding for CREATE2: a salt whose address lies in this zone's Quai ledger (address derivation only)
				a.pushRaw(c.w.create2Salt(c.w.addrOf(s.self), code))
			}
			lbl := fmt.Sprintf("blob%d_%d", s.id, a.pc())
			*blobs = append(*blobs, blob{lbl, code})
			a.pushU(uint64(len(code)))
			a.pushLabel(lbl)
			a.pushU(0)
			a.op(vm.CODECOPY)
			a.pushU(uint64(len(code)))
			a.pushU(0)
			a.pushBig(amount(o.V))
			a.markHere(markOp, s, o)
			if o.A == "create2" {
				a.op(vm.CREATE2)
			} else {
				a.op(vm.CREATE)
			}
			a.markHere(markAfter, s, o)
			a.op(vm.JUMPDEST) // observation point; the status word stays on the stack (an exit that pushes none must not underflow it)
		case "ETX":
			alBlob := w.alBlob(o.Al)
			if len(alBlob) > 0 {
				a.storeMem(alMemOff, alBlob)
			}
			tip, capv := new(big.Int), new(big.Int)
			switch o.Fee {
			case "one":
				capv.SetInt64(1)
			case "ovf":
				tip.Set(maxU256)
				capv.SetInt64(1)
			}
			a.pushU(uint64(len(alBlob))) // accessListSize
			a.pushU(alMemOff)            // accessListOffset
			a.pushU(0)                   // inSize
			a.pushU(0)                   // inOffset
			a.pushBig(capv)              // gasFeeCap
			a.pushBig(tip)               // gasTipCap
			a.pushBig(glValue(o.Gl))     // etxGasLimit
			pushAmount(a, o)             // value
			a.pushRaw(w.ext[o.Dest].Bytes())
			a.pushU(0) // "gas" word (unused)
			a.markHere(markOp, s, o)
			a.op(vm.ETX)
			a.markHere(markAfter, s, o)
			a.op(vm.JUMPDEST) // observation point; the status word stays on the stack (an exit that pushes none must not underflow it)
		case "CONVERT":
			a.pushBig(glValue(o.Gl))
			pushAmount(a, o)
			a.pushRaw(w.ext[o.Dest].Bytes())
			a.pushU(0)
			a.markHere(markOp, s, o)
			a.op(vm.CONVERT)
			a.markHere(markAfter, s, o)
			a.op(vm.JUMPDEST) // observation point; the status word stays on the stack (an exit that pushes none must not underflow it)
		case "UNWRAP", "CLAIM":
			var in []byte
			if o.A == "UNWRAP" {
				// 20 bytes Qi beneficiary | 32 bytes value | 8 bytes etxGasLimit
				in = append(in, w.ext[o.Dest].Bytes()...)
				var v [32]byte
				amount(o.Amt).FillBytes(v[:])
				in = append(in, v[:]...)
				in = binary.BigEndian.AppendUint64(in, lockupGas(o.Gl))
			} else {
				// 20 bytes miner | 20 bytes to | lockup byte | 4 bytes epoch | 8 bytes etxGasLimit
				in = append(in, w.miner.Bytes()...)
				if o.Al == "mismatch" {
					in = append(in, w.ext["qiown"].Bytes()...)
				} else {
					in = append(in, w.addrOf("E1").Bytes()...)
				}
				in = append(in, lockupByte)
				in = binary.BigEndian.AppendUint32(in, lockupEpoch)
				in = binary.BigEndian.AppendUint64(in, lockupGas(o.Gl))
			}
			a.storeMem(0, in)
			a.pushU(0) // retSize
			a.pushU(0)
			a.pushU(uint64(len(in)))
			a.pushU(0)
			a.pushU(0) // value
			a.pushRaw(w.lockup.Bytes())
			a.pushU(lockupCallGas)
			a.markHere(markOp, s, o)
			a.op(vm.CALL)
			a.markHere(markAfter, s, o)
			a.op(vm.JUMPDEST) // observation point; the status word stays on the stack (an exit that pushes none must not underflow it)
		case "stop":
			a.markHere(markOp, s, o)
			a.op(vm.STOP)
		case "revert":
			a.pushU(0)
			a.pushU(0)
			a.markHere(markOp, s, o)
			a.op(vm.REVERT)
		case "fail":
			a.markHere(markOp, s, o)
			a.op(vm.OpCode(0xfe))
		case "sd":
			a.pushRaw(w.addrOf(o.Target).Bytes())
			a.markHere(markOp, s, o)
			a.op(vm.SELFDESTRUCT)
		case "ret":
			a.pushU(1)
			a.pushU(0)
			a.markHere(markOp, s, o)
			a.op(vm.RETURN)
		case "retoog":
			a.pushU(maxCodeBytes)
			a.pushU(0)
			a.markHere(markOp, s, o)
			a.op(vm.RETURN)
		default:
			panic("cannot compile op " + o.A)
		}
	}
}

// create2Salt finds a salt for which CREATE2 from `creator` with `code` yields an address of this zone's Quai ledger
func (w *World) create2Salt(creator common.Address, code []byte) []byte {
	h := crypto.Keccak256Hash(code)
	var salt [32]byte
	for i := uint64(0); ; i++ {
		binary.BigEndian.PutUint64(salt[24:], i)
		if _, err := crypto.CreateAddress2(creator, salt, h.Bytes(), loc).InternalAndQuaiAddress(); err == nil {
			return salt[:]
		}
	}
}

// badPoint is a bn256ScalarMul input whose point (1, 1) is not on the curve: the precompile returns an error
func badPoint() []byte {
	in := make([]byte, 96)
	in[31], in[63], in[95] = 1, 1, 1
	return in
}

const (
	precompileCallGas = 30000
	plainCallGas  = 40000 // covers CallNewAccountGas for a transfer to a fresh account
	lockupCallGas = 60000
	scriptBaseGas = 5000
	callOverhead  = 42000
	sendOpGas     = 48000
	createGas     = 95000
)

// need estimates (generously) the gas a script consumes, including the allowances of its callees
func need(s *Script) uint64 {
	n := uint64(scriptBaseGas)
	for _, o := range s.ops {
		switch o.A {
		case "call", "xfail", "dcall", "ccall", "scall":
			n += callOverhead
			n += plainCallGas
			if o.Sub != nil {
				n += need(o.Sub) + need(o.Sub)/32
			}
		case "pcall":
			n += callOverhead + precompileCallGas
		case "wp":
			n += 3000
		case "create", "create2":
			n += createGas
			if o.Sub != nil {
				n += need(o.Sub) + need(o.Sub)/32
			}
		case "ETX", "CONVERT":
			n += sendOpGas
		case "UNWRAP", "CLAIM":
			n += callOverhead + lockupCallGas
		case "sd":
			n += 40000
		default:
			n += 1000
		}
	}
	return n
}

func pushAmount(a *asm, o *Op) {
	switch o.AmtMode {
	case "bal":
		a.op(vm.SELFBALANCE)
	case "balp1":
		a.pushU(1)
		a.op(vm.SELFBALANCE)
		a.op(vm.ADD)
	default:
		a.pushBig(amount(o.Amt))
	}
}

func glValue(cls string) *big.Int {
	switch cls {
	case "lt":
		return new(big.Int).SetUint64(params.TxGas - 1)
	case "gt64":
		return new(big.Int).Lsh(big.NewInt(1), 64)
	}
	return new(big.Int).SetUint64(params.TxGas)
}

// gas limit handed to the lockup precompile: "gtavail" exceeds whatever the call can carry
func lockupGas(cls string) uint64 {
	if cls == "gtavail" {
		return 1 << 40
	}
	return params.TxGas
}

func (w *World) alBlob(cls string) []byte {
	switch cls {
	case "good":
		al := types.AccessList{{Address: w.ext["inscope"], StorageKeys: nil}}
		b, err := rlp.EncodeToBytes(al)
		if err != nil {
			panic(err)
		}
		return b
	case "bad":
		return []byte{0xff, 0xff}
	}
	return nil
}
