package main

import (
	"fmt"
	"math/big"

	"github.com/dominant-strategies/go-quai/core/vm"
)

// A tiny two-pass assembler.  Opcode numbers come from go-quai's core/vm/opcodes.go.

type markKind int

const (
	markEntry markKind = iota // first instruction of a script (JUMPDEST)
	markOp                    // the instruction that performs an abstract step
	markAfter                 // the instruction following it
)

type mark struct {
	kind   markKind
	script *Script
	op     *Op
}

type fixup struct {
	at    int // position of the 2 immediate bytes
	label string
}

type asm struct {
	code   []byte
	labels map[string]int
	fixes  []fixup
	marks  map[uint64]*mark
}

func newAsm() *asm {
	return &asm{labels: map[string]int{}, marks: map[uint64]*mark{}}
}

func (a *asm) pc() int { return len(a.code) }

func (a *asm) op(ops ...vm.OpCode) {
	for _, o := range ops {
		a.code = append(a.code, byte(o))
	}
}

// pushBytes emits PUSHn with the minimal n (PUSH1 0 for zero)
func (a *asm) pushBytes(b []byte) {
	for len(b) > 1 && b[0] == 0 {
		b = b[1:]
	}
	if len(b) == 0 {
		b = []byte{0}
	}
	if len(b) > 32 {
		panic("push > 32 bytes")
	}
	a.code = append(a.code, byte(vm.PUSH1)+byte(len(b)-1))
	a.code = append(a.code, b...)
}

func (a *asm) pushRaw(b []byte) { // exact width
	a.code = append(a.code, byte(vm.PUSH1)+byte(len(b)-1))
	a.code = append(a.code, b...)
}

func (a *asm) pushU(v uint64) { a.pushBytes(new(big.Int).SetUint64(v).Bytes()) }

func (a *asm) pushBig(v *big.Int) { a.pushBytes(v.Bytes()) }

func (a *asm) pushLabel(l string) {
	a.code = append(a.code, byte(vm.PUSH2), 0, 0)
	a.fixes = append(a.fixes, fixup{len(a.code) - 2, l})
}

func (a *asm) label(l string) {
	if _, dup := a.labels[l]; dup {
		panic("duplicate label " + l)
	}
	a.labels[l] = len(a.code)
}

func (a *asm) raw(b []byte) { a.code = append(a.code, b...) }

func (a *asm) markHere(k markKind, s *Script, o *Op) {
	a.marks[uint64(len(a.code))] = &mark{k, s, o}
}

// storeMem writes blob to memory starting at off (32-byte MSTOREs, right-padded with zeros)
func (a *asm) storeMem(off uint64, blob []byte) {
	for i := 0; i < len(blob); i += 32 {
		var w [32]byte
		copy(w[:], blob[i:])
		a.pushRaw(w[:])
		a.pushU(off + uint64(i))
		a.op(vm.MSTORE)
	}
}

func (a *asm) assemble() []byte {
	for _, f := range a.fixes {
		p, ok := a.labels[f.label]
		if !ok {
			panic("undefined label " + f.label)
		}
		if p > 0xffff {
			panic(fmt.Sprintf("label %s out of PUSH2 range", f.label))
		}
		a.code[f.at] = byte(p >> 8)
		a.code[f.at+1] = byte(p)
	}
	return a.code
}
