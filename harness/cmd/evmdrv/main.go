// evmdrv binds spec/EvmValue.tla to the real go-quai state transition (C02, C05).
//
//	evmdrv params
//	    prints the protocol numbers the conformance configurations of the specification must use.
//	evmdrv replay -in behaviours.ndjson -out result.json
//	    every behaviour (a JSON array of specification history records: one or more complete transactions with the
//	    specified observation after every step) is compiled into real bytecode, installed on a real state.StateDB and
//	    executed with core.ApplyTransaction (core.ApplyMessage for the kQuai address); a vm tracer reads the real state
//	    after every abstract step; every observation is compared with the specification's.
//	evmdrv random -seed S -n N -depth D -out trace.ndjson
//	    seeded random abstract programs; one event per specification action with the observed state, for
//	    spec/EvmValueTrace.tla.  Conservation and all-or-nothing are additionally evaluated natively (math/big).
package main

import (
	"bufio"
	"strings"
	"sync"
	"sync/atomic"
	"encoding/json"
	"flag"
	"fmt"
	"io"
	"math/big"
	"os"
	"reflect"
	"sort"

	"github.com/dominant-strategies/go-quai/core/vm"
	"github.com/dominant-strategies/go-quai/log"
	"github.com/dominant-strategies/go-quai/params"
)

type Mismatch struct {
	Behaviour int     `json:"behaviour"`
	Step      int     `json:"step"`
	Reason    string  `json:"reason"`
	Action    string  `json:"action"`
	Op        string  `json:"op"`
	Exit      string  `json:"exit"`
	Expected  *Step   `json:"expected"`
	Got       *Step   `json:"got"`
	Steps     []*Step `json:"behaviour_steps"`
}

type DevHit struct {
	Op        string  `json:"op"`
	Exit      string  `json:"exit"`
	Count     int     `json:"count"`
	Behaviour int     `json:"behaviour"`
	Step      int     `json:"step"`
	Aon       string  `json:"aon"`
	Steps     []*Step `json:"behaviour_steps"`
}

func mapsEqual(a, b map[string]int64) bool {
	if len(a) != len(b) {
		return false
	}
	for k, v := range a {
		if w, ok := b[k]; !ok || w != v {
			return false
		}
	}
	return true
}

// compare one specification record with the event the implementation produced for it
func compare(exp, got *Step, tx *Tx) string {
	if got == nil {
		return "implementation produced no event for this step"
	}
	if exp.A != got.A {
		return fmt.Sprintf("action: specification %q, implementation %q", exp.A, got.A)
	}
	if exp.X != got.X || exp.Y != got.Y {
		return fmt.Sprintf("accounts: specification (%s,%s), implementation (%s,%s)", exp.X, exp.Y, got.X, got.Y)
	}
	switch exp.A {
	case "txbegin", "etxstage", "txend", "sdata", "kquai":
		if exp.Res != got.Res {
			return fmt.Sprintf("result: specification %q, implementation %q (%s)", exp.Res, got.Res, got.Note)
		}
	case "top", "call", "create":
		if cbool(exp.C, "enter") != cbool(got.C, "enter") {
			return fmt.Sprintf("frame entered: specification %v, implementation %v", cbool(exp.C, "enter"), cbool(got.C, "enter"))
		}
	}
	if exp.Cmp == 0 {
		return ""
	}
	eb := exp.Obs.Bal
	if exp.A == "txend" && tx.Kind != "inbound" {
		// the specification chose a gasUsed; the implementation's differs: the refund is (limit - used) x price
		eb = map[string]int64{}
		for k, v := range exp.Obs.Bal {
			eb[k] = v
		}
		if _, alive := eb[exp.X]; alive {
			if !(exp.Obs.Bal[exp.X] == 0 && got.Obs.Bal[exp.X] == 0) { // payer destroyed itself: nothing left to refund to
				eb[exp.X] += (exp.G - got.G) * exp.P
			}
		}
		if got.G < int64(params.TxGas) || got.G > cint(exp.C, "lim") {
			return fmt.Sprintf("gasUsed %d outside [%d, %d]", got.G, params.TxGas, cint(exp.C, "lim"))
		}
	}
	if !mapsEqual(eb, got.Obs.Bal) {
		return fmt.Sprintf("balances: specification %v, implementation %v", eb, got.Obs.Bal)
	}
	if exp.Obs.Netx != got.Obs.Netx {
		return fmt.Sprintf("ETX cache length: specification %d, implementation %d", exp.Obs.Netx, got.Obs.Netx)
	}
	if !mapsEqual(exp.Obs.Wq, got.Obs.Wq) {
		return fmt.Sprintf("wrapped Qi: specification %v, implementation %v", exp.Obs.Wq, got.Obs.Wq)
	}
	if !reflect.DeepEqual(exp.Obs.Lk, got.Obs.Lk) {
		return fmt.Sprintf("lockups: specification %v, implementation %v", exp.Obs.Lk, got.Obs.Lk)
	}
	if exp.Obs.St != got.Obs.St {
		return fmt.Sprintf("status word: specification %d, implementation %d", exp.Obs.St, got.Obs.St)
	}
	if exp.Obs.Pu != got.Obs.Pu {
		return fmt.Sprintf("status words pushed: specification %d, implementation %d", exp.Obs.Pu, got.Obs.Pu)
	}
	if sendOps[exp.A] {
		if (exp.Last == nil || exp.Last.K == "-") != (got.Last == nil) {
			return "recorded ETX: present on one side only"
		}
		if got.Last != nil && *exp.Last != *got.Last {
			return fmt.Sprintf("recorded ETX: specification %+v, implementation %+v", *exp.Last, *got.Last)
		}
	}
	if exp.A == "txend" {
		if len(exp.Out) != len(got.Out) {
			return fmt.Sprintf("outbound ETXs of the receipt: specification %v, implementation %v", exp.Out, got.Out)
		}
		for i := range exp.Out {
			if exp.Out[i] != got.Out[i] {
				return fmt.Sprintf("outbound ETX %d of the receipt: specification %+v, implementation %+v", i, exp.Out[i], got.Out[i])
			}
		}
	}
	if got.Nat != "" && got.Nat != "ok" {
		return "native conservation check: " + got.Nat
	}
	return ""
}

func readBehaviours(path string) [][]*Step {
	f, err := os.Open(path)
	must(err)
	defer f.Close()
	sc := bufio.NewScanner(f)
	sc.Buffer(make([]byte, 1<<20), 1<<28)
	var out [][]*Step
	for sc.Scan() {
		if len(sc.Bytes()) == 0 {
			continue
		}
		var b []*Step
		if err := json.Unmarshal(sc.Bytes(), &b); err != nil {
			must(fmt.Errorf("behaviour %d: %v", len(out), err))
		}
		out = append(out, b)
	}
	return out
}

type behResult struct {
	mism     *Mismatch
	devs     []DevHit
	actions  map[string]int
	ntx, nev int
	herr     string
	incon    string
}

// replayOne executes one specification behaviour on a fresh real state and compares every step
func replayOne(bi int, beh []*Step, verbose bool) (r behResult) {
	r.actions = map[string]int{}
	if len(beh) == 0 || beh[0].Pre == nil {
		r.herr = fmt.Sprintf("behaviour %d has no pre-state", bi)
		return
	}
	txs, exp, err := parseBehaviour(beh)
	if err != nil {
		r.herr = fmt.Sprintf("behaviour %d: %v", bi, err)
		return
	}
	w := newWorld(beh[0].Pre)
	base := 0
	for ti, tx := range txs {
		events, err := w.runTx(tx)
		if err != nil {
			r.herr = fmt.Sprintf("behaviour %d tx %d: %v", bi, ti, err)
			return
		}
		r.ntx++
		if verbose {
			for _, e := range events {
				b, _ := json.Marshal(e)
				fmt.Println(string(b))
			}
		}
		wrap := false
		for _, e := range exp[ti] {
			if e.Dev == "prefork-wrap" {
				wrap = true
			}
		}
		for i, e := range exp[ti] {
			var g *Step
			if i < len(events) {
				g = events[i]
			}
			r.nev++
			r.actions[e.A]++
			if g != nil && wrap && e.A == "txend" && len(g.Nat) > 13 && g.Nat[:13] == "value-created" {
				// the native bound counts the 2^256-1 carried by an ETX whose debit wrapped before the fork: that IS the
				// named deviation "prefork-wrap" (reported at the operation); it is not a second violation
				g.Nat = "ok"
			}
			why := compare(e, g, tx)
			complete := exp[ti][len(exp[ti])-1].A == "txend" || exp[ti][len(exp[ti])-1].A == "sdata" || exp[ti][len(exp[ti])-1].A == "kquai" ||
				exp[ti][len(exp[ti])-1].Res == "reject"
			if why == "" && complete && i == len(exp[ti])-1 && len(events) > len(exp[ti]) {
				why = fmt.Sprintf("implementation produced %d extra event(s), first %q", len(events)-len(exp[ti]), events[len(exp[ti])].A)
			}
			if why != "" {
				if g != nil && g.A == "fail" && e.A != "fail" && strings.Contains(g.Note+noteOf(events, i), "out of gas") {
					// the specification does not model gas inside a transaction: a frame that ran out of the gas the driver
					// allotted cannot be compared any further
					r.incon = fmt.Sprintf("behaviour %d step %d: frame ran out of gas where the specification has %q", bi, base+i, e.A)
					return
				}
				m := Mismatch{Behaviour: bi, Step: base + i, Reason: why, Action: e.A, Expected: e, Got: g, Steps: beh}
				if e.Dev != "" && e.Dev != "-" {
					m.Op, m.Exit = e.A, e.Dev
				}
				r.mism = &m
				return
			}
			if e.Dev != "" && e.Dev != "-" {
				// the implementation reproduced a named deviation of the specification
				r.devs = append(r.devs, DevHit{Op: e.A, Exit: e.Dev, Count: 1, Behaviour: bi, Step: base + i, Aon: g.Aon, Steps: beh})
			}
		}
		// the specification's gasUsed is an arbitrary choice: continue from its post-state
		last := exp[ti][len(exp[ti])-1]
		if last.A == "txend" && ti+1 < len(txs) && tx.Kind != "inbound" {
			if _, ok := w.addr[last.X]; ok {
				ia := w.internal(last.X)
				if w.statedb.GetCodeSize(ia) == 0 && w.statedb.Exist(ia) {
					w.statedb.SetBalance(ia, big.NewInt(last.Obs.Bal[last.X]))
					w.statedb.Finalize(false)
				}
			}
		}
		base += len(exp[ti])
	}
	return
}

func noteOf(events []*Step, i int) string {
	if i < len(events) {
		return events[i].Note
	}
	return ""
}

func cmdReplay(args []string) {
	fs := flag.NewFlagSet("replay", flag.ExitOnError)
	in := fs.String("in", "", "behaviours ndjson")
	out := fs.String("out", "", "result json")
	maxMis := fs.Int("maxmis", 40, "")
	minconv := fs.Int64("minconv", 2000000, "params.MinQuaiConversionAmount to install")
	verbose := fs.Bool("v", false, "print the implementation's events")
	workers := fs.Int("workers", 8, "")
	fs.Parse(args)
	setup(*minconv)
	behs := readBehaviours(*in)
	if *verbose {
		*workers = 1
	}
	results := make([]behResult, len(behs))
	var wg sync.WaitGroup
	next := int64(-1)
	for k := 0; k < *workers; k++ {
		wg.Add(1)
		go func() {
			defer wg.Done()
			for {
				bi := int(atomic.AddInt64(&next, 1))
				if bi >= len(behs) {
					return
				}
				results[bi] = replayOne(bi, behs[bi], *verbose)
			}
		}()
	}
	wg.Wait()
	var mism []Mismatch
	devs := map[string]*DevHit{}
	actions := map[string]int{}
	ntx, nev, nskip := 0, 0, 0
	var harnessErrs, incon []string
	for _, r := range results {
		ntx += r.ntx
		nev += r.nev
		for k, v := range r.actions {
			actions[k] += v
		}
		if r.herr != "" {
			if i := strings.Index(r.herr, "\n"); i > 0 && len(harnessErrs) > 2 {
				r.herr = r.herr[:i]
			}
			harnessErrs = append(harnessErrs, r.herr)
		}
		if r.incon != "" {
			incon = append(incon, r.incon)
		}
		if r.mism != nil {
			if len(mism) < *maxMis {
				mism = append(mism, *r.mism)
			} else {
				nskip++
			}
		}
		for _, d := range r.devs {
			k := d.Op + "/" + d.Exit
			if h, ok := devs[k]; ok {
				h.Count++
			} else {
				dd := d
				devs[k] = &dd
			}
		}
	}
	var dl []*DevHit
	for _, d := range devs {
		dl = append(dl, d)
	}
	sort.Slice(dl, func(i, j int) bool { return dl[i].Op+dl[i].Exit < dl[j].Op+dl[j].Exit })
	res := map[string]interface{}{"behaviours": len(behs), "txs": ntx, "events_compared": nev, "mismatches": mism, "mismatches_not_listed": nskip,
		"deviations_reproduced": dl, "actions": actions, "harness_errors": harnessErrs, "inconclusive_gas": incon}
	b, _ := json.MarshalIndent(res, "", " ")
	must(os.WriteFile(*out, b, 0o644))
}

func setup(minconv int64) {
	log.Global.SetOutput(io.Discard)
	setForks()
	params.MinQuaiConversionAmount = big.NewInt(minconv)
	vm.InitializePrecompiles(loc)
	for _, n := range []string{"E1", "E2", "E3"} {
		eoaKey(n)
	}
}

func cmdParams() {
	setup(2000000)
	rent := rentValue()
	b, _ := json.Marshal(map[string]interface{}{"rent": rent.Int64(), "txgas": params.TxGas, "etxgas": params.ETXGas,
		"intrinsic": params.TxGas, "maxcode": maxCodeBytes, "etx_gas_divisor": params.MinimumEtxGasDivisor})
	fmt.Println(string(b))
}

func main() {
	if len(os.Args) < 2 {
		fmt.Fprintln(os.Stderr, "usage: evmdrv params|replay|random ...")
		os.Exit(2)
	}
	switch os.Args[1] {
	case "params":
		cmdParams()
	case "replay":
		cmdReplay(os.Args[2:])
	case "random":
		cmdRandom(os.Args[2:])
	default:
		os.Exit(2)
	}
}
