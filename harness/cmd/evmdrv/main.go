// evmdrv binds spec/EvmValue.tla to the real go-quai state transition (C02, C05).
//
//	evmdrv params
//	    prints the protocol numbers the conformance configurations of the specification must use.
//	evmdrv replay -in behaviours.ndjson -out result.json
//	    every behaviour (a JSON array of specification history records: one or more complete transactions with the
//	    specified observation after every step) is compiled into real bytecode, installed on a real state.StateDB and
//	    executed with core.ApplyTransaction (core.ApplyMessage for the kQuai address); a vm tracer reads the real state
//	    after every abstract step; every observation is compared with the specification's.
//	evmdrv random -seed S -n N -depth D -out trace.ndjson
//	    seeded random abstract programs; one event per specification action with the observed state, for
//	    spec/EvmValueTrace.tla.  Conservation and all-or-nothing are additionally evaluated natively (math/big).
package main

import (
	"bufio"
	"encoding/json"
	"flag"
	"fmt"
	"io"
	"math/big"
	"os"
	"reflect"
	"sort"

	"github.com/dominant-strategies/go-quai/log"
	"github.com/dominant-strategies/go-quai/params"
)

type Mismatch struct {
	Behaviour int     `json:"behaviour"`
	Step      int     `json:"step"`
	Reason    string  `json:"reason"`
	Action    string  `json:"action"`
	Op        string  `json:"op"`
	Exit      string  `json:"exit"`
	Expected  *Step   `json:"expected"`
	Got       *Step   `json:"got"`
	Steps     []*Step `json:"behaviour_steps"`
}

type DevHit struct {
	Op        string  `json:"op"`
	Exit      string  `json:"exit"`
	Count     int     `json:"count"`
	Behaviour int     `json:"behaviour"`
	Step      int     `json:"step"`
	Aon       string  `json:"aon"`
	Steps     []*Step `json:"behaviour_steps"`
}

func mapsEqual(a, b map[string]int64) bool {
	if len(a) != len(b) {
		return false
	}
	for k, v := range a {
		if w, ok := b[k]; !ok || w != v {
			return false
		}
	}
	return true
}

// compare one specification record with the event the implementation produced for it
func compare(exp, got *Step, tx *Tx) string {
	if got == nil {
		return "implementation produced no event for this step"
	}
	if exp.A != got.A {
		return fmt.Sprintf("action: specification %q, implementation %q", exp.A, got.A)
	}
	if exp.X != got.X || exp.Y != got.Y {
		return fmt.Sprintf("accounts: specification (%s,%s), implementation (%s,%s)", exp.X, exp.Y, got.X, got.Y)
	}
	switch exp.A {
	case "txbegin", "etxstage", "txend", "sdata", "kquai":
		if exp.Res != got.Res {
			return fmt.Sprintf("result: specification %q, implementation %q (%s)", exp.Res, got.Res, got.Note)
		}
	case "top", "call", "create":
		if cbool(exp.C, "enter") != cbool(got.C, "enter") {
			return fmt.Sprintf("frame entered: specification %v, implementation %v", cbool(exp.C, "enter"), cbool(got.C, "enter"))
		}
	}
	if exp.Cmp == 0 {
		return ""
	}
	eb := exp.Obs.Bal
	if exp.A == "txend" && tx.Kind != "inbound" {
		// the specification chose a gasUsed; the implementation's differs: the refund is (limit - used) x price
		eb = map[string]int64{}
		for k, v := range exp.Obs.Bal {
			eb[k] = v
		}
		if _, alive := eb[exp.X]; alive {
			if !(exp.Obs.Bal[exp.X] == 0 && got.Obs.Bal[exp.X] == 0) { // payer destroyed itself: nothing left to refund to
				eb[exp.X] += (exp.G - got.G) * exp.P
			}
		}
		if got.G < int64(params.TxGas) || got.G > cint(exp.C, "lim") {
			return fmt.Sprintf("gasUsed %d outside [%d, %d]", got.G, params.TxGas, cint(exp.C, "lim"))
		}
	}
	if !mapsEqual(eb, got.Obs.Bal) {
		return fmt.Sprintf("balances: specification %v, implementation %v", eb, got.Obs.Bal)
	}
	if exp.Obs.Netx != got.Obs.Netx {
		return fmt.Sprintf("ETX cache length: specification %d, implementation %d", exp.Obs.Netx, got.Obs.Netx)
	}
	if !mapsEqual(exp.Obs.Wq, got.Obs.Wq) {
		return fmt.Sprintf("wrapped Qi: specification %v, implementation %v", exp.Obs.Wq, got.Obs.Wq)
	}
	if !reflect.DeepEqual(exp.Obs.Lk, got.Obs.Lk) {
		return fmt.Sprintf("lockups: specification %v, implementation %v", exp.Obs.Lk, got.Obs.Lk)
	}
	if exp.Obs.St != got.Obs.St {
		return fmt.Sprintf("status word: specification %d, implementation %d", exp.Obs.St, got.Obs.St)
	}
	if exp.Obs.Pu != got.Obs.Pu {
		return fmt.Sprintf("status words pushed: specification %d, implementation %d", exp.Obs.Pu, got.Obs.Pu)
	}
	if sendOps[exp.A] {
		if (exp.Last == nil || exp.Last.K == "-") != (got.Last == nil) {
			return "recorded ETX: present on one side only"
		}
		if got.Last != nil && *exp.Last != *got.Last {
			return fmt.Sprintf("recorded ETX: specification %+v, implementation %+v", *exp.Last, *got.Last)
		}
	}
	if exp.A == "txend" {
		if len(exp.Out) != len(got.Out) {
			return fmt.Sprintf("outbound ETXs of the receipt: specification %v, implementation %v", exp.Out, got.Out)
		}
		for i := range exp.Out {
			if exp.Out[i] != got.Out[i] {
				return fmt.Sprintf("outbound ETX %d of the receipt: specification %+v, implementation %+v", i, exp.Out[i], got.Out[i])
			}
		}
	}
	if got.Nat != "" && got.Nat != "ok" {
		return "native conservation check: " + got.Nat
	}
	return ""
}

func readBehaviours(path string) [][]*Step {
	f, err := os.Open(path)
	must(err)
	defer f.Close()
	sc := bufio.NewScanner(f)
	sc.Buffer(make([]byte, 1<<20), 1<<28)
	var out [][]*Step
	for sc.Scan() {
		if len(sc.Bytes()) == 0 {
			continue
		}
		var b []*Step
		if err := json.Unmarshal(sc.Bytes(), &b); err != nil {
			must(fmt.Errorf("behaviour %d: %v", len(out), err))
		}
		out = append(out, b)
	}
	return out
}

func cmdReplay(args []string) {
	fs := flag.NewFlagSet("replay", flag.ExitOnError)
	in := fs.String("in", "", "behaviours ndjson")
	out := fs.String("out", "", "result json")
	maxMis := fs.Int("maxmis", 40, "")
	minconv := fs.Int64("minconv", 2000000, "params.MinQuaiConversionAmount to install")
	verbose := fs.Bool("v", false, "print the implementation's events")
	fs.Parse(args)
	setup(*minconv)
	behs := readBehaviours(*in)
	var mism []Mismatch
	devs := map[string]*DevHit{}
	actions := map[string]int{}
	ntx, nev, nskip := 0, 0, 0
	var harnessErrs []string
	for bi, beh := range behs {
		if len(beh) == 0 || beh[0].Pre == nil {
			must(fmt.Errorf("behaviour %d has no pre-state", bi))
		}
		txs, exp, err := parseBehaviour(beh)
		if err != nil {
			must(fmt.Errorf("behaviour %d: %v", bi, err))
		}
		w := newWorld(beh[0].Pre)
		base := 0
	txloop:
		for ti, tx := range txs {
			events, err := w.runTx(tx)
			if err != nil {
				harnessErrs = append(harnessErrs, fmt.Sprintf("behaviour %d tx %d: %v", bi, ti, err))
				break
			}
			ntx++
			if *verbose {
				for _, e := range events {
					b, _ := json.Marshal(e)
					fmt.Println(string(b))
				}
			}
			for i, e := range exp[ti] {
				var g *Step
				if i < len(events) {
					g = events[i]
				}
				nev++
				actions[e.A]++
				why := compare(e, g, tx)
				if why == "" && i == len(exp[ti])-1 && len(events) > len(exp[ti]) {
					why = fmt.Sprintf("implementation produced %d extra event(s), first %q", len(events)-len(exp[ti]), events[len(exp[ti])].A)
				}
				if why != "" {
					if len(mism) < *maxMis {
						m := Mismatch{Behaviour: bi, Step: base + i, Reason: why, Action: e.A, Expected: e, Got: g, Steps: beh}
						if e.Dev != "" && e.Dev != "-" {
							m.Op, m.Exit = e.A, e.Dev
						}
						mism = append(mism, m)
					} else {
						nskip++
					}
					break txloop
				}
				if e.Dev != "" && e.Dev != "-" {
					// the implementation reproduced a named deviation of the specification
					k := e.A + "/" + e.Dev
					if h, ok := devs[k]; ok {
						h.Count++
					} else {
						devs[k] = &DevHit{Op: e.A, Exit: e.Dev, Count: 1, Behaviour: bi, Step: base + i, Aon: g.Aon, Steps: beh}
					}
				}
			}
			// the specification's gasUsed is an arbitrary choice: continue from its post-state
			last := exp[ti][len(exp[ti])-1]
			if last.A == "txend" && ti+1 < len(txs) && tx.Kind != "inbound" {
				if _, ok := w.addr[last.X]; ok {
					ia := w.internal(last.X)
					if w.statedb.GetCodeSize(ia) == 0 && w.statedb.Exist(ia) {
						w.statedb.SetBalance(ia, big.NewInt(last.Obs.Bal[last.X]))
						w.statedb.Finalize(false)
					}
				}
			}
			base += len(exp[ti])
		}
	}
	var dl []*DevHit
	for _, d := range devs {
		dl = append(dl, d)
	}
	sort.Slice(dl, func(i, j int) bool { return dl[i].Op+dl[i].Exit < dl[j].Op+dl[j].Exit })
	res := map[string]interface{}{"behaviours": len(behs), "txs": ntx, "events_compared": nev, "mismatches": mism, "mismatches_not_listed": nskip,
		"deviations_reproduced": dl, "actions": actions, "harness_errors": harnessErrs}
	b, _ := json.MarshalIndent(res, "", " ")
	must(os.WriteFile(*out, b, 0o644))
}

func setup(minconv int64) {
	log.Global.SetOutput(io.Discard)
	setForks()
	params.MinQuaiConversionAmount = big.NewInt(minconv)
}

func cmdParams() {
	setup(2000000)
	rent := rentValue()
	b, _ := json.Marshal(map[string]interface{}{"rent": rent.Int64(), "txgas": params.TxGas, "etxgas": params.ETXGas,
		"intrinsic": params.TxGas, "maxcode": maxCodeBytes, "etx_gas_divisor": params.MinimumEtxGasDivisor})
	fmt.Println(string(b))
}

func main() {
	if len(os.Args) < 2 {
		fmt.Fprintln(os.Stderr, "usage: evmdrv params|replay|random ...")
		os.Exit(2)
	}
	switch os.Args[1] {
	case "params":
		cmdParams()
	case "replay":
		cmdReplay(os.Args[2:])
	case "random":
		cmdRandom(os.Args[2:])
	default:
		os.Exit(2)
	}
}
