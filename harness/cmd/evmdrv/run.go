package main

import (
	"fmt"
	"runtime/debug"
	"math/big"

	"github.com/dominant-strategies/go-quai/common"
	"github.com/dominant-strategies/go-quai/core"
	"github.com/dominant-strategies/go-quai/core/types"
	"github.com/dominant-strategies/go-quai/core/vm"
	"github.com/dominant-strategies/go-quai/params"
)

func (w *World) preOf() *Pre {
	o := w.observe(nil, 0)
	return &Pre{Bal: o.Bal, Wq: o.Wq, Lk: o.Lk, LockVal: w.lockVal}
}

func xGasClass(g int64) string {
	intrinsic := int64(params.TxGas)
	switch {
	case g < intrinsic+int64(params.ETXGas):
		return "ltetx"
	case g < intrinsic+int64(params.ETXGas)+int64(params.TxGas):
		return "lttx"
	}
	return "ok"
}

// runTx executes one abstract transaction on the real code and returns one event per specification action.
func (w *World) runTx(tx *Tx) (events []*Step, err error) {
	defer func() {
		if r := recover(); r != nil {
			err = fmt.Errorf("panic while executing transaction: %v\n%s", r, debug.Stack())
		}
	}()
	prog := w.compile(tx)
	// install this transaction's scripts on the (still existing) host contracts
	for _, n := range w.names {
		if n == "N" || n[0] != 'K' {
			continue
		}
		ia := w.internal(n)
		if w.statedb.GetCodeSize(ia) == 0 {
			continue // destroyed earlier
		}
		code, ok := prog.hostCode[n]
		if !ok {
			code = []byte{byte(vm.STOP)}
		}
		w.statedb.SetCode(ia, code)
	}
	w.statedb.Finalize(false)
	pre := w.preOf()
	sumBefore := w.universeTotal()
	trieBefore := sumBefore
	preNeg := false
	for _, v := range pre.Bal {
		preNeg = preNeg || v < 0
	}
	if !preNeg {
		trieBefore, _ = w.trieTotal()
	}
	if trieBefore.Cmp(sumBefore) != 0 {
		return nil, fmt.Errorf("harness: trie total %v differs from universe total %v before the transaction", trieBefore, sumBefore)
	}

	header, parent := w.header(tx.Rg)
	begin := &Step{X: tx.Payer, Y: tx.To, V: tx.V, G: tx.G, P: tx.P, Res: "ok", Dev: "-", Out: []EtxView{}, Pre: pre}
	var qtx *types.Transaction
	var msg types.Message
	switch tx.Kind {
	case "inbound":
		begin.A = "etxstage"
		begin.C = map[string]interface{}{"k": "inbound", "rg": tx.Rg, "pf": tx.Pf, "glc": tx.Glc}
		to := w.addrOf(tx.To)
		gas := uint64(2000000)
		if tx.Glc == "toohigh" {
			gas = blockGasLim/params.MinimumEtxGasDivisor + 1
		}
		var h common.Hash
		h[0], h[31] = 0xe7, byte(w.ntx)
		qtx = types.NewTx(&types.ExternalTx{OriginatingTxHash: h, ETXIndex: 0, Gas: gas, To: &to, Value: big.NewInt(tx.V),
			Data: prog.txData, Sender: w.ext["elig"], EtxType: types.DefaultType})
	case "kquai":
		begin.A = "txbegin"
		begin.C = map[string]interface{}{"k": tx.Kind, "rg": tx.Rg, "pf": tx.Pf}
		from := w.addrOf("Q")
		fi, _ := from.InternalAndQuaiAddress()
		msg = types.NewMessage(from, &from, w.statedb.GetNonce(fi), big.NewInt(0), uint64(tx.G), big.NewInt(tx.P), prog.txData, nil, false)
	default:
		begin.A = "txbegin"
		begin.C = map[string]interface{}{"k": tx.Kind, "rg": tx.Rg, "pf": tx.Pf}
		key := w.keys[tx.Payer]
		if key == nil {
			return nil, fmt.Errorf("harness: payer %s has no key", tx.Payer)
		}
		inner := &types.QuaiTx{ChainID: w.cfg.ChainID, Nonce: w.statedb.GetNonce(w.internal(tx.Payer)), GasPrice: big.NewInt(tx.P),
			Gas: uint64(tx.G), Value: big.NewInt(tx.V), Data: prog.txData}
		switch tx.Kind {
		case "call":
			to := w.addrOf(tx.To)
			inner.To = &to
		case "pbad":
			to := w.addrOf("P")
			inner.To = &to
		case "sdata":
			to := w.addrOf(tx.Payer)
			inner.To = &to
		case "xsend":
			to := w.ext[tx.To]
			inner.To = &to
		case "create":
		}
		var e error
		qtx, e = types.SignNewTx(key, w.signer, inner)
		if e != nil {
			return nil, fmt.Errorf("harness: sign: %v", e)
		}
	}
	w.ntx++
	tr := newTracer(w, tx, prog)
	cfg := vm.Config{Debug: true, Tracer: tr}
	gp := new(types.GasPool).AddGas(blockGasLim)
	var usedGas, usedState uint64
	etxR, etxP := uint64(1)<<60, uint64(1)<<60
	snap := w.statedb.Snapshot()
	nBefore, hadN := w.addr["N"]

	var status uint64
	var used uint64
	var fees *big.Int
	var outs []*types.Transaction
	var rejected error
	if tx.Kind == "kquai" {
		// the key of the kQuai setting address is not available: core.ApplyMessage on a message from that address,
		// followed by what applyTransaction does after it
		bctx, e := core.NewEVMBlockContext(header, parent, w.chain, &w.coinbase)
		if e != nil {
			return nil, fmt.Errorf("harness: block context: %v", e)
		}
		w.statedb.Prepare(common.Hash{byte(w.ntx)}, w.ntx)
		env := vm.NewEVM(bctx, core.NewEVMTxContext(msg), w.statedb, w.cfg, cfg, w.batch)
		res, e := core.ApplyMessage(env, msg, gp)
		if e != nil {
			rejected = e
		} else {
			w.statedb.Finalize(true)
			used, fees = res.UsedGas, res.QuaiFees
			if res.Err == nil {
				status = 1
			}
		}
	} else {
		w.statedb.Prepare(qtx.Hash(), w.ntx)
		receipt, f, e := core.ApplyTransaction(w.cfg, parent, common.ZONE_CTX, w.chain, &w.coinbase, gp, w.statedb, header, qtx,
			&usedGas, &usedState, cfg, &etxR, &etxP, w.batch, w.logger)
		if e != nil {
			rejected = e
		} else {
			status, used, fees, outs = receipt.Status, receipt.GasUsed, f, receipt.OutboundEtxs
		}
	}
	if rejected != nil {
		// consensus error: the block would be invalid; callers discard the state (core/worker.go reverts to its snapshot)
		w.statedb.RevertToSnapshot(snap)
		if hadN {
			w.addr["N"] = nBefore
		} else {
			delete(w.addr, "N")
		}
		begin.Res = "reject"
		begin.Note = rejected.Error()
		begin.Cmp = 1
		begin.Obs = w.observe(nil, 0)
		begin.Obs.Ex = "reject"
		return []*Step{begin}, nil
	}
	begin.Obs = Obs{Bal: map[string]int64{}, Wq: map[string]int64{}, Lk: map[string]string{}, St: -1, Pu: -1}
	events = append(events, begin)
	events = append(events, tr.events...)

	// outbound list of the receipt without the prefilled entries
	var views []EtxView
	if int64(len(outs)) >= tx.Pf {
		for i := int64(0); i < tx.Pf; i++ {
			if outs[i] != w.dummyEtx {
				return nil, fmt.Errorf("harness: prefilled ETX %d missing from the receipt", i)
			}
		}
		for _, e := range outs[tx.Pf:] {
			v := EtxView{K: etxKind(e, tx.Kind == "xsend"), To: w.nameOf(*e.To()), Val: valI64(e.Value()), Idx: int64(e.ETXIndex())}
			if v.K == "CLAIM" && e.To().Equal(w.addrOf("E1")) {
				v.To = "elig" // the claim's recipient is fixed by the driver; the specification keeps the class placeholder
			}
			views = append(views, v)
		}
	} else if len(outs) > 0 {
		return nil, fmt.Errorf("harness: receipt lost prefilled ETXs")
	}
	if views == nil {
		views = []EtxView{}
	}
	post := w.observe(nil, 0)
	post.Netx = 0
	res := "failed"
	if status == 1 {
		res = "ok"
	}

	// native conservation (math/big), independent of the specification
	sumAfter := w.universeTotal()
	nat := "ok"
	negative := ""
	for _, n := range w.names {
		if post.Bal[n] < 0 {
			negative = n
		}
	}
	trieAfter := sumAfter
	if negative == "" {
		trieAfter, _ = w.trieTotal() // (the trie encoder panics on a negative balance)
	}
	credits := new(big.Int).Mul(w.rent, big.NewInt(int64(tr.nSD)))
	if tx.Kind == "sdata" {
		credits.Add(credits, w.rent)
	}
	if tx.Kind == "inbound" {
		credits.Add(credits, big.NewInt(tx.V))
	}
	out := new(big.Int)
	for _, e := range outs {
		if e != w.dummyEtx && (e.EtxType() == types.DefaultType || e.EtxType() == types.ConversionType) {
			out.Add(out, e.Value())
		}
	}
	if fees == nil {
		fees = new(big.Int)
	}
	bound := new(big.Int).Sub(sumBefore, fees)
	bound.Sub(bound, out)
	bound.Add(bound, credits)
	switch {
	case trieAfter.Cmp(sumAfter) != 0:
		nat = fmt.Sprintf("value-outside-universe: trie total %v, universe total %v", trieAfter, sumAfter)
	case sumAfter.Cmp(bound) > 0:
		nat = fmt.Sprintf("value-created: sum after %v > sum before %v - fees %v - outbound %v + credits %v", sumAfter, sumBefore, fees, out, credits)
	case tx.Kind != "inbound" && fees.Cmp(new(big.Int).Mul(new(big.Int).SetUint64(used), big.NewInt(tx.P))) != 0:
		nat = fmt.Sprintf("fees %v differ from gasUsed %d x price %d", fees, used, tx.P)
	case tx.Kind != "inbound" && used > uint64(tx.G):
		nat = fmt.Sprintf("gasUsed %d above the limit %d", used, tx.G)
	}
	if negative != "" {
		nat = "negative-balance: " + negative
	}

	switch tx.Kind {
	case "sdata":
		events = append(events, &Step{A: "sdata", X: tx.Payer, Y: tx.Benef, G: int64(used), P: tx.P, C: map[string]interface{}{"k": "sdata", "lim": tx.G},
			Res: res, Dev: "-", Out: []EtxView{}, Obs: withSt(post, int64(status), -1), Cmp: 1, Nat: nat})
		return events, nil
	case "kquai":
		events = append(events, &Step{A: "kquai", X: tx.Payer, Y: "-", G: int64(used), P: tx.P, C: map[string]interface{}{"k": tx.Dc, "lim": tx.G},
			Res: res, Dev: "-", Out: []EtxView{}, Obs: withSt(post, int64(status), -1), Cmp: 1, Nat: nat})
		return events, nil
	case "xsend":
		o := &Op{A: "XCALL", Dest: tx.To, Amt: tx.V, Gl: xGasClass(tx.G), Fee: "zero", Al: "empty"}
		xo := post
		xo.Netx = int64(len(views))
		s := &Step{A: "XCALL", X: tx.Payer, Y: tx.To, V: tx.V, C: map[string]interface{}{"k": "XCALL", "gl": o.Gl, "fee": "zero", "al": "empty"},
			Dev: "-", Out: []EtxView{}, Obs: withSt(xo, int64(status), 1), Cmp: 1}
		var last *types.Transaction
		if len(outs) > 0 {
			last = outs[len(outs)-1]
			v := w.etxView(last, o)
			s.Last = &v
		}
		// before: the payer's balance after buyGas; all gas is consumed, so the refund is zero
		preX := Obs{Bal: map[string]int64{tx.Payer: pre.Bal[tx.Payer] - tx.G*tx.P}, Netx: 0}
		s.Aon = w.allOrNothing(o, tx.Payer, tx, preX, s.Obs, last)
		events = append(events, s)
	}
	end := &Step{A: "txend", X: tx.Payer, Y: "-", G: int64(used), P: tx.P, C: map[string]interface{}{"k": tx.Kind, "lim": tx.G}, Res: res, Dev: "-",
		Out: views, Obs: withSt(post, int64(status), -1), Cmp: 1, Nat: nat}
	if tx.Kind == "inbound" {
		end.G, end.P = 0, 0
	}
	events = append(events, end)
	return events, nil
}

func withSt(o Obs, st, pu int64) Obs {
	o.St, o.Pu = st, pu
	return o
}
