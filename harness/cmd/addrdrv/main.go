// addrdrv binds spec/Addr.tla to the real address / state code of go-quai (C16).
//
//	addrdrv replay -in behaviours.ndjson -out result.json -seed S -inst N
//	    every behaviour emitted by TLC (init record naming the node, then classify / touch / evmcall / create /
//	    qiout records with the outcome the specification defines) is instantiated N times with seeded random
//	    20-byte values of the named class and executed on the real common.* constructors and decoders,
//	    crypto.PubkeyBytesToAddress / CreateAddress / CreateAddress2, a real state.StateDB (account trie walked
//	    after every state step), a real vm.EVM (Call / Create / Create2) and the real core.ProcessQiTx on a
//	    memory database (UTXO records scanned after the batch is written).
package main

import (
	"bytes"
	"crypto/ecdsa"
	"encoding/binary"
	"encoding/hex"
	"encoding/json"
	"flag"
	"fmt"
	"io"
	"math/big"
	"math/rand"
	"os"
	"runtime/debug"
	"sort"
	"strings"
	"sync"

	"github.com/btcsuite/btcd/btcec/v2"
	"github.com/btcsuite/btcd/btcec/v2/schnorr"
	"github.com/dominant-strategies/go-quai/common"
	"github.com/dominant-strategies/go-quai/consensus"
	"github.com/dominant-strategies/go-quai/core"
	"github.com/dominant-strategies/go-quai/core/rawdb"
	"github.com/dominant-strategies/go-quai/core/state"
	"github.com/dominant-strategies/go-quai/core/types"
	"github.com/dominant-strategies/go-quai/core/vm"
	"github.com/dominant-strategies/go-quai/crypto"
	"github.com/dominant-strategies/go-quai/log"
	"github.com/dominant-strategies/go-quai/params"
	"github.com/dominant-strategies/go-quai/rlp"
	"github.com/dominant-strategies/go-quai/trie"
	"github.com/holiman/uint256"
	"golang.org/x/crypto/sha3"
)

func must(err error) {
	if err != nil {
		fmt.Fprintln(os.Stderr, "addrdrv fatal:", err)
		os.Exit(3)
	}
}

var nodeLocs = map[string]common.Location{"prime": {}, "region": {0}, "zoneA": {0, 0}, "zoneB": {0, 1}}

type Rec struct {
	Op   string        `json:"op"`
	Node string        `json:"node,omitempty"`
	Path string        `json:"path,omitempty"`
	Zb   string        `json:"zb,omitempty"`
	Led  string        `json:"led,omitempty"`
	Zero bool          `json:"zero,omitempty"`
	M    string        `json:"m,omitempty"`
	Kind string        `json:"kind,omitempty"`
	Mode string        `json:"mode,omitempty"`
	Len  int           `json:"len,omitempty"`
	Res  []interface{} `json:"res,omitempty"`
}

type Mismatch struct {
	Behaviour int    `json:"behaviour"`
	Inst      int    `json:"inst"`
	Seed      int64  `json:"seed"`
	Step      int    `json:"step"`
	Op        string `json:"op"`
	Kind      string `json:"kind"`
	Node      string `json:"node"`
	Path      string `json:"path"`
	Class     string `json:"class"`
	Expected  string `json:"expected"`
	Got       string `json:"got"`
	Detail    string `json:"detail"`
	Beh       []Rec  `json:"beh"`
}

func keccak(parts ...[]byte) []byte {
	h := sha3.NewLegacyKeccak256()
	for _, p := range parts {
		h.Write(p)
	}
	return h.Sum(nil)
}

// ---------------------------------------------------------------- class -> concrete bytes

func zoneByte(r *rand.Rand, zb string) byte {
	switch zb {
	case "z00":
		return 0x00
	case "z01":
		return 0x01
	}
	special := []byte{0x02, 0x10, 0x11, 0x0f, 0xf0, 0xff, 0x20, 0x80, 0x7f}
	if r.Intn(2) == 0 {
		return special[r.Intn(len(special))]
	}
	for {
		b := byte(r.Intn(256))
		if b > 1 {
			return b
		}
	}
}

func ledgerByte(r *rand.Rand, led string) byte {
	if led == "quai" {
		return []byte{0x00, 0x7f, 0x01, byte(r.Intn(128)), byte(r.Intn(128))}[r.Intn(5)]
	}
	return []byte{0x80, 0xff, 0x81, byte(128 + r.Intn(128)), byte(128 + r.Intn(128))}[r.Intn(5)]
}

func instClass(r *rand.Rand, zb, led string, zero bool) (b [20]byte) {
	b[0] = zoneByte(r, zb)
	if zero {
		if led == "qi" {
			b[1] = 0x80
		}
		return b
	}
	b[1] = ledgerByte(r, led)
	for {
		r.Read(b[2:])
		if !bytes.Equal(b[2:], make([]byte, 18)) {
			return b
		}
	}
}

func inClass(b []byte, zb, led string) bool {
	z := "other"
	if b[0] == 0 {
		z = "z00"
	} else if b[0] == 1 {
		z = "z01"
	}
	l := "quai"
	if b[1] > 127 {
		l = "qi"
	}
	return z == zb && l == led
}

// ---------------------------------------------------------------- environment (ground keys)

type env struct {
	keys map[string][]*ecdsa.PrivateKey // "z00/quai" ... -> keys whose address is in that class
}

func keyAddr(k *ecdsa.PrivateKey) []byte {
	var xy [64]byte
	k.PublicKey.X.FillBytes(xy[:32])
	k.PublicKey.Y.FillBytes(xy[32:])
	return keccak(xy[:])[12:]
}

func newEnv(seed int64) *env {
	r := rand.New(rand.NewSource(seed*31337 + 3))
	e := &env{keys: map[string][]*ecdsa.PrivateKey{}}
	need := map[string]int{}
	for _, zb := range []string{"z00", "z01", "other"} {
		for _, led := range []string{"quai", "qi"} {
			need[zb+"/"+led] = 6
		}
	}
	left := 36
	for left > 0 {
		var d [32]byte
		r.Read(d[:])
		_, pub := btcec.PrivKeyFromBytes(d[:])
		a := keccak(pub.SerializeUncompressed()[1:])[12:]
		for c, n := range need {
			p := strings.Split(c, "/")
			if n > 0 && inClass(a, p[0], p[1]) {
				if k, err := crypto.ToECDSA(d[:]); err == nil {
					e.keys[c] = append(e.keys[c], k)
					need[c]--
					left--
				}
			}
		}
	}
	return e
}

func uncompressed(pub *ecdsa.PublicKey) []byte {
	out := make([]byte, 65)
	out[0] = 4
	pub.X.FillBytes(out[1:33])
	pub.Y.FillBytes(out[33:])
	return out
}

// ---------------------------------------------------------------- the run of one behaviour

type run struct {
	e    *env
	r    *rand.Rand
	node string
	loc  common.Location
	st   *state.StateDB
	sdb  state.Database
	want map[[20]byte]bool // accounts that must be in the trie
	qidb *qiWorld
	fail func(kind, path, class, exp, got, detail string)
	cls  map[string]bool
}

func (x *run) state() *state.StateDB {
	if x.st == nil {
		x.sdb = state.NewDatabase(rawdb.NewMemoryDatabase(log.Global))
		etx := state.NewDatabase(rawdb.NewMemoryDatabase(log.Global))
		st, err := state.New(types.EmptyRootHash, types.EmptyRootHash, big.NewInt(0), x.sdb, etx, nil, x.loc, log.Global)
		must(err)
		x.st = st
	}
	return x.st
}

func expInternal(loc common.Location, b []byte) bool {
	return len(loc) == 2 && b[0] == loc[0]<<4+loc[1]
}

// every observation an Address value offers must agree with the formulas of the protocol
func (x *run) checkAddr(path string, a common.Address, b [20]byte, wantInternal bool, wantLed string) bool {
	class := fmt.Sprintf("%02x/%s", b[0], wantLed)
	bad := func(what string, exp, got interface{}) bool {
		x.fail("classification", path, class, fmt.Sprint(exp), fmt.Sprint(got), what+" addr="+hex.EncodeToString(b[:]))
		return false
	}
	if !bytes.Equal(a.Bytes(), b[:]) {
		return bad("Bytes()", hex.EncodeToString(b[:]), hex.EncodeToString(a.Bytes()))
	}
	if a.Bytes20() != common.AddressBytes(b) {
		return bad("Bytes20()", "", "")
	}
	wantLoc := common.Location{b[0] >> 4, b[0] & 0x0f}
	if l := a.Location(); l == nil || !l.Equal(wantLoc) {
		return bad("Location()", wantLoc, l)
	}
	if l := common.AddressBytes(b).Location(); !l.Equal(wantLoc) {
		return bad("AddressBytes.Location()", wantLoc, l)
	}
	if l := common.LocationFromAddressBytes(b[:]); !l.Equal(wantLoc) {
		return bad("LocationFromAddressBytes", wantLoc, l)
	}
	qi := wantLed == "qi"
	if qi != (b[1] > 127) {
		return bad("driver: class/bytes", qi, b[1])
	}
	if a.IsInQiLedgerScope() != qi || a.IsInQuaiLedgerScope() == qi {
		return bad("IsInQiLedgerScope/IsInQuaiLedgerScope", fmt.Sprint(qi, !qi), fmt.Sprint(a.IsInQiLedgerScope(), a.IsInQuaiLedgerScope()))
	}
	ab := common.AddressBytes(b)
	if ab.IsInQiLedgerScope() != qi || ab.IsInQuaiLedgerScope() == qi {
		return bad("AddressBytes ledger scope", qi, ab.IsInQiLedgerScope())
	}
	ia := common.InternalAddress(b)
	if ia.IsInQiLedgerScope() != qi || ia.IsInQuaiLedgerScope() == qi {
		return bad("InternalAddress ledger scope", qi, ia.IsInQiLedgerScope())
	}
	if wantInternal != expInternal(x.loc, b[:]) {
		return bad("driver: spec class vs byte formula", wantInternal, expInternal(x.loc, b[:]))
	}
	if got := common.IsInChainScope(b[:], x.loc); got != wantInternal {
		return bad("IsInChainScope", wantInternal, got)
	}
	if len(x.loc) == 2 {
		if got := x.loc.ContainsAddress(a); got != wantInternal {
			return bad("Location.ContainsAddress", wantInternal, got)
		}
	}
	in, err := a.InternalAddress()
	if (err == nil) != wantInternal {
		return bad("InternalAddress() ok", wantInternal, fmt.Sprint(err == nil, " ", err))
	}
	if err == nil && in != common.InternalAddress(b) {
		return bad("InternalAddress() value", "", "")
	}
	if _, err := a.InternalAndQuaiAddress(); (err == nil) != (wantInternal && !qi) {
		return bad("InternalAndQuaiAddress() ok", wantInternal && !qi, fmt.Sprint(err == nil, " ", err))
	}
	if _, err := a.InternalAndQiAddress(); (err == nil) != (wantInternal && qi) {
		return bad("InternalAndQiAddress() ok", wantInternal && qi, fmt.Sprint(err == nil, " ", err))
	}
	if err := common.CheckIfBytesAreInternalAndQiAddress(b[:], x.loc); (err == nil) != (wantInternal && qi) {
		return bad("CheckIfBytesAreInternalAndQiAddress", wantInternal && qi, err)
	}
	if len(x.loc) == 2 {
		if got := common.IsConversionOutput(b[:], x.loc); got != (wantInternal && !qi) {
			return bad("IsConversionOutput", wantInternal && !qi, got)
		}
	}
	return true
}

func hexVariants(r *rand.Rand, b [20]byte) string {
	h := hex.EncodeToString(b[:])
	switch r.Intn(4) {
	case 0:
		return "0x" + h
	case 1:
		return "0x" + strings.ToUpper(h)
	case 2:
		return common.AddressBytes(b).Hex() // checksummed
	}
	return h
}

// construct the address through `path`; ok=false: the path is not applicable (reported separately)
func (x *run) construct(path string, b [20]byte, zb, led string) (a common.Address, got [20]byte, err error) {
	r, loc := x.r, x.loc
	got = b
	switch path {
	case "bytes":
		a = common.BytesToAddress(b[:], loc)
	case "bytes20":
		a = common.Bytes20ToAddress(b, loc)
	case "hex":
		a = common.HexToAddress(hexVariants(r, b), loc)
	case "json":
		err = json.Unmarshal([]byte(`"0x`+hex.EncodeToString(b[:])+`"`), &a)
	case "text":
		err = a.UnmarshalText([]byte("0x" + hex.EncodeToString(b[:])))
	case "rlp":
		var enc []byte
		if r.Intn(2) == 0 {
			enc, err = rlp.EncodeToBytes(b[:])
		} else {
			enc, err = rlp.EncodeToBytes(common.Bytes20ToAddress(b, loc))
		}
		if err == nil {
			err = rlp.DecodeBytes(enc, &a)
		}
	case "proto":
		if r.Intn(2) == 0 {
			err = a.ProtoDecode(&common.ProtoAddress{Value: b[:]}, loc)
		} else {
			err = a.ProtoDecode(common.Bytes20ToAddress(b, common.Location{0, 0}).ProtoEncode(), loc)
		}
	case "big":
		a = common.BigToAddress(new(big.Int).SetBytes(b[:]), loc)
	case "scan":
		err = a.Scan(b[:], loc)
	case "mixedcase":
		var m *common.MixedcaseAddress
		m, err = common.NewMixedcaseAddressFromString("0x"+hex.EncodeToString(b[:]), loc)
		if err == nil {
			a = m.Address()
		}
	case "txto", "txal":
		to := common.Bytes20ToAddress(b, common.Location{0, 0})
		tx := types.NewTx(&types.QuaiTx{ChainID: big.NewInt(9), Nonce: r.Uint64(), GasPrice: big.NewInt(1), Gas: 21000, To: &to, Value: big.NewInt(1), Data: []byte{},
			AccessList: types.AccessList{{Address: to, StorageKeys: []common.Hash{}}}, V: big.NewInt(0), R: big.NewInt(0), S: big.NewInt(0)})
		var p *types.ProtoTransaction
		if p, err = tx.ProtoEncode(); err == nil {
			tx2 := new(types.Transaction)
			if err = tx2.ProtoDecode(p, loc); err == nil {
				if path == "txto" {
					a = *tx2.To()
				} else {
					a = tx2.AccessList()[0].Address
				}
			}
		}
	case "etxsender":
		s := common.Bytes20ToAddress(b, common.Location{0, 0})
		tx := types.NewTx(&types.ExternalTx{OriginatingTxHash: common.Hash{1}, ETXIndex: 1, Gas: 21000, To: &s, Value: big.NewInt(1), Data: []byte{}, AccessList: types.AccessList{}, Sender: s})
		var p *types.ProtoTransaction
		if p, err = tx.ProtoEncode(); err == nil {
			tx2 := new(types.Transaction)
			if err = tx2.ProtoDecode(p, loc); err == nil {
				if r.Intn(2) == 0 {
					a = tx2.ETXSender()
				} else {
					a = *tx2.To()
				}
			}
		}
	case "txsender":
		// the sender of a signed Quai transaction, asked for with a signer of THIS node's location after the per-transaction sender
		// cache was (half of the time) filled by tx.Hash(), which derives the sender under the transaction's own chain id and a
		// throw-away location {0,0}: the cached 20 bytes must be classified for the location asked for
		ks := x.e.keys[zb+"/"+led]
		k := ks[r.Intn(len(ks))]
		copy(got[:], keyAddr(k))
		to := common.Bytes20ToAddress(b, common.Location{0, 0})
		var tx *types.Transaction
		tx, err = types.SignTx(types.NewTx(&types.QuaiTx{ChainID: big.NewInt(9), Nonce: r.Uint64(), GasPrice: big.NewInt(1), Gas: 21000, To: &to, Value: big.NewInt(1), Data: []byte{}}),
			types.NewSigner(big.NewInt(9), common.Location{0, 0}), k)
		if err == nil {
			if r.Intn(2) == 0 {
				tx.Hash()
			} else if r.Intn(2) == 0 {
				types.Sender(types.NewSigner(big.NewInt(9), common.Location{1, 1}), tx)
			}
			a, err = types.Sender(types.NewSigner(big.NewInt(9), loc), tx)
		}
	case "pubkey":
		ks := x.e.keys[zb+"/"+led]
		k := ks[r.Intn(len(ks))]
		copy(got[:], keyAddr(k))
		if r.Intn(2) == 0 {
			a = crypto.PubkeyBytesToAddress(uncompressed(&k.PublicKey), loc)
		} else {
			a = crypto.PubkeyToAddress(k.PublicKey, loc)
		}
	case "create":
		var c [20]byte
		r.Read(c[:])
		caller := common.Bytes20ToAddress(c, loc)
		code := make([]byte, r.Intn(40))
		r.Read(code)
		for n := r.Uint64() >> 1; ; n++ {
			var nb [8]byte
			binary.BigEndian.PutUint64(nb[:], n)
			d := keccak(c[:], nb[:], code)[12:]
			if inClass(d, zb, led) {
				copy(got[:], d)
				a = crypto.CreateAddress(caller, n, code, loc)
				break
			}
		}
	case "create2":
		var c [20]byte
		r.Read(c[:])
		caller := common.Bytes20ToAddress(c, loc)
		var ih [32]byte
		r.Read(ih[:])
		var salt [32]byte
		r.Read(salt[:])
		for i := uint64(0); ; i++ {
			binary.BigEndian.PutUint64(salt[8:16], i)
			d := keccak([]byte{0xff}, c[:], salt[:], ih[:])[12:]
			if inClass(d, zb, led) {
				copy(got[:], d)
				a = crypto.CreateAddress2(caller, salt, ih[:], loc)
				break
			}
		}
	default:
		err = fmt.Errorf("unknown path %s", path)
	}
	return
}

// the account trie, walked leaf by leaf: hashed keys of all accounts
func (x *run) trieAccounts() map[common.Hash]bool {
	// StateDB.Dump skips out-of-scope accounts by itself and Commit refuses to run after a refused
	// createObject (dbErr), so: commit an independent copy (Copy does not inherit dbErr) and walk the
	// committed account trie leaf by leaf
	cp := x.state().Copy()
	root, err := cp.Commit(false)
	must(err)
	tr, err := x.sdb.OpenTrie(root)
	must(err)
	out := map[common.Hash]bool{}
	it := trie.NewIterator(tr.NodeIterator(nil))
	for it.Next() {
		out[common.BytesToHash(it.Key)] = true
	}
	return out
}

func (x *run) checkTrie(what string) bool {
	got := x.trieAccounts()
	for a := range x.want {
		h := common.BytesToHash(keccak(a[:]))
		if !got[h] {
			x.fail("trie-missing", what, hex.EncodeToString(a[:2]), "account present", "absent", "expected account "+hex.EncodeToString(a[:])+" is not in the state trie")
			return false
		}
		delete(got, h)
	}
	if len(got) > 0 {
		x.fail("trie-extra", what, "", "no other account", fmt.Sprint(len(got), " unexpected account(s)"), "the state trie holds an account that must not exist")
		return false
	}
	return true
}

func (x *run) touch(m string, b [20]byte) {
	st := x.state()
	ia := common.InternalAddress(b)
	one := big.NewInt(int64(1 + x.r.Intn(1000)))
	switch m {
	case "AddBalance":
		st.AddBalance(ia, one)
	case "SubBalance":
		st.SubBalance(ia, big.NewInt(0))
	case "SetBalance":
		st.SetBalance(ia, one)
	case "SetNonce":
		st.SetNonce(ia, 1+uint64(x.r.Intn(100)))
	case "SetCode":
		st.SetCode(ia, []byte{0x60, 0x00, byte(x.r.Intn(256))})
	case "SetState":
		st.SetState(ia, common.Hash{1}, common.Hash{byte(1 + x.r.Intn(200))})
	case "SetStorage":
		st.SetStorage(ia, map[common.Hash]common.Hash{{2}: {3}})
	case "CreateAccount":
		st.CreateAccount(ia)
	default:
		must(fmt.Errorf("unknown mutator %s", m))
	}
}

func (x *run) evm(blockNumber int64) *vm.EVM {
	cfg := *params.Blake3PowLocalChainConfig
	cfg.Location = x.loc
	st := x.state()
	st.ConfigureAccessListChecks(false)
	bctx := vm.BlockContext{CanTransfer: core.CanTransfer, Transfer: core.Transfer, GetHash: func(uint64) common.Hash { return common.Hash{} },
		CheckIfEtxEligible: func(common.Hash, common.Location) bool { return true },
		PrimaryCoinbase: common.ZeroAddress(common.Location{0, 0}), GasLimit: 30_000_000, BlockNumber: big.NewInt(blockNumber), Time: big.NewInt(1000),
		Difficulty: big.NewInt(1000), BaseFee: big.NewInt(1), QuaiStateSize: big.NewInt(0)}
	return vm.NewEVM(bctx, vm.TxContext{Origin: common.ZeroAddress(common.Location{0, 0}), GasPrice: big.NewInt(1)}, st, &cfg, vm.Config{}, nil)
}

// a funded in-zone Quai account (when the node is a zone chain)
func (x *run) caller() (common.Address, [20]byte, bool) {
	if len(x.loc) != 2 {
		var b [20]byte
		x.r.Read(b[:])
		return common.Bytes20ToAddress(b, x.loc), b, false
	}
	own := "z00"
	if x.loc[1] == 1 {
		own = "z01"
	}
	b := instClass(x.r, own, "quai", false)
	x.state().AddBalance(common.InternalAddress(b), new(big.Int).Lsh(big.NewInt(1), 100))
	x.want[b] = true
	return common.Bytes20ToAddress(b, x.loc), b, true
}

// ---------------------------------------------------------------- Qi outputs

type stubChain struct{ terminus *types.WorkObject }

func (s *stubChain) Engine(*types.WorkObjectHeader) consensus.Engine          { return nil }
func (s *stubChain) GetHeaderOrCandidateByHash(common.Hash) *types.WorkObject { return s.terminus }
func (s *stubChain) NodeCtx() int                                             { return common.ZONE_CTX }
func (s *stubChain) IsGenesisHash(common.Hash) bool                           { return false }
func (s *stubChain) GetHeaderByHash(common.Hash) *types.WorkObject            { return s.terminus }
func (s *stubChain) GetBlockByHash(common.Hash) *types.WorkObject             { return s.terminus }
func (s *stubChain) CheckIfEtxIsEligible(common.Hash, common.Location) bool   { return true }
func (s *stubChain) CheckInCalcOrderCache(common.Hash) (*big.Int, int, bool)  { return nil, 0, false }
func (s *stubChain) AddToCalcOrderCache(common.Hash, int, *big.Int)           {}
func (s *stubChain) CalcBaseFee(*types.WorkObject) *big.Int                   { return big.NewInt(0) }
func (s *stubChain) CalcOrder(*types.WorkObject) (*big.Int, int, error) {
	return big.NewInt(0), common.ZONE_CTX, nil
}

func testHeader(loc common.Location) *types.WorkObject {
	h := types.EmptyZoneWorkObject()
	h.WorkObjectHeader().SetLocation(loc)
	h.Header().SetGasLimit(50_000_000)
	h.Header().SetBaseFee(big.NewInt(1))
	h.Header().SetExchangeRate(new(big.Int).Lsh(big.NewInt(1), 70))
	h.WorkObjectHeader().SetDifficulty(big.NewInt(1_000_000_000))
	h.WorkObjectHeader().SetNumber(big.NewInt(10))
	return h
}

type qiWorld struct {
	db     *rawdbWrap
	known  map[string]bool // UTXO keys that existed before the step
	header *types.WorkObject
	chain  *stubChain
}

type rawdbWrap struct{ db interface{} }

func (x *run) qiOutput(b []byte, mode string) (outcome string, detail string) {
	loc := x.loc
	own := "z00"
	if loc[1] == 1 {
		own = "z01"
	}
	db := rawdb.NewMemoryDatabase(log.Global)
	ks := x.e.keys[own+"/qi"]
	key := ks[x.r.Intn(len(ks))]
	var h common.Hash
	x.r.Read(h[:])
	op := types.OutPoint{TxHash: h, Index: uint16(x.r.Intn(4))}
	must(rawdb.CreateUTXO(db, op.TxHash, op.Index, &types.UtxoEntry{Denomination: 12, Address: keyAddr(key)}))
	before := map[string]bool{}
	it := db.NewIterator(rawdb.UtxoPrefix, nil)
	for it.Next() {
		before[string(it.Key())] = true
	}
	it.Release()
	data := []byte{}
	if mode == "convert" {
		data = make([]byte, params.MaxQiTxDataLength)
		x.r.Read(data)
		copy(data[2:], instClassSlice(x.r, own, "qi"))
	}
	chainID := big.NewInt(1 + int64(x.r.Intn(5000)))
	inner := &types.QiTx{ChainID: chainID, TxIn: types.TxIns{{PreviousOutPoint: op, PubKey: uncompressed(&key.PublicKey)}},
		TxOut: types.TxOuts{{Denomination: uint8(1 + x.r.Intn(8)), Address: b}}, Data: data}
	signer := types.NewSigner(chainID, loc)
	d := signer.Hash(types.NewTx(inner))
	var kb [32]byte
	key.D.FillBytes(kb[:])
	priv, _ := btcec.PrivKeyFromBytes(kb[:])
	sig, err := schnorr.Sign(priv, d[:])
	must(err)
	inner.Signature = sig
	tx := types.NewTx(inner)
	if x.r.Intn(2) == 0 { // through the wire
		p, err := tx.ProtoEncode()
		must(err)
		tx2 := new(types.Transaction)
		if err := tx2.ProtoDecode(p, loc); err != nil {
			return "refused", "wire decode: " + err.Error()
		}
		tx = tx2
	}
	header := testHeader(loc)
	chain := &stubChain{terminus: testHeader(loc)}
	batch := db.NewBatch()
	var used uint64
	rl, pl := uint64(1<<40), uint64(1<<40)
	gp := new(types.GasPool).AddGas(header.GasLimit())
	ucd := &core.UtxosCreatedDeleted{AddressOutpointsToAddMap: map[[20]byte][]*types.OutpointAndDenomination{}, AddressOutpointsToRemoveMap: map[[20]byte][]*types.OutPoint{}}
	_, etxs, _, perr, _ := core.ProcessQiTx(tx, chain, true, true, header, batch, db, gp, &used, signer, loc, *chainID, 1.0, &rl, &pl, ucd, new(big.Int), new(big.Int), false)
	if perr != nil {
		return "refused", perr.Error()
	}
	must(batch.Write())
	// what exists now: scan the database
	var created [][]byte
	it = db.NewIterator(rawdb.UtxoPrefix, nil)
	for it.Next() {
		if !before[string(it.Key())] && len(it.Key()) == rawdb.UtxoKeyLength {
			hh, idx, e := rawdb.ReverseUtxoKey(it.Key())
			if e != nil {
				continue
			}
			if u := rawdb.GetUTXO(db, hh, idx); u != nil {
				created = append(created, u.Address)
			}
		}
	}
	it.Release()
	switch {
	case len(created) == 1 && len(etxs) == 0:
		if !bytes.Equal(created[0], b) {
			return "utxo-wrong-address", hex.EncodeToString(created[0])
		}
		return "utxo", fmt.Sprintf("utxo address %x (%d bytes)", created[0], len(created[0]))
	case len(created) == 0 && len(etxs) == 1:
		e := etxs[0]
		if e.EtxType == types.ConversionType {
			return "conversion", ""
		}
		if e.To == nil || !bytes.Equal(e.To.Bytes(), padTo20(b)) {
			return "etx-wrong-address", ""
		}
		return "etx", ""
	case len(created) == 0 && len(etxs) == 0:
		return "accepted-nothing-created", ""
	}
	return fmt.Sprintf("utxos=%d etxs=%d", len(created), len(etxs)), ""
}

func padTo20(b []byte) []byte {
	var a common.AddressBytes
	a.SetBytes(b)
	return a[:]
}

func instClassSlice(r *rand.Rand, zb, led string) []byte {
	b := instClass(r, zb, led, false)
	return b[:]
}

// ---------------------------------------------------------------- replay

type result struct {
	evals   int
	classes map[string]bool
	mism    []Mismatch
	ops     map[string]int
	seen    map[string]int
}

func resStr(r []interface{}) string {
	parts := make([]string, len(r))
	for i, v := range r {
		parts[i] = fmt.Sprint(v)
	}
	return strings.Join(parts, ",")
}

func runBeh(e *env, beh []Rec, bi, inst int, seed int64, res *result) {
	r := rand.New(rand.NewSource(seed))
	x := &run{e: e, r: r, node: beh[0].Node, loc: nodeLocs[beh[0].Node], want: map[[20]byte]bool{}, cls: res.classes}
	step := 0
	failed := false
	x.fail = func(kind, path, class, exp, got, detail string) {
		// classification and Qi-output steps leave the run's state untouched: later steps stay meaningful
		failed = kind != "classification" && kind != "qiout"
		key := strings.Join([]string{kind, x.node, path, class, exp, got, strings.Split(detail, " addr=")[0]}, "|")
		if kind == "qiout" {
			key = strings.Join([]string{kind, path, exp, got, strings.Split(detail, " ")[0]}, "|")
		}
		res.seen[key]++
		if res.seen[key] <= 2 {
			res.mism = append(res.mism, Mismatch{bi, inst, seed, step, beh[step].Op, kind, x.node, path, class, exp, got, detail, beh[:step+1]})
		}
	}
	for step = 1; step < len(beh) && !failed; step++ {
		s := beh[step]
		exp := resStr(s.Res)
		res.ops[s.Op]++
		switch s.Op {
		case "classify":
			b := instClass(r, s.Zb, s.Led, s.Zero)
			a, got, err := x.construct(s.Path, b, s.Zb, s.Led)
			res.evals++
			res.classes[fmt.Sprintf("classify|%s|%s|%s|%s|%v|->%s", x.node, s.Path, s.Zb, s.Led, s.Zero, exp)] = true
			if err != nil {
				x.fail("construct-error", s.Path, s.Zb+"/"+s.Led, "an address", "error", err.Error())
				break
			}
			x.checkAddr(s.Path, a, got, s.Res[0].(bool), s.Res[1].(string))
		case "touch":
			b := instClass(r, s.Zb, s.Led, s.Zero)
			x.touch(s.M, b)
			res.evals++
			res.classes[fmt.Sprintf("touch|%s|%s|%s|%s|%v|->%s", x.node, s.M, s.Zb, s.Led, s.Zero, exp)] = true
			if exp == "created" {
				x.want[b] = true
			}
			x.checkTrie(s.M)
		case "evmcall":
			caller, _, _ := x.caller()
			b := instClass(r, s.Zb, s.Led, false)
			val := big.NewInt(int64(1 + r.Intn(1000)))
			_, _, _, err := x.evm(int64(r.Intn(3000000))).Call(vm.AccountRef(caller), common.Bytes20ToAddress(b, x.loc), nil, 5_000_000, val)
			res.evals++
			res.classes[fmt.Sprintf("evmcall|%s|%s|%s|->%s", x.node, s.Zb, s.Led, exp)] = true
			if exp == "created" {
				if err != nil {
					x.fail("evmcall", "evm.Call", s.Zb+"/"+s.Led, "created", "error", err.Error())
					break
				}
				x.want[b] = true
				if x.state().GetBalance(common.InternalAddress(b)).Cmp(val) != 0 {
					x.fail("evmcall", "evm.Call", s.Zb+"/"+s.Led, "credited", "not credited", "")
					break
				}
			}
			x.checkTrie("evm.Call")
		case "create":
			caller, cb, funded := x.caller()
			ev := x.evm([]int64{5, 1864999, 1865000, 3000000}[r.Intn(4)])
			init := []byte{0x60, 0x00, 0x60, 0x00, 0xf3} // PUSH1 0 PUSH1 0 RETURN: empty runtime code
			var addr common.Address
			var err error
			var derived []byte
			st := x.state()
			if s.Kind == "create2" {
				var salt [32]byte
				r.Read(salt[:])
				ih := keccak(init)
				for i := uint64(0); ; i++ {
					binary.BigEndian.PutUint64(salt[8:16], i)
					derived = keccak([]byte{0xff}, cb[:], salt[:], ih)[12:]
					if inClass(derived, s.Zb, s.Led) {
						break
					}
				}
				_, addr, _, _, err = ev.Create2(vm.AccountRef(caller), init, 20_000_000, big.NewInt(0), new(uint256.Int).SetBytes(salt[:]))
			} else {
				// choose the caller's nonce so that the CREATE-derived address falls in the class
				for n := uint64(r.Intn(1000)); ; n++ {
					var nb [8]byte
					binary.BigEndian.PutUint64(nb[:], n)
					derived = keccak(cb[:], nb[:], init)[12:]
					if inClass(derived, s.Zb, s.Led) {
						if funded {
							st.SetNonce(common.InternalAddress(cb), n)
						}
						break
					}
				}
				_, addr, _, _, err = ev.Create(vm.AccountRef(caller), init, 20_000_000, big.NewInt(0))
			}
			res.evals++
			got := "refused"
			if err == nil {
				ab := addr.Bytes20()
				switch {
				case !expInternal(x.loc, ab[:]) || ab[1] > 127:
					got = "created-out-of-scope"
				case bytes.Equal(ab[:], derived):
					got = "created-at-derived"
				default:
					got = "ground"
				}
				x.want[ab] = true
			}
			res.classes[fmt.Sprintf("create|%s|%s|%s|%s|->%s|%s", x.node, s.Kind, s.Zb, s.Led, exp, got)] = true
			ok := got == exp || (exp == "ground-or-refused" && (got == "ground" || got == "refused"))
			if !ok {
				x.fail("create", "evm."+s.Kind, s.Zb+"/"+s.Led, exp, got, fmt.Sprintf("err=%v addr=%x derived=%x", err, addr.Bytes(), derived))
				break
			}
			x.checkTrie("evm." + s.Kind)
		case "qiout":
			var b []byte
			switch s.Len {
			case 20:
				b = instClassSlice(r, s.Zb, s.Led)
			case 19: // left-padded by BytesToAddress: the class describes the padded value (0x00 first byte needs zb=z00)
				full := instClassSlice(r, s.Zb, s.Led)
				b = full[1:]
			case 21:
				full := instClassSlice(r, s.Zb, s.Led)
				pre := byte(r.Intn(256))
				if own := map[string]string{"zoneA": "z00", "zoneB": "z01"}[x.node]; own != "" && r.Intn(2) == 0 {
					pre = zoneByte(r, own) // the node's own zone byte in front of (possibly foreign) 20 bytes
				}
				b = append([]byte{pre}, full...)
			case 0:
				b = []byte{}
			}
			got, detail := x.qiOutput(b, s.Mode)
			res.evals++
			res.classes[fmt.Sprintf("qiout|%s|%s|%s|len%d|%s|->%s", x.node, s.Zb, s.Led, s.Len, s.Mode, exp)] = true
			if got != exp {
				// an over-long address is accepted (known finding); what the node then does with it must at least follow the zone and
				// ledger of the 20 bytes it keeps (the cropped address every decoder reads), never the extra byte in front
				cropped := "n/a"
				if own := map[string]string{"zoneA": "z00", "zoneB": "z01"}[x.node]; s.Len == 21 && s.Led == "qi" && own != "" {
					want := "etx"
					if s.Zb == own {
						want = "utxo"
					}
					cropped = fmt.Sprint(got == want)
				}
				x.fail("qiout", fmt.Sprintf("len%d", s.Len), s.Zb+"/"+s.Led+"/"+s.Mode, exp, got, fmt.Sprintf("follows-cropped=%s %s output address %x", cropped, detail, b))
			}
		default:
			x.fail("driver", "", "", "", "", "unknown op "+s.Op)
		}
	}
}

func cmdReplay(args []string) {
	fs := flag.NewFlagSet("replay", flag.ExitOnError)
	in := fs.String("in", "", "behaviours ndjson")
	out := fs.String("out", "", "result json")
	seed := fs.Int64("seed", 1, "")
	inst := fs.Int("inst", 2, "instantiations per behaviour")
	workers := fs.Int("workers", 16, "")
	maxMis := fs.Int("maxmis", 400, "")
	instSeed := fs.Int64("instseed", 0, "run every behaviour exactly once with this instantiation seed")
	fs.Parse(args)
	if *instSeed != 0 {
		*inst = 1
	}
	log.Global.SetOutput(io.Discard)
	raw, err := os.ReadFile(*in)
	must(err)
	var behs [][]byte
	for _, l := range bytes.Split(raw, []byte("\n")) {
		if len(bytes.TrimSpace(l)) > 0 {
			behs = append(behs, l)
		}
	}
	e := newEnv(*seed)
	results := make([]*result, *workers)
	var wg sync.WaitGroup
	for w := 0; w < *workers; w++ {
		wg.Add(1)
		results[w] = &result{classes: map[string]bool{}, ops: map[string]int{}, seen: map[string]int{}}
		go func(w int) {
			defer wg.Done()
			res := results[w]
			for bi := w; bi < len(behs); bi += *workers {
				var beh []Rec
				if err := json.Unmarshal(behs[bi], &beh); err != nil {
					must(fmt.Errorf("behaviour %d: %v", bi, err))
				}
				if len(beh) < 2 || beh[0].Op != "init" {
					continue
				}
				for i := 0; i < *inst; i++ {
					s := *seed*1_000_003 + int64(bi)*131 + int64(i)
					if *instSeed != 0 {
						s = *instSeed
					}
					func() {
						defer func() {
							if p := recover(); p != nil {
								res.mism = append(res.mism, Mismatch{bi, i, s, len(beh) - 1, beh[len(beh)-1].Op, "panic", beh[0].Node, "", "", "", "", fmt.Sprint(p) + "\n" + string(debug.Stack()), beh})
							}
						}()
						runBeh(e, beh, bi, i, s, res)
					}()
				}
			}
		}(w)
	}
	wg.Wait()
	tot := &result{classes: map[string]bool{}, ops: map[string]int{}}
	for _, r := range results {
		tot.evals += r.evals
		tot.mism = append(tot.mism, r.mism...)
		for k := range r.classes {
			tot.classes[k] = true
		}
		for k, v := range r.ops {
			tot.ops[k] += v
		}
	}
	sort.Slice(tot.mism, func(i, j int) bool { return tot.mism[i].Behaviour < tot.mism[j].Behaviour })
	if len(tot.mism) > *maxMis {
		tot.mism = tot.mism[:*maxMis]
	}
	var cls []string
	for k := range tot.classes {
		cls = append(cls, k)
	}
	sort.Strings(cls)
	b, err := json.MarshalIndent(map[string]interface{}{"behaviours": len(behs), "instantiations": *inst, "evaluations": tot.evals,
		"distinct_classes": len(cls), "classes": cls, "ops": tot.ops, "mismatches": tot.mism}, "", " ")
	must(err)
	must(os.WriteFile(*out, b, 0o644))
}

func main() {
	if len(os.Args) >= 2 && os.Args[1] == "probe" {
		log.Global.SetOutput(io.Discard)
		cmdProbe()
		return
	}
	if len(os.Args) < 2 || os.Args[1] != "replay" {
		fmt.Fprintln(os.Stderr, "usage: addrdrv replay ...")
		os.Exit(2)
	}
	cmdReplay(os.Args[2:])
}
