package main

// probe: side effects of known finding C16-F1 (Qi output address shorter than 20 bytes) outside C16:
// the steps StateProcessor.Process performs right after ProcessQiTx, and a later spend of the malformed UTXO.

import (
	"fmt"
	"math/big"
	"math/rand"

	"github.com/btcsuite/btcd/btcec/v2"
	"github.com/btcsuite/btcd/btcec/v2/schnorr"
	"github.com/dominant-strategies/go-quai/common"
	"github.com/dominant-strategies/go-quai/core"
	"github.com/dominant-strategies/go-quai/core/rawdb"
	"github.com/dominant-strategies/go-quai/core/types"
	"github.com/dominant-strategies/go-quai/log"
)

func try(what string, f func() error) {
	defer func() {
		if p := recover(); p != nil {
			fmt.Printf("%-60s PANIC: %v\n", what, p)
		}
	}()
	fmt.Printf("%-60s %v\n", what, f())
}

func cmdProbe() {
	r := rand.New(rand.NewSource(1))
	e := newEnv(1)
	loc := common.Location{0, 0}
	db := rawdb.NewMemoryDatabase(log.Global)
	key := e.keys["z00/qi"][0]
	owner2 := e.keys["z00/qi"][1]
	var h common.Hash
	r.Read(h[:])
	must(rawdb.CreateUTXO(db, h, 0, &types.UtxoEntry{Denomination: 12, Address: keyAddr(key)}))
	short := keyAddr(owner2)[1:] // 19 bytes; left-padded it reads 0x00 || short = owner2's address
	chainID := big.NewInt(9)
	signer := types.NewSigner(chainID, loc)
	mk := func(in types.OutPoint, k int, out []byte) *types.Transaction {
		kk := e.keys["z00/qi"][k]
		inner := &types.QiTx{ChainID: chainID, TxIn: types.TxIns{{PreviousOutPoint: in, PubKey: uncompressed(&kk.PublicKey)}}, TxOut: types.TxOuts{{Denomination: 3, Address: out}}, Data: []byte{}}
		d := signer.Hash(types.NewTx(inner))
		var kb [32]byte
		kk.D.FillBytes(kb[:])
		priv, _ := btcec.PrivKeyFromBytes(kb[:])
		sig, err := schnorr.Sign(priv, d[:])
		must(err)
		inner.Signature = sig
		return types.NewTx(inner)
	}
	process := func(tx *types.Transaction, index bool) error {
		header := testHeader(loc)
		batch := db.NewBatch()
		var used uint64
		rl, pl := uint64(1<<40), uint64(1<<40)
		gp := new(types.GasPool).AddGas(header.GasLimit())
		ucd := &core.UtxosCreatedDeleted{AddressOutpointsToAddMap: map[[20]byte][]*types.OutpointAndDenomination{}, AddressOutpointsToRemoveMap: map[[20]byte][]*types.OutPoint{}}
		_, _, _, err, _ := core.ProcessQiTx(tx, &stubChain{terminus: testHeader(loc)}, true, true, header, batch, db, gp, &used, signer, loc, *chainID, 1.0, &rl, &pl, ucd, new(big.Int), new(big.Int), index)
		if err == nil {
			must(batch.Write())
		}
		return err
	}
	tx1 := mk(types.OutPoint{TxHash: h, Index: 0}, 0, short)
	try("ProcessQiTx(output address 19 bytes, indexAddressUtxos)", func() error { return process(tx1, true) })
	try("ProcessQiTx(output address 19 bytes)", func() error { return process(tx1, false) })
	try("types.CalculateBlockQiTxGas (Process, right after)", func() error { types.CalculateBlockQiTxGas(tx1, 1.0, loc); return nil })
	try("types.CalculateQiTxGas (pool / worker)", func() error { types.CalculateQiTxGas(tx1, 1.0, loc); return nil })
	u := rawdb.GetUTXO(db, tx1.Hash(), 0)
	if u == nil {
		fmt.Println("malformed UTXO not created")
		return
	}
	fmt.Printf("stored UTXO address: %x (%d bytes)\n", u.Address, len(u.Address))
	tx2 := mk(types.OutPoint{TxHash: tx1.Hash(), Index: 0}, 1, keyAddr(e.keys["z00/qi"][2]))
	try("ProcessQiTx spending the 19-byte-address UTXO", func() error { return process(tx2, false) })
}
