// Package mininet boots an in-process go-quai hierarchy (prime {}, region {0}, zone {0,0}) on real
// core.Core objects and drives it synchronously: pending header from the real worker, blake3 seal by
// nonce search, transport round trip, Slice.WriteBlock + Core.InsertChain at the block's order level,
// GeneratePendingHeader (which at zone level runs HeaderChain.SetCurrentHeader -> StateProcessor.Apply).
package mininet

import (
	"errors"
	"fmt"
	"io"
	"math/big"
	"path/filepath"
	"sync"
	"time"

	"github.com/dominant-strategies/go-quai/common"
	"github.com/dominant-strategies/go-quai/consensus"
	"github.com/dominant-strategies/go-quai/consensus/blake3pow"
	"github.com/dominant-strategies/go-quai/core"
	"github.com/dominant-strategies/go-quai/core/rawdb"
	"github.com/dominant-strategies/go-quai/core/types"
	"github.com/dominant-strategies/go-quai/core/vm"
	"github.com/dominant-strategies/go-quai/ethdb"
	"github.com/dominant-strategies/go-quai/ethdb/leveldb"
	"github.com/dominant-strategies/go-quai/ethdb/pebble"
	"github.com/dominant-strategies/go-quai/log"
	"github.com/dominant-strategies/go-quai/params"
)

var ZoneLoc = common.Location{0, 0}
var RegionLoc = common.Location{0}
var PrimeLoc = common.Location{}

const (
	Prime  = common.PRIME_CTX
	Region = common.REGION_CTX
	Zone   = common.ZONE_CTX
)

type Options struct {
	Backend           string // "memory" (default), "leveldb", "pebble" -- zone chain database
	Dir               string // directory for on-disk back-ends
	ZoneDB            ethdb.Database // if set, used as the zone database (already containing a chain, or empty)
	WrapZoneDB        func(ethdb.Database) ethdb.Database // applied to the zone database (also on RestartZone)
	WrapDB            func(ctx int, db ethdb.Database) ethdb.Database // applied to the database of every level (also on RestartAll / RestartZone), after WrapZoneDB
	GenesisDifficulty int64
	QuaiCoinbase      common.Address
	QiCoinbase        common.Address
	MinerPreference   float64
	LockupByte        uint8
	LockupContract    *common.Address // contract-held coinbases: rewards accumulate in 'cl' lockup records owned by this contract
	GenAllocs         []params.GenesisAccount
	IndexAddressUtxos bool
	GasCeil           uint64
	Quiet             bool
	ChainID           *big.Int
	NoSnapshot        bool // state snapshots off: every state read goes through the trie (a node right after a restart / state sync)
}

type Net struct {
	Opt    Options
	Cores  [3]*core.Core
	DBs    [3]ethdb.Database
	Gen    common.Hash
	closers []func()
	mu      sync.Mutex
	mailbox map[int]*types.WorkObject
	nonce   uint64
	PowCfg  [3]params.PowConfig
	ChainCfg [3]*params.ChainConfig
	genesis [3]*core.Genesis
}

func (n *Net) PrimeCore() *core.Core  { return n.Cores[Prime] }
func (n *Net) RegionCore() *core.Core { return n.Cores[Region] }
func (n *Net) ZoneCore() *core.Core   { return n.Cores[Zone] }

type domAdapter struct {
	*core.Core
	n *Net
}

func (d domAdapter) ReceiveMinedHeader(h *types.WorkObject) error {
	b, err := d.Core.ReceiveMinedHeader(h)
	if err == nil {
		d.n.mu.Lock()
		d.n.mailbox[d.Core.NodeCtx()] = b
		d.n.mu.Unlock()
	}
	return err
}
func (d domAdapter) NewGenesisPendingHeader(ph *types.WorkObject, t common.Hash, h common.Hash) error {
	return d.Core.NewGenesisPendigHeader(ph, t, h)
}

// LocDB attaches a node location to a database that has none (memorydb).
type LocDB struct {
	ethdb.Database
	Loc common.Location
}

func (d LocDB) Location() common.Location { return d.Loc }

var locs = [3]common.Location{PrimeLoc, RegionLoc, ZoneLoc}
var Locs = locs

// SetFastParams compresses protocol time scales; call before New. Callers may override afterwards.
func SetFastParams() {
	params.TimeToStartTx = 0
}

func (n *Net) openDB(ctx int) (ethdb.Database, error) {
	o := n.Opt
	if ctx == Zone && o.ZoneDB != nil {
		return o.ZoneDB, nil
	}
	backend := o.Backend
	if ctx != Zone || backend == "" {
		backend = "memory"
	}
	var db ethdb.Database
	switch backend {
	case "memory":
		// memorydb.Location() returns nil, which makes rawdb decode stored blocks with the prime
		// context (all addresses external); real engines carry the node location, so give it one
		db = LocDB{rawdb.NewMemoryDatabase(log.Global), locs[ctx]}
	case "leveldb":
		d, err := leveldb.New(filepath.Join(o.Dir, fmt.Sprintf("ldb-%d", ctx)), 16, 16, "", false, log.Global, locs[ctx])
		if err != nil {
			return nil, err
		}
		n.closers = append(n.closers, func() { d.Close() })
		db = rawdb.NewDatabase(d)
	case "pebble":
		d, err := pebble.New(filepath.Join(o.Dir, fmt.Sprintf("pdb-%d", ctx)), 16, 16, "", false, log.Global, locs[ctx])
		if err != nil {
			return nil, err
		}
		n.closers = append(n.closers, func() { d.Close() })
		db = rawdb.NewDatabase(d)
	default:
		return nil, errors.New("unknown backend " + backend)
	}
	if ctx == Zone && o.WrapZoneDB != nil {
		db = o.WrapZoneDB(db)
	}
	if o.WrapDB != nil {
		db = o.WrapDB(ctx, db)
	}
	return db, nil
}

func (n *Net) mkCore(ctx int) (*core.Core, error) {
	loc := locs[ctx]
	db, err := n.openDB(ctx)
	if err != nil {
		return nil, err
	}
	n.DBs[ctx] = db
	return n.coreOn(ctx, loc, db)
}

func (n *Net) coreOn(ctx int, loc common.Location, db ethdb.Database) (*core.Core, error) {
	o := n.Opt
	cc := *params.Blake3PowLocalChainConfig
	cc.Location = loc
	cc.IndexAddressUtxos = o.IndexAddressUtxos
	if o.ChainID != nil {
		cc.ChainID = o.ChainID
	}
	g := &core.Genesis{Nonce: 66, GasLimit: 5000000, Difficulty: big.NewInt(o.GenesisDifficulty), Config: &cc}
	_, h, err := core.SetupGenesisBlock(db, g, 66, nil, loc, log.Global)
	if err != nil {
		return nil, fmt.Errorf("genesis: %w", err)
	}
	n.Gen = h
	cc.DefaultGenesisHash = h
	pow := params.PowConfig{PowMode: params.ModeNormal, DurationLimit: big.NewInt(5), GasCeil: o.GasCeil,
		MinDifficulty: big.NewInt(o.GenesisDifficulty), NodeLocation: loc, WorkShareThreshold: 3, GenAllocs: o.GenAllocs}
	eng := []consensus.Engine{blake3pow.New(pow, nil, false, log.Global)}
	if o.IndexAddressUtxos {
		// BodyDb.WriteBlock indexes the engine list with types.Kawpow (= 1) when address indexing is on; a blake3 node
		// (quai/backend.go: one engine) would panic there.  Outside the listed properties: give the slot an engine.
		eng = append(eng, blake3pow.New(pow, nil, false, log.Global))
	}
	minerCfg := &core.Config{ExtraData: []byte("verif"), GasCeil: o.GasCeil, Recommit: time.Hour,
		MinerPreference: o.MinerPreference, CoinbaseLockup: o.LockupByte}
	if ctx == Zone {
		minerCfg.QuaiCoinbase = o.QuaiCoinbase
		minerCfg.QiCoinbase = o.QiCoinbase
		minerCfg.LockupContractAddress = o.LockupContract
	}
	txc := core.DefaultTxPoolConfig
	txc.Journal = ""
	var cache *core.CacheConfig
	if o.NoSnapshot {
		cache = &core.CacheConfig{TrieCleanLimit: 256, TrieDirtyLimit: 256, TrieTimeLimit: 5 * time.Minute, SnapshotLimit: 0}
	}
	c, err := core.NewCore(db, minerCfg, pow, &txc, nil, &cc, []common.Location{ZoneLoc}, 0, nil, eng, cache, vm.Config{}, g, log.Global)
	if err != nil {
		return nil, fmt.Errorf("NewCore: %w", err)
	}
	n.PowCfg[ctx] = pow
	n.ChainCfg[ctx] = &cc
	n.genesis[ctx] = g
	return c, nil
}

// New boots the three chains and propagates the genesis pending header.
func New(o Options) (*Net, error) {
	if o.GenesisDifficulty == 0 {
		o.GenesisDifficulty = 16
	}
	if o.GasCeil == 0 {
		o.GasCeil = 5000000
	}
	if o.Quiet {
		log.Global.SetOutput(io.Discard)
	}
	if (o.QuaiCoinbase == common.Address{}) {
		o.QuaiCoinbase = QuaiAddr(0x07)
	}
	if (o.QiCoinbase == common.Address{}) {
		o.QiCoinbase = QiAddr(0x08)
	}
	n := &Net{Opt: o, mailbox: map[int]*types.WorkObject{}}
	for ctx := 0; ctx < 3; ctx++ {
		c, err := n.mkCore(ctx)
		if err != nil {
			return nil, err
		}
		n.Cores[ctx] = c
	}
	n.wire()
	// prime's init() already runs `go NewGenesisPendingHeader` when the chain is empty; it busy-waits
	// until the sub interfaces are wired and then cascades down to the zone.
	if n.Cores[Zone].CurrentHeader().NumberU64(Zone) == 0 {
		if err := n.waitPending(20 * time.Second); err != nil {
			return nil, err
		}
	}
	return n, nil
}

func (n *Net) wire() {
	p, r, z := n.Cores[Prime], n.Cores[Region], n.Cores[Zone]
	z.SetDomInterface(domAdapter{r, n})
	r.SetDomInterface(domAdapter{p, n})
	r.SetSubInterface(domAdapter{z, n}, ZoneLoc)
	p.SetSubInterface(domAdapter{r, n}, RegionLoc)
}

func (n *Net) waitPending(d time.Duration) error {
	deadline := time.Now().Add(d)
	for time.Now().Before(deadline) {
		// the genesis pending header travels prime -> region -> zone asynchronously; every level needs one before
		// GeneratePendingHeader can be asked for anything ("best ph is nil" otherwise)
		if n.Cores[Zone].Slice().ReadBestPh() != nil && n.Cores[Region].Slice().ReadBestPh() != nil && n.Cores[Prime].Slice().ReadBestPh() != nil {
			return nil
		}
		time.Sleep(2 * time.Millisecond)
	}
	return errors.New("not every level received the genesis pending header")
}

func (n *Net) Close() {
	for _, c := range n.Cores {
		if c != nil {
			func() {
				defer func() { recover() }()
				c.Stop()
			}()
		}
	}
	for _, f := range n.closers {
		f()
	}
}

// QuaiAddr / QiAddr build deterministic in-zone addresses for location {0,0}.
func QuaiAddr(tag byte) common.Address {
	b := make([]byte, 20)
	b[0] = 0x00
	b[1] = 0x00
	b[19] = tag
	return common.BytesToAddress(b, ZoneLoc)
}
func QiAddr(tag byte) common.Address {
	b := make([]byte, 20)
	b[0] = 0x00
	b[1] = 0x80
	b[19] = tag
	return common.BytesToAddress(b, ZoneLoc)
}

func RoundTrip(b *types.WorkObject, loc common.Location) (*types.WorkObject, error) {
	p, err := b.ProtoEncode(types.BlockObject)
	if err != nil {
		return nil, err
	}
	out := new(types.WorkObject)
	if err := out.ProtoDecode(p, loc, types.BlockObject); err != nil {
		return nil, err
	}
	return out, nil
}

// Refill regenerates the zone's pending block from the transaction pool (what the worker's one-second
// ticker does in production), synchronously.
func (n *Net) Refill() error { return n.Cores[Zone].Slice().VerifRefillPendingHeader() }

// Pending returns the zone's current full pending header (a copy).
func (n *Net) Pending() (*types.WorkObject, error) {
	if n.Cores[Zone].Slice().ReadBestPh() == nil {
		return nil, errors.New("no pending header")
	}
	return n.Cores[Zone].GetPendingHeader(types.Progpow, common.Address{})
}

// Seal searches a nonce such that the PoW target is met and, if wantOrder >= 0, CalcOrder == wantOrder.
func (n *Net) Seal(ph *types.WorkObject, wantOrder int, maxTries uint64) (int, error) {
	target := new(big.Int).Div(common.Big2e256, ph.Difficulty())
	n.nonce += 1 << 24
	start := n.nonce
	for i := uint64(0); i < maxTries; i++ {
		ph.WorkObjectHeader().SetNonce(types.EncodeNonce(start + i))
		if new(big.Int).SetBytes(ph.Hash().Bytes()).Cmp(target) > 0 {
			continue
		}
		_, order, err := n.Cores[Zone].CalcOrder(ph)
		if err != nil {
			return -1, err
		}
		if wantOrder < 0 || order == wantOrder {
			return order, nil
		}
	}
	return -1, fmt.Errorf("no nonce found for order %d in %d tries", wantOrder, maxTries)
}

type Mined struct {
	Order  int
	Blocks [3]*types.WorkObject // per-level views (after transport round trip); nil above the order level
	Hash   common.Hash
}

// Assemble turns a sealed pending header into per-level blocks (zone.ReceiveMinedHeader cascades to doms).
func (n *Net) Assemble(sealed *types.WorkObject) (*Mined, error) {
	n.mu.Lock()
	n.mailbox = map[int]*types.WorkObject{}
	n.mu.Unlock()
	blk, err := n.Cores[Zone].ReceiveMinedHeader(sealed)
	if err != nil {
		return nil, fmt.Errorf("ReceiveMinedHeader: %w", err)
	}
	_, order, err := n.Cores[Zone].CalcOrder(blk)
	if err != nil {
		return nil, err
	}
	m := &Mined{Order: order, Hash: blk.Hash()}
	if m.Blocks[Zone], err = RoundTrip(blk, ZoneLoc); err != nil {
		return nil, err
	}
	for ctx := Region; ctx >= order; ctx-- {
		n.mu.Lock()
		b := n.mailbox[ctx]
		n.mu.Unlock()
		if b == nil {
			return nil, fmt.Errorf("level %d did not produce its view of the block", ctx)
		}
		if m.Blocks[ctx], err = RoundTrip(b, locs[ctx]); err != nil {
			return nil, err
		}
	}
	return m, nil
}

// Insert writes the block at each level and appends it at its order level (cascading into subs).
// It returns the error of the append (nil when the zone knows the header afterwards).
func (n *Net) Insert(m *Mined) error {
	for ctx := Zone; ctx >= m.Order; ctx-- {
		n.Cores[ctx].Slice().WriteBlock(m.Blocks[ctx])
	}
	_, err := n.Cores[m.Order].InsertChain(types.WorkObjects{m.Blocks[m.Order]})
	if err != nil {
		_, aerr := n.Cores[m.Order].Slice().Append(m.Blocks[m.Order], common.Hash{}, false, nil)
		return fmt.Errorf("%w (Append: %v)", err, aerr)
	}
	if n.Cores[Zone].GetHeaderByHash(m.Hash) == nil {
		// InsertChain swallows the reason; ask Append directly for it
		_, aerr := n.Cores[m.Order].Slice().Append(m.Blocks[m.Order], common.Hash{}, false, nil)
		return fmt.Errorf("block was not appended: %v", aerr)
	}
	return nil
}

// SetHead makes (p, r, z) the heads of the three chains (running SetCurrentHeader at each level and,
// at zone level, state processing / reorg) and builds the next full pending header.
func (n *Net) SetHead(p, r, z common.Hash) error {
	pb := n.Cores[Prime].GetBlockByHash(p)
	rb := n.Cores[Region].GetBlockByHash(r)
	zb := n.Cores[Zone].GetBlockOrCandidateByHash(z)
	if pb == nil || rb == nil || zb == nil {
		return fmt.Errorf("SetHead: unknown block(s) %v %v %v", pb == nil, rb == nil, zb == nil)
	}
	pph, err := n.Cores[Prime].GeneratePendingHeader(pb, false)
	if err != nil {
		return fmt.Errorf("prime GeneratePendingHeader: %w", err)
	}
	rph, err := n.Cores[Region].GeneratePendingHeader(rb, false)
	if err != nil {
		return fmt.Errorf("region GeneratePendingHeader: %w", err)
	}
	zph, err := n.Cores[Zone].GeneratePendingHeader(zb, true)
	if err != nil {
		return fmt.Errorf("zone GeneratePendingHeader: %w", err)
	}
	n.Cores[Zone].MakeFullPendingHeader(pph, rph, zph)
	return nil
}

// Advance makes the freshly inserted block the head at every level it belongs to.
func (n *Net) Advance(m *Mined) error {
	p := n.Cores[Prime].CurrentHeader().Hash()
	r := n.Cores[Region].CurrentHeader().Hash()
	if m.Order <= Prime {
		p = m.Hash
	}
	if m.Order <= Region {
		r = m.Hash
	}
	return n.SetHead(p, r, m.Hash)
}

// MineOne = Pending + Seal + Assemble + Insert + Advance.
func (n *Net) MineOne(wantOrder int) (*Mined, error) {
	ph, err := n.Pending()
	if err != nil {
		return nil, err
	}
	if _, err := n.Seal(ph, wantOrder, 1<<22); err != nil {
		return nil, err
	}
	m, err := n.Assemble(ph)
	if err != nil {
		return nil, err
	}
	if err := n.Insert(m); err != nil {
		return m, fmt.Errorf("insert: %w", err)
	}
	if err := n.Advance(m); err != nil {
		return m, fmt.Errorf("advance: %w", err)
	}
	return m, nil
}


// RestartZone simulates a process restart of the zone node on the given database image: the old core
// is abandoned (a crashed process runs no shutdown code), a new core.Core is constructed on db and
// wired to the (still running) region.
func (n *Net) RestartZone(db ethdb.Database) error {
	old := n.Cores[Zone]
	go func() {
		defer func() { recover() }()
		old.Stop()
	}()
	if n.Opt.WrapZoneDB != nil {
		db = n.Opt.WrapZoneDB(db)
	}
	if n.Opt.WrapDB != nil {
		db = n.Opt.WrapDB(Zone, db)
	}
	n.DBs[Zone] = db
	var c *core.Core
	var err error
	func() {
		defer func() {
			if r := recover(); r != nil {
				err = fmt.Errorf("panic while constructing the zone core: %v", r)
			}
		}()
		c, err = n.coreOn(Zone, ZoneLoc, db)
	}()
	if err != nil {
		return err
	}
	n.Cores[Zone] = c
	n.wire()
	return nil
}

// RestartAll simulates a restart of the whole node process (prime, region and zone run in ONE process on
// three databases): all three cores are abandoned without running any shutdown code, new cores are
// constructed on the given database images (prime first, as the node does) and wired to each other.
// On error the level that failed to open is named; the Net is then unusable until the next RestartAll.
func (n *Net) RestartAll(dbs [3]ethdb.Database) error {
	for _, old := range n.Cores {
		if old != nil {
			go func(c *core.Core) {
				defer func() { recover() }()
				c.Stop()
			}(old)
		}
	}
	var fresh [3]*core.Core
	for ctx := Prime; ctx <= Zone; ctx++ {
		db := dbs[ctx]
		if ctx == Zone && n.Opt.WrapZoneDB != nil {
			db = n.Opt.WrapZoneDB(db)
		}
		if n.Opt.WrapDB != nil {
			db = n.Opt.WrapDB(ctx, db)
		}
		n.DBs[ctx] = db
		var c *core.Core
		var err error
		func() {
			defer func() {
				if r := recover(); r != nil {
					err = fmt.Errorf("panic while constructing the core: %v", r)
				}
			}()
			c, err = n.coreOn(ctx, locs[ctx], db)
		}()
		if err != nil {
			return fmt.Errorf("level %d: %w", ctx, err)
		}
		fresh[ctx] = c
	}
	n.Cores = fresh
	n.mu.Lock()
	n.mailbox = map[int]*types.WorkObject{}
	n.mu.Unlock()
	n.wire()
	return nil
}
