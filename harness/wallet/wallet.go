// Package wallet builds real signed Quai (ECDSA) and Qi (Schnorr / MuSig2) transactions for the harness.
package wallet

import (
	"crypto/ecdsa"
	"crypto/sha256"
	"encoding/binary"
	"fmt"
	"math/big"

	"github.com/btcsuite/btcd/btcec/v2"
	"github.com/btcsuite/btcd/btcec/v2/schnorr"
	"github.com/btcsuite/btcd/btcec/v2/schnorr/musig2"
	"github.com/dominant-strategies/go-quai/common"
	"github.com/dominant-strategies/go-quai/core/types"
	"github.com/dominant-strategies/go-quai/crypto"
)

type Key struct {
	Priv *ecdsa.PrivateKey
	Btc  *btcec.PrivateKey
	Pub  []byte // uncompressed 65-byte public key (what TxIn.PubKey carries)
	Addr common.Address
}

// Grind derives deterministic keys from (seed, counter) until the address lies in zone loc and in the
// requested ledger (Quai: second byte < 0x80, Qi: >= 0x80).
func Grind(seed uint64, qi bool, loc common.Location) Key {
	for ctr := uint64(0); ; ctr++ {
		var buf [16]byte
		binary.BigEndian.PutUint64(buf[:8], seed)
		binary.BigEndian.PutUint64(buf[8:], ctr)
		h := sha256.Sum256(buf[:])
		priv, err := crypto.ToECDSA(h[:])
		if err != nil {
			continue
		}
		addr := crypto.PubkeyToAddress(priv.PublicKey, loc)
		if !addr.Location().Equal(loc) {
			continue
		}
		if qi != addr.IsInQiLedgerScope() {
			continue
		}
		b, _ := btcec.PrivKeyFromBytes(h[:])
		return Key{Priv: priv, Btc: b, Pub: crypto.FromECDSAPub(&priv.PublicKey), Addr: addr}
	}
}

func QuaiTx(signer types.Signer, chainID *big.Int, k Key, nonce uint64, to *common.Address, value *big.Int, gas uint64, gasPrice *big.Int, data []byte) (*types.Transaction, error) {
	inner := &types.QuaiTx{ChainID: chainID, Nonce: nonce, GasPrice: gasPrice, Gas: gas, To: to, Value: value, Data: data}
	return types.SignTx(types.NewTx(inner), signer, k.Priv)
}

type In struct {
	Out types.OutPoint
	Key Key
}

// QiTx builds and signs a Qi transaction. signKeys overrides the signing key set (adversarial cases);
// nil means "the keys named by the inputs".
func QiTx(signer types.Signer, chainID *big.Int, ins []In, outs []types.TxOut, data []byte, signKeys []Key) (*types.Transaction, error) {
	inner := &types.QiTx{ChainID: chainID, Data: data}
	for _, in := range ins {
		inner.TxIn = append(inner.TxIn, types.TxIn{PreviousOutPoint: in.Out, PubKey: in.Key.Pub})
	}
	inner.TxOut = append(inner.TxOut, outs...)
	unsigned := types.NewTx(inner)
	digest := signer.Hash(unsigned)
	if signKeys == nil {
		for _, in := range ins {
			signKeys = append(signKeys, in.Key)
		}
	}
	var sig *schnorr.Signature
	var err error
	if len(signKeys) == 1 {
		sig, err = schnorr.Sign(signKeys[0].Btc, digest[:])
	} else {
		sig, err = MuSig(signKeys, digest)
	}
	if err != nil {
		return nil, err
	}
	inner.Signature = sig
	return types.NewTx(inner), nil
}

func MuSig(keys []Key, digest [32]byte) (*schnorr.Signature, error) {
	var pubs []*btcec.PublicKey
	for _, k := range keys {
		pubs = append(pubs, k.Btc.PubKey())
	}
	sessions := make([]*musig2.Session, len(keys))
	for i, k := range keys {
		ctx, err := musig2.NewContext(k.Btc, false, musig2.WithKnownSigners(pubs))
		if err != nil {
			return nil, err
		}
		s, err := ctx.NewSession()
		if err != nil {
			return nil, err
		}
		sessions[i] = s
	}
	for i, s := range sessions {
		for j, o := range sessions {
			if i == j {
				continue
			}
			if _, err := s.RegisterPubNonce(o.PublicNonce()); err != nil {
				return nil, err
			}
		}
	}
	comb := sessions[0]
	for i, s := range sessions {
		ps, err := s.Sign(digest)
		if err != nil {
			return nil, err
		}
		if i != 0 {
			if _, err := comb.CombineSig(ps); err != nil {
				return nil, err
			}
		}
	}
	sig := comb.FinalSig()
	if sig == nil {
		return nil, fmt.Errorf("musig: no final signature")
	}
	return sig, nil
}
