// Package faultdb wraps an ethdb.Database: it records every write operation (individual puts/deletes
// and batch commits, the atomic units of the storage engines) and can "kill the process" after a
// chosen number of them by silently dropping everything that follows (the surviving image is what a
// restarted node would find on disk).
package faultdb

import (
	"bytes"
	"fmt"
	"sort"
	"sync"

	"github.com/dominant-strategies/go-quai/common"
	"github.com/dominant-strategies/go-quai/ethdb"
	"github.com/dominant-strategies/go-quai/ethdb/memorydb"
	"github.com/dominant-strategies/go-quai/log"
)

type Op struct {
	Kind string   `json:"kind"` // put | delete | batch
	Class string  `json:"class"`
	Keys []string `json:"keys,omitempty"` // key classes inside a batch
	N    int      `json:"n"`
	DB   string   `json:"db,omitempty"` // name of the database (WrapNamed) -- several databases may share one Ctl
	gen  int
}

// Ctl is the "process": one write counter shared by every database wrapped with it.  After the limit
// every database silently drops its writes (the process is dead).
type Ctl struct {
	mu     sync.Mutex
	armed  bool
	limit  int // number of write ops allowed once armed; <0 = unlimited
	count  int
	frozen bool
	Ops    []Op
	// Dropped is the first write operation that did NOT reach its database after the limit was hit.
	Dropped *Op
	// SizeFactor > 1 makes every batch report ValueSize() multiplied by it, so that size-triggered flush
	// points (`if batch.ValueSize() > ethdb.IdealBatchSize { batch.Write(); batch.Reset() }`) of the code under
	// test fire on small blocks.
	SizeFactor int
	// gen is the current process incarnation: wrappers remember the incarnation they were created in, and
	// writes issued through a wrapper of an earlier incarnation (shutdown code of an abandoned core, its
	// timers) are dropped without being counted -- a crashed process writes nothing.
	gen int
}

func (c *Ctl) Arm(limit int) {
	c.mu.Lock()
	defer c.mu.Unlock()
	c.armed, c.limit, c.count, c.frozen, c.Ops, c.Dropped = true, limit, 0, false, nil, nil
}

// NewGeneration starts a new process incarnation: call it before wrapping the databases of a restarted node.
func (c *Ctl) NewGeneration() {
	c.mu.Lock()
	defer c.mu.Unlock()
	c.gen++
}

func (c *Ctl) sizeFactor() int {
	c.mu.Lock()
	defer c.mu.Unlock()
	return c.SizeFactor
}

// SetSizeFactor sets SizeFactor under the lock.
func (c *Ctl) SetSizeFactor(f int) {
	c.mu.Lock()
	defer c.mu.Unlock()
	c.SizeFactor = f
}
func (c *Ctl) Disarm() {
	c.mu.Lock()
	defer c.mu.Unlock()
	c.armed = false
	c.frozen = false
}
// Seen returns the write operations that reached the databases since Arm and the first one that did not (nil if none).
func (c *Ctl) Seen() ([]Op, *Op) {
	c.mu.Lock()
	defer c.mu.Unlock()
	ops := append([]Op{}, c.Ops...)
	if c.Dropped == nil {
		return ops, nil
	}
	d := *c.Dropped
	return ops, &d
}
func (c *Ctl) Frozen() bool { c.mu.Lock(); defer c.mu.Unlock(); return c.frozen }
func (c *Ctl) Count() int   { c.mu.Lock(); defer c.mu.Unlock(); return c.count }

// step decides whether the next write operation reaches the database.
func (c *Ctl) step(op Op) bool {
	c.mu.Lock()
	defer c.mu.Unlock()
	if op.gen != c.gen {
		return false // a write of an abandoned (crashed) incarnation
	}
	if c.frozen {
		return false
	}
	if !c.armed {
		return true
	}
	if c.limit >= 0 && c.count >= c.limit {
		c.frozen = true
		d := op
		c.Dropped = &d
		return false
	}
	c.count++
	op.N = c.count
	c.Ops = append(c.Ops, op)
	return true
}

// KeyClass names the kind of record a key belongs to (core/rawdb/schema.go).
func KeyClass(k []byte) string {
	switch {
	case bytes.Equal(k, []byte("LastWorkObject")):
		return "head"
	case bytes.Equal(k, []byte("LastHeader")):
		return "headheader"
	case len(k) == 10 && k[0] == 'h' && k[9] == 'n':
		return "canon"
	case bytes.HasPrefix(k, []byte("ps")) && len(k) == 34:
		return "processed"
	case bytes.HasPrefix(k, []byte("ut")) && len(k) == 36:
		return "utxo"
	case bytes.HasPrefix(k, []byte("cl")) && len(k) == 47:
		return "lockup"
	case bytes.HasPrefix(k, []byte("ms")) && len(k) == 34:
		return "multiset"
	case bytes.HasPrefix(k, []byte("us")) && len(k) == 34:
		return "setsize"
	case bytes.HasPrefix(k, []byte("sutxo")), bytes.HasPrefix(k, []byte("tutxo")), bytes.HasPrefix(k, []byte("cutxo")), bytes.HasPrefix(k, []byte("ccl")), bytes.HasPrefix(k, []byte("dcl")):
		return "undo"
	case bytes.HasPrefix(k, []byte("tk")) && len(k) == 34:
		return "termini"
	case len(k) == 32:
		return "trienode"
	case bytes.HasPrefix(k, []byte("ph")), bytes.HasPrefix(k, []byte("pb")):
		return "pendingheader"
	case bytes.HasPrefix(k, []byte("wb")) && len(k) == 34:
		return "body"
	case len(k) == 33 && k[0] == 'H':
		return "hdrnumber"
	case len(k) == 41 && k[0] == 'h':
		return "header"
	case bytes.HasPrefix(k, []byte("ma")) && len(k) == 34:
		return "manifest"
	case bytes.HasPrefix(k, []byte("il")) && len(k) == 34:
		return "interlink"
	case bytes.HasPrefix(k, []byte("ie")) && len(k) == 34:
		return "inboundetxs"
	case bytes.HasPrefix(k, []byte("pe")) && len(k) == 34:
		return "pendingetxs"
	case bytes.HasPrefix(k, []byte("pr")) && len(k) == 34:
		return "pendingetxsrollup"
	case bytes.HasPrefix(k, []byte("tc")) && len(k) == 34:
		return "tokenchoices"
	case bytes.HasPrefix(k, []byte("bl")) && len(k) == 34:
		return "bloom"
	default:
		if len(k) > 0 {
			return "other-" + string(k[:1])
		}
		return "other"
	}
}

type DB struct {
	ethdb.Database
	C    *Ctl
	Name string
	gen  int
}

func Wrap(db ethdb.Database, c *Ctl) *DB { return WrapNamed(db, c, "") }

// WrapNamed wraps db; name is recorded in every Op (several databases sharing one Ctl = one process).
func WrapNamed(db ethdb.Database, c *Ctl, name string) *DB {
	c.mu.Lock()
	g := c.gen
	c.mu.Unlock()
	return &DB{Database: db, C: c, Name: name, gen: g}
}

func (d *DB) Put(k, v []byte) error {
	if d.C.step(Op{Kind: "put", Class: KeyClass(k), DB: d.Name, gen: d.gen}) {
		return d.Database.Put(k, v)
	}
	return nil
}
func (d *DB) Delete(k []byte) error {
	if d.C.step(Op{Kind: "delete", Class: KeyClass(k), DB: d.Name, gen: d.gen}) {
		return d.Database.Delete(k)
	}
	return nil
}
func (d *DB) NewBatch() ethdb.Batch {
	return &batch{Batch: d.Database.NewBatch(), c: d.C, db: d.Name, gen: d.gen}
}

type batch struct {
	ethdb.Batch
	c    *Ctl
	keys map[string]int
	n    int
	db   string
	gen  int
}

// ValueSize is what size-triggered flush idioms consult; see Ctl.SizeFactor.
func (b *batch) ValueSize() int {
	if f := b.c.sizeFactor(); f > 1 {
		return b.Batch.ValueSize() * f
	}
	return b.Batch.ValueSize()
}

func (b *batch) Put(k, v []byte) error {
	if b.keys == nil {
		b.keys = map[string]int{}
	}
	b.keys[KeyClass(k)]++
	b.n++
	return b.Batch.Put(k, v)
}
func (b *batch) Delete(k []byte) error {
	if b.keys == nil {
		b.keys = map[string]int{}
	}
	b.keys["del-"+KeyClass(k)]++
	b.n++
	return b.Batch.Delete(k)
}
func (b *batch) Reset() {
	b.keys, b.n = nil, 0
	b.Batch.Reset()
}
func (b *batch) Write() error {
	if b.n == 0 {
		return b.Batch.Write()
	}
	var ks []string
	class := "batch-other"
	for k, n := range b.keys {
		ks = append(ks, fmt.Sprintf("%s:%d", k, n))
	}
	switch {
	case b.keys["processed"] > 0:
		class = "blockbatch"
	case b.keys["del-canon"] > 0 && (b.keys["head"] > 0 || b.keys["canon"] > 0 || b.keys["utxo"] > 0 || b.keys["del-utxo"] > 0):
		class = "rollbackbatch"
		if b.keys["head"] == 0 {
			class = "rollbackbatch-without-head"
		}
	case b.keys["termini"] > 0:
		class = "appendbatch"
	case b.keys["trienode"] > 0 && len(b.keys) == 1:
		class = "triebatch"
	}
	sort.Strings(ks)
	if b.c.step(Op{Kind: "batch", Class: class, Keys: ks, DB: b.db, gen: b.gen}) {
		return b.Batch.Write()
	}
	return nil
}

// CopyMem returns an independent in-memory copy of every record of db.
func CopyMem(db ethdb.Database) ethdb.KeyValueStore {
	out := memorydb.New(log.Global)
	it := db.NewIterator(nil, nil)
	for it.Next() {
		out.Put(common.CopyBytes(it.Key()), common.CopyBytes(it.Value()))
	}
	it.Release()
	return out
}
