#!/usr/bin/env python3
"""Generates /verif/MANIFEST.json from the table below (single source of truth for the interface)."""
import json, os, sys
from pathlib import Path

VERIF = Path(__file__).resolve().parent.parent

ALL = ["C%02d" % i for i in range(1, 21)]

# property -> dict(level, text, note, technique, design), one file tools/props/<ID>.meta.json per claimed property
CHECKS = {}
ENABLED = json.loads((VERIF / "tools" / "props" / "enabled.json").read_text())
for f in sorted((VERIF / "tools" / "props").glob("C*.meta.json")):
    if f.name.split(".")[0] in ENABLED:
        CHECKS[f.name.split(".")[0]] = json.loads(f.read_text())

NOT_YET = "check not built yet in this round (planned, see DESIGN.md §8 build-out order)"


def main():
    m = {
        "version": 1,
        "setup_cmd": "tools/setup",
        "hooks": {
            "guard": "verif",
            "enable": "go build -tags verif (harness module /verif/harness, replace go-quai => /repo)",
            "baseline_off_cmd": "cd /repo && GOFLAGS=-mod=mod go test -json -vet=off -count=1 -timeout 25m ./...",
            "source_commits": json.loads((VERIF / "tools" / "hook_commits.json").read_text()) if (VERIF / "tools" / "hook_commits.json").exists() else [],
            "add_only": True,
        },
        "engines": [
            {"name": "tlc", "path": "/opt/veriftools/tla/tla2tools.jar", "serves_properties": sorted(CHECKS),
             "kind_free_text": "explicit-state model checker for the TLA+ specifications in /verif/spec"},
            {"name": "harness", "path": "/verif/harness", "serves_properties": sorted(CHECKS),
             "kind_free_text": "Go drivers that replay TLC behaviours on real go-quai code and record traces for TLC"},
        ],
        "checks": [],
        "not_applicable": [],
        "notes": "All verdicts come from real-code behaviour; see DESIGN.md. known-findings.json lists recorded findings and fixes.",
    }
    for pid in ALL:
        c = CHECKS.get(pid)
        if not c:
            m["not_applicable"].append({"property_id": pid, "reason": NOT_YET})
            continue
        m["checks"].append({
            "property_id": pid,
            "quick_cmd": "tools/check %s --tier quick" % pid,
            "thorough_cmd": "tools/check %s --tier thorough" % pid,
            "evidence_file": "evidence/%s.json" % pid,
            "replay_cmd_template": "tools/check %s --replay {path}" % pid,
            "engine": "tlc+harness",
            "level_claimed": {"category": c["level"], "text": c["text"], "design_ref": c["design"]},
            "level_note": c["note"],
            "technique": c["technique"],
        })
    (VERIF / "MANIFEST.json").write_text(json.dumps(m, indent=1) + "\n")
    try:
        import jsonschema
        jsonschema.validate(m, json.loads(Path("/root/.vp/MANIFEST.schema.json").read_text()))
        print("MANIFEST.json valid;", len(m["checks"]), "checks")
    except ImportError:
        print("MANIFEST.json written (jsonschema not importable here)")


main()
