#!/bin/sh
# usage: try_seed.sh <worktree> <seed-name> <property> [tier]
# 1. confirms the seeded change (demo passes without / fails with; builds; touched packages' tests pass)
# 2. applies it in the worktree and runs the property's check against that tree (VERIF_REPO), then restores the worktree
set -u
WT=$1; NAME=$2; PROP=$3; TIER=${4:-quick}
D=$WT/SEEDED/$NAME
L=/tmp/seedlogs; mkdir -p $L
LINE=$(head -1 "$D/demo_test.go.txt")
PKG=$(echo "$LINE" | sed -n 's/.*pkgdir: *\([^ ]*\).*/\1/p')
RE=$(echo "$LINE" | sed -n 's/.*run: *\(.*\)$/\1/p' | tr -d "'\`")
echo "== $PROP $NAME pkg=$PKG run=$RE"
if [ "${SKIP_CONFIRM:-0}" != 1 ]; then
  /verif/tools/confirm_seed.sh "$WT" "$NAME" "$PKG" "$RE" > $L/$PROP-$NAME.confirm.log 2>&1
  grep -E "^(---|ok|FAIL|PASS|--- FAIL)" $L/$PROP-$NAME.confirm.log | head -30
fi
(cd "$WT" && git checkout -- . && git apply "$D/patch.diff") || { echo "patch does not apply"; exit 2; }
cd /verif
VERIF_REPO=$WT tools/check $PROP --tier $TIER > $L/$PROP-$NAME.check.log 2>&1
echo "check exit=$?"
grep -E "VIOLATION|KNOWN-FINDING|BROKEN" $L/$PROP-$NAME.check.log | cut -c1-300 | head -8
(cd "$WT" && git checkout -- .)
