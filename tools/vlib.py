"""Shared machinery for /verif/tools/check: TLC runner, Go harness builder, evidence writer,
known-findings matcher.  Exit codes of a check: 0 held, 1 violation (real-code), 2 broken check."""
import json, os, re, shutil, subprocess, sys, time, hashlib
from pathlib import Path

VERIF = Path(__file__).resolve().parent.parent
REPO = Path(os.environ.get("VERIF_REPO", "/repo"))
WORK = VERIF / ".work"
# alternative tree (VERIF_REPO=<scratch worktree>): separate scratch / build dirs, so such runs can go on next to runs against /repo
ALT = "" if str(REPO) == "/repo" else "-alt-" + REPO.name
SPEC = VERIF / "spec"
HARNESS = VERIF / "harness"
# runs against a scratch tree (VERIF_REPO=<worktree with a seeded change>) must not overwrite the evidence of the real tree
EVID = VERIF / "evidence" if str(REPO) == "/repo" else WORK / "alt-evidence"
REPLAY = EVID / "replay"
TLA_CP = "/opt/veriftools/tla/tla2tools.jar:/opt/veriftools/tla/CommunityModules-deps.jar"


class Broken(Exception):
    """The check itself could not run to a verdict (exit 2)."""


def goenv():
    e = dict(os.environ)
    e.update(GOFLAGS="-mod=mod", GOPROXY="off", GOSUMDB="off", GOTOOLCHAIN="local",
             CGO_ENABLED=e.get("CGO_ENABLED", "1"))
    return e


def log(*a):
    print("[check]", *a, file=sys.stderr, flush=True)


class Ctx:
    def __init__(self, pid, tier, seed):
        self.id, self.tier, self.seed = pid, tier, seed
        self.t0 = time.time()
        self.work = WORK / (pid + ALT)
        if self.work.exists():
            shutil.rmtree(self.work, ignore_errors=True)
        self.work.mkdir(parents=True)
        self.violations = []      # list of (what, replay_path)
        self.sigs = {}
        if REPLAY.exists() and not os.environ.get("VERIF_KEEP_REPLAY"):
            for f in REPLAY.glob(pid + "-*.json"):
                f.unlink()
        self.known_hits = []      # list of finding ids
        self.cov = {}
        self.assumptions = []
        self.quick = tier == "quick"

    def sub(self, name):
        p = self.work / name
        p.mkdir(parents=True, exist_ok=True)
        return p


# --------------------------------------------------------------------------- Go harness

def ensure_gosum():
    src = REPO / "go.sum"
    dst = HARNESS / "go.sum"
    if not dst.exists() or dst.read_bytes() != src.read_bytes():
        shutil.copyfile(src, dst)


def modfile_args():
    """VERIF_REPO=<dir> (a scratch worktree with a mutation) builds the harness against that tree instead
    of /repo, without touching /repo: an alternative go.mod with the replace directive redirected."""
    if str(REPO) == "/repo":
        return []
    d = WORK / ("altmod" + ALT)
    d.mkdir(parents=True, exist_ok=True)
    txt = (HARNESS / "go.mod").read_text().replace("=> /repo", "=> " + str(REPO))
    (d / "go.mod").write_text(txt)
    shutil.copyfile(REPO / "go.sum", d / "go.sum")
    return ["-modfile=" + str(d / "go.mod")]


def go_build(cmd, race=False, tags="verif"):
    """Build harness/cmd/<cmd> against /repo's current working tree (hooks on)."""
    ensure_gosum()
    bindir = WORK / ("bin" + ALT)
    bindir.mkdir(parents=True, exist_ok=True)
    out = bindir / (cmd + ("-race" if race else ""))
    args = ["go", "build", "-tags", tags, "-o", str(out)] + modfile_args()
    if race:
        args.append("-race")
    args.append("./cmd/" + cmd)
    t = time.time()
    p = subprocess.run(args, cwd=HARNESS, env=goenv(), capture_output=True, text=True)
    if p.returncode != 0:
        raise Broken("go build %s failed:\n%s" % (cmd, p.stderr[-4000:]))
    log("built %s in %.1fs" % (cmd, time.time() - t))
    return out


def run(args, timeout=None, cwd=None, env=None, stdin=None, check=False):
    t = time.time()
    try:
        p = subprocess.run([str(a) for a in args], cwd=cwd, env=env or goenv(), capture_output=True,
                           text=True, timeout=timeout, input=stdin)
    except subprocess.TimeoutExpired as e:
        raise Broken("timeout after %ss: %s" % (timeout, " ".join(map(str, args))[:300]))
    if check and p.returncode != 0:
        raise Broken("command failed (%d): %s\n%s\n%s" % (p.returncode, " ".join(map(str, args))[:300],
                                                         p.stdout[-3000:], p.stderr[-3000:]))
    p.wall = time.time() - t
    return p


# --------------------------------------------------------------------------- TLC

class TLCResult:
    def __init__(self):
        self.ok = False
        self.generated = 0
        self.distinct = 0
        self.depth = 0
        self.violated = None      # invariant / property name
        self.error = None         # other error text
        self.out = ""
        self.wall = 0.0
        self.coverage = {}        # action -> (count, distinct)
        self.printed = []         # values printed by PrintT with our marker


_stat = re.compile(r"(\d+) states generated, (\d+) distinct states found")
_depth = re.compile(r"The depth of the complete state graph search is (\d+)")
_inv = re.compile(r"Error: Invariant (\S+) is violated")
_prop = re.compile(r"Error: (Action property|Temporal properties?) (\S*)")
_cov = re.compile(r"^<(\w+) line \d+, col \d+ to line \d+, col \d+ of module (\w+)>: (\d+):(\d+)", re.M)


def stage_specs(dst):
    dst.mkdir(parents=True, exist_ok=True)
    for f in SPEC.iterdir():
        if f.suffix in (".tla", ".cfg"):
            shutil.copyfile(f, dst / f.name)
    return dst


def tlc(ctx, module, cfg, workers=16, timeout=600, simulate=None, depth=None, seed=None,
        coverage=False, dfs=False, extra=(), heap=None, files=None, tag=None):
    """Run TLC on spec/<module>.tla with spec/<cfg>. `files`: {name: text} written next to the spec
    (trace inputs).  Returns TLCResult.  Never raises on a property violation; raises Broken on
    timeouts / parse errors / JVM failures."""
    tag = tag or cfg.replace(".cfg", "")
    d = stage_specs(ctx.sub("tlc-" + tag))
    for name, text in (files or {}).items():
        (d / name).write_text(text)
    meta = d / "meta"
    jopts = ["-XX:+UseParallelGC", "-Xss512m"]
    if heap:
        jopts.append("-Xmx" + heap)
    if dfs:
        jopts.append("-Dtlc2.tool.queue.IStateQueue=StateDeque")
    args = ["java"] + jopts + ["-cp", TLA_CP, "tlc2.TLC", "-workers", str(workers), "-metadir", str(meta),
                                 "-config", cfg, "-noGenerateSpecTE"]
    if simulate:
        args += ["-simulate", simulate]
    if depth:
        args += ["-depth", str(depth)]
    if seed is not None:
        args += ["-seed", str(seed)]
    if coverage:
        args += ["-coverage", "1"]
    args += list(extra) + [module + ".tla"]
    t = time.time()
    try:
        p = subprocess.run(args, cwd=d, capture_output=True, text=True, timeout=timeout)
    except subprocess.TimeoutExpired as e:
        if simulate:   # simulation is stopped by the outer timeout by design
            out = (e.stdout or b"")
            out = out.decode() if isinstance(out, bytes) else out
            r = TLCResult(); r.out = out; r.ok = "Error:" not in out; r.wall = time.time() - t
            _parse(r)
            return r
        raise Broken("TLC timeout (%ss) on %s/%s" % (timeout, module, cfg))
    r = TLCResult()
    r.out = p.stdout + p.stderr
    r.wall = time.time() - t
    _parse(r)
    (d / "tlc.out").write_text(r.out)
    if p.returncode == 0 and "Error:" not in r.out:
        r.ok = True
    else:
        m = _inv.search(r.out)
        if m:
            r.violated = m.group(1)
        else:
            m = _prop.search(r.out)
            if m:
                r.violated = m.group(2) or m.group(1)
            else:
                r.error = r.out[-3000:]
    shutil.rmtree(meta, ignore_errors=True)
    return r


def _parse(r):
    for m in _stat.finditer(r.out):
        r.generated, r.distinct = int(m.group(1)), int(m.group(2))
    m = _depth.search(r.out)
    if m:
        r.depth = int(m.group(1))
    for m in _cov.finditer(r.out):
        r.coverage[m.group(1)] = (int(m.group(3)), int(m.group(4)))
    for line in r.out.splitlines():
        if line.startswith('"@@') and line.endswith('"'):
            # PrintT of a string produced by ToJson: TLC prints it as a TLA+ string literal
            s = line[1:-1].encode().decode("unicode_escape") if "\\" in line else line[1:-1]
            r.printed.append(s[2:])


def tlc_must_pass(ctx, *a, **kw):
    """Design-level run: the spec must satisfy its invariants (else the spec/check is broken)."""
    r = tlc(ctx, *a, **kw)
    if not r.ok:
        raise Broken("design-level TLC run failed on %s: violated=%s\n%s" % (a, r.violated, (r.error or r.out[-2500:])))
    return r


def sany(module):
    p = subprocess.run(["java", "-cp", TLA_CP, "tla2sany.SANY", module], cwd=SPEC, capture_output=True, text=True)
    return p.returncode == 0 and "Semantic errors" not in p.stdout and "Parse Error" not in p.stdout and "*** Errors" not in p.stdout, p.stdout


# --------------------------------------------------------------------------- findings / evidence

def load_known(pid):
    f = VERIF / "known-findings.json"
    if not f.exists():
        return []
    j = json.loads(f.read_text())
    return [x for x in j.get("findings", []) if x.get("property") == pid]


def match_known(pid, sig):
    """sig: dict describing a violation; a finding matches iff every key of its 'match' equals sig's."""
    for f in load_known(pid):
        m = f.get("match", {})
        if m and all(str(sig.get(k)) == str(v) for k, v in m.items()):
            return f
    return None


def report(ctx, sig, replay_obj):
    """Register a real-code violation with signature `sig`.  Known findings are printed and do not fail."""
    f = match_known(ctx.id, sig)
    if f:
        if f["id"] not in ctx.known_hits:
            ctx.known_hits.append(f["id"])
            print("KNOWN-FINDING: property=%s %s" % (ctx.id, f.get("what", f["id"])), flush=True)
        return False
    REPLAY.mkdir(parents=True, exist_ok=True)
    key = json.dumps(sig, sort_keys=True, default=str)
    if key in ctx.sigs:          # one report per distinct signature
        ctx.sigs[key] += 1
        return True
    ctx.sigs[key] = 1
    n = len(ctx.violations)
    path = REPLAY / ("%s-%d.json" % (ctx.id, n))
    path.write_text(json.dumps({"property": ctx.id, "seed": ctx.seed, "tier": ctx.tier, "signature": sig,
                                "replay": replay_obj}, indent=1, default=str))
    ctx.violations.append((sig, str(path)))
    if n < 20:
        print("VIOLATION property=%s replay=%s" % (ctx.id, path), flush=True)
        log("violation signature:", json.dumps(sig, default=str)[:600])
    return True


def write_evidence(ctx, level, coverage, assumptions=()):
    EVID.mkdir(parents=True, exist_ok=True)
    ev = {"property_id": ctx.id, "tier": ctx.tier, "seed": ctx.seed, "level": level, "coverage": coverage,
          "assumptions": list(assumptions), "wall_s": round(time.time() - ctx.t0, 2),
          "violations": len(ctx.violations), "known_findings_hit": ctx.known_hits}
    (EVID / (ctx.id + ".json")).write_text(json.dumps(ev, indent=1, default=str))


def read_ndjson(path):
    out = []
    with open(path) as f:
        for line in f:
            line = line.strip()
            if line:
                out.append(json.loads(line))
    return out


def write_ndjson(path, rows):
    with open(path, "w") as f:
        for r in rows:
            f.write(json.dumps(r, separators=(",", ":")) + "\n")
