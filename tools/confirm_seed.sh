#!/bin/sh
# usage: confirm_seed.sh <worktree> <seed-name> <package-dir for the demo test> <test regex> [extra packages to test]
# Confirms, in the scratch worktree, that the seeded change compiles, passes the touched packages' existing tests,
# and that its demonstration fails with the change and passes without it.
set -u
WT=$1; NAME=$2; PKG=$3; RE=$4; shift 4
export GOFLAGS=-mod=mod GOPROXY=off GOSUMDB=off GOTOOLCHAIN=local
cd "$WT" || exit 2
git checkout -- . 2>/dev/null
D=SEEDED/$NAME
cp "$D/demo_test.go.txt" "$PKG/zz_seed_demo_test.go" || exit 2
echo "--- demo WITHOUT the change"; timeout 900 go test -vet=off -count=1 -run "$RE" "./$PKG/" 2>&1 | tail -3
git apply "$D/patch.diff" || { echo "patch does not apply"; exit 2; }
echo "--- build"; timeout 900 go build ./... 2>&1 | tail -3
echo "--- demo WITH the change"; timeout 900 go test -vet=off -count=1 -run "$RE" "./$PKG/" 2>&1 | tail -5
rm -f "$PKG/zz_seed_demo_test.go"
TOUCHED=$(git diff --name-only | xargs -n1 dirname | sort -u | sed 's#^#./#')
echo "--- existing tests of touched packages: $TOUCHED $*"; timeout 1800 go test -vet=off -count=1 $TOUCHED "$@" 2>&1 | tail -8
git checkout -- . ; git checkout -- go.sum 2>/dev/null
