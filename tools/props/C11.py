"""C11 — a crash at any point leaves a database the node can restart and continue from."""
import json, shutil
from pathlib import Path
import vlib
from vlib import Broken
import zonechain as zc

CLASS2SPEC = {"canon": "w_canon", "blockbatch": "w_batch", "head": "w_head", "rollbackbatch": "w_rollback",
              "rollbackbatch-without-head": "w_rollback_without_head"}


def spec_write_orders(ctx):
    """The order of primitive writes ZoneChain.tla prescribes for (a) extending the head by one block and
    (b) a reorganisation rolling back two blocks and forward one — taken from TLC-generated behaviours."""
    r = vlib.tlc_must_pass(ctx, "MCZoneChain", "MCZoneChain_shapes.cfg", workers=8, timeout=900)
    want = {}
    for s in r.printed:
        hist = json.loads(s)
        if not any(h["op"] == "sethead" for h in hist):
            continue
        idx = max(i for i, h in enumerate(hist) if h["op"] == "sethead")
        ws = [h["op"] for h in hist[idx + 1:] if h["op"].startswith("w_")]
        nrb = ws.count("w_rollback")
        nfw = ws.count("w_canon")
        want.setdefault((nrb, nfw), ws)
    return want, r


def run(ctx):
    quick = ctx.quick
    drv = vlib.go_build("chaindrv")
    cov = {}
    d = zc.design_run(ctx, "MCZoneChain_quick.cfg" if quick else "MCZoneChain_big.cfg", timeout=3000)
    cov.update(states=d.distinct, transitions=d.generated, tlc_depth=d.depth)
    lead = zc.lead_run(ctx, "MCZoneChain_leadF6.cfg", "Recoverable")
    cov["design_leads"] = [dict(lead, note="with the head pointer written AFTER the block batch (go-quai before fix 1accffa2) TLC finds the crash "
                                            "window that loses the head write; kept as a regression lead, the binding below checks the real code")]
    if not lead["found_by_TLC"]:
        raise Broken("spec drift: the pre-fix design no longer exhibits the lost-head-write counterexample")
    orders, _ = spec_write_orders(ctx)
    points, steps_total, samples, order_checks = 0, 0, [], 0
    seeds = [ctx.seed] if quick else [ctx.seed * 10 + i for i in range(4)]
    nsteps = 4 if quick else 12
    windows = set()
    for seed in seeds:
        out = ctx.work / ("crash-%d.json" % seed)
        p = vlib.run([drv, "crash", "-seed", seed, "-steps", nsteps, "-out", out], timeout=3000)
        if p.returncode != 0:
            raise Broken("chaindrv crash failed (%d): %s\n%s" % (p.returncode, p.stdout[-1500:], p.stderr[-1500:]))
        res = json.loads(out.read_text())
        points += res["crash_points"]
        for st in res["steps"]:
            steps_total += 1
            seq = [CLASS2SPEC[o["class"]] for o in st["ops"] if o["class"] in CLASS2SPEC]
            key = (seq.count("w_rollback"), seq.count("w_canon"))
            want = orders.get(key)
            order_checks += 1
            if want is None and st["kind"] == "append":
                want = orders.get((0, 1))
            if want is None and st["kind"] == "reorg":
                want = orders.get((2, 1))
            if want is None:
                raise Broken("no TLC behaviour to compare the write order of a %s step with" % st["kind"])
            if seq != want:
                # the real code issues its consistency-relevant writes in an order the specification does not allow
                vlib.report(ctx, {"kind": "write-order", "step": st["kind"]}, {"seed": seed, "recorded": seq, "specified": want, "ops": st["ops"]})
            for i, o in enumerate(st["ops"]):
                windows.add(o["class"])
            if len(samples) < 2:
                samples.append({"step": st["kind"], "transactions": st["ntx"], "write_ops": [o["class"] for o in st["ops"]],
                                "crash_points": st["points"]})
        for f in res["failures"] or []:
            vlib.report(ctx, {"kind": "crash-recovery", "window": f["window"], "phase": f["phase"].split("-")[0]},
                        {"seed": seed, "steps": nsteps, "failure": f, "cmd": "chaindrv crash -seed %d -steps %d" % (seed, nsteps)})
    if points < 20:
        raise Broken("only %d crash points enumerated" % points)
    cov.update(evaluations=points, distinct_nontrivial=points, steps_enumerated=steps_total, write_order_checks=order_checks,
               traces_validated_against_impl=order_checks, write_classes_seen=sorted(windows), samples=samples, exhaustive=True,
               rule="for each enumerated step (append of a zone block carrying real Qi/Quai transactions; reorganisation 2 back / 1 forward) EVERY "
                    "prefix of the recorded database write operations (single puts/deletes and atomic batch commits, trie-node and code writes "
                    "included) is a crash point: the surviving image is copied, a new core.Core is built on it and must start, report a head whose "
                    "'ut'/'cl' records equal its header commitments, whose EVM/ETX state opens and whose canonical index leads to genesis, rebuild the "
                    "pending header, complete the interrupted step and mine on. Every crash point is a distinct (step, prefix length) pair.")
    vlib.write_evidence(ctx, "model_checking", cov, [
        "a batch commit is atomic (leveldb/pebble guarantee); torn batches are out of scope",
        "crash points inside the zone database only; prime and region stay up (steps are zone-order blocks and zone-level reorganisations); "
        "crashes during dom-coincident appends are covered by the model only",
        "memory database image copied record by record",
    ])


def replay(ctx, path):
    j = json.loads(Path(path).read_text())
    ctx.seed = j["seed"]
    run(ctx)
