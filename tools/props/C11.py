"""C11 — a crash at any point leaves a database the node can restart and continue from."""
import json, shutil
from pathlib import Path
import vlib
from vlib import Broken
import zonechain as zc

# zone-level writes of spec/ZoneChain.tla (recorded class on the zone database -> action)
CLASS2SPEC = {"canon": "w_canon", "blockbatch": "w_batch", "head": "w_head", "rollbackbatch": "w_rollback",
              "rollbackbatch-without-head": "w_rollback_without_head"}
# writes of spec/HierCrash.tla (any database); must equal specClass() in harness/cmd/chaindrv/crash.go
HIER_CLASSES = {"body", "appendbatch", "canon", "head", "blockbatch", "pendingetxs", "pendingetxsrollup", "inboundetxs",
                "rollbackbatch", "rollbackbatch-without-head"}
DBNAME = {0: "prime", 1: "region", 2: "zone"}
ORDER_OF = {"prime": 0, "region": 1, "zone": 2}

QUICK_PLAN = "zone,region,prime,reorg,zone+size,reorg+size"
THOROUGH_PLAN = "zone,region,prime,reorg,zone+size,reorg+size,prime,region,zone,reorg,prime+size,region+size"


def spec_write_orders(ctx):
    """The order of primitive writes ZoneChain.tla prescribes for (a) extending the head by one block and
    (b) a reorganisation rolling back two blocks and forward one — taken from TLC-generated behaviours."""
    r = vlib.tlc_must_pass(ctx, "MCZoneChain", "MCZoneChain_shapes.cfg", workers=8, timeout=900)
    want = {}
    for s in r.printed:
        hist = json.loads(s)
        if not any(h["op"] == "sethead" for h in hist):
            continue
        idx = max(i for i, h in enumerate(hist) if h["op"] == "sethead")
        ws = [h["op"] for h in hist[idx + 1:] if h["op"].startswith("w_")]
        nrb = ws.count("w_rollback")
        nfw = ws.count("w_canon")
        want.setdefault((nrb, nfw), ws)
    return want, r


def hier_spec(ctx):
    """spec/HierCrash.tla: design run (Recoverable under up to 2 / 3 whole-process crashes), the lead (a dominant chain
    committing before its subordinate chain), and the emitted behaviours: per block order the three-database write
    sequence, every crash position, and the writes of the repeated offer after each of them."""
    d = vlib.tlc_must_pass(ctx, "HierCrash", "MCHierCrash_quick.cfg" if ctx.quick else "MCHierCrash_big.cfg", workers=4, timeout=900)
    lead = vlib.tlc(ctx, "HierCrash", "MCHierCrash_leadDomFirst.cfg", workers=4, timeout=900)
    e = vlib.tlc_must_pass(ctx, "HierCrash", "MCHierCrash_emit.cfg", workers=4, timeout=900)
    seqs, redo = {}, {}
    name = lambda h: "%s:%s" % (DBNAME[h["db"]], h["class"])
    for s in e.printed:
        hist = json.loads(s)
        order = hist[0]["db"]
        ops = [h["op"] for h in hist]
        if "crash" not in ops:
            if ops.count("offer") == 1:
                seqs[order] = [name(h) for h in hist if h["op"] == "w"]
            continue
        ci = ops.index("crash")
        if ops[ci:].count("offer") != 1:
            continue   # the block offered a second time to the restarted node (idempotence; checked by TLC only)
        pos = sum(1 for h in hist[:ci] if h["op"] == "w")
        after = [name(h) for h in hist[ci:] if h["op"] == "w"]
        prev = redo.setdefault((order, pos), after)
        if prev != after:
            raise Broken("HierCrash.tla: two different repeated-offer sequences for order %d crash position %d" % (order, pos))
    for o in (0, 1, 2):
        if o not in seqs or any((o, p) not in redo for p in range(len(seqs[o]) + 1)):
            raise Broken("HierCrash.tla emitted no complete set of behaviours for order %d" % o)
    return d, lead, e, seqs, redo


def run(ctx):
    quick = ctx.quick
    drv = vlib.go_build("chaindrv")
    cov = {}
    d = zc.design_run(ctx, "MCZoneChain_quick.cfg" if quick else "MCZoneChain_big.cfg", timeout=3000)
    cov.update(states=d.distinct, transitions=d.generated, tlc_depth=d.depth)
    lead = zc.lead_run(ctx, "MCZoneChain_leadF6.cfg", "Recoverable")
    if not lead["found_by_TLC"]:
        raise Broken("spec drift: the pre-fix design no longer exhibits the lost-head-write counterexample")
    leadfl = zc.lead_run(ctx, "MCZoneChain_leadFlush.cfg", "NoHalfApply")
    leadfr = zc.lead_run(ctx, "MCZoneChain_leadFlushRollback.cfg", "Recoverable")
    if not leadfl["found_by_TLC"] or not leadfr["found_by_TLC"]:
        raise Broken("spec drift: splitting an atomic unit in two commits (FlushBlockBatchMidway / FlushRollbackMidway) no longer "
                     "violates NoHalfApply / Recoverable in ZoneChain.tla")
    hd, hlead, he, hseqs, hredo = hier_spec(ctx)
    if hlead.violated != "Recoverable":
        raise Broken("spec drift: HierCrash.tla with DomCommitsFirst no longer violates Recoverable (%s)" % (hlead.violated or hlead.error))
    cov["design_leads"] = [
        dict(lead, note="with the head pointer written AFTER the block batch (go-quai before fix 1accffa2) TLC finds the crash "
                        "window that loses the head write; kept as a regression lead, the binding below checks the real code"),
        dict(leadfl, note="FlushBlockBatchMidway: the block batch reaching the database as two commits (size-triggered flush idiom); TLC "
                          "finds the crash between the halves; the +size steps of the binding make every such flush point of the real code fire"),
        dict(leadfr, note="FlushRollbackMidway: the same for the per-block rollback batch of a reorganisation (head left on a block that "
                          "is no longer canonical at its own height)"),
        {"cfg": "MCHierCrash_leadDomFirst.cfg", "expected_violation": "Recoverable", "found_by_TLC": True, "states": hlead.distinct,
         "note": "a dominant chain committing its append batch before the subordinate chain's Append: the crash in between leaves the "
                 "order level answering 'known' to the repeated offer while the subordinate chain never got the block"}]
    cov.update(hier_states=hd.distinct, hier_transitions=hd.generated, hier_behaviours_emitted=len(he.printed),
               hier_crash_positions={DBNAME[o]: len(hseqs[o]) + 1 for o in hseqs})
    orders, _ = spec_write_orders(ctx)

    points, steps_total, samples, order_checks, redo_checks = 0, 0, [], 0, 0
    seeds = [ctx.seed] if quick else [ctx.seed * 10 + i for i in range(4)]
    plan = QUICK_PLAN if quick else THOROUGH_PLAN
    windows, per_kind, retries, retry_windows = set(), {}, 0, set()
    etx_compared, records_compared, skipped = 0, 0, 0
    redo_mismatch = []
    for seed in seeds:
        out = ctx.work / ("crash-%d.json" % seed)
        p = vlib.run([drv, "crash", "-seed", seed, "-plan", plan, "-out", out], timeout=5000)
        if p.returncode != 0:
            raise Broken("chaindrv crash failed (%d): %s\n%s" % (p.returncode, p.stdout[-1500:], p.stderr[-1500:]))
        res = json.loads(out.read_text())
        points += res["crash_points"]
        for st in res["steps"]:
            steps_total += 1
            kind = st["kind"]
            base = kind.replace("+size", "")
            per_kind[kind] = per_kind.get(kind, 0) + st["points"]
            skipped += st["skipped"]
            retries += st["retries"]
            retry_windows.update(st["retry_windows"] or [])
            etx_compared += st["inbound_etxs"] * st["points"]
            records_compared += st["records_compared"] * st["points"]
            # (1) zone-level write order against ZoneChain.tla
            seq = [CLASS2SPEC[o["class"]] for o in st["ops"] if o["db"] == "zone" and o["class"] in CLASS2SPEC]
            key = (seq.count("w_rollback"), seq.count("w_canon"))
            want = orders.get(key)
            order_checks += 1
            if want is None and base != "reorg":
                want = orders.get((0, 1))
            if want is None and base == "reorg":
                want = orders.get((2, 1))
            if want is None:
                raise Broken("no TLC behaviour to compare the write order of a %s step with" % kind)
            if seq != want:
                # the real code issues its consistency-relevant writes in an order the specification does not allow
                vlib.report(ctx, {"kind": "write-order", "step": kind}, {"seed": seed, "recorded": seq, "specified": want, "ops": st["ops"]})
            if base != "reorg":
                # (2) three-database write order against HierCrash.tla
                o = ORDER_OF[base]
                hseq = ["%s:%s" % (x["db"], x["class"]) for x in st["ops"] if x["class"] in HIER_CLASSES]
                order_checks += 1
                if hseq != hseqs[o]:
                    vlib.report(ctx, {"kind": "write-order-hier", "step": kind}, {"seed": seed, "recorded": hseq, "specified": hseqs[o], "ops": st["ops"]})
                else:
                    # (3) every crash position of the specification was realised, and after each of them the repeated offer
                    # issued the writes the specification predicts
                    got = set(st["spec_positions"])
                    if not set(range(len(hseqs[o]) + 1)) <= got:
                        raise Broken("crash positions of HierCrash.tla not enumerated for a %s step: %s" % (kind, sorted(set(range(len(hseqs[o]) + 1)) - got)))
                    for pos, rs in zip(st["spec_positions"], st["redo_spec"]):
                        if rs is None:
                            continue
                        redo_checks += 1
                        if rs != hredo[(o, pos)]:
                            redo_mismatch.append({"seed": seed, "step": kind, "position": pos, "recorded": rs, "specified": hredo[(o, pos)]})
            for i, o in enumerate(st["ops"]):
                windows.add(o["db"] + ":" + o["class"])
            if len(samples) < 3 and (base in ("prime", "reorg") or not samples):
                samples.append({"step": kind, "transactions": st["ntx"], "write_ops": ["%s:%s" % (o["db"], o["class"]) for o in st["ops"]],
                                "crash_points": st["points"], "self_healing_refusals": st["retries"]})
        for f in res["failures"] or []:
            vlib.report(ctx, {"kind": "crash-recovery", "window": f["window"], "phase": f["phase"].split("-")[0]},
                        {"seed": seed, "plan": plan, "failure": f, "cmd": "chaindrv crash -seed %d -plan %s" % (seed, plan)})
    if redo_mismatch and not ctx.violations and not ctx.known_hits:
        raise Broken("the real node recovers, but by other writes than HierCrash.tla specifies for the repeated offer (specification drift): %s"
                     % json.dumps(redo_mismatch[:3]))
    if points < 60:
        raise Broken("only %d crash points enumerated" % points)
    cov.update(evaluations=points, distinct_nontrivial=points, steps_enumerated=steps_total, crash_points_per_step_kind=per_kind,
               write_order_checks=order_checks, reoffer_write_checks=redo_checks, traces_validated_against_impl=order_checks + redo_checks,
               write_classes_seen=sorted(windows), samples=samples, exhaustive=True,
               trie_run_prefixes_skipped=skipped, self_healing_refusals=retries, self_healing_windows=sorted(retry_windows),
               continuation_records_compared=records_compared, continuation_inbound_etxs_compared=etx_compared,
               rule="prime, region and zone cores run in one process on three databases wrapped with ONE write counter. For each enumerated step "
                    "(append of a zone-, region- and prime-order block carrying real Qi/Quai transactions: bodies, Slice.Append cascade, head "
                    "update at every level; zone reorganisation 2 back / 1 forward; the same steps once more with every batch reporting its size "
                    "x4000 so that size-triggered flushes fire) EVERY prefix of the recorded write operations of the three databases (single "
                    "puts/deletes and atomic batch commits, trie-node and code writes included) is a crash of the whole process: the three "
                    "surviving images are copied, three new cores are built on them and must start, report heads whose canonical index leads to "
                    "genesis and (zone) whose 'ut'/'cl' records equal the header commitments and whose EVM/ETX state opens, complete the "
                    "interrupted step when the block is offered again at its order level, accept the same four continuation blocks (zone, region, "
                    "prime, zone) a node that never crashed mined, end with byte-identical inbound-ETX / pending-ETX / rollup / termini / manifest "
                    "records and zone ledger as that node, and mine on. Every crash point is a distinct (step, prefix length) pair.")
    vlib.write_evidence(ctx, "model_checking", cov, [
        "a batch commit is atomic (leveldb/pebble guarantee); torn batches are out of scope",
        "one process = one global order of writes over the three databases; each write is durable when it returns (no write-back caching)",
        "the head update of the three levels follows the hierarchical coordinator's order (prime, region, zone), as harness/mininet issues it; "
        "the coordinator's own bookkeeping database is not part of the model",
        "inside a run of consecutive pure trie-node commits of a +size step only the first window is enumerated (content-addressed nodes)",
        "the copies of pending-ETX records nothing reads (prime 'pe', region 'pr') are not compared with the node that did not crash",
        "memory database images copied record by record",
    ])


def replay(ctx, path):
    j = json.loads(Path(path).read_text())
    ctx.seed = j["seed"]
    run(ctx)
