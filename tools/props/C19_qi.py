"""C19, Qi layer - the Qi (UTXO) side of the transaction pool and the worker's selection of Qi transactions from it
(spec/QiPool.tla, spec/QiPoolTrace.tla, harness/cmd/qipooldrv; accessor core/tx_pool_verif.go VerifQiSnapshot).
Stages are run by C19.py next to the Quai-side stages; results are collected in the same `Collected` object."""
import concurrent.futures as cf
import json, os, random, re
from pathlib import Path
import vlib
from vlib import Broken


def _printed(r):
    """TLC prints the universe (a JSON object with key defs) and the behaviours (JSON arrays)"""
    defs, behs = None, []
    for s in r.printed:
        j = json.loads(s)
        if isinstance(j, dict):
            defs = j
        else:
            behs.append(j)
    return defs, behs


def build(race=False):
    over = os.environ.get("C19_QIDRV_RACE" if race else "C19_QIDRV")
    if over:
        return Path(over)
    return vlib.go_build("qipooldrv", race=race)


def _sig_panic(v):
    d = v.get("detail") or {}
    return {"kind": "qi-panic", "class": d.get("class", "other")}


def _report_driver_violations(col, rj, base, rerun=None):
    """violations the driver found natively: panics of pool code, invariants on snapshots, stuck runs"""
    for pn in (rj.get("panics") or []):
        col.reports.append(({"kind": "qi-panic", "class": "recovered-by-pool-goroutine"}, dict(base, log=pn[:6000])))
    for v in (rj.get("violations") or []):
        k = v.get("kind")
        if k == "panic":
            col.reports.append((_sig_panic(v), dict(base, violation=v)))
        elif k == "invariant":
            col.reports.append(({"kind": "qi-invariant", "inv": v.get("what", "").split(":")[0], "by": "driver"}, dict(base, violation=v)))
        elif k == "stuck":
            col.stuck.append((v, rerun, base))
        elif k == "harness":
            raise Broken("qipooldrv harness problem: %s %s" % (v.get("what"), json.dumps(v.get("detail"))[:500]))
        else:
            col.reports.append(({"kind": "qi-" + str(k), "what": v.get("what", "")[:100]}, dict(base, violation=v)))


# --------------------------------------------------------------------------- design level

def stage_design(ctx, col):
    cfg = "MCQiPool_small.cfg" if ctx.quick else "MCQiPool_big.cfg"
    r = vlib.tlc_must_pass(ctx, "MCQiPool", cfg, workers=4 if ctx.quick else 16, timeout=3000)
    vlib.log("TLC %s: %d distinct / %d generated, depth %d, %.0fs" % (cfg, r.distinct, r.generated, r.depth, r.wall))
    col.cov.update(qi_states=r.distinct, qi_transitions=r.generated, qi_tlc_cfg=cfg, qi_tlc_wall_s=round(r.wall, 1))
    # what the code does NOT guarantee must stay derivable from the model, and so must the defect repaired by fix
    # 20862e4b from the model of the pre-fix code (InactiveRefusedAtOnce = FALSE): spec-drift guards, thorough tier.
    # No panic is specified for the current code (Assert in AddCall): a panic of a pool call is a violation.
    leads = {}
    if not ctx.quick:
        leads = {"MCQiPool_leadpanic.cfg": "NoPanic", "MCQiPool_leadconflict.cfg": "NoTwoPooledTxsConflict",
                 "MCQiPool_leadspendable.cfg": "PoolTxsSpendable"}
    for lc, inv in leads.items():
        lr = vlib.tlc(ctx, "MCQiPool", lc, workers=2, timeout=1200)
        if lr.violated != inv:
            raise Broken("%s: TLC no longer derives the violation of %s from the model (%s)\n%s" %
                         (lc, inv, lr.violated, (lr.error or lr.out[-1500:])))
    col.cov["qi_leads_derived"] = sorted(leads.values())


# --------------------------------------------------------------------------- spec -> code

def replay(ctx, col, drv, defs, behs, tag, workers=12, timeout=3000):
    dfile = ctx.work / ("qi-defs-%s.json" % tag)
    dfile.write_text(json.dumps(defs))
    f = ctx.work / ("qi-behaviours-%s.ndjson" % tag)
    with open(f, "w") as fh:
        for b in behs:
            fh.write(json.dumps(b, separators=(",", ":")) + "\n")
    res = ctx.work / ("qi-replay-%s.json" % tag)
    cmd = [drv, "replay", "-defs", dfile, "-in", f, "-out", res, "-workers", workers]
    p = vlib.run(cmd, timeout=timeout)
    base = {"type": "qi-behaviour", "defs": defs}
    if p.returncode != 0:
        raise Broken("qipooldrv replay %s failed (%d):\n%s" % (tag, p.returncode, (p.stderr or "")[-3000:]))
    rj = json.loads(res.read_text())

    def rerun():
        p2 = vlib.run(cmd, timeout=timeout)
        if p2.returncode != 0:
            return True
        return any(v.get("kind") == "stuck" for v in (json.loads(res.read_text()).get("violations") or []))
    for m in (rj.get("mismatches") or []):
        col.reports.append(({"kind": "qi-spec-vs-impl", "op": m["op"], "field": m["field"]},
                            dict(base, behaviour=m["prefix"], step=m["step"], expected=m["expected"], got=m["got"])))
    for v in (rj.get("violations") or []):
        v["behaviour_of"] = v.pop("behaviour", None)
    _report_driver_violations(col, rj, base, rerun)
    return rj


def stage_emit(ctx, col, drv):
    """every transition of two bounded models is a behaviour with the specified answer and pool content after every
    step: the full transaction universe (admission classes, eviction, recency, removal) at a small depth, and the
    transactions that take part in blocks / conflicts / re-injection at a greater depth"""
    cfgs = [("MCQiPool_emit.cfg", None), ("MCQiPool_emitreorg5.cfg", 4000)] if ctx.quick else \
           [("MCQiPool_emit5.cfg", 60000), ("MCQiPool_emitreorg.cfg", 60000)]

    def emit(c):
        return vlib.tlc_must_pass(ctx, "MCQiPool", c[0], workers=4 if ctx.quick else 8, timeout=3000)
    with cf.ThreadPoolExecutor(max_workers=2) as ex:
        results = list(ex.map(emit, cfgs))
    rnd = random.Random(ctx.seed)
    chosen, seen, defs = [], set(), None
    emitted = states = transitions = 0
    for (cfg, limit), r in zip(cfgs, results):
        d, behs = _printed(r)
        defs = defs or d
        if d is None or len(behs) < 5000:
            raise Broken("%s: TLC emitted %d Qi behaviours, definitions %s" % (cfg, len(behs), "present" if d else "missing"))
        depth = max(len(b) for b in behs)
        full = [b for b in behs if len(b) == depth]      # every shorter behaviour is a prefix of one of these
        vlib.log("TLC %s: %d behaviours (%d of full length %d), %d distinct states, %.0fs" % (cfg, len(behs), len(full), depth, r.distinct, r.wall))
        emitted += len(behs); states += r.distinct; transitions += r.generated
        pick = full if limit is None or len(full) <= limit else rnd.sample(full, limit)
        # behaviours that re-inject after a reorg or merge head events are few: all of them (bounded)
        special = [b for b in full if any(s["op"] == "reset" and (s.get("rj") or s.get("k", 1) > 1) for s in b)]
        extra = special if limit is None or len(special) <= 2000 or not ctx.quick else rnd.sample(special, 2000)
        for b in pick + extra:
            k = json.dumps(b, sort_keys=True)
            if k not in seen:
                seen.add(k)
                chosen.append(b)
    rj = replay(ctx, col, drv, defs, chosen, "emit")
    st = rj["status"]
    if st.get("ok", 0) < 0.9 * len(chosen) and not col.reports and not col.stuck:
        raise Broken("only %s of %d Qi behaviours replayed to the end: %s" % (st.get("ok"), len(chosen), st))
    col.cov.update(qi_fused_states=states, qi_fused_transitions=transitions, qi_behaviours_emitted=emitted,
                   qi_behaviours_replayed=len(chosen), qi_replay_status=st, qi_replay_steps_compared=rj["steps_compared"],
                   qi_replay_ops=rj["ops"], qi_replay_results=rj["results"], qi_replay_schedule_retries=rj["schedule_retries"])
    col.samples.append({"qi_behaviour_from_TLC": [{k: v for k, v in s.items() if k != "st"} for s in chosen[-1]]})


# --------------------------------------------------------------------------- code -> spec

def _prefixed(defs, rows, p):
    """the universe and the events with every transaction / outpoint / block identifier prefixed (key names are shared)"""
    d = defs["defs"]
    P = lambda x: p + x
    txs = {P(k): dict(v, ins=[P(i) for i in v["ins"]], outs=[dict(o, id=P(o["id"])) for o in v["outs"]]) for k, v in d["txs"].items()}
    gen = {P(k): v for k, v in d["gen"].items()}
    blocks = {P(k): {"parent": v["parent"] if v["parent"] == "none" else P(v["parent"]), "body": [P(t) for t in v["body"]]}
              for k, v in d["blocks"].items()}
    out = []
    for r in rows:
        r = dict(r)
        for f in ("tx", "b", "old", "new", "g"):
            if r.get(f):
                r[f] = P(r[f])
        for f in ("txs", "sel", "cache"):
            if f in r:
                r[f] = [P(x) for x in r[f]]
        if "st" in r:
            st = dict(r["st"])
            st["pool"] = [P(x) for x in st["pool"]]
            st["cache"] = [P(x) for x in st["cache"]]
            st["head"] = P(st["head"])
            r["st"] = st
        out.append(r)
    return {"txs": txs, "gen": gen, "blocks": blocks, "cap": d["cap"], "minfee": d["minfee"]}, out


def validate_traces(ctx, col, items, tag):
    """QiPoolTrace.tla on several trace directories (same pool capacity) merged into ONE TLC run (a JVM start costs more
    than the validation).  items: [(outdir, base)].  -> {outdir: (events, scenarios)} for the accepted ones"""
    merged = {"txs": {}, "gen": {}, "blocks": {}, "cap": None, "minfee": None}
    rows, origin = [], []
    for i, (outdir, base) in enumerate(items):
        tr = vlib.read_ndjson(Path(outdir) / "qipooltrace.ndjson")
        if not tr:
            raise Broken("empty Qi trace in " + str(outdir))
        defs = json.loads((Path(outdir) / "qipooldefs.json").read_text())
        d, rr = _prefixed(defs, tr, "x%d" % i if len(items) > 1 else "")
        if merged["cap"] not in (None, d["cap"]) or merged["minfee"] not in (None, d["minfee"]):
            raise Broken("traces with different pool capacities cannot be validated together")
        for k in ("txs", "gen", "blocks"):
            merged[k].update(d[k])
        merged["cap"], merged["minfee"] = d["cap"], d["minfee"]
        rows += rr
        origin += [i] * len(rr)
    text = "".join(json.dumps(r, separators=(",", ":")) + "\n" for r in rows)
    t = vlib.tlc(ctx, "QiPoolTrace", "QiPoolTrace.cfg", workers=1, timeout=3000, tag="qitrace-" + tag,
                 files={"qipooltrace.ndjson": text, "qipooldefs.json": json.dumps({"defs": merged})})
    done = {}
    if t.ok:
        for i, (outdir, base) in enumerate(items):
            mine = [r for r, o in zip(rows, origin) if o == i]
            done[str(outdir)] = (len(mine), sum(1 for r in mine if r["op"] == "tracereset"))
        return done

    def scenario_upto(line):
        start = max([j for j in range(min(line, len(rows))) if rows[j]["op"] == "tracereset"] or [0])
        return rows[start:line]
    line = 0
    if t.violated == "Conform":
        m = re.findall(r'mismatch = <<\s*(\d+),\s*"(\w+)",\s*"([\w-]+)"', t.out)
        line, op, field = (int(m[-1][0]), m[-1][1], m[-1][2]) if m else (0, "?", "?")
        sig = {"kind": "qi-trace-vs-spec", "op": op, "field": field}
        extra = {"tlc_mismatch": (re.findall(r"mismatch = (<<.*?>>)\n/\\", t.out, re.S) or [""])[-1][:1500]}
    elif t.violated and t.violated.startswith("Impl"):
        m = re.findall(r"/\\ l = (\d+)", t.out)
        line = int(m[-1]) - 1 if m else 0
        sig, extra = {"kind": "qi-invariant", "inv": t.violated[4:], "by": "TLC"}, {}
    else:
        raise Broken("QiPoolTrace did not accept trace %s (%s):\n%s" % (tag, t.violated, (t.error or t.out[-2500:])))
    base = items[origin[min(max(line - 1, 0), len(origin) - 1)]][1]
    col.reports.append((sig, dict(base, type="qi-trace", defs={"defs": merged}, trace=scenario_upto(line), trace_line=line, **extra)))
    return done


def validate_trace(ctx, col, outdir, tag, base):
    done = validate_traces(ctx, col, [(outdir, base)], tag)
    return done.get(str(outdir), (0, 0))


def random_run(ctx, col, drv, tag, args, race=False, timeout=3000, handle=None):
    out = ctx.sub("qi-" + tag)
    res = out / "result.json"
    full = [drv, "random", "-seed", ctx.seed, "-outdir", out, "-result", res] + args
    base = {"type": "qi-random", "args": [str(a) for a in args], "race": race}
    env = vlib.goenv()
    if race:
        env["GORACE"] = "halt_on_error=0 exitcode=0 history_size=3"
    p = vlib.run(full, timeout=timeout, env=env)
    if handle is not None:
        if not handle(col, p, "qipooldrv random " + tag, base, race):
            return None, out, base
    elif p.returncode != 0:
        raise Broken("qipooldrv random %s failed (%d):\n%s" % (tag, p.returncode, (p.stderr or "")[-3000:]))
    rj = json.loads(res.read_text())

    def rerun():
        p2 = vlib.run(full, timeout=timeout, env=env)
        if p2.returncode != 0:
            return True
        return any(v.get("kind") == "stuck" for v in (json.loads(res.read_text()).get("violations") or []))
    _report_driver_violations(col, rj, base, rerun)
    return rj, out, base


def stage_random(ctx, col, drv, drv_race, handle):
    q = ctx.quick
    stats = {}
    cap = ["-cap", 3 + ctx.seed % 3]
    runs = [("seq", drv, ["-universes", 3 if q else 10, "-scenarios", 4 if q else 12, "-steps", 40 if q else 80, "-parallel", 4] + cap, False),
            ("conc", drv, ["-universes", 2 if q else 6, "-scenarios", 3 if q else 8, "-steps", 24, "-producers", 8 if q else 16,
                           "-ops", 20 if q else 40, "-parallel", 2] + cap, False)]
    if drv_race is not None:
        runs.append(("race", drv_race, ["-universes", 4, "-scenarios", 6, "-steps", 24, "-producers", 16, "-ops", 30, "-parallel", 2] + cap, True))
    items = []

    def one(run):
        tag, d, args, race = run
        rj, out, base = random_run(ctx, col, d, tag, args, race=race, timeout=6000, handle=handle if race else None)
        if not rj:
            return
        stats[tag] = dict(rj["stats"], scenarios=rj["scenarios_completed"], events=rj["events"])
        if rj["scenarios_completed"] == 0:
            if not col.reports and not col.stuck:
                raise Broken("qipooldrv random %s completed no scenario" % tag)
            return
        items.append((out, base, tag))
    with cf.ThreadPoolExecutor(max_workers=3) as ex:
        list(ex.map(one, runs))
    if items:
        done = validate_traces(ctx, col, [(o, b) for o, b, _ in items], "random")
        for o, b, tag in items:
            ev, sc = done.get(str(o), (0, 0))
            stats[tag + "_validated"] = {"scenarios": sc, "events": ev}
    col.cov["qi_random"] = stats


def stage_worker(ctx, col, drv):
    """real node (mininet): real pool, real worker, real blocks; C01's mempool sentence on the node's own blocks"""
    stats = {}
    seeds = [ctx.seed * 100 + i for i in range(2 if ctx.quick else 8)]
    items = []

    def one(sd):
        out = ctx.sub("qi-worker-%d" % sd)
        res = out / "result.json"
        args = ["-seed", sd, "-rounds", 8 if ctx.quick else 14]
        base = {"type": "qi-worker", "args": [str(a) for a in args]}
        cmd = [drv, "worker", "-outdir", out, "-result", res] + args
        for attempt in range(3):
            p = vlib.run(cmd, timeout=1200)
            # the shared warm-up (harness/chain) gives a funding transaction 2 s to become pending: on an overloaded machine
            # that is a failure of the machinery before anything is judged - tried again, then a broken check
            if p.returncode == 3 and "warm-up" in (p.stderr or "") and attempt < 2:
                vlib.log("qipooldrv worker (seed %d): warm-up failed (%s), trying again" % (sd, (p.stderr or "").strip()[-120:]))
                continue
            break
        if p.returncode != 0:
            raise Broken("qipooldrv worker (seed %d) failed (%d):\n%s" % (sd, p.returncode, (p.stderr or "")[-3000:]))
        rj = json.loads(res.read_text())

        def rerun():
            # a stuck run counts only if it happens again (C19.run asks once per driver run)
            out2 = ctx.sub("qi-worker-%d-again" % sd)
            p2 = vlib.run([drv, "worker", "-outdir", out2, "-result", out2 / "result.json"] + args, timeout=1200)
            if p2.returncode != 0:
                return True
            return any(v.get("kind") == "stuck" for v in (json.loads((out2 / "result.json").read_text()).get("violations") or []))
        for v in (rj.get("violations") or []):
            if v.get("kind") == "own-block-rejected":
                col.reports.append(({"kind": "qi-own-block-rejected"}, dict(base, violation=v)))
                v["kind"] = "reported"
        rj["violations"] = [v for v in (rj.get("violations") or []) if v.get("kind") != "reported"]
        _report_driver_violations(col, rj, base, rerun)
        if not rj.get("completed"):
            if not col.reports and not col.stuck:
                raise Broken("qipooldrv worker (seed %d) did not complete: %s" % (sd, json.dumps(rj)[:800]))
            return
        stats[str(sd)] = dict(rj["stats"], blocks=rj["blocks"], transactions=rj["transactions"])
        items.append((out, base, sd))
    with cf.ThreadPoolExecutor(max_workers=2) as ex:
        list(ex.map(one, seeds))
    if items:
        done = validate_traces(ctx, col, [(o, b) for o, b, _ in items], "worker")
        for o, b, sd in items:
            stats[str(sd)]["events_validated"] = done.get(str(o), (0, 0))[0]
    col.cov["qi_worker"] = stats
    sel = sum(s.get("selected", 0) for s in stats.values())
    if stats and sel == 0 and not col.reports:
        raise Broken("the worker never selected a Qi transaction in %d runs" % len(stats))


def run_all(ctx, col, ex, handle, race):
    """submit the Qi stages to the executor of C19.run; returns the futures"""
    drv = build()
    drv_race = build(race=True) if race else None
    return [ex.submit(stage_design, ctx, col), ex.submit(stage_emit, ctx, col, drv),
            ex.submit(stage_random, ctx, col, drv, drv_race, handle), ex.submit(stage_worker, ctx, col, drv)]


def validated(col):
    n = 0
    for k, v in (col.cov.get("qi_random") or {}).items():
        if k.endswith("_validated"):
            n += v.get("scenarios", 0)
    n += sum(1 for v in (col.cov.get("qi_worker") or {}).values() if v.get("events_validated"))
    n += (col.cov.get("qi_replay_status") or {}).get("ok", 0)
    return n


ASSUMPTIONS = [
    "Qi layer: the pool-only runs use a stub chain whose database holds exactly the unspent outputs of the specification's "
    "block tree (real rawdb UTXO records, real Schnorr/MuSig2-signed transactions); base fee 1 wei and an exchange rate at which "
    "one qit covers any transaction of the universes (MinFee = 1 qit); gas limits and ETX limits are never reached; the rule "
    "against merging denominations is not exercised (outputs are smaller than the largest input)",
    "Qi layer: qiTxExpirationGoroutine (10-minute constant ticker), the sender cache fed through sendersCh, the broadcast set "
    "and tx-sharing clients are not specified; qiTxFees is large enough never to evict",
    "Qi layer: the worker's order is specified up to what matters for safety (among transactions of the same shape higher fee "
    "first, ties in LRU order); the fee-per-gas arithmetic is not re-derived; the real worker runs on the in-process node "
    "(mininet) with at most ~8 pooled Qi transactions per block",
]


def replay_one(ctx, col, rep):
    """--replay of a Qi-layer violation"""
    t = rep.get("type")
    if t == "qi-behaviour":
        drv = build()
        rj = replay(ctx, col, drv, rep["defs"], [rep["behaviour"]] if rep.get("behaviour") else
                    [(rep.get("violation") or {}).get("behaviour_of")], "one", workers=1)
        print(json.dumps(rj["status"]))
    elif t == "qi-random":
        drv = build(race=bool(rep.get("race")))
        rj, out, base = random_run(ctx, col, drv, "one", rep["args"], race=bool(rep.get("race")))
        if rj and rj["scenarios_completed"]:
            validate_trace(ctx, col, out, "one", base)
    elif t == "qi-worker":
        drv = build()
        out = ctx.sub("qi-worker-one")
        p = vlib.run([drv, "worker", "-outdir", out, "-result", out / "result.json"] + rep["args"], timeout=1200)
        rj = json.loads((out / "result.json").read_text())
        for v in (rj.get("violations") or []):
            if v.get("kind") == "own-block-rejected":
                col.reports.append(({"kind": "qi-own-block-rejected"}, dict(rep, violation=v)))
        if rj.get("completed"):
            validate_trace(ctx, col, out, "worker-one", {"type": "qi-worker", "args": rep["args"]})
    elif t == "qi-trace":
        out = ctx.sub("qi-trace-one")
        vlib.write_ndjson(out / "qipooltrace.ndjson", rep["trace"])
        (out / "qipooldefs.json").write_text(json.dumps(rep["defs"]))
        validate_trace(ctx, col, out, "one", {})
    else:
        return False
    return True
