"""C19 — the transaction pool stays internally consistent under any interleaving
(spec/TxPool.tla, spec/TxPoolTrace.tla, harness/cmd/pooldrv; hooks core/tx_pool_verif.go)."""
import concurrent.futures as cf
import json, os, random, re
from pathlib import Path
import vlib
from vlib import Broken
import C19_qi

# universes / limits; they must agree with the TLC configurations named next to them
SMALL = dict(na=2, maxnonce=2, maxprice=3, accountslots=1, globalslots=2, accountqueue=2, globalqueue=2,
             pricebump=60, initbal=3)                                   # MCTxPool_emit.cfg / MCTxPool_emit4.cfg
GAP = dict(na=1, maxnonce=2, maxprice=2, accountslots=3, globalslots=3, accountqueue=3, globalqueue=3,
           pricebump=60, initbal=2)                                     # MCTxPool_gap.cfg
RAND = dict(na=3, maxnonce=5, maxprice=4, accountslots=2, globalslots=4, accountqueue=3, globalqueue=4,
            pricebump=60)                                               # TxPoolTrace.cfg

os.environ.setdefault("JAVA_TOOL_OPTIONS", "-Xmn512m")   # fresh heap pages are very slow to touch here


def flags(d):
    out = []
    for k, v in d.items():
        out += ["-" + k, str(v)]
    return out


def printed_behaviours(r):
    return [json.loads(s) for s in r.printed]


# --------------------------------------------------------------------------- driver runs

def run_driver(drv, args, timeout, race=False):
    env = vlib.goenv()
    if race:
        env["GORACE"] = "halt_on_error=0 exitcode=0 history_size=3"
    p = vlib.run([drv] + args, timeout=timeout, env=env)
    return p


_ACC = re.compile(r"(?:Read|Write|Previous read|Previous write) at \S+ by (?:main )?goroutine[^\n]*:\n((?:  \S[^\n]*\n\s+\S[^\n]*\n)+)")
_FRAME = re.compile(r"  (\S+)\n\s+(\S+?):(\d+)")
_SRC = {}


def _lines(path):
    if path not in _SRC:
        try:
            _SRC[path] = Path(path).read_text().splitlines()
        except Exception:
            _SRC[path] = []
    return _SRC[path]


def lock_state(path, line):
    """textual state of pool.mu at `line` inside its function: True (taken before the line and not released),
    False (released before the line), None (the function does not touch pool.mu before the line)"""
    src = _lines(path)
    i = min(line, len(src)) - 1
    start = i
    while start > 0 and not src[start].startswith("func "):
        start -= 1
    state = None
    for ln in src[start:i]:
        if re.search(r"defer\s+pool\.mu\.R?Unlock\(\)", ln):
            continue
        if re.search(r"pool\.mu\.R?Lock\(\)", ln):
            state = True
        elif re.search(r"pool\.mu\.R?Unlock\(\)", ln):
            state = False
    return state


def parse_races(stderr):
    """-> list of dicts {field, unlocked, funcs, in_repo, text}, one per report.  `field`: the identifier both
    accessing source lines (innermost frames inside the repository) have in common; `unlocked`: the functions
    whose access is, textually, not made under pool.mu in any frame of its stack."""
    out = []
    repo = str(vlib.REPO) + "/"
    for rep in stderr.split("WARNING: DATA RACE")[1:]:
        rep = rep.split("==================")[0]
        idents, funcs, unlocked, in_repo = None, set(), set(), False
        for m in _ACC.finditer(rep):
            frames = [(fn, path, int(line)) for fn, path, line in _FRAME.findall(m.group(1)) if path.startswith(repo)]
            if not frames:
                continue
            in_repo = True
            fn, path, line = frames[0]
            short = fn.split(".")[-1].rstrip("()")
            funcs.add(short)
            src = _lines(path)
            ids = set(re.findall(r"\.(\w+)", src[line - 1] if line <= len(src) else ""))
            idents = ids if idents is None else idents & ids
            if not any(lock_state(p, l) is True for _, p, l in frames):
                unlocked.add(short)
        cand = sorted(i for i in (idents or []) if i not in ("mu", "Lock", "Unlock", "RLock", "RUnlock", "logger"))
        out.append({"field": cand[0] if cand else "?", "unlocked": "|".join(sorted(unlocked)),
                    "funcs": "|".join(sorted(funcs)), "in_repo": in_repo, "text": rep[:6000]})
    return out


def classify_violation(v):
    kind, what = v.get("kind", "?"), v.get("what", "")
    if kind.startswith("finding:"):
        return {"kind": "invariant", "inv": what.split(":")[0], "cause": kind.split(":", 1)[1]}
    if kind == "invariant":
        return {"kind": "invariant", "inv": what.split(":")[0], "cause": "unexplained", "by": "driver"}
    if kind == "stuck":
        return {"kind": "stuck", "what": what}
    return {"kind": kind, "what": what[:120]}


class Collected:
    """what the parallel stages found; reported from the main thread"""
    def __init__(self):
        self.reports = []       # (signature, replay_obj)
        self.cov = {}
        self.samples = []
        self.stuck = []         # (description, rerun closure)


def handle_driver_output(col, p, what, replay_base, race=False):
    """common post-processing of a pooldrv process: crashes, panics, races"""
    err = p.stderr or ""
    if race:
        for r in parse_races(err):
            if not r["in_repo"]:
                raise Broken("data race inside the harness itself:\n" + r["text"][:3000])
            col.reports.append(({"kind": "race", "field": r["field"], "unlocked": r["unlocked"], "funcs": r["funcs"]},
                                dict(replay_base, race_report=r["text"])))
    if p.returncode != 0:
        if "panic:" in err or "fatal error:" in err:
            m = re.search(r"(panic: [^\n]*|fatal error: [^\n]*)", err)
            if "go-quai/core" in err:
                col.reports.append(({"kind": "panic", "what": m.group(1)[:160]}, dict(replay_base, stderr=err[-8000:])))
                return False
        raise Broken("%s failed (%d):\n%s" % (what, p.returncode, err[-3000:]))
    return True


def driver_result(col, res_path, replay_base, rerun=None):
    rj = json.loads(Path(res_path).read_text())
    for pn in (rj.get("panics") or []):
        col.reports.append(({"kind": "panic", "what": "pool goroutine panicked (recovered and logged)"},
                            dict(replay_base, log=pn[:6000])))
    for v in (rj.get("violations") or []):
        sig = classify_violation(v)
        if sig["kind"] == "stuck":
            col.stuck.append((v, rerun, replay_base))
            continue
        col.reports.append((sig, dict(replay_base, violation=v)))
    return rj


# --------------------------------------------------------------------------- stages

def stage_design(ctx, col):
    """design level: exhaustive TLC on the protocol model (callers interleaved with the reorg loop)"""
    cfg = "MCTxPool_small.cfg" if ctx.quick else "MCTxPool_big.cfg"
    r = vlib.tlc_must_pass(ctx, "MCTxPool", cfg, workers=8 if ctx.quick else 16, timeout=3000)
    vlib.log("TLC %s: %d distinct / %d generated, depth %d, %.0fs" % (cfg, r.distinct, r.generated, r.depth, r.wall))
    col.cov.update(states=r.distinct, transitions=r.generated, tlc_depth=r.depth, tlc_cfg=cfg, tlc_wall_s=round(r.wall, 1))
    if not ctx.quick:
        f4 = vlib.tlc_must_pass(ctx, "MCTxPool", "MCTxPool_fused4.cfg", workers=16, timeout=3000)
        col.cov.update(fused4_states=f4.distinct, fused4_transitions=f4.generated)
        vlib.log("TLC MCTxPool_fused4.cfg: %d distinct / %d generated, %.0fs" % (f4.distinct, f4.generated, f4.wall))
        lv = vlib.tlc_must_pass(ctx, "MCTxPool", "MCTxPool_live.cfg", workers=8, timeout=3000)
        col.cov.update(liveness_states=lv.distinct, liveness_cfg="MCTxPool_live.cfg",
                       liveness="RequestEventuallyServed, ResetEventuallyServed, SenderEventuallyUnblocked hold under weak fairness")
        vlib.log("TLC liveness: %d distinct, %.0fs" % (lv.distinct, lv.wall))


def replay_behaviours(ctx, col, drv, behs, univ, tag, workers=16, timeout=3000):
    f = ctx.work / ("behaviours-%s.ndjson" % tag)
    with open(f, "w") as fh:
        for b in behs:
            fh.write(json.dumps(b, separators=(",", ":")) + "\n")
    res = ctx.work / ("replay-%s.json" % tag)
    cmd = ["replay", "-in", f, "-out", res, "-workers", workers] + flags(univ)
    p = run_driver(drv, cmd, timeout)
    base = {"type": "behaviour", "universe": univ}
    if not handle_driver_output(col, p, "pooldrv replay " + tag, base):
        return None
    rj = json.loads(res.read_text())

    def rerun():
        p2 = run_driver(drv, cmd, timeout)
        if p2.returncode != 0:
            return True
        return any(v.get("kind") == "stuck" for v in (json.loads(res.read_text()).get("violations") or []))
    for m in (rj.get("mismatches") or []):
        col.reports.append(({"kind": "spec-vs-impl", "op": m["op"], "field": m["field"]},
                            dict(base, behaviour=m["prefix"], step=m["step"], expected=m["expected"], got=m["got"])))
    stuck = [v for v in (rj.get("violations") or []) if v.get("kind") == "stuck"]
    for pn in (rj.get("panics") or []):
        col.reports.append(({"kind": "panic", "what": "pool goroutine panicked (recovered and logged)"}, dict(base, log=pn[:6000])))
    for v in (rj.get("violations") or []):
        if v.get("kind") != "stuck":
            col.reports.append((classify_violation(v), dict(base, behaviour=v.pop("behaviour", None), violation=v)))
    if stuck:
        col.stuck.append((stuck[0], rerun, dict(base, behaviour=stuck[0].pop("behaviour", None))))
    return rj


def stage_emit(ctx, col, drv):
    """spec -> code: every transition of the bounded fused model is a behaviour with the specified state
    after every step; replayed on real pools"""
    cfg = "MCTxPool_emit.cfg"
    r = vlib.tlc_must_pass(ctx, "MCTxPool", cfg, workers=8 if ctx.quick else 16, timeout=3000)
    behs = printed_behaviours(r)
    if len(behs) < 10000:
        raise Broken("TLC emitted only %d behaviours" % len(behs))
    depth = max(len(b) for b in behs)
    full = [b for b in behs if len(b) == depth]      # every shorter behaviour is a prefix of one of these
    vlib.log("TLC %s: %d behaviours (%d of full length %d), %d distinct states, %.0fs" %
             (cfg, len(behs), len(full), depth, r.distinct, r.wall))
    rnd = random.Random(ctx.seed)
    pick = rnd.sample(full, min(len(full), 6000)) if ctx.quick else full
    rj = replay_behaviours(ctx, col, drv, pick, SMALL, "emit")
    col.cov.update(fused_states=r.distinct, fused_transitions=r.generated, behaviours_emitted=len(behs),
                   behaviours_replayed=len(pick))
    if rj:
        st = rj["status"]
        if st.get("ok", 0) < 0.9 * len(pick) and not col.reports and not col.stuck:
            raise Broken("only %s of %d behaviours replayed to the end: %s" % (st.get("ok"), len(pick), st))
        col.cov.update(replay_status=st, replay_steps_compared=rj["steps_compared"], replay_ops=rj["ops"],
                       replay_schedule_retries=rj["schedule_retries"])
        col.samples.append({"behaviour_from_TLC": [{k: v for k, v in s.items() if k != "st"} for s in pick[0]]})
    if not ctx.quick:
        # longer random walks of the specification (TLC simulation), replayed the same way
        s = vlib.tlc(ctx, "MCTxPool", "MCTxPool_walk.cfg", workers=8, timeout=240, simulate="num=100000", depth=12,
                     seed=ctx.seed)
        if s.error or s.violated:
            raise Broken("simulation of MCTxPool_walk.cfg failed: %s %s" % (s.violated, (s.error or "")[-1500:]))
        walks = [b for b in printed_behaviours(s) if len(b) == 10]
        walks = random.Random(ctx.seed).sample(walks, min(len(walks), 4000))
        if len(walks) < 200:
            raise Broken("TLC simulation produced only %d walks" % len(walks))
        rj2 = replay_behaviours(ctx, col, drv, walks, SMALL, "walk")
        if rj2:
            col.cov.update(walks_replayed=len(walks), walk_status=rj2["status"], walk_steps_compared=rj2["steps_compared"])


def stage_gap(ctx, col, drv):
    """the known finding, derived by TLC and reproduced on the real code: the strict invariant
    PendingContiguous fails on the model of the code as it is; the shortest counterexample is replayed"""
    r = vlib.tlc(ctx, "MCTxPool", "MCTxPool_gap.cfg", workers=4, timeout=1200)
    if r.violated != "NoGapWitness" or not r.printed:
        if r.ok:
            raise Broken("MCTxPool_gap.cfg: TLC no longer finds the pending-list hole in the model")
        raise Broken("MCTxPool_gap.cfg: unexpected TLC outcome %s\n%s" % (r.violated, (r.error or r.out[-1500:])))
    wit = sorted(printed_behaviours(r), key=len)[0]
    rj = replay_behaviours(ctx, col, drv, [wit], GAP, "gap", workers=1)
    col.cov.update(gap_counterexample_steps=len(wit), gap_states=r.distinct)
    col.samples.append({"TLC_counterexample_PendingContiguous": [{k: v for k, v in s.items() if k != "st"} for s in wit]})
    if rj and rj["status"].get("ok", 0) == 1:
        found = [v for v in (rj.get("violations") or []) if v["kind"].startswith("finding:")]
        if not found:
            vlib.log("note: the real pool followed the TLC counterexample step by step but shows no hole")
    return wit


def validate_traces(ctx, col, trace_path, tag, chunk_events, max_chunks):
    """code -> spec: TxPoolTrace.tla on the event log (whole scenarios, chunked, TLC runs in parallel)"""
    rows = vlib.read_ndjson(trace_path)
    chunks, cur = [], []
    for row in rows:
        if row["op"] == "tracereset" and len(cur) >= chunk_events:
            chunks.append(cur); cur = []
        cur.append(row)
    if cur:
        chunks.append(cur)
    chunks = chunks[:max_chunks]

    def one(i):
        text = "".join(json.dumps(r, separators=(",", ":")) + "\n" for r in chunks[i])
        return vlib.tlc(ctx, "TxPoolTrace", "TxPoolTrace.cfg", workers=1, timeout=3000, tag="%s-%d" % (tag, i),
                        files={"pooltrace.ndjson": text})
    validated = events = 0
    with cf.ThreadPoolExecutor(max_workers=6) as ex:
        results = list(ex.map(one, range(len(chunks))))
    for i, t in enumerate(results):
        n_sc = sum(1 for r in chunks[i] if r["op"] == "tracereset")
        if t.ok:
            validated += n_sc; events += len(chunks[i])
            continue
        base = {"type": "trace", "chunk": i}
        if t.violated == "Conform":
            m = re.findall(r'mismatch = <<\s*(\d+),\s*"(\w+)"', t.out)
            line, op = (int(m[-1][0]), m[-1][1]) if m else (0, "?")
            start = max([j for j in range(min(line, len(chunks[i]))) if chunks[i][j]["op"] == "tracereset"] or [0])
            col.reports.append(({"kind": "trace-vs-spec", "op": op},
                                dict(base, trace=chunks[i][start:line], trace_line=line)))
        elif t.violated and t.violated.startswith("Impl"):
            m = re.findall(r"/\\ l = (\d+)", t.out)
            line = int(m[-1]) - 1 if m else 0
            start = max([j for j in range(min(line, len(chunks[i]))) if chunks[i][j]["op"] == "tracereset"] or [0])
            col.reports.append(({"kind": "invariant", "inv": t.violated[4:], "cause": "unexplained", "by": "TLC"},
                                dict(base, trace=chunks[i][start:line], trace_line=line)))
        else:
            raise Broken("TxPoolTrace did not accept trace chunk %d (%s):\n%s" % (i, t.violated, (t.error or t.out[-2500:])))
    return validated, events, len(chunks)


def random_run(ctx, col, drv, tag, args, race=False, timeout=3000):
    tr = ctx.work / ("pooltrace-%s.ndjson" % tag)
    res = ctx.work / ("random-%s.json" % tag)
    full = ["random", "-seed", ctx.seed, "-out", tr, "-result", res] + args + flags(RAND)
    base = {"type": "random", "args": [str(a) for a in args], "universe": RAND, "race": race}

    def rerun():
        p2 = run_driver(drv, full, timeout, race)
        if p2.returncode != 0:
            return True
        r2 = json.loads(res.read_text())
        return any(v.get("kind") == "stuck" for v in (r2.get("violations") or []))
    p = run_driver(drv, full, timeout, race)
    if not handle_driver_output(col, p, "pooldrv random " + tag, base, race):
        return None, tr
    rj = driver_result(col, res, base, rerun)
    return rj, tr


def stage_random(ctx, col, drv, drv_race):
    q = ctx.quick
    stats = {}
    # sequential schedules
    rj, tr = random_run(ctx, col, drv, "seq", ["-scenarios", 60 if q else 600, "-steps", 60 if q else 120,
                                               "-parallel", 6, "-trace-events", 9000 if q else 120000])
    if rj:
        stats["sequential"] = rj["stats"]
        v, e, c = validate_traces(ctx, col, tr, "trace-seq", 3000 if q else 12000, 3 if q else 10)
        stats["sequential_validated"] = {"scenarios": v, "events": e, "tlc_runs": c}
    # concurrent producers
    rj, tr = random_run(ctx, col, drv, "conc", ["-scenarios", 6 if q else 30, "-steps", 25, "-producers", 8 if q else 16,
                                                "-rounds", 5 if q else 10, "-parallel", 2,
                                                "-trace-events", 6000 if q else 60000])
    if rj:
        stats["concurrent"] = rj["stats"]
        v, e, c = validate_traces(ctx, col, tr, "trace-conc", 3000 if q else 12000, 2 if q else 5)
        stats["concurrent_validated"] = {"scenarios": v, "events": e, "tlc_runs": c}
    if drv_race is not None:
        rj, tr = random_run(ctx, col, drv_race, "race", ["-scenarios", 40, "-steps", 30, "-producers", 16, "-rounds", 10,
                                                         "-parallel", 2, "-trace-events", 60000], race=True, timeout=6000)
        if rj:
            stats["race_detector"] = rj["stats"]
            v, e, c = validate_traces(ctx, col, tr, "trace-race", 12000, 5)
            stats["race_validated"] = {"scenarios": v, "events": e, "tlc_runs": c}
        # one long-lived pool: the 30 s pool limiter and many eviction ticks
        rj, tr = random_run(ctx, col, drv_race, "soak", ["-scenarios", 2, "-steps", 20, "-producers", 16, "-rounds", 1,
                                                         "-soak", "65s", "-parallel", 2, "-trace-events", 0], race=True, timeout=6000)
        if rj:
            stats["soak"] = rj["stats"]
    col.cov["random"] = stats


# --------------------------------------------------------------------------- entry points

def build(race=False):
    """the driver, built against /repo; C19_DRV / C19_DRV_RACE name a pre-built binary instead (used to run the
    check against a privately mutated copy of the repository, see seeded/C19-*/meta.json)"""
    over = os.environ.get("C19_DRV_RACE" if race else "C19_DRV")
    if over:
        vlib.log("using pre-built driver", over)
        return Path(over)
    return vlib.go_build("pooldrv", race=race)


def stage_bigprobe(ctx, col, drv):
    """Transactions of more than one slot offered to a full pool (outside the unit-slot model): the invariants of TxPool.tla are
    evaluated natively on every snapshot; the scenario must really reach the failing Discard (answer 'overflow')."""
    out = ctx.work / "bigprobe.json"
    p = run_driver(drv, ["bigprobe", "-out", str(out)], 300)
    if p.returncode != 0:
        raise Broken("pooldrv bigprobe failed (%d): %s" % (p.returncode, (p.stderr or p.stdout)[-1500:]))
    runs = json.loads(out.read_text())["runs"]
    nviol = 0
    for r in runs:
        shape = {"locals": r["Locals"], "remotes": r["Remotes"], "big_slots": r["BigSlots"]}
        for v in r.get("violations") or []:
            nviol += 1
            what = re.sub(r"[\[<(][^\])>]*[\])>]", "_", v.get("what", ""))[:100]
            col.reports.append(({"kind": "multi-slot-" + v.get("kind", ""), "what": what}, {"type": "bigprobe", "shape": shape, "violation": v, "steps": r["steps"]}))
        if not (r.get("violations") or []):
            if r["big_result"] != "overflow":
                raise Broken("bigprobe did not reach the failing Discard: %s" % r)
            if r["after_result"] != "ok":
                col.reports.append(({"kind": "multi-slot-newcomer-refused-after-failed-discard", "what": r["after_result"]}, {"type": "bigprobe", "shape": shape, "steps": r["steps"]}))
    col.cov["multi_slot_probe"] = {"runs": len(runs), "violations": nviol, "shapes": [[r["Locals"], r["Remotes"], r["BigSlots"]] for r in runs]}


def run(ctx):
    drv = build()
    col = Collected()
    drv_race = None
    with cf.ThreadPoolExecutor(max_workers=9) as ex:
        futs = [ex.submit(stage_design, ctx, col), ex.submit(stage_emit, ctx, col, drv), ex.submit(stage_gap, ctx, col, drv),
                ex.submit(stage_bigprobe, ctx, col, drv)]
        if ctx.quick:
            futs.append(ex.submit(stage_random, ctx, col, drv, None))
        else:
            drv_race = build(race=True)
            futs.append(ex.submit(stage_random, ctx, col, drv, drv_race))
        # the Qi (UTXO) side of the pool and the worker's selection from it (C19_qi.py)
        futs += C19_qi.run_all(ctx, col, ex, handle_driver_output, race=not ctx.quick)
        errs = []
        for f in futs:
            try:
                f.result()
            except Exception as e:      # let the other stages finish, then fail
                errs.append(e)
    # a stuck run counts only if it happens again (one repetition per driver run)
    repeated = {}
    for v, rerun, base in col.stuck:
        key = id(rerun)
        if key not in repeated:
            repeated[key] = rerun() if rerun else True
        if repeated[key]:
            kind = "qi-stuck" if str(base.get("type", "")).startswith("qi-") else "stuck"
            col.reports.append(({"kind": kind, "what": re.sub(r"round \d+", "a round", v.get("what", ""))[:120]},
                                dict(base, violation=v)))
        else:
            vlib.log("a run got stuck once (%s) but not when repeated: not reported" % v.get("what"))
            col.cov["unreproduced_stuck"] = col.cov.get("unreproduced_stuck", 0) + 1
    for sig, rep in col.reports:
        vlib.report(ctx, sig, rep)
    if errs and not ctx.violations:
        raise errs[0]
    rnd = col.cov.get("random", {})
    validated = sum(rnd.get(k, {}).get("scenarios", 0) for k in ("sequential_validated", "concurrent_validated", "race_validated"))
    cov = dict(col.cov)
    cov.update(traces_validated_against_impl=validated + (cov.get("replay_status", {}).get("ok", 0)) + C19_qi.validated(col),
               qi_traces_validated_against_impl=C19_qi.validated(col),
               random_scenarios_validated_by_TLC=validated, samples=col.samples[:4], exhaustive=True,
               rule="TLC: exhaustive protocol model + every transition of the bounded fused model emitted with the specified "
                    "pool state after each step and replayed on real core.TxPool instances (snapshot under pool.mu compared "
                    "after every step); seeded random schedules (sequential and concurrent producers%s) logged per critical "
                    "section and validated by TxPoolTrace.tla, which evaluates the C19 invariants on the implementation's "
                    "snapshots; Qi side: spec/QiPool.tla checked exhaustively, its bounded behaviours replayed on real pools over a "
                    "stub chain with a real UTXO database (answer class, LRU order, fees, fee cache after every step), random "
                    "universes / concurrent producers / a real in-process node with the real worker logged and validated by "
                    "QiPoolTrace.tla" % ("" if ctx.quick else ", race detector on"))
    vlib.write_evidence(ctx, "model_checking", cov, C19_qi.ASSUMPTIONS + [
        "Quai side: transactions are plain Quai transfers (gas 21000, value 0); the journal and tx sharing clients are not exercised",
        "the stub chain fabricates blocks and states; state roots are labels, not trie roots",
        "wall-clock eviction and heartbeat order are abstracted in the specification (any subset / any order); the trace "
        "resolves them from the logged snapshots",
        "txPricedList is checked as a set (remotes are in the heaps, nothing foreign is); heap order and the choice of "
        "Discard are not specified beyond 'remote, as many as needed'",
        "the Go race detector and runtime, TLC and the Go compiler are trusted",
    ])


def replay(ctx, path):
    j = json.loads(Path(path).read_text())
    rep = j["replay"]
    col = Collected()
    if str(rep.get("type", "")).startswith("qi-"):
        C19_qi.replay_one(ctx, col, rep)
    elif rep.get("type") == "behaviour" and rep.get("behaviour"):
        drv = build()
        rj = replay_behaviours(ctx, col, drv, [rep["behaviour"]], rep["universe"], "one", workers=1)
        print(json.dumps(rj and rj["status"]))
    elif rep.get("type") == "behaviour":
        drv = build()
        wit = stage_gap(ctx, col, drv)
        print(json.dumps([{k: v for k, v in s.items() if k != "st"} for s in wit]))
    elif rep.get("type") == "bigprobe":
        stage_bigprobe(ctx, col, build())
    elif rep.get("type") == "random":
        drv = build(race=bool(rep.get("race")))
        seed = j.get("seed", 1)
        ctx.seed = seed
        random_run(ctx, col, drv, "one", rep["args"], race=bool(rep.get("race")))
    elif rep.get("type") == "trace":
        f = ctx.work / "one.ndjson"
        vlib.write_ndjson(f, rep["trace"])
        validate_traces(ctx, col, f, "one", 10 ** 9, 1)
    for v, rerun, base in col.stuck:
        col.reports.append(({"kind": "stuck", "what": v.get("what", "")[:120]}, dict(base, violation=v)))
    for sig, r in col.reports:
        vlib.report(ctx, sig, r)
    print("replayed: %d violation(s), known findings hit: %s" % (len(ctx.violations), ctx.known_hits))
