"""C14 — encode/decode round trips preserve objects, bytes and identity (spec/Codec.tla, harness/cmd/codecdrv)."""
import json, subprocess, sys
from pathlib import Path
import vlib
from vlib import Broken

sys.path.insert(0, str(Path(__file__).resolve().parent))
import C14_tables

SIG_KEYS = ("kind", "type", "codec", "field", "cause", "err")


def check_tables(drv):
    """The spec's tables (CodecTables.tla) must be exactly the driver's: a drift is a broken check."""
    p = vlib.run([drv, "tables"], check=True)
    tables = json.loads(p.stdout)
    want = C14_tables.render(tables)
    have = (vlib.SPEC / "CodecTables.tla").read_text()
    if want != have:
        raise Broken("spec/CodecTables.tla differs from `codecdrv tables` (regenerate: codecdrv tables | python3 tools/props/C14_tables.py)")
    return tables


def sig_of(v):
    return {k: v.get(k, "") or "" for k in SIG_KEYS}


def report_all(ctx, viols, source):
    n = 0
    for e in viols:
        v = e["violation"] if "violation" in e else e
        sig = sig_of(v)
        replay = {"source": source, "type": v.get("type"), "seed": v.get("seed"), "shape": v.get("shape"),
                  "steps": v.get("steps"), "detail": v.get("detail"), "count": e.get("count", 1)}
        if vlib.report(ctx, sig, replay):
            n += 1
    return n


def trace_violations(ctx, drv, rows, printed):
    """Turn the disagreements printed by CodecTrace.tla into violation records (with the driver's cause)."""
    out, cases = [], []
    for s in printed:
        m = json.loads(s)
        line = m["line"]
        ev = rows[line - 1]
        start = max(i for i in range(line) if rows[i]["op"] == "start")
        steps = [{"op": r["op"], "type": r["type"], "codec": r["codec"], "loc": r["loc"], "field": r["field"],
                  "shape": r["shape"] if r["op"] == "start" else None} for r in rows[start:line]]
        prev = rows[start]["shape"]
        for r in rows[start + 1:line - 1]:
            if r["op"] == "dec":
                prev = r["obs"]["shape"]
        codec = next((r["codec"] for r in reversed(rows[start:line]) if r["codec"]), "")
        what = m["what"]
        v = {"kind": what, "type": ev["type"], "codec": codec, "field": "", "cause": "", "err": ev["obs"]["msg"],
             "seed": ev["seed"], "shape": rows[start]["shape"], "steps": steps, "detail": ev["obs"]["msg"]}
        if what == "class-mismatch":
            names = next(r["fields"] for r in [rows[start]])
            got, want = ev["obs"]["shape"], m["want"]
            j = next(i for i in range(len(want)) if want[i] != got[i])
            v["field"] = names[j]
            v["cause"] = "from=%s,want=%s,got=%s" % (prev[j], want[j], got[j])
            v["err"] = ""
        elif what == "stale-hash":
            v["field"], v["cause"], v["err"], v["detail"] = ev["obs"]["setter"], "warm", "", "hash cache not invalidated"
        elif what == "bytes-unstable":
            v["cause"], v["err"] = "shape=" + ",".join(prev), ""
        elif what in ("hash-ignores-field", "hash-changed-unexpected"):
            v["field"], v["err"] = ev["field"], ""
        else:   # relative kinds: the driver minimises the start shape towards the base shape
            if what == "value-changed":
                v["field"] = ev["obs"]["badField"]
            cases.append((len(out), {"type": ev["type"], "seed": ev["seed"], "shape": rows[start]["shape"], "steps": steps,
                                     "kind": what, "field": v["field"]}))
        out.append(v)
    if cases:
        f = ctx.work / "explain.json"
        f.write_text(json.dumps([c for _, c in cases]))
        p = vlib.run([drv, "explain", "-in", f], check=True, timeout=1200)
        causes = json.loads(p.stdout.strip().splitlines()[-1])
        for (i, _), c in zip(cases, causes):
            out[i]["cause"] = c
    return out


def run(ctx):
    quick = ctx.quick
    drv = vlib.go_build("codecdrv")
    tables = check_tables(drv)
    cov = {"types": [t["type"] for t in tables], "codecs": {t["type"]: t["codecs"] for t in tables}}

    # 1. design + spec -> code: TLC checks the design invariants on every (type, shape, path) of the bounded
    #    codec graph and emits every transition as a behaviour with the specified outcome
    cfg = "MCCodec_quick.cfg" if quick else "MCCodec_thorough.cfg"
    r = vlib.tlc_must_pass(ctx, "MCCodec", cfg, workers=16, timeout=2400)
    beh = ctx.work / "behaviours.ndjson"
    beh.write_text("\n".join(r.printed) + "\n")
    if len(r.printed) < 1000:
        raise Broken("TLC emitted only %d behaviours" % len(r.printed))
    vlib.log("TLC %s: %d distinct / %d generated states, %d behaviours, %.0fs" % (cfg, r.distinct, r.generated, len(r.printed), r.wall))
    cov.update(states=r.distinct, transitions=r.generated, tlc_cfg=cfg, behaviours_from_tlc=len(r.printed))

    res = ctx.work / "replay.json"
    inst = 1 if quick else 2
    p = vlib.run([drv, "replay", "-in", beh, "-out", res, "-seed", ctx.seed, "-inst", inst], timeout=3000)
    if p.returncode != 0:
        raise Broken("codecdrv replay failed (%d): %s" % (p.returncode, p.stderr[-2000:]))
    rj = json.loads(res.read_text())
    if rj["behaviours"] != len(r.printed):
        raise Broken("driver replayed %d of %d behaviours" % (rj["behaviours"], len(r.printed)))
    report_all(ctx, rj["violations"] or [], "replay")
    vlib.log("replayed %d behaviours x %d seeds, %d steps, %d distinct abstract classes, %.0fs" % (
        rj["behaviours"], inst, rj["steps"], rj["distinct_classes"], p.wall))

    # 2. code -> spec: seeded random paths over fully random shapes, validated by CodecTrace.tla
    ntr = 200 if quick else 3000
    tr = ctx.work / "codectrace.ndjson"
    p = vlib.run([drv, "random", "-seed", ctx.seed, "-n", ntr, "-out", tr], timeout=3000)
    if p.returncode != 0:
        raise Broken("codecdrv random failed (%d): %s" % (p.returncode, p.stderr[-2000:]))
    info = json.loads(p.stdout.strip().splitlines()[-1])
    t = vlib.tlc(ctx, "CodecTrace", "CodecTrace.cfg", workers=1, timeout=3000, files={"codectrace.ndjson": tr.read_text()})
    if not t.ok:
        if t.violated:
            raise Broken("CodecTrace: design invariant %s violated on an implementation trace:\n%s" % (t.violated, t.out[-2000:]))
        raise Broken("CodecTrace did not accept the trace (driver left the codec graph, or TLC error):\n" + (t.error or "")[-2000:])
    rows = vlib.read_ndjson(tr)
    tv = trace_violations(ctx, drv, rows, t.printed)
    report_all(ctx, tv, "trace")
    vlib.log("validated %d random traces (%d events) with CodecTrace.tla, %d disagreements, %.0fs" % (ntr, info["events"], len(tv), t.wall))

    samples = []
    lines = beh.read_text().splitlines()
    for i in (len(lines) // 3, len(lines) - 1):
        b = json.loads(lines[i])
        samples.append({"behaviour_from_TLC": [{k: s[k] for k in ("op", "type", "codec", "loc", "field", "shape") if s.get(k)} for s in b]})
    samples.append({"implementation_trace_prefix": [{k: rr[k] for k in ("op", "type", "codec", "loc", "shape")} for rr in rows[:3]]})
    samples.append({"abstract_classes": rj["class_samples"][:4]})
    cov.update(evaluations=rj["steps"] + info["events"], distinct_nontrivial=rj["distinct_classes"],
               instantiations=rj["instantiations"], random_traces_validated_by_TLC=ntr, random_events=info["events"],
               per_codec=rj["per_codec"], samples=samples, exhaustive=False,
               rule="every transition of the bounded codec graph (TLC %s: all types x start shapes within %d field deviations of "
                    "the base shape x paths of <= 4 steps) replayed on the real encoders/decoders with the specified outcome, "
                    "%d seeded instantiation(s) each; plus %d seeded random paths over fully random shapes validated by "
                    "CodecTrace.tla. distinct_nontrivial = number of distinct (type, codec, decode location, abstract shape "
                    "before -> after) decode classes and (type, setter, hash changed) mutate classes actually executed"
                    % (cfg, 1 if quick else 2, inst, ntr))
    vlib.write_evidence(ctx, "exploration", cov, [
        "object values are drawn per field class (absent/zero/typ/max or an enumerated tag); equality is judged on exported getters",
        "Norm (spec/Codec.tla) lists the only representation changes a round trip may make; everything else is a violation",
        "protobuf/RLP/JSON libraries, the Go runtime and TLC are trusted; hashes are treated as injective",
        "JSON-RPC coverage: struct MarshalJSON/UnmarshalJSON pairs and RPCMarshal* maps of core/types (internal/quaiapi cannot be imported from outside the module)",
    ])


def replay(ctx, path):
    j = json.loads(Path(path).read_text())
    rp = j["replay"]
    drv = vlib.go_build("codecdrv")
    steps = rp["steps"]
    steps[0]["shape"] = rp["shape"]
    # re-run the recorded path; the relative oracles (errors, panics, value/hash changes, stale hashes) need no spec
    f = ctx.work / "one.json"
    f.write_text(json.dumps([{"type": rp["type"], "seed": rp["seed"], "shape": rp["shape"], "steps": steps,
                              "kind": j["signature"]["kind"], "field": j["signature"]["field"]}]))
    p = vlib.run([drv, "explain", "-in", f], check=True)
    cause = json.loads(p.stdout.strip().splitlines()[-1])[0]
    print("replayed %s on %s: cause=%s" % (j["signature"]["kind"], rp["type"], cause))
    if cause != "unreproducible":
        sig = dict(j["signature"]); sig["cause"] = cause if j["signature"]["kind"] not in ("class-mismatch", "stale-hash", "bytes-unstable") else sig["cause"]
        vlib.report(ctx, sig, rp)
