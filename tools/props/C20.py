"""C20 — Quai<->Qi conversions never credit more than the rate allows; refusals refund
(spec/Conversion.tla, spec/ConversionTrace.tla, harness/cmd/convdrv, harness/conv)."""
import json, os, random, re, shutil, subprocess, tempfile, time
from concurrent.futures import ThreadPoolExecutor
from pathlib import Path
import vlib
from vlib import Broken

ALL_INV = ["TraceConforms", "DebitCountsOK", "ExactlyOneOutcome", "CreditLeRateImplied", "DiscountOnlyReducesNotBelowFloor",
           "RefundIsOriginal", "DenominationDustBound", "NotBeforeLock"]
# which natively detected problem kinds explain a violated trace invariant
INV_KINDS = {
    "RefundIsOriginal": ["qi-refund-differs-from-original", "refund-is-not-the-original-amount"],
    "CreditLeRateImplied": ["credit-exceeds-rate-implied-amount"],
    "DiscountOnlyReducesNotBelowFloor": ["credit-below-protocol-floor", "credit-exceeds-rate-implied-amount"],
    "NotBeforeLock": ["credit-before-lock", "qi-refund-lock-differs"],
    "TraceConforms": ["repriced-value-differs-from-protocol-formula", "revert-decision-differs-from-protocol-rule",
                      "refund-is-not-the-original-amount", "credit-amount-differs", "credit-before-lock", "quai-balance-unexplained"],
    "DenominationDustBound": ["qi-output-unexplained", "qi-output-missing"],
    "ExactlyOneOutcome": ["quai-balance-unexplained", "qi-output-unexplained"],
    "DebitCountsOK": ["conversion-emitted-twice", "debited-without-etx"],
}
SIG_KEYS = ("kind", "class", "regime", "dir", "via")


def build_driver(ctx, name):
    """vlib.go_build against /repo; with VERIF_REPO=<scratch worktree> the same harness is built against that tree
    through a private alternate module file (mutation runs do not disturb other builders)."""
    repo = os.environ.get("VERIF_REPO", "/repo")
    if repo == "/repo":
        return vlib.go_build(name)
    alt = ctx.work / "alt.mod"
    alt.write_text((vlib.HARNESS / "go.mod").read_text().replace("=> /repo", "=> " + repo))
    shutil.copyfile(Path(repo) / "go.sum", ctx.work / "alt.sum")
    out = ctx.work / "bin" / name
    out.parent.mkdir(parents=True, exist_ok=True)
    t = time.time()
    p = subprocess.run(["go", "build", "-modfile", str(alt), "-tags", "verif", "-o", str(out), "./cmd/" + name],
                       cwd=vlib.HARNESS, env=vlib.goenv(), capture_output=True, text=True)
    if p.returncode != 0:
        raise Broken("go build %s against %s failed:\n%s" % (name, repo, p.stderr[-4000:]))
    vlib.log("built %s against %s in %.1fs" % (name, repo, time.time() - t))
    return out


def sig_of(p):
    s = {"kind": p["kind"]}
    for k in SIG_KEYS[1:]:
        if k in p["info"]:
            s[k] = p["info"][k]
    return s


def shapes_from_tlc(printed, nbatches, per_scenario, seed):
    """Batches (the conversions one prime block confirms) enumerated by TLC -> driver scenarios."""
    seen, batches = set(), []
    for s in printed:
        hist = json.loads(s)
        rp = hist[-1]
        if rp["op"] != "reprice" or rp["inc"]:
            continue        # the harness chain never has a rising exchange rate (see assumptions)
        items, allq = [], True
        for b in rp["batch"]:
            amt = b["amt"]
            cls = {10: "belowmin", 20: "min"}.get(amt, "typical" if amt <= 100 else ("big" if amt <= 1000 else "huge"))
            it = {"dir": b["dir"], "via": b["via"], "amt": cls, "slip": b["slip"], "gas": "ample"}
            if b["dir"] == "q2i" and cls not in ("belowmin", "min"):
                it["units"] = amt
            else:
                allq = False
            if b["dir"] != "q2i":
                allq = False
            it["_kind"] = b["kind"]
            items.append(it)
        # refused requests never reach the prime chain: prepend them from the history
        for h in hist[:-1]:
            if h["op"] == "debit" and h["res"][0] == "refused" and h["dir"] == "q2i":
                items.append({"dir": "q2i", "via": h["via"], "amt": "belowmin", "slip": h["slip"], "gas": "ample", "_kind": "refused"})
        robust = rp["robust"] and allq
        for it in items:
            k = it.pop("_kind")
            if robust or k == "refused":
                it["want"] = k
        key = json.dumps(items, sort_keys=True)
        if key not in seen:
            seen.add(key)
            batches.append(items)
    rnd = random.Random(seed)
    rnd.shuffle(batches)
    total = len(batches)
    # prefer batches that carry predictions, but keep mixed-direction ones too
    batches.sort(key=lambda b: -sum(1 for it in b if "want" in it))
    pick = batches[:nbatches // 2] + rnd.sample(batches[nbatches // 2:], min(nbatches - nbatches // 2, max(0, len(batches) - nbatches // 2)))
    rnd.shuffle(pick)
    scen = [pick[i:i + per_scenario] for i in range(0, len(pick), per_scenario)]
    return scen, total


def run_driver(ctx, drv, tag, args, timeout=1500):
    tr = ctx.work / ("convtrace-%s.ndjson" % tag)
    p = vlib.run([drv, "random", "-out", tr] + args, timeout=timeout)
    if p.returncode != 0:
        raise Broken("convdrv %s failed (%d): %s\n%s" % (tag, p.returncode, p.stdout[-1500:], p.stderr[-2500:]))
    info = json.loads(p.stdout.strip().splitlines()[-1])
    return tr, info


def validate(ctx, tag, parts):
    """parts: list of (tag, trace path, driver summary, replay base).  Native problems -> reports; one TLC pass over the
    concatenated event logs evaluates every C20 invariant on the implementation's states (ConversionTrace.tla records, per
    invariant, the first trace line after which it was false)."""
    text, offsets, problems_at = "", [], []
    line = 0
    for (ptag, tr, info, rb) in parts:
        for pr in info.get("problems") or []:
            vlib.report(ctx, sig_of(pr), dict(rb, problem=pr, trace=str(tr)))
        t = Path(tr).read_text()
        n = t.count("\n")
        offsets.append((line + 1, line + n, ptag, info, rb, tr))
        line += n
        text += t
    t = vlib.tlc(ctx, "ConversionTrace", "ConversionTrace.cfg", workers=1, timeout=3000, tag="CT-" + tag, files={"convtrace.ndjson": text})
    m = re.search(r'"C20VERDICT",\s*\[(.*?)\],\s*(<<.*?>>)\s*>>', t.out, re.S)
    if not t.ok or not m:
        raise Broken("ConversionTrace did not accept the event log (%s): violated=%s\n%s" % (tag, t.violated, (t.error or t.out)[-2500:]))
    verdict = {k: int(v) for k, v in re.findall(r"(\w+) \|-> (\d+)", m.group(1))}
    if set(verdict) != set(ALL_INV):
        raise Broken("ConversionTrace verdict incomplete: %s" % verdict)
    violated = []
    for inv, at in verdict.items():
        if at == 0:
            continue
        violated.append(inv)
        part = next((o for o in offsets if o[0] <= at <= o[1]), offsets[-1])
        native = [pr for pr in (part[3].get("problems") or []) if pr["kind"] in INV_KINDS.get(inv, [])]
        if not native:     # TLC found something the driver's own accounting did not explain
            vlib.report(ctx, {"kind": "trace-" + inv}, dict(part[4], invariant=inv, trace_line=at - part[0] + 1, mismatch=m.group(2)[:600], trace=str(part[5])))
    return len(parts), violated


def run(ctx):
    quick = ctx.quick
    drv = build_driver(ctx, "convdrv")
    cov = {}
    pool = ThreadPoolExecutor(max_workers=3)
    # 1. design level (runs concurrently with the chain scenarios)
    mc_cfg = "MCConversion_small.cfg" if quick else "MCConversion_big.cfg"
    f_design = pool.submit(vlib.tlc_must_pass, ctx, "MCConversion", mc_cfg, workers=8, timeout=3000)
    f_pure = pool.submit(vlib.tlc_must_pass, ctx, "MCConversion", "MCConversion_pure.cfg", workers=2, timeout=600)
    emit_cfg = "MCConversion_emit.cfg" if quick else "MCConversion_emit3.cfg"
    er = vlib.tlc_must_pass(ctx, "MCConversion", emit_cfg, workers=8, timeout=3000)
    if len(er.printed) < 200:
        raise Broken("TLC emitted only %d behaviours" % len(er.printed))
    scen, total_batches = shapes_from_tlc(er.printed, 18 if quick else 240, 6, ctx.seed)
    cov.update(tlc_behaviours_emitted=len(er.printed), tlc_distinct_batches=total_batches, batches_replayed=sum(len(s) for s in scen))

    # 2. spec -> code: the batches TLC enumerated, realised on the real network
    sf = ctx.work / "shapes.ndjson"
    vlib.write_ndjson(sf, scen)
    runs = [("shapes", ["-seed", ctx.seed, "-shapes", sf], {"plan": "shapes", "shapes": scen})]
    # 3. code -> spec: seeded random scenarios, both sides of the cubic-discount fork
    nrand = 1 if quick else 6
    for i in range(nrand):
        runs.append(("rand%d" % i, ["-seed", ctx.seed * 100 + i, "-rounds", 5 if quick else 9], {"plan": "random", "seed": ctx.seed * 100 + i}))
    runs.append(("prefork", ["-seed", ctx.seed * 100 + 50, "-rounds", 3 if quick else 8, "-prefork"], {"plan": "random-prefork", "seed": ctx.seed * 100 + 50}))
    results = list(pool.map(lambda r: (r, run_driver(ctx, drv, r[0], [str(a) for a in r[1]])), runs))
    events, convs, blocks, samples, stats = 0, 0, 0, [], {}
    parts = [(tag, tr, info, dict(rb, args=[str(a) for a in args])) for (tag, args, rb), (tr, info) in results]
    validated, tlc_viol = validate(ctx, "all", parts)
    for (tag, args, rb), (tr, info) in results:
        events += info["events"]; convs += info["conversions"]; blocks += info["blocks"]
        for k, v in info["stats"].items():
            stats[k] = stats.get(k, 0) + v
        if len(samples) < 4:
            samples += (info.get("samples") or [])[:2]
    compared = stats.get("spec_predictions_compared", 0)
    derrs = [info.get("driver_error") for _, (tr, info) in results if info.get("driver_error")]
    if derrs and not ctx.violations:
        raise Broken("driver stopped: %s" % derrs[0])
    if not ctx.violations:       # coverage sanity (a violating tree may legitimately starve a class)
        for need in ("minted", "lockedquai", "reverted", "prime_blocks_with_conversions"):
            if stats.get(need, 0) == 0:
                raise Broken("scenarios exercised no %s" % need)
        if stats.get("spec_predictions_compared", 0) < 5:
            raise Broken("no outcome predicted by the specification was compared on the real network")

    # 4. pure helpers: unit conversion, denominations, cubic discount on large random values
    p = vlib.run([drv, "pure", "-seed", ctx.seed, "-n", 20000 if quick else 400000], timeout=1500, check=True)
    pj = json.loads(p.stdout.strip().splitlines()[-1])
    for pr in pj.get("problems") or []:
        vlib.report(ctx, {"kind": pr["kind"]}, {"plan": "pure", "seed": ctx.seed, "problem": pr})

    d = f_design.result()
    f_pure.result()
    vlib.log("TLC %s: %d distinct / %d generated, depth %d, %.0fs" % (mc_cfg, d.distinct, d.generated, d.depth, d.wall))
    leads = []
    if not quick:
        for cfg, inv in (("MCConversion_leadRefund.cfg", "RefundIsOriginal"), ("MCConversion_leadSlip.cfg", "SlipBoundHonoured")):
            r = vlib.tlc(ctx, "MCConversion", cfg, workers=8, timeout=1800)
            leads.append({"cfg": cfg, "expected_violation": inv, "found_by_TLC": r.violated == inv})
    pool.shutdown()
    cov.update(states=d.distinct, transitions=d.generated, tlc_depth=d.depth, tlc_cfg=mc_cfg,
               traces_validated_against_impl=validated, impl_trace_events=events, conversions_followed=convs, blocks_mined=blocks,
               spec_predictions_compared_on_chain=compared, scenario_stats=stats, trace_invariants_violated=sorted(set(tlc_viol)),
               pure_evaluations=pj["evaluations"], pure_nontrivial_round_trips=pj["distinct_nontrivial"], leads=leads,
               samples=samples + (pj.get("samples") or [])[:1],
               rule="per conversion id (originating tx hash, index): origin debit == amount(+fees) exactly once (full per-block accounting of every "
                    "tracked Quai account and Qi address); ETX value/type after the prime block == literal math/big transcription of the two-pass "
                    "repricing from the prime header fields; credit <= rate-implied amount, >= 10% floor; refund == original; never both; Quai credit "
                    "exactly LockPeriod blocks after execution, Qi outputs locked; minted denominations <= value and == value when the gas suffices; "
                    "event log validated by ConversionTrace.tla (C20 invariants on implementation numbers in basis points)")
    vlib.write_evidence(ctx, "model_checking", cov, [
        "exchange rate is frozen on the harness chain (the controller only moves it 4000 prime blocks after kick-in, TokenChoiceSetSize is a constant): "
        "rising/falling trajectories and a non-zero k-Quai discount for Qi->Quai are covered at the design level (TLC) and by the arithmetic oracle only; "
        "on chain the k-Quai discount is non-zero in prime block 2 only",
        "common.LogBig (binary logarithm) and math/big are trusted numeric primitives; reward formulas after the KawPow fork are not transcribed",
        "MinerDifficultyWindow=2, StartingConversionFlowAmount=200 Quai, MinConversionFlowAmount=50 Quai, ConversionLockPeriod=3 (configuration variables)",
        "the ETX-gas-exhausted refund path of a reverted Qi->Quai conversion is not reachable with the harness fee granularity",
    ])


def replay(ctx, path):
    j = json.loads(Path(path).read_text())
    rp = j["replay"]
    drv = build_driver(ctx, "convdrv")
    if rp.get("plan") == "pure":
        p = vlib.run([drv, "pure", "-seed", rp["seed"], "-n", 20000], timeout=1500, check=True)
        pj = json.loads(p.stdout.strip().splitlines()[-1])
        for pr in pj.get("problems") or []:
            vlib.report(ctx, {"kind": pr["kind"]}, {"plan": "pure", "seed": rp["seed"], "problem": pr})
        print(json.dumps({"problems": pj.get("problems")}))
        return
    args = list(rp["args"])
    if rp.get("plan") == "shapes":
        sf = ctx.work / "shapes.ndjson"
        vlib.write_ndjson(sf, rp["shapes"])
        args[args.index("-shapes") + 1] = str(sf)
    tr, info = run_driver(ctx, drv, "replay", args)
    validate(ctx, "replay", [("replay", tr, info, {k: v for k, v in rp.items() if k not in ("problem", "trace")})])
    print(json.dumps({"problems": info.get("problems"), "stats": info["stats"]})[:4000])
