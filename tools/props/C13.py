"""C13 — Mining rewards and lockups pay out exactly once, no earlier, no more
(spec/Lockup.tla, spec/LockupTrace.tla, harness/cmd/rewdrv, harness/conv)."""
import json, os, random, re, shutil, subprocess, time
from concurrent.futures import ThreadPoolExecutor
from pathlib import Path
import vlib
from vlib import Broken

ALL_INV = ["TraceConforms", "ShareRewardedAtMostOncePerChain", "RewardAmountIsFormula", "CreditExactlyAtUnlock", "CreditAmountExact",
           "ClaimOnlyOwnerAfterUnlockOnce", "ClaimAmountIsAccumulated"]
INV_KINDS = {
    "TraceConforms": ["quai-balance-differs-from-reward-rule", "qi-output-unexplained", "qi-output-differs", "qi-output-missing", "lockup-record-unexplained",
                      "lockup-record-differs", "lockup-record-missing", "claim-outcome-differs-from-rule", "claim-amount-differs-from-accumulated-balance",
                      "reward-amount-differs-from-formula", "reward-issued-for-wrong-share", "reward-count-differs-from-share-rule",
                      "balance-after-reorg-differs", "lockup-record-after-reorg-differs", "qi-outputs-after-reorg-differ"],
    "ShareRewardedAtMostOncePerChain": ["share-rewarded-twice-on-one-chain", "work-share-included-twice-on-one-chain", "reward-delivered-twice-on-one-chain"],
    "RewardAmountIsFormula": ["reward-issued-for-wrong-share", "reward-count-differs-from-share-rule", "reward-amount-differs-from-formula"],
    "CreditExactlyAtUnlock": ["quai-balance-differs-from-reward-rule"],
    "CreditAmountExact": ["quai-balance-differs-from-reward-rule"],
    "ClaimOnlyOwnerAfterUnlockOnce": ["claim-outcome-differs-from-rule"],
    "ClaimAmountIsAccumulated": ["claim-amount-differs-from-accumulated-balance", "lockup-record-differs"],
}
SIG_KEYS = ("kind", "class", "what", "qi")


def build_driver(ctx, name):
    repo = os.environ.get("VERIF_REPO", "/repo")
    if repo == "/repo":
        return vlib.go_build(name)
    alt = ctx.work / "alt.mod"
    alt.write_text((vlib.HARNESS / "go.mod").read_text().replace("=> /repo", "=> " + repo))
    shutil.copyfile(Path(repo) / "go.sum", ctx.work / "alt.sum")
    out = ctx.work / "bin" / name
    out.parent.mkdir(parents=True, exist_ok=True)
    t = time.time()
    p = subprocess.run(["go", "build", "-modfile", str(alt), "-tags", "verif", "-o", str(out), "./cmd/" + name],
                       cwd=vlib.HARNESS, env=vlib.goenv(), capture_output=True, text=True)
    if p.returncode != 0:
        raise Broken("go build %s against %s failed:\n%s" % (name, repo, p.stderr[-4000:]))
    vlib.log("built %s against %s in %.1fs" % (name, repo, time.time() - t))
    return out


def sig_of(p):
    s = {"kind": p["kind"]}
    for k in SIG_KEYS[1:]:
        if k in p["info"]:
            s[k] = p["info"][k]
    return s


def shapes_from_tlc(printed, n, seed):
    """Histories of the bounded model -> driver scripts (block tree with forks and head switches, miner requests, claim timing)."""
    seen, out = set(), []
    for s in printed:
        hist = json.loads(s)
        steps = []
        for h in hist:
            if h["op"] == "mine":
                steps.append({"op": "mine", "p": h["p"], "miner": h["miner"], "byte": h["byte"], "layout": h["layout"], "contract": h["contract"],
                              "uncles": h["uncles"], "claims": h["claims"]})
            else:
                steps.append({"op": "sethead", "b": h["b"]})
        key = json.dumps(steps, sort_keys=True)
        if key in seen:
            continue
        seen.add(key)
        forks = sum(1 for i, x in enumerate(steps) if x["op"] == "mine" and x["p"] != i)      # parent is not the previous block
        score = 2 * forks + sum(1 for x in steps if x["op"] == "sethead") + sum(1 for x in steps if x["op"] == "mine" and x["claims"]) \
            + sum(1 for x in steps if x["op"] == "mine" and x["layout"] != "plain")
        out.append((score, steps))
    rnd = random.Random(seed)
    rnd.shuffle(out)
    out.sort(key=lambda x: -x[0])
    top = [s for _, s in out[: max(n * 6, n)]]
    rnd.shuffle(top)
    return top[:n], len(out)


def run_driver(ctx, drv, tag, args, timeout=3000):
    tr = ctx.work / ("rewtrace-%s.ndjson" % tag)
    p = vlib.run([drv, "random", "-out", tr] + args, timeout=timeout)
    if p.returncode != 0:
        raise Broken("rewdrv %s failed (%d): %s\n%s" % (tag, p.returncode, p.stdout[-1500:], p.stderr[-2500:]))
    return tr, json.loads(p.stdout.strip().splitlines()[-1])


def validate(ctx, tag, parts):
    text, offsets, line = "", [], 0
    for (ptag, tr, info, rb) in parts:
        for pr in info.get("problems") or []:
            vlib.report(ctx, sig_of(pr), dict(rb, problem=pr, trace=str(tr)))
        t = Path(tr).read_text()
        n = t.count("\n")
        offsets.append((line + 1, line + n, ptag, info, rb, tr))
        line += n
        text += t
    t = vlib.tlc(ctx, "LockupTrace", "LockupTrace.cfg", workers=1, timeout=3000, tag="LT-" + tag, files={"rewtrace.ndjson": text})
    m = re.search(r'"C13VERDICT",\s*\[(.*?)\],\s*(<<.*?>>)\s*>>', t.out, re.S)
    if not t.ok or not m:
        raise Broken("LockupTrace did not accept the event log (%s): violated=%s\n%s" % (tag, t.violated, (t.error or t.out)[-2500:]))
    verdict = {k: int(v) for k, v in re.findall(r"(\w+) \|-> (\d+)", m.group(1))}
    if set(verdict) != set(ALL_INV):
        raise Broken("LockupTrace verdict incomplete: %s" % verdict)
    violated = []
    for inv, at in verdict.items():
        if at == 0:
            continue
        violated.append(inv)
        part = next((o for o in offsets if o[0] <= at <= o[1]), offsets[-1])
        native = [pr for pr in (part[3].get("problems") or []) if pr["kind"] in INV_KINDS.get(inv, [])]
        if not native:
            vlib.report(ctx, {"kind": "trace-" + inv}, dict(part[4], invariant=inv, trace_line=at - part[0] + 1, mismatch=m.group(2)[:700], trace=str(part[5])))
    return len(parts), violated


CONV_CREDIT_KINDS = {"quai-balance-unexplained", "credit-before-lock", "conversion-delivered-twice", "conversion-without-outcome"}


def conv_credit_run(ctx, cdrv, seed, rounds):
    tr = ctx.work / "convcredit.ndjson"
    p = vlib.run([cdrv, "random", "-out", tr, "-seed", seed, "-rounds", rounds], timeout=2400)
    if p.returncode != 0:
        raise Broken("convdrv (conversion credits) failed (%d): %s\n%s" % (p.returncode, p.stdout[-1200:], p.stderr[-2000:]))
    info = json.loads(p.stdout.strip().splitlines()[-1])
    if info.get("driver_error"):
        raise Broken("convdrv (conversion credits) stopped: %s" % info["driver_error"])
    return info


def run(ctx):
    quick = ctx.quick
    drv = build_driver(ctx, "rewdrv")
    cov = {}
    pool = ThreadPoolExecutor(max_workers=3)
    mc_cfg = "MCLockup_small.cfg" if quick else "MCLockup_big.cfg"
    f_design = pool.submit(vlib.tlc_must_pass, ctx, "MCLockup", mc_cfg, workers=8, timeout=3000)
    er = vlib.tlc_must_pass(ctx, "MCLockup", "MCLockup_emit.cfg", workers=8, timeout=3000)
    if len(er.printed) < 200:
        raise Broken("TLC emitted only %d behaviours" % len(er.printed))
    shp, total_shapes = shapes_from_tlc(er.printed, 3 if quick else 40, ctx.seed)
    cov.update(tlc_behaviours_emitted=len(er.printed), tlc_distinct_shapes=total_shapes, shapes_replayed=len(shp))
    sf = ctx.work / "shapes.ndjson"
    vlib.write_ndjson(sf, shp)
    runs = [("shapes", ["-seed", ctx.seed, "-shapes", sf, "-bonus"], {"plan": "shapes", "shapes": shp})]
    nr = 1 if quick else 4
    steps = 30 if quick else 60
    runs.append(("rand", ["-seed", ctx.seed * 100 + 1, "-steps", steps, "-n", nr], {"plan": "random", "seed": ctx.seed * 100 + 1}))
    runs.append(("bonus", ["-seed", ctx.seed * 100 + 2, "-steps", steps, "-n", nr, "-bonus"], {"plan": "random-bonus", "seed": ctx.seed * 100 + 2}))
    # Qi->Quai conversions are the other kind of delayed credit the property names ("credited at exactly their unlock height",
    # once): the conversion driver of C20 follows every conversion to the end of the longest lockup depth with a math/big account of
    # every tracked balance; what concerns the CREDIT (when, how often) is judged here, what concerns the amount/rate by C20
    cdrv = build_driver(ctx, "convdrv")
    f_conv = pool.submit(conv_credit_run, ctx, cdrv, ctx.seed * 100 + 7, 8 if quick else 14)
    results = list(pool.map(lambda r: (r, run_driver(ctx, drv, r[0], [str(a) for a in r[1]])), runs))
    cinfo = f_conv.result()
    parts = [(tag, tr, info, dict(rb, args=[str(a) for a in args])) for (tag, args, rb), (tr, info) in results]
    validated, tlc_viol = validate(ctx, "all", parts)
    for pr in cinfo.get("problems") or []:
        if pr["kind"] in CONV_CREDIT_KINDS:
            vlib.report(ctx, {"kind": "conversion-" + pr["kind"]}, {"plan": "conversion-credits", "seed": ctx.seed * 100 + 7, "problem": pr})
    if not ctx.violations and cinfo["stats"].get("lockedquai", 0) == 0:
        raise Broken("conversion-credit run locked no converted Quai: %s" % json.dumps(cinfo["stats"]))
    cov.update(conversion_credit_run={"conversions_followed": cinfo.get("conversions"), "blocks": cinfo.get("blocks"),
                                      "converted_quai_credits": cinfo["stats"].get("lockedquai", 0)})
    events = blocks = 0
    stats, samples = {}, []
    for _, (tr, info) in results:
        events += info["events"]; blocks += info["blocks"]
        for k, v in info["stats"].items():
            stats[k] = stats.get(k, 0) + v
        samples += (info.get("samples") or [])[:2]
    derrs = [info.get("driver_error") for _, (tr, info) in results if info.get("driver_error")]
    if derrs and not ctx.violations:
        raise Broken("driver stopped: %s" % derrs[0])
    if not ctx.violations:
        for need in ("rewards_issued", "credits", "qi_rewards_minted", "locks_accumulated", "claims_paid_expected", "claim_etxs_executed", "forks",
                     "shares_injected", "credit_to_new_account", "credits_with_lockup_bonus"):
            if stats.get(need, 0) == 0:
                raise Broken("scenarios exercised no %s" % need)
    d = f_design.result()
    vlib.log("TLC %s: %d distinct / %d generated, depth %d, %.0fs" % (mc_cfg, d.distinct, d.generated, d.depth, d.wall))
    probes = []
    if not quick:
        r = vlib.tlc(ctx, "MCLockup", "MCLockup_probe.cfg", workers=8, timeout=3000)
        probes.append({"cfg": "MCLockup_probe.cfg", "reachability_probe": "ProbeNoReorgCredit", "reached": r.violated == "ProbeNoReorgCredit"})
    pool.shutdown()
    cov.update(states=d.distinct, transitions=d.generated, tlc_depth=d.depth, tlc_cfg=mc_cfg, traces_validated_against_impl=validated,
               scenarios=sum(info["scenarios"] for _, (tr, info) in results), impl_trace_events=events, blocks_mined=blocks, scenario_stats=stats,
               trace_invariants_violated=sorted(set(tlc_viol)), probes=probes, samples=samples[:5] or [{"note": "no credit sampled"}],
               rule="after every block of every branch the balances of all tracked Quai accounts, the Qi outputs of all tracked addresses and every 'cl' "
                    "lockup record must equal parent state + the protocol's effects (redemption scan at inclusion + LockupByteToBlockDepth[byte] with the "
                    "lockup-adjusted amount and account-creation fee, locked Qi outputs, tranche accumulation per (contract, miner, byte, epoch), claims "
                    "paid only to the owner after epoch end and tranche unlock, once, for the accumulated balance); the coinbase ETXs a block emits must be "
                    "the math/big share split (intrinsic log-entropy weights) for the block 3 below and its work shares; no share rewarded / included / "
                    "delivered twice on a chain; after a head switch the state recorded for that block must be restored; the block log is replayed by "
                    "LockupTrace.tla (credits, mints, lockup records, paid claims compared; C13 invariants evaluated)")
    vlib.write_evidence(ctx, "model_checking", cov, [
        "pre-KawPow reward formulas (entropy-weighted share split); AuxPow share classes (SHA/Scrypt counts, liveness penalties) are not exercised",
        "common.LogBig / common.IntrinsicLogEntropy and math/big are trusted numeric primitives",
        "coinbase identity, lockup byte and data layout are set in the sealed header (Slice.SetBestPh path, as for a miner-specific coinbase); the worker's "
        "setter API is avoided because SetLockupByte/SetMinerPreference can deadlock against prepareWork (recursive RLock)",
        "LockupByteToBlockDepth={3,5,7,9}, CoinbaseEpochBlocks=4, ConversionLockPeriod=3; bonus runs use BlocksPerMonth=4, BlocksPerYear=12",
        "the claim's batch delete surviving a frame revert (C12 F4) is not exercised: the owner contract never reverts after a claim",
    ])


def replay(ctx, path):
    j = json.loads(Path(path).read_text())
    rp = j["replay"]
    drv = build_driver(ctx, "rewdrv")
    args = list(rp["args"])
    if rp.get("plan") == "shapes":
        sf = ctx.work / "shapes.ndjson"
        vlib.write_ndjson(sf, rp["shapes"])
        args[args.index("-shapes") + 1] = str(sf)
    tr, info = run_driver(ctx, drv, "replay", args)
    validate(ctx, "replay", [("replay", tr, info, {k: v for k, v in rp.items() if k not in ("problem", "trace")})])
    print(json.dumps({"problems": info.get("problems"), "stats": info["stats"]})[:4000])
