"""C17 — all storage back-ends are interchangeable (spec/KV.tla, harness/cmd/kvdrv)."""
import json, os, re, shutil, tempfile
from pathlib import Path
import vlib
from vlib import Broken

BACKENDS = ["leveldb", "pebble", "memorydb", "table-memorydb", "table-leveldb"]


def scratch_db_dir(ctx):
    base = Path("/dev/shm") if Path("/dev/shm").is_dir() and os.access("/dev/shm", os.W_OK) else ctx.work
    d = Path(tempfile.mkdtemp(prefix="verif-%s-" % ctx.id, dir=base))
    return d


def emit_behaviours(ctx, cfg, out_path, timeout=900):
    r = vlib.tlc_must_pass(ctx, "MCKV", cfg, workers=16, timeout=timeout)
    with open(out_path, "w") as f:
        for s in r.printed:
            f.write(s + "\n")
    return r, len(r.printed)


def run(ctx):
    quick = ctx.quick
    drv = vlib.go_build("kvdrv")
    dbdir = scratch_db_dir(ctx)
    cov = {"backends": BACKENDS}
    try:
        # 1. design: exhaustive TLC on the bounded model
        mc_cfg = "MCKV_small.cfg" if quick else "MCKV_big.cfg"
        r = vlib.tlc_must_pass(ctx, "MCKV", mc_cfg, workers=16, timeout=3000)
        cov.update(states=r.distinct, transitions=r.generated, tlc_depth=r.depth, tlc_cfg=mc_cfg)
        vlib.log("TLC %s: %d distinct / %d generated, depth %d, %.0fs" % (mc_cfg, r.distinct, r.generated, r.depth, r.wall))

        # 2. spec -> code: every transition of the bounded state graph as one behaviour, on 5 back-ends
        beh = ctx.work / "behaviours.ndjson"
        emit_cfg = "MCKV_emit.cfg" if quick else "MCKV_emit4.cfg"
        er, nbeh = emit_behaviours(ctx, emit_cfg, beh)
        if nbeh < 1000:
            raise Broken("TLC emitted only %d behaviours" % nbeh)
        total_calls = 0
        samples = []
        for values in (["small"] if quick else ["small", "large"]):
            d = dbdir / ("replay-" + values); d.mkdir()
            res = ctx.work / ("replay-%s.json" % values)
            vlib.run([drv, "replay", "-in", beh, "-out", res, "-dir", d, "-values", values], timeout=3000, check=True)
            rj = json.loads(res.read_text())
            if rj["behaviours"] != nbeh:
                raise Broken("driver replayed %d of %d behaviours" % (rj["behaviours"], nbeh))
            for be in BACKENDS:
                if rj["backends"][be]["Behaviours"] != nbeh:
                    raise Broken("back-end %s did not run every behaviour" % be)
                total_calls += rj["backends"][be]["Calls"]
            for m in (rj["mismatches"] or []):
                sig = {"kind": "spec-vs-backend", "backend": m["backend"], "op": m["call"]["op"]}
                vlib.report(ctx, sig, {"behaviour": m["prefix"] + [m["call"]], "expected": m["expected"], "got": m["got"],
                                       "backend": m["backend"], "values": values})
            cov["ops_replayed_" + values] = rj["ops"]
            shutil.rmtree(d, ignore_errors=True)
        with open(beh) as f:
            for i, line in enumerate(f):
                if i in (nbeh // 3, nbeh - 1):
                    samples.append({"behaviour_from_TLC": json.loads(line)})
        cov.update(behaviours_replayed=nbeh, backend_calls_compared=total_calls)

        # 3. code -> spec: long seeded random call sequences, logged per back-end, validated by KVTrace.tla
        ntr, depth = (20, 60) if quick else (300, 150)
        validated = 0
        # "versions": not random - EVERY write history of length <= 3 (4) on one key (direct / through a batch; put of two values,
        # delete), then compaction, then get / has / iterate: the engine's internal versions and tombstones must stay invisible
        for values in (["small", "versions"] if quick else ["small", "large", "versions"]):
            d = dbdir / ("rand-" + values); d.mkdir()
            tr = ctx.work / ("kvtrace-%s.ndjson" % values)
            margs = ["-n", ntr, "-depth", depth, "-values", values] if values != "versions" else ["-versions", 3 if quick else 4, "-values", "small"]
            p = vlib.run([drv, "random", "-seed", ctx.seed, "-out", tr, "-dir", d, "-nvals", 5] + margs, timeout=3000, check=True)
            info = json.loads(p.stdout.strip().splitlines()[-1])
            tdir = ctx.sub("tlc-KVTrace-" + values)
            t = vlib.tlc(ctx, "KVTrace", "KVTrace.cfg", workers=1, timeout=3000, tag="KVTrace-" + values,
                         files={"kvtrace.ndjson": tr.read_text()})
            if t.ok:
                validated += info["traces"]
            elif t.violated == "ObservationsConform":
                m = re.findall(r"mismatch = <<\s*(\d+),\s*\"([\w-]+)\",\s*\"(\w+)\"", t.out)   # TLC wraps long tuples over several lines
                line, backend, op = (int(m[-1][0]), m[-1][1], m[-1][2]) if m else (0, "?", "?")
                rows = vlib.read_ndjson(tr)
                starts = [i for i in range(min(line, len(rows))) if rows[i]["op"] == "tracereset"]
                start = max(starts) if starts else 0
                vlib.report(ctx, {"kind": "trace-vs-spec", "backend": backend, "op": op},
                            {"trace": rows[start:line], "trace_file_line": line, "values": values})
            elif t.violated:
                raise Broken("KVTrace: design invariant %s violated on an implementation trace:\n%s" % (t.violated, t.out[-2000:]))
            else:
                raise Broken("KVTrace did not accept the trace (contract violation by the driver or TLC error):\n" + (t.error or "")[-2000:])
            if info["cross_backend_disagreements"] and not ctx.violations:
                raise Broken("back-ends disagree but trace validation accepted every observation")
            cov["random_events_" + values] = info["events"]
            shutil.rmtree(d, ignore_errors=True)
            if not samples or len(samples) < 3:
                rows = vlib.read_ndjson(tr)
                samples.append({"implementation_trace_prefix": rows[1:8]})
        # 4. BWrite is ONE step of KV.tla: concurrent readers must never see part of a committed batch (sequential replay cannot tell)
        d = dbdir / "atomic"; d.mkdir()
        p = vlib.run([drv, "atomic", "-dir", d, "-keys", 20000, "-rounds", 12 if quick else 60], timeout=3000, check=True)
        aj = json.loads(p.stdout.strip().splitlines()[-1])
        for r in aj["results"]:
            if r["pair_reads"] < 100 or r["iter_reads"] < 3:
                raise Broken("atomicity probe hardly read anything on %s: %s" % (r["backend"], r))
            if r["torn_pairs"] or r["torn_iterators"] or r["final_bad"]:
                vlib.report(ctx, {"kind": "batch-not-atomic", "backend": r["backend"]}, {"probe": r, "cmd": "kvdrv atomic -keys 20000 -rounds %d" % aj["rounds"]})
        cov.update(atomicity_probe={r["backend"]: {"pair_reads": r["pair_reads"], "iterator_reads": r["iter_reads"]} for r in aj["results"]})
        shutil.rmtree(d, ignore_errors=True)
        cov.update(traces_validated_against_impl=validated + (nbeh * len(BACKENDS) if not ctx.violations else 0),
                   random_traces_validated_by_TLC=validated, samples=samples, exhaustive=True,
                   rule="every transition of the bounded KV state graph (TLC, %s) replayed on each back-end with the spec's "
                        "expected observation; plus %d seeded random traces x %d back-ends of %d calls validated by KVTrace.tla"
                        % (emit_cfg, ntr, len(BACKENDS), depth))
    finally:
        shutil.rmtree(dbdir, ignore_errors=True)
    vlib.write_evidence(ctx, "model_checking", cov, [
        "leveldb/pebble libraries themselves, the Go runtime and TLC are trusted",
        "contract: a batch is Reset after Write before reuse; ValueSize is only specified for an empty batch",
        "torn batch writes (power loss inside one engine-level commit) are out of scope",
    ])


def replay(ctx, path):
    j = json.loads(Path(path).read_text())
    beh = j["replay"].get("behaviour") or [dict(e, res=e["res"]) for e in j["replay"]["trace"] if e["op"] != "tracereset"]
    drv = vlib.go_build("kvdrv")
    dbdir = scratch_db_dir(ctx)
    try:
        f = ctx.work / "one.ndjson"
        f.write_text(json.dumps(beh) + "\n")
        res = ctx.work / "one.json"
        vlib.run([drv, "replay", "-in", f, "-out", res, "-dir", dbdir, "-values", j["replay"].get("values", "small")], check=True)
        rj = json.loads(res.read_text())
        for m in (rj["mismatches"] or []):
            vlib.report(ctx, {"kind": "spec-vs-backend", "backend": m["backend"], "op": m["call"]["op"]}, m)
        print(json.dumps(rj["backends"]))
    finally:
        shutil.rmtree(dbdir, ignore_errors=True)
