"""C04 — cross-chain transactions are delivered and executed exactly once, in order (spec/EtxRoute.tla)."""
import json, os, re, shutil, collections
from concurrent.futures import ThreadPoolExecutor
from pathlib import Path
import vlib
from vlib import Broken
import zonechain as zc
import hier

ETX_MUTATIONS = {"swap-inbound-etxs", "drop-all-inbound-etxs", "drop-first-inbound-etx", "alter-inbound-etx-value", "unknown-inbound-etx",
                 "duplicate-inbound-etx", "drop-outbound-etx", "alter-outbound-etx-value", "extra-outbound-etx", "etx-set-root", "outbound-etx-hash"}


def validate_etx_trace(ctx, tag, tr):
    t = vlib.tlc(ctx, "EtxRouteTrace", "EtxRouteTrace.cfg", workers=1, timeout=2400, tag="EtxTrace-" + tag,
                 files={"zctrace.ndjson": Path(tr).read_text()})
    if t.ok:
        return True, None
    if t.violated == "StepConforms":
        m = re.findall(r"mismatch = (<<.*?>>)\n", t.out, re.S)
        txt = m[-1] if m else "?"
        k = re.match(r"<<(\d+), \"([\w-]+)\"", txt)
        return False, {"line": int(k.group(1)) if k else 0, "what": k.group(2) if k else "?", "detail": txt[:500]}
    if t.violated == "CheckLast":
        m = re.findall(r"\nl = (\d+)", t.out)
        line = int(m[-1]) - 1 if m else 0
        return False, {"line": line, "what": "inbound-set-or-queue-differs-from-specification", "detail": ""}
    if t.violated == "AtMostOnce":
        return False, {"line": 0, "what": "AtMostOnce", "detail": "an ETX was delivered or executed twice along one chain"}
    raise Broken("EtxRouteTrace failed: %s\n%s" % (t.violated, (t.error or t.out)[-2500:]))


# ------------------------------------------------------------------------------------------------------------------
# Several subordinate chains (spec/EtxRouteMulti.tla, harness/cmd/routedrv): the deployed topology has one region and
# one zone, so the confirmation walk over blocks of OTHER subordinate chains, FilterToSub between several destinations,
# CollectSubRollup and the rollup cache are bound at function level, on a real region / prime Slice over a database
# that holds synthetic dominant block trees.

MULTI_INVARIANTS = ("AtMostOnce", "OnlyAtDestination", "NoneLost", "NotEarly", "OnlyViaPrime", "OrderFixedByDom", "RequeryStable")
# emit configurations: every one is a design run (all invariants of EtxRouteMulti on every reachable state) whose
# complete behaviours are printed for the replay
MULTI_QUICK = ["region_emit3", "region_emit4", "prime_emit3"]
MULTI_THOROUGH = MULTI_QUICK + ["prime_emit4", "region_t4", "region_t5", "prime_t4", "prime3_t4"]


def multi_validate_trace(ctx, level, tag, text):
    t = vlib.tlc(ctx, "EtxRouteMultiTrace", "EtxRouteMultiTrace_%s.cfg" % level, workers=1, timeout=3000, tag="RouteTrace-" + tag,
                 files={"routetrace.ndjson": text})
    if t.ok:
        return None
    if t.violated == "StepConforms":
        txt = t.out[t.out.rfind("mismatch = ") + len("mismatch = "):]
        txt = re.sub(r"\s+", " ", re.split(r"\n/\\ |\n\n", txt, 1)[0])
        k = re.match(r"<<\s*(\d+),\s*\"([\w-]+)\"", txt)
        return {"line": int(k.group(1)) if k else 0, "what": k.group(2) if k else "?", "detail": txt[:1500]}
    if t.violated in MULTI_INVARIANTS:
        m = re.findall(r"\nl = (\d+)", t.out)
        return {"line": int(m[-1]) - 1 if m else 0, "what": t.violated, "detail": "invariant %s is false on the logged deliveries" % t.violated}
    raise Broken("EtxRouteMultiTrace failed: %s\n%s" % (t.violated, (t.error or t.out)[-2500:]))


def multi_layer(ctx, cov):
    quick = ctx.quick
    drv = vlib.go_build("routedrv")
    cfgs = MULTI_QUICK if quick else MULTI_THOROUGH
    # the specification with the loop's cache write keyed by the child (what seeded/C04-subrollup-cache-key does to the code)
    # must violate CacheCoherent: guards the cache model against drifting into something that cannot see such a slip
    lead = vlib.tlc(ctx, "MCEtxRouteMulti", "MCEtxRouteMulti_region_lead.cfg", workers=4, timeout=1200)
    if lead.violated not in ("CacheCoherent", "CacheTransparent", "WalkIsDefined"):
        raise Broken("lead configuration (cache keyed by the child) no longer yields a counterexample: %s %s" % (lead.violated, (lead.error or "")[-800:]))

    def one(c):
        if c == "elig":
            return c, vlib.tlc_must_pass(ctx, "MCEtxEligible", "MCEtxEligible_emit.cfg", workers=2, timeout=1200, heap="2g")
        return c, vlib.tlc_must_pass(ctx, "MCEtxRouteMulti", "MCEtxRouteMulti_%s.cfg" % c, workers=5 if quick else 8,
                                     timeout=1800 if quick else 7200, seed=ctx.seed, heap="3g" if quick else "6g")
    with ThreadPoolExecutor(max_workers=4 if quick else 2) as ex:
        runs = list(ex.map(one, ["elig"] + cfgs))
    elig = runs[0][1]
    runs = runs[1:]
    # ETX eligibility bits (spec/EtxEligible.tla): every history of <= 3 updates / checks on the real header-chain functions
    eb = ctx.work / "elig-beh.ndjson"
    eb.write_text("\n".join(elig.printed) + "\n")
    er = ctx.work / "elig-res.json"
    vlib.run([drv, "elig", "-in", eb, "-out", er], timeout=900, check=True)
    ej = json.loads(er.read_text())
    if ej["behaviours"] != len(elig.printed) or ej["behaviours"] < 1000:
        raise Broken("eligibility replay ran %d of %d behaviours" % (ej["behaviours"], len(elig.printed)))
    for m in ej["mismatches"] or []:
        vlib.report(ctx, {"kind": "etx-eligibility-vs-spec", "op": m["op"]}, {"layer": "EtxEligible behaviour on UpdateEtxEligibleSlices / CheckIfEtxIsEligible", "mismatch": m})
    cov.update(eligibility_behaviours_replayed=ej["behaviours"], eligibility_steps_compared=ej["steps"], eligibility_model_states=elig.distinct)
    beh = ctx.work / "route-beh.ndjson"
    nlines, models = 0, {}
    with open(beh, "w") as f:
        for c, r in runs:
            models[c] = {"distinct": r.distinct, "generated": r.generated, "behaviours": len(r.printed), "wall_s": round(r.wall, 1)}
            vlib.log("TLC EtxRouteMulti %s: %d distinct, %d behaviours, %.0fs" % (c, r.distinct, len(r.printed), r.wall))
            if len(r.printed) < 1000:
                raise Broken("EtxRouteMulti %s printed only %d behaviours" % (c, len(r.printed)))
            for line in r.printed:
                f.write(line + "\n")
            nlines += len(r.printed)
    res = ctx.work / "route-res.json"
    p = vlib.run([drv, "replay", "-in", beh, "-out", res], timeout=3000 if quick else 10800)
    if p.returncode != 0:
        raise Broken("routedrv replay failed (%d): %s\n%s" % (p.returncode, p.stdout[-1500:], p.stderr[-2500:]))
    rj = json.loads(res.read_text())
    if rj["behaviours"] != nlines or rj["cold_collects"] < 1000 or rj["overlap_collects"] < 1000 or rj["fromdom"] < 1000 or rj["etxs_delivered"] < 10000:
        raise Broken("routedrv replay covered too little: %s" % {k: v for k, v in rj.items() if k != "mismatches"})
    for m in rj["mismatches"] or []:
        vlib.report(ctx, {"kind": "multi-route-vs-spec", "ctx": m["ctx"], "op": m["op"].split("-o")[0], "regime": m["regime"], "class": m["class"]},
                    {"layer": "EtxRouteMulti behaviour replayed on the real region/prime Slice", "mismatch": {k: m[k] for k in m if k != "behaviour"},
                     "behaviour": m["behaviour"]})
    # code -> spec: larger seeded trees, validated by EtxRouteMultiTrace
    traces, events, tdeliv, tsamples = 0, 0, 0, []
    plans = [("region", 1, 70, 2), ("prime", 0, 70, 2)] if quick else \
            [(lv, c, 130, 3) for lv, c in (("region", 1), ("prime", 0)) for _ in range(4)]
    def trace_one(arg):
        i, (level, c, nblocks, ntrees) = arg
        seed = ctx.seed * 1000 + i
        tr = ctx.work / ("routetrace-%s-%d.ndjson" % (level, i))
        p = vlib.run([drv, "random", "-seed", seed, "-ctx", c, "-blocks", nblocks, "-trees", ntrees, "-trace", tr], timeout=1800)
        if p.returncode != 0:
            raise Broken("routedrv random failed (%d): %s\n%s" % (p.returncode, p.stdout[-1500:], p.stderr[-2500:]))
        return seed, level, c, vlib.read_ndjson(tr), multi_validate_trace(ctx, level, "%s-%d" % (level, i), tr.read_text())
    with ThreadPoolExecutor(max_workers=4) as ex:
        results = list(ex.map(trace_one, enumerate(plans)))
    for seed, level, c, rows, mm in results:
        if mm is None:
            traces += 1
        else:
            ev = rows[mm["line"] - 1] if 0 < mm["line"] <= len(rows) else {}
            vlib.report(ctx, {"kind": "multi-trace", "ctx": c, "what": mm["what"]},
                        {"layer": "routedrv random trace validated by EtxRouteMultiTrace", "seed": seed, "level": level, "mismatch": mm, "event": ev})
        adds = [r for r in rows if r["op"] == "add"]
        events += len(rows)
        tdeliv += sum(len(r["deliver"]) for r in adds)
        if len(tsamples) < 2:
            tsamples += [{k: r[k] for k in ("b", "p", "loc", "order", "exp", "man", "inb", "deliver")} for r in adds if len(r["deliver"]) >= 2][:1]
    if tdeliv < 100:
        raise Broken("random route traces delivered only %d ETXs" % tdeliv)
    cov.update(multi_models=models, multi_states=sum(m["distinct"] for m in models.values()),
               multi_behaviours_replayed=rj["behaviours"], multi_observations_compared=rj["steps"],
               multi_collect_calls=rj["collects"], multi_cold_collect_calls=rj["cold_collects"], multi_overlapping_collect_calls=rj["overlap_collects"],
               multi_restarts=rj["restarts"], multi_fromdom=rj["fromdom"], multi_subrollup_calls=rj["subrollups"], multi_filtertosub_calls=rj["filters"],
               multi_etxs_delivered=rj["etxs_delivered"], multi_lead_cache_key=lead.violated,
               multi_traces_validated=traces, multi_trace_events=events, multi_trace_etxs_delivered=tdeliv, multi_trace_samples=tsamples or [{"note": "none"}])
    return traces


def run(ctx):
    quick = ctx.quick
    # development switch: VERIF_C04_LAYERS=multi (or chain) runs one half only and writes no evidence
    layers = os.environ.get("VERIF_C04_LAYERS", "chain,multi,hier").split(",")
    cov = {}
    multi_traces = 0
    if "hier" in layers:
        # the hierarchy itself: three block trees, termini, previous-coincidence reference check, manifests (spec/Hier.tla on the real node)
        hier.run_layer(ctx, cov)
    if "multi" in layers:
        multi_traces = multi_layer(ctx, cov)
    if "chain" not in layers:
        vlib.log("VERIF_C04_LAYERS=%s: partial run, no evidence written" % ",".join(layers))
        return
    drv = vlib.go_build("chaindrv")
    dbdir = zc.scratch(ctx)
    try:
        d = vlib.tlc_must_pass(ctx, "EtxRoute", "MCEtxRoute_small.cfg" if quick else "MCEtxRoute_big.cfg", workers=16, timeout=3000 if quick else 7200)
        cov.update(states=d.distinct, transitions=d.generated, tlc_depth=d.depth)
        vlib.log("TLC EtxRoute: %d distinct, %.0fs" % (d.distinct, d.wall))
        # destination queue in isolation: every push/pop/drain/read/commit-reopen history of the bounded EtxQueue model on a real StateDB
        q = vlib.tlc_must_pass(ctx, "MCEtxQueue", "MCEtxQueue_emit.cfg", workers=8, timeout=1200)
        qb = ctx.work / "queue-beh.ndjson"
        qb.write_text("\n".join(q.printed) + "\n")
        qres = ctx.work / "queue-res.json"
        vlib.run([drv, "queue", "-in", qb, "-out", qres], timeout=1800, check=True)
        qj = json.loads(qres.read_text())
        if qj["behaviours"] != len(q.printed) or qj["behaviours"] < 500:
            raise Broken("queue replay ran %d of %d behaviours" % (qj["behaviours"], len(q.printed)))
        for m in qj["mismatches"] or []:
            vlib.report(ctx, {"kind": "queue-vs-spec", "op": m["op"]}, {"behaviour": m["steps"], "expected": m["expected"], "got": m["got"]})
        cov.update(queue_behaviours_replayed=qj["behaviours"], queue_steps_compared=qj["steps"], queue_model_states=q.distinct)
        validated, events, delivered, executed, samples = 0, 0, 0, 0, []
        sib_checks = 0
        plans = [("rand%d" % i, 45 if quick else 140) for i in range(1 if quick else 4)]
        for i, (tag, steps) in enumerate(plans):
            sub = dbdir / tag; sub.mkdir()
            seed = ctx.seed * 100 + i
            tr, info = zc.run_chaindrv(ctx, drv, "c04-" + tag, seed, steps, sub, extra=["-trimdepth", 4, "-primesiblings", 9])
            # "not altered in transit other than protocol conversion repricing": two prime blocks on the same parent confirming the same
            # set must hand down identical conversions (the second pass over the cached rollups starts from the original amounts)
            for pr in info.get("problems") or []:
                if pr["kind"] == "conversion-repriced-differently-by-sibling-prime-block":
                    vlib.report(ctx, {"kind": pr["kind"]}, {"seed": seed, "problem": pr, "trace": str(tr)})
                elif pr["kind"] in ("own-block-rejected", "prime-sibling-scenario-block-refused"):
                    # the node cannot append a block it built itself in a scenario whose blocks differ only in the cross-chain transactions they
                    # emit / confirm / execute: what the node keeps about ETXs in transit (pending sets, rollups, inbound sets, queue) no longer
                    # matches what its own blocks commit to - the ETXs those blocks confirm are not delivered on this node
                    vlib.report(ctx, {"kind": "own-block-refused-in-etx-scenario"}, {"seed": seed, "problem": pr, "aborted": info.get("aborted"), "trace": str(tr)})
            sib_checks += info.get("sibling_conversion_checks", 0)
            ok, mm = validate_etx_trace(ctx, tag, tr)
            rows = vlib.read_ndjson(tr)
            if ok:
                validated += 1
            else:
                ev = rows[mm["line"] - 1] if 0 < mm["line"] <= len(rows) else {}
                vlib.report(ctx, {"kind": "trace-" + mm["what"]}, {"seed": seed, "mismatch": mm,
                            "event": {k: ev.get(k) for k in ("op", "b", "p", "order", "etx_emit", "etx_exec", "etx_inbound", "etx_queue", "etx_altered")}})
            mines = [r for r in rows if r["op"] == "mine"]
            events += len(mines)
            delivered += sum(len(r["etx_inbound"]) for r in mines)
            executed += sum(len(r["etx_exec"]) for r in mines)
            if len(samples) < 2:
                samples += [{k: r[k] for k in ("b", "p", "order", "etx_emit", "etx_exec", "etx_inbound", "etx_queue")} for r in mines if r["etx_inbound"]][:2]
            shutil.rmtree(sub, ignore_errors=True)
        # adversarial blocks: out-of-order / duplicated / unknown / altered / skipped inbound ETXs, wrong outbound set or ETX-set root
        outcomes = collections.Counter()
        for seed in ([ctx.seed] if quick else [ctx.seed * 10 + j for j in range(3)]):
            out = ctx.work / ("tamper-%d.json" % seed)
            tr = ctx.work / ("tamper-%d.ndjson" % seed)
            p = vlib.run([drv, "tamper", "-seed", seed, "-blocks", 4 if quick else 12, "-out", out, "-trace", tr], timeout=3000)
            if p.returncode != 0:
                raise Broken("chaindrv tamper failed: %s\n%s" % (p.stdout[-1200:], p.stderr[-1200:]))
            res = json.loads(out.read_text())
            for o in res["outcomes"]:
                if o["mutation"] in ETX_MUTATIONS:
                    outcomes[(o["mutation"], o["result"])] += 1
            for pr in res["problems"] or []:
                if pr["kind"] in ("tampered-block-accepted", "rejected-block-left-trace") and pr["info"].get("mutation") in ETX_MUTATIONS:
                    vlib.report(ctx, {"kind": pr["kind"], "mutation": pr["info"]["mutation"]}, {"seed": seed, "problem": pr})
            ok, mm = validate_etx_trace(ctx, "tamper-%d" % seed, tr)
            if ok:
                validated += 1
            else:
                vlib.report(ctx, {"kind": "trace-" + mm["what"]}, {"seed": seed, "mode": "tamper", "mismatch": mm})
        rejected = sum(v for (m, r), v in outcomes.items() if r.startswith("rejected"))
        if delivered == 0 or executed == 0 or rejected < 8:
            raise Broken("too little ETX activity: delivered=%d executed=%d adversarial rejections=%d" % (delivered, executed, rejected))
        cov.update(sibling_prime_conversion_comparisons=sib_checks, traces_validated_against_impl=validated + multi_traces, blocks_checked=events, etxs_delivered=delivered, etxs_executed=executed,
                   adversarial_outcomes={"%s -> %s" % k: v for k, v in sorted(outcomes.items())}, samples=(samples + [x for x in cov.get("multi_trace_samples", []) if "b" in x]) or [{"note": "none"}],
                   rule="real prime/region/zone node at expansion 0 with forks at every level: for every appended block (any branch) the inbound set made "
                        "available by the dominant chain, the executed inbound ETXs and the destination queue read from the state committed by EtxSetRoot "
                        "must equal what EtxRoute.tla derives from the block tree (orders + emissions); ETX identity/value/recipient compared with the "
                        "emission (conversions: type and recipient only); re-sealed blocks with permuted, duplicated, dropped, unknown or altered inbound "
                        "ETXs, a skipped queue, a wrong outbound set or ETX-set root must be rejected")
    finally:
        shutil.rmtree(dbdir, ignore_errors=True)
    zc.check_aborted(ctx)
    vlib.write_evidence(ctx, "model_checking", cov, [
        "end to end (mining, state processing, queue) only on the deployed topology with a single subordinate chain per level; with several subordinate chains the "
        "confirmation walk, FilterToSub, CollectSubRollup and the rollup cache are bound at function level on synthetic dominant block trees (orders seeded through the "
        "calc-order cache); the region's cross-prime filter inside Append, ETX eligibility bits and multi-zone execution are not bound",
        "the minimum-inclusion rule is gas based; the trace check only demands 'queue emptied or >= 5 ETXs executed'",
        "queue in isolation: pushes of 1, 2 and 300 ETXs (index growth past one byte), <= 5 operations per history",
    ])


def replay(ctx, path):
    j = json.loads(Path(path).read_text())
    ctx.seed = j["seed"]
    run(ctx)
