"""C04 — cross-chain transactions are delivered and executed exactly once, in order (spec/EtxRoute.tla)."""
import json, re, shutil, collections
from pathlib import Path
import vlib
from vlib import Broken
import zonechain as zc

ETX_MUTATIONS = {"swap-inbound-etxs", "drop-all-inbound-etxs", "drop-first-inbound-etx", "alter-inbound-etx-value", "unknown-inbound-etx",
                 "duplicate-inbound-etx", "drop-outbound-etx", "alter-outbound-etx-value", "extra-outbound-etx", "etx-set-root", "outbound-etx-hash"}


def validate_etx_trace(ctx, tag, tr):
    t = vlib.tlc(ctx, "EtxRouteTrace", "EtxRouteTrace.cfg", workers=1, timeout=2400, tag="EtxTrace-" + tag,
                 files={"zctrace.ndjson": Path(tr).read_text()})
    if t.ok:
        return True, None
    if t.violated == "StepConforms":
        m = re.findall(r"mismatch = (<<.*?>>)\n", t.out, re.S)
        txt = m[-1] if m else "?"
        k = re.match(r"<<(\d+), \"([\w-]+)\"", txt)
        return False, {"line": int(k.group(1)) if k else 0, "what": k.group(2) if k else "?", "detail": txt[:500]}
    if t.violated == "CheckLast":
        m = re.findall(r"\nl = (\d+)", t.out)
        line = int(m[-1]) - 1 if m else 0
        return False, {"line": line, "what": "inbound-set-or-queue-differs-from-specification", "detail": ""}
    if t.violated == "AtMostOnce":
        return False, {"line": 0, "what": "AtMostOnce", "detail": "an ETX was delivered or executed twice along one chain"}
    raise Broken("EtxRouteTrace failed: %s\n%s" % (t.violated, (t.error or t.out)[-2500:]))


def run(ctx):
    quick = ctx.quick
    drv = vlib.go_build("chaindrv")
    dbdir = zc.scratch(ctx)
    cov = {}
    try:
        d = vlib.tlc_must_pass(ctx, "EtxRoute", "MCEtxRoute_small.cfg" if quick else "MCEtxRoute_big.cfg", workers=16, timeout=3000 if quick else 7200)
        cov.update(states=d.distinct, transitions=d.generated, tlc_depth=d.depth)
        vlib.log("TLC EtxRoute: %d distinct, %.0fs" % (d.distinct, d.wall))
        # destination queue in isolation: every push/pop/drain/read/commit-reopen history of the bounded EtxQueue model on a real StateDB
        q = vlib.tlc_must_pass(ctx, "MCEtxQueue", "MCEtxQueue_emit.cfg", workers=8, timeout=1200)
        qb = ctx.work / "queue-beh.ndjson"
        qb.write_text("\n".join(q.printed) + "\n")
        qres = ctx.work / "queue-res.json"
        vlib.run([drv, "queue", "-in", qb, "-out", qres], timeout=1800, check=True)
        qj = json.loads(qres.read_text())
        if qj["behaviours"] != len(q.printed) or qj["behaviours"] < 500:
            raise Broken("queue replay ran %d of %d behaviours" % (qj["behaviours"], len(q.printed)))
        for m in qj["mismatches"] or []:
            vlib.report(ctx, {"kind": "queue-vs-spec", "op": m["op"]}, {"behaviour": m["steps"], "expected": m["expected"], "got": m["got"]})
        cov.update(queue_behaviours_replayed=qj["behaviours"], queue_steps_compared=qj["steps"], queue_model_states=q.distinct)
        validated, events, delivered, executed, samples = 0, 0, 0, 0, []
        plans = [("rand%d" % i, 45 if quick else 140) for i in range(1 if quick else 4)]
        for i, (tag, steps) in enumerate(plans):
            sub = dbdir / tag; sub.mkdir()
            seed = ctx.seed * 100 + i
            tr, info = zc.run_chaindrv(ctx, drv, "c04-" + tag, seed, steps, sub, extra=["-trimdepth", 4])
            ok, mm = validate_etx_trace(ctx, tag, tr)
            rows = vlib.read_ndjson(tr)
            if ok:
                validated += 1
            else:
                ev = rows[mm["line"] - 1] if 0 < mm["line"] <= len(rows) else {}
                vlib.report(ctx, {"kind": "trace-" + mm["what"]}, {"seed": seed, "mismatch": mm,
                            "event": {k: ev.get(k) for k in ("op", "b", "p", "order", "etx_emit", "etx_exec", "etx_inbound", "etx_queue", "etx_altered")}})
            mines = [r for r in rows if r["op"] == "mine"]
            events += len(mines)
            delivered += sum(len(r["etx_inbound"]) for r in mines)
            executed += sum(len(r["etx_exec"]) for r in mines)
            if len(samples) < 2:
                samples += [{k: r[k] for k in ("b", "p", "order", "etx_emit", "etx_exec", "etx_inbound", "etx_queue")} for r in mines if r["etx_inbound"]][:2]
            shutil.rmtree(sub, ignore_errors=True)
        # adversarial blocks: out-of-order / duplicated / unknown / altered / skipped inbound ETXs, wrong outbound set or ETX-set root
        outcomes = collections.Counter()
        for seed in ([ctx.seed] if quick else [ctx.seed * 10 + j for j in range(3)]):
            out = ctx.work / ("tamper-%d.json" % seed)
            tr = ctx.work / ("tamper-%d.ndjson" % seed)
            p = vlib.run([drv, "tamper", "-seed", seed, "-blocks", 4 if quick else 12, "-out", out, "-trace", tr], timeout=3000)
            if p.returncode != 0:
                raise Broken("chaindrv tamper failed: %s\n%s" % (p.stdout[-1200:], p.stderr[-1200:]))
            res = json.loads(out.read_text())
            for o in res["outcomes"]:
                if o["mutation"] in ETX_MUTATIONS:
                    outcomes[(o["mutation"], o["result"])] += 1
            for pr in res["problems"] or []:
                if pr["kind"] in ("tampered-block-accepted", "rejected-block-left-trace") and pr["info"].get("mutation") in ETX_MUTATIONS:
                    vlib.report(ctx, {"kind": pr["kind"], "mutation": pr["info"]["mutation"]}, {"seed": seed, "problem": pr})
            ok, mm = validate_etx_trace(ctx, "tamper-%d" % seed, tr)
            if ok:
                validated += 1
            else:
                vlib.report(ctx, {"kind": "trace-" + mm["what"]}, {"seed": seed, "mode": "tamper", "mismatch": mm})
        rejected = sum(v for (m, r), v in outcomes.items() if r.startswith("rejected"))
        if delivered == 0 or executed == 0 or rejected < 8:
            raise Broken("too little ETX activity: delivered=%d executed=%d adversarial rejections=%d" % (delivered, executed, rejected))
        cov.update(traces_validated_against_impl=validated, blocks_checked=events, etxs_delivered=delivered, etxs_executed=executed,
                   adversarial_outcomes={"%s -> %s" % k: v for k, v in sorted(outcomes.items())}, samples=samples or [{"note": "none"}],
                   rule="real prime/region/zone node at expansion 0 with forks at every level: for every appended block (any branch) the inbound set made "
                        "available by the dominant chain, the executed inbound ETXs and the destination queue read from the state committed by EtxSetRoot "
                        "must equal what EtxRoute.tla derives from the block tree (orders + emissions); ETX identity/value/recipient compared with the "
                        "emission (conversions: type and recipient only); re-sealed blocks with permuted, duplicated, dropped, unknown or altered inbound "
                        "ETXs, a skipped queue, a wrong outbound set or ETX-set root must be rejected")
    finally:
        shutil.rmtree(dbdir, ignore_errors=True)
    zc.check_aborted(ctx)
    vlib.write_evidence(ctx, "model_checking", cov, [
        "single subordinate chain per level (deployed topology): routing between several zones/regions is covered by the model only",
        "the minimum-inclusion rule is gas based; the trace check only demands 'queue emptied or >= 5 ETXs executed'",
        "queue in isolation: pushes of 1, 2 and 300 ETXs (index growth past one byte), <= 5 operations per history",
    ])


def replay(ctx, path):
    j = json.loads(Path(path).read_text())
    ctx.seed = j["seed"]
    run(ctx)
