"""C06 — block execution is deterministic and header commitments equal stored state."""
import json, shutil
from pathlib import Path
import vlib
from vlib import Broken
import zonechain as zc

C06_PROBLEMS = {"nondeterministic-execution", "reexecution-differs-from-header", "own-block-fails-reexecution",
                "follower-state-differs", "follower-rejects-block", "follower-sethead-differs"}
C06_MISMATCH = {"utxo-root-differs-from-recomputation", "utxo-set-size-differs-from-count", "trimmed", "CommitmentEqualsContent"}


def run(ctx):
    quick = ctx.quick
    drv = vlib.go_build("chaindrv")
    dbdir = zc.scratch(ctx)
    cov = {}
    try:
        d = zc.design_run(ctx, "MCZoneChain_quick.cfg" if quick else "MCZoneChain_big.cfg", timeout=3000)
        cov.update(states=d.distinct, transitions=d.generated, tlc_depth=d.depth)
        lead = zc.lead_run(ctx, "MCZoneChain_leadF7.cfg", "CommitmentEqualsContent")
        cov["design_leads"] = [dict(lead, note="spec models TrimBlock reading the database instead of the block's pending view: an output "
                                                  "spent in the very block that trims it is removed twice from the commitment; binding tries to "
                                                  "realise it (needs a small unlocked output spent exactly TrimDepth blocks after creation)")]
        runs = [(ctx.seed * 100 + i) for i in range(1 if quick else 6)]
        steps = 45 if quick else 120
        validated, events, reexecs, fchecks, samples = 0, 0, 0, 0, []
        for i, seed in enumerate(runs):
            sub = dbdir / ("r%d" % i); sub.mkdir()
            # nosnap = memory database with state snapshots off (reads only what the committed trie holds: a node right after a restart / state sync)
            followers = "leveldb,pebble,nosnap" if (quick or i % 2 == 0) else "pebble,memory,nosnap"
            tr, info = zc.run_chaindrv(ctx, drv, "c06-%d" % i, seed, steps, sub,
                                       extra=["-reexec", "1,4,16" if quick else "1,2,4,16,3", "-followers", followers,
                                              "-trimdepth", 4, "-lockups", "-chained", 8] + (["-index"] if (not quick and i % 3 == 2) else []))
            for pr in info.get("problems") or []:
                if pr["kind"] in C06_PROBLEMS:
                    vlib.report(ctx, {"kind": pr["kind"]}, {"seed": seed, "steps": steps, "problem": pr, "trace": str(tr)})
                elif pr["kind"] not in ("own-block-rejected",):
                    vlib.log("note: problem outside C06:", pr["kind"])
            ok, mm, t = zc.validate_trace(ctx, "c06-%d" % i, tr)
            if ok:
                validated += 1
            elif mm["what"] in C06_MISMATCH or True:
                # any disagreement between the database image and the specification on a trace is reported here
                # when it concerns commitments; state-content disagreements belong to C10 but are still shown
                if mm["what"] in C06_MISMATCH:
                    cause = zc.spend_at_trim_depth(tr)
                    sig = {"kind": "trace-" + mm["what"]}
                    if cause:
                        sig = {"kind": "commitment-mismatch", "cause": "spend-at-trim-depth"}
                    vlib.report(ctx, sig, {"seed": seed, "steps": steps, "mismatch": mm, "cause": cause, "trace": str(tr)})
                else:
                    vlib.log("trace disagreement outside C06 (see C10):", mm)
            # natively, on every recorded step (the trace spec reports only the FIRST disagreement, which may be an image mismatch that
            # belongs to C10): the head's UTXO root / set size must be the multiset / count of the scanned 'ut'+'cl' records
            bad = [r for r in vlib.read_ndjson(tr) if r.get("op") in ("mine", "sethead") and not r.get("err") and (r.get("root_ok") is False or r.get("size_ok") is False)]
            if bad:
                cause = zc.spend_at_trim_depth(tr)
                sig = {"kind": "commitment-mismatch", "cause": "spend-at-trim-depth"} if cause else {"kind": "header-commitment-differs-from-stored-state", "after": bad[0]["op"]}
                vlib.report(ctx, sig, {"seed": seed, "steps": steps, "first": {k: bad[0].get(k) for k in ("op", "b", "p", "head", "root_ok", "size_ok", "chained")},
                                       "events_affected": len(bad), "cause": cause, "trace": str(tr)})
            events += info["events"]; reexecs += info["reexecutions"]; fchecks += info["follower_checks"]
            if len(samples) < 3:
                samples += zc.sample_events(tr, 2)
            shutil.rmtree(sub, ignore_errors=True)
        # the TLC lead above, driven on the real node: spend a small unlocked output in exactly the block that trims it
        sub = dbdir / "trimspend"; sub.mkdir()
        tr, info = zc.run_chaindrv(ctx, drv, "c06-trimspend", ctx.seed, 0, sub, extra=["-trimspend", 1 if quick else 3, "-trimdepth", 4])
        cov["design_leads"][0]["realised_on_real_node"] = info.get("trimspend_realised", 0)
        ok, mm, t = zc.validate_trace(ctx, "c06-trimspend", tr)
        if not ok:
            cause = zc.spend_at_trim_depth(tr)
            sig = {"kind": "commitment-mismatch", "cause": "spend-at-trim-depth"} if cause and mm["what"] in C06_MISMATCH else {"kind": "trace-" + mm["what"]}
            vlib.report(ctx, sig, {"seed": ctx.seed, "mismatch": mm, "cause": cause, "cmd": "chaindrv random -steps 0 -trimspend 1 -trimdepth 4"})
        if reexecs == 0 or fchecks == 0:
            raise Broken("driver performed no re-executions / follower comparisons")
        cov.update(traces_validated_against_impl=validated, impl_trace_events=events, reexecutions=reexecs,
                   follower_state_comparisons=fchecks, samples=samples,
                   rule="random chains with forks on a real prime/region/zone node (memory db); every block re-executed before insertion "
                        "under several GOMAXPROCS values and compared field by field; follower nodes on leveldb/pebble import every block "
                        "and are compared by full 'ut'/'cl' scan; header UTXO root / set size compared with a from-scratch multiset over the "
                        "scanned records after every step; TLC validates the trace against ZoneChain.tla")
    finally:
        shutil.rmtree(dbdir, ignore_errors=True)
    zc.check_aborted(ctx)
    vlib.write_evidence(ctx, "model_checking", cov, [
        "multiset/MuHash, trie and the storage engines are trusted; hashes are treated as injective",
        "single-zone topology (expansion 0); protocol time scales compressed by setting package variables",
        "goroutine schedules are varied by GOMAXPROCS and repetition, not enumerated",
    ])


def replay(ctx, path):
    j = json.loads(Path(path).read_text())
    ctx.seed = j["seed"]
    run(ctx)
