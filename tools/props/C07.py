"""C07 — own blocks validate; any deviation from re-execution is rejected (spec/ZoneChain.tla, Tamper action)."""
import json, shutil, collections
from pathlib import Path
import vlib
from vlib import Broken
import zonechain as zc


def run(ctx):
    quick = ctx.quick
    drv = vlib.go_build("chaindrv")
    cov = {}
    d = zc.design_run(ctx, "MCZoneChain_tamper.cfg", timeout=3000)
    cov.update(states=d.distinct, transitions=d.generated, tlc_depth=d.depth)
    runs = [ctx.seed] if quick else [ctx.seed * 10 + i for i in range(5)]
    blocks = 4 if quick else 14
    offered, validated, kinds, samples, own = 0, 0, collections.Counter(), [], 0
    for seed in runs:
        out = ctx.work / ("tamper-%d.json" % seed)
        tr = ctx.work / ("tamper-%d.ndjson" % seed)
        p = vlib.run([drv, "tamper", "-seed", seed, "-blocks", blocks, "-out", out, "-trace", tr], timeout=3000)
        if p.returncode != 0:
            raise Broken("chaindrv tamper failed (%d): %s\n%s" % (p.returncode, p.stdout[-1500:], p.stderr[-1500:]))
        res = json.loads(out.read_text())
        offered += res["mutants_offered"]
        for o in res["outcomes"]:
            kinds[(o["mutation"], o["result"])] += 1
        for pr in res["problems"] or []:
            if pr["kind"] in ("tampered-block-accepted", "rejected-block-left-trace", "own-block-rejected", "own-block-fails-reexecution"):
                sig = {"kind": pr["kind"]}
                if "mutation" in pr["info"]:
                    sig["mutation"] = pr["info"]["mutation"]
                vlib.report(ctx, sig, {"seed": seed, "blocks": blocks, "problem": pr, "cmd": "chaindrv tamper -seed %d -blocks %d" % (seed, blocks)})
        ok, mm, t = zc.validate_trace(ctx, "c07-%d" % seed, tr)
        if ok:
            validated += 1
        else:
            vlib.report(ctx, {"kind": "trace-" + mm["what"]}, {"seed": seed, "mismatch": mm, "trace": str(tr)})
        rows = vlib.read_ndjson(tr)
        own += sum(1 for r in rows if r["op"] == "mine")
        if len(samples) < 3:
            samples += [{k: r[k] for k in ("op", "b", "of", "mutation", "accepted", "image_unchanged")} for r in rows if r["op"] == "tamper"][:3]
    if offered < 30 and not ctx.violations:   # a node that refuses its own blocks (reported above) offers nothing to tamper with
        raise Broken("only %d mutants offered" % offered)
    na = sorted({m for (m, res_) in kinds if res_ == "not-applicable"} - {m for (m, res_) in kinds if res_ != "not-applicable"})
    cov.update(traces_validated_against_impl=validated, mutants_offered=offered, own_blocks_appended=own,
               outcomes={"%s -> %s" % k: v for k, v in sorted(kinds.items())}, mutations_never_applicable=na, samples=samples,
               rule="each block the real worker assembles (random Qi/Quai/conversion content, inbound ETXs, coinbases) is appended, rolled back, and every "
                    "single-component deviation of it (declared roots/receipt hash/gas/state use/state size/fee totals; transaction dropped, duplicated, "
                    "reordered, fabricated; outbound ETX dropped, altered, added; body changed without root update) is re-sealed and offered on the parent: "
                    "it must be refused by Append or SetCurrentHeader and the chain-state image (ut/cl scan, canonical index, heads, multiset, set size) must "
                    "be unchanged; ZoneChainTrace.tla validates the whole trace (Tamper action, TamperedRejected)")
    vlib.write_evidence(ctx, "model_checking", cov, [
        "mutants are re-sealed with the real blake3 engine at toy difficulty; header-extension rules are C09's subject",
        "zone-order blocks only (dom-coincident mutants would need re-sealing at a higher order)",
    ])


def replay(ctx, path):
    j = json.loads(Path(path).read_text())
    ctx.seed = j["seed"]
    run(ctx)
