"""C18 — a trie's root depends only on its contents, and proofs prove exactly them
(spec/Trie.tla, spec/TrieTrace.tla, harness/cmd/triedrv); the root survives commit and reload from the database also
when the database garbage-collects and flushes (spec/TrieGC.tla, spec/TrieGCTrace.tla, triedrv gc / gcrandom)."""
import json, re
from concurrent.futures import ThreadPoolExecutor
from pathlib import Path
import vlib
from vlib import Broken

FLAVORS = ["raw-hi-small-lazy-mem", "raw-hi-large-eager-disk", "raw-mix-mixed-lazy-disk",
           "raw-long-small-eager-mem", "sec-hi-small-lazy-disk", "sec-mix-large-eager-mem"]


GC_FLAVORS = ["gc-raw-hi-large", "gc-raw-long-small-rehandle", "gc-raw-mix-small", "gc-sec-hi-large-onleaf", "gc-sec-mix-mixed"]
GC_OPS = ("update", "tcommit", "ref", "deref", "flush", "flushfail", "cap", "capfail", "open", "reopen")
GC_MISMATCH = re.compile(r'mismatch = <<\s*(\d+),\s*"([\w-]+)",\s*"(\w+)",\s*"([^"]*)"')


def gc_sig(cat, flavor, op):
    return {"kind": cat, "trie": "secure" if "-sec-" in flavor else "raw", "op": op, "layer": "triedb-gc"}


def gc_random(ctx, drv, seed, ntr, depth, tag):
    """code -> spec for the node database: seeded call sequences on the real trie.Database, validated by TrieGCTrace.tla.
    Returns (info, rows, tlc_result)."""
    tr = ctx.work / ("triegctrace-%s.ndjson" % tag)
    p = vlib.run([drv, "gcrandom", "-seed", seed, "-n", ntr, "-depth", depth, "-out", tr], timeout=3000, check=True)
    info = json.loads(p.stdout.strip().splitlines()[-1])
    t = vlib.tlc(ctx, "TrieGCTrace", "TrieGCTrace.cfg", workers=1, timeout=3000, tag="TrieGCTrace-%s" % tag,
                 files={"triegctrace.ndjson": tr.read_text()})
    return info, vlib.read_ndjson(tr), t


def gc_trace_verdict(info, rows, t, seed, ntr, depth):
    """-> (validated traces, events, None) or (0, 0, (signature, replay object)); Broken if the machinery failed."""
    if t.ok:
        if info["failed_checks"]:
            raise Broken("gc driver check failed %d times but TrieGCTrace accepted every event" % info["failed_checks"])
        return info["traces"], info["events"], None
    if t.violated == "ObservationsConform":
        m = GC_MISMATCH.findall(t.out)
        if not m:
            raise Broken("cannot parse the mismatch reported by TrieGCTrace:\n" + t.out[-2000:])
        line, flavor, op, why = int(m[-1][0]), m[-1][1], m[-1][2], m[-1][3]
        cat = why.split(":")[0]
        if cat == "driver":
            raise Broken("gc driver broke its own contract: " + why)
        start = max(i for i in range(line) if rows[i]["op"] == "tracereset")
        return 0, 0, (gc_sig(cat, flavor, op),
                      {"gc_random": {"seed": seed, "n": ntr, "depth": depth}, "flavor": flavor, "category": cat, "detail": why,
                       "trace_file_line": line, "events": rows[start:line], "from": "implementation trace rejected by TrieGCTrace.tla"})
    if t.violated:
        raise Broken("TrieGCTrace: design invariant %s violated on an implementation trace:\n%s" % (t.violated, t.out[-2000:]))
    raise Broken("TrieGCTrace did not accept the trace (contract violation by the driver or TLC error):\n" + (t.error or "")[-2000:])


def gc_layer(ctx, drv):
    """The node database behind the tries (trie/database.go): Trie.Commit into the memory cache, meta-root references,
    the reference-counting garbage collector, Database.Commit / Cap, failing disk writes, restarts.  Runs in a thread
    next to the other layers; nothing is reported from here (the caller does, in the main thread)."""
    quick = ctx.quick
    design = "MCTrieGC_small.cfg" if quick else "MCTrieGC_big.cfg"
    emits = ["MCTrieGC_emit.cfg", "MCTrieGC_emitgc.cfg", "MCTrieGC_emitfl.cfg"] if quick else \
            ["MCTrieGC_emit6.cfg", "MCTrieGC_emitgc10.cfg", "MCTrieGC_emitfl9.cfg"]
    leads = ["MCTrieGC_lead.cfg", "MCTrieGC_lead2.cfg"]
    jobs = [(design, 8)] + [(c, 2) for c in leads] + [(c, 6) for c in emits]
    with ThreadPoolExecutor(max_workers=len(jobs)) as ex:
        res = dict(zip([j[0] for j in jobs],
                       ex.map(lambda j: vlib.tlc(ctx, "MCTrieGC", j[0], workers=j[1], timeout=3000), jobs)))
    out = {"runs": [], "violations": [], "samples": []}
    for cfg in [design] + emits:
        r = res[cfg]
        if not r.ok:
            raise Broken("design-level TLC run failed on MCTrieGC/%s: violated=%s\n%s" % (cfg, r.violated, (r.error or r.out[-2500:])))
        out["runs"].append({"cfg": cfg, "distinct": r.distinct, "generated": r.generated, "depth": r.depth, "wall_s": round(r.wall, 1)})
    # spec-drift guard: with the known ways of breaking the contract switched on, TLC must find the violation
    for cfg in leads:
        r = res[cfg]
        if r.violated != "LiveRootsLoadable":
            raise Broken("lead configuration %s (a database that does not count meta-root references / uncaches before the write) "
                         "no longer violates LiveRootsLoadable: violated=%s\n%s" % (cfg, r.violated, (r.error or r.out[-1500:])))
    out["states"] = res[design].distinct
    out["transitions"] = res[design].generated
    # spec -> code: every transition of the emitting models as one behaviour on the real trie.Database
    out["behaviours"] = out["calls"] = out["probes"] = out["shared_derefs"] = out["same_root_twice"] = 0
    ops = {}
    for cfg in emits:
        r = res[cfg]
        tag = cfg.replace("MCTrieGC_", "").replace(".cfg", "")
        beh = ctx.work / ("gc-behaviours-%s.ndjson" % tag)
        beh.write_text("".join(s + "\n" for s in r.printed))
        n = len(r.printed)
        if n < 1000:
            raise Broken("TLC emitted only %d behaviours for %s" % (n, cfg))
        resf = ctx.work / ("gc-replay-%s.json" % tag)
        vlib.run([drv, "gc", "-in", beh, "-out", resf, "-seed", ctx.seed], timeout=3000, check=True)
        rj = json.loads(resf.read_text())
        if rj["behaviours"] != n or any(rj["flavors"][fl]["Behaviours"] != n for fl in GC_FLAVORS):
            raise Broken("gc driver replayed %d of %d behaviours of %s" % (rj["behaviours"], n, cfg))
        for op, k in rj["ops"].items():
            ops[op] = ops.get(op, 0) + k
        out["behaviours"] += n
        for fl in GC_FLAVORS:
            st = rj["flavors"][fl]
            out["calls"] += st["Calls"]
            out["probes"] += st["Probes"]
            out["shared_derefs"] += st["SharedDerefs"]
            out["same_root_twice"] += st["SameRootTwice"]
        for m in (rj.get("violations") or []):
            out["violations"].append((gc_sig(m["cat"], m["flavor"], m["op"]),
                                      {"gc_behaviour": m["behaviour_ops"], "flavor": m["flavor"], "step": m["step"], "category": m["cat"],
                                       "detail": m["detail"], "expected": m["expected"], "got": m["got"], "driver_seed": ctx.seed}))
        out["samples"].append({"gc_behaviour_from_TLC": json.loads(r.printed[-1])})
        vlib.log("gc: TLC %s: %d distinct / %d generated, %d behaviours x %d flavours replayed, %d violations"
                 % (cfg, r.distinct, r.generated, n, len(GC_FLAVORS), len(rj.get("violations") or [])))
    for op in GC_OPS:
        if not ops.get(op):
            raise Broken("no %s call among the emitted gc behaviours" % op)
    if not out["violations"] and (not out["shared_derefs"] or not out["same_root_twice"]):
        raise Broken("gc behaviours no longer release a root that shares nodes with a live one (%d) / commit the same content twice (%d)"
                     % (out["shared_derefs"], out["same_root_twice"]))
    out["ops"] = ops
    # code -> spec
    batches = [(10, 150)] if quick else [(40, 300)] * 4
    out["traces"] = out["events"] = 0
    out["random"] = {}
    for bi, (ntr, depth) in enumerate(batches):
        seed = ctx.seed * 100 + 50 + bi
        info, rows, t = gc_random(ctx, drv, seed, ntr, depth, str(bi))
        tv, ev, bad = gc_trace_verdict(info, rows, t, seed, ntr, depth)
        out["traces"] += tv
        out["events"] += ev
        for k in ("max_known_roots", "same_content_committed_again", "refs_beyond_first"):
            out["random"][k] = max(out["random"].get(k, 0), info[k])
        if bad:
            out["violations"].append(bad)
        elif len(out["samples"]) < 4:
            out["samples"].append({"gc_implementation_trace_prefix": rows[1:9]})
    vlib.log("gc: %d random traces / %d events validated by TrieGCTrace" % (out["traces"], out["events"]))
    return out


def sig_of(cat, flavor, op):
    return {"kind": cat, "trie": "secure" if flavor.startswith("sec-") else "raw", "op": op}


def emit_behaviours(ctx, cfg, out_path, timeout):
    r = vlib.tlc_must_pass(ctx, "MCTrie", cfg, workers=16, timeout=timeout)
    with open(out_path, "w") as f:
        for s in r.printed:
            f.write(s + "\n")
    return r, len(r.printed)


def run_replay(ctx, drv, beh, res, seed, bits, corrupt, flavor=None, timeout=3000):
    args = [drv, "replay", "-in", beh, "-out", res, "-seed", seed, "-bits", bits, "-corrupt", corrupt]
    if flavor:
        args += ["-flavor", flavor]
    vlib.run(args, timeout=timeout, check=True)
    return json.loads(Path(res).read_text())


def report_replay_violations(ctx, rj, seed):
    for m in (rj.get("violations") or []):
        vlib.report(ctx, sig_of(m["cat"], m["flavor"], m["op"]),
                    {"behaviour": m["behaviour_ops"], "flavor": m["flavor"], "step": m["step"], "category": m["cat"],
                     "detail": m["detail"], "expected": m["expected"], "got": m["got"], "driver_seed": seed})


def events_to_behaviour(rows):
    """A logged implementation trace as a replayable behaviour: the content after every call is that of a
    plain map model (what the trace spec validated before the first mismatch)."""
    model, cmodel, omodel, out = {}, {}, {}, []
    for e in rows:
        if e["op"] == "tracereset":
            continue
        k = json.dumps(e["k"])
        if e["op"] == "update":
            if e["v"] == 0:
                model.pop(k, None)
            else:
                model[k] = e["v"]
        elif e["op"] == "delete":
            model.pop(k, None)
        elif e["op"] == "commit":
            cmodel = dict(model)
        elif e["op"] == "reload":
            model = dict(cmodel)
        elif e["op"] == "copy":
            omodel = dict(model)
        elif e["op"] == "swap":
            model, omodel = omodel, model
        c = sorted(([json.loads(kk), v] for kk, v in model.items()), key=lambda p: p[0])
        # expected results: from the model where it defines them, else as logged
        res = e["res"]
        if e["op"] == "get":
            res = ["val", model.get(k, 0)]
        elif e["op"] == "prove":     # the behaviour format carries the kinds as a list
            res = ["proof", model.get(k, 0) if model else -1, list(res[2])]
        elif e["op"] == "corrupt":
            res = ["ver", -1]
        elif e["op"] == "stack":
            res = ["stack", True]
        elif e["op"] == "hash":
            res = ["hash", c]
        out.append({"op": e["op"], "k": e["k"], "v": e["v"], "k2": e["k2"], "i": e["i"], "kind": e["kind"], "res": res, "c": c,
                    "oc": e.get("oc") or [], "ho": bool(e.get("ho"))})
    return out


def run(ctx):
    quick = ctx.quick
    drv = vlib.go_build("triedrv")
    cov = {"flavors": FLAVORS}
    samples = []
    gc_pool = ThreadPoolExecutor(max_workers=1)
    gc_future = gc_pool.submit(gc_layer, ctx, drv)        # the node-database layer runs next to the others

    # 1. design: exhaustive TLC on the bounded model (all C18 invariants)
    designs = ["MCTrie_small.cfg"] if quick else ["MCTrie_big.cfg", "MCTrie_all2.cfg", "MCTrie_fixed.cfg"]
    states = trans = 0
    cov["tlc_runs"] = []
    for cfg in designs:
        r = vlib.tlc_must_pass(ctx, "MCTrie", cfg, workers=16, timeout=2400)
        states += r.distinct
        trans += r.generated
        cov["tlc_runs"].append({"cfg": cfg, "distinct": r.distinct, "generated": r.generated, "depth": r.depth, "wall_s": round(r.wall, 1)})
        vlib.log("TLC %s: %d distinct / %d generated, depth %d, %.0fs" % (cfg, r.distinct, r.generated, r.depth, r.wall))
    cov.update(states=states, transitions=trans)

    # 2. spec -> code: every transition of the bounded state graph as one behaviour, on 6 flavours
    beh = ctx.work / "behaviours.ndjson"
    emit_cfg = "MCTrie_emit.cfg" if quick else "MCTrie_emit4.cfg"
    er, nbeh = emit_behaviours(ctx, emit_cfg, beh, 2400)
    vlib.log("TLC %s: %d behaviours emitted, %.0fs" % (emit_cfg, nbeh, er.wall))
    if nbeh < 1000:
        raise Broken("TLC emitted only %d behaviours" % nbeh)
    rj = run_replay(ctx, drv, beh, ctx.work / "replay.json", ctx.seed, 1 if quick else 8, 40 if quick else 400)
    if rj["behaviours"] != nbeh:
        raise Broken("driver replayed %d of %d behaviours" % (rj["behaviours"], nbeh))
    calls = checks = 0
    for fl in FLAVORS:
        st = rj["flavors"][fl]
        if st["Behaviours"] != nbeh:
            raise Broken("flavour %s did not run every behaviour" % fl)
        calls += st["Calls"]
        checks += st["Checks"]
    for op in ("update", "delete", "get", "hash", "commit", "reload", "prove", "verify", "corrupt", "stack"):
        if not rj["ops"].get(op):
            raise Broken("no %s call among the emitted behaviours" % op)
    report_replay_violations(ctx, rj, ctx.seed)
    cov.update(behaviours_replayed=nbeh, replay_calls=calls, replay_oracle_checks=checks, ops_replayed=rj["ops"], emit_cfg=emit_cfg)
    with open(beh) as f:
        for i, line in enumerate(f):
            if i in (nbeh // 3, nbeh - 1):
                samples.append({"behaviour_from_TLC": json.loads(line)})
    vlib.log("replayed %d behaviours x %d flavours: %d calls, %d oracle checks, %d violations"
             % (nbeh, len(FLAVORS), calls, checks, len(rj.get("violations") or [])))

    # 2b. two handles (Trie.Copy): every behaviour of the bounded copy/modify/commit model; the handle that is NOT being
    # modified must stay the canonical trie of its own content (nodes are shared in memory between the handles)
    behc = ctx.work / "behaviours-copy.ndjson"
    erc, nbehc = emit_behaviours(ctx, "MCTrie_emitcopy.cfg" if quick else "MCTrie_emitcopy6.cfg", behc, 2400)
    if nbehc < 1000:
        raise Broken("TLC emitted only %d two-handle behaviours" % nbehc)
    rjc = run_replay(ctx, drv, behc, ctx.work / "replay-copy.json", ctx.seed, 1, 0)
    if rjc["behaviours"] != nbehc or not rjc["ops"].get("copy") or not rjc["ops"].get("swap"):
        raise Broken("driver replayed %d of %d two-handle behaviours (ops %s)" % (rjc["behaviours"], nbehc, rjc["ops"]))
    report_replay_violations(ctx, rjc, ctx.seed)
    ccalls = sum(rjc["flavors"][fl]["Calls"] for fl in FLAVORS)
    cov.update(two_handle_behaviours_replayed=nbehc, two_handle_calls=ccalls, two_handle_states=erc.distinct)
    vlib.log("two handles: TLC %d distinct states, %d behaviours x %d flavours replayed (%d calls), %d violations"
             % (erc.distinct, nbehc, len(FLAVORS), ccalls, len(rjc.get("violations") or [])))

    # 3. code -> spec: long seeded random call sequences, validated by TrieTrace.tla
    batches = [(12, 150)] if quick else [(36, 300)] * 4
    validated = events = 0
    jobs = []
    for bi, (ntr, depth) in enumerate(batches):
        tr = ctx.work / ("trietrace-%d.ndjson" % bi)
        p = vlib.run([drv, "random", "-seed", ctx.seed * 100 + bi, "-n", ntr, "-depth", depth, "-out", tr], timeout=3000, check=True)
        jobs.append((bi, tr, json.loads(p.stdout.strip().splitlines()[-1])))
    with ThreadPoolExecutor(max_workers=4) as ex:      # one single-worker TLC per batch, side by side
        results = list(ex.map(lambda j: vlib.tlc(ctx, "TrieTrace", "TrieTrace.cfg", workers=1, timeout=3000, tag="TrieTrace-%d" % j[0],
                                                 files={"trietrace.ndjson": j[1].read_text()}), jobs))
    for (bi, tr, info), t in zip(jobs, results):
        rows = vlib.read_ndjson(tr)
        if t.ok:
            if info["failed_checks"]:
                raise Broken("driver oracle failed %d times but trace validation accepted every event" % info["failed_checks"])
            validated += info["traces"]
            events += info["events"]
        elif t.violated == "ObservationsConform":
            m = re.findall(r"mismatch = <<\s*(\d+),\s*\"([\w-]+)\",\s*\"(\w+)\",\s*\"([^\"]*)\"", t.out)
            if not m:
                raise Broken("cannot parse the mismatch reported by TrieTrace:\n" + t.out[-2000:])
            line, flavor, op, fail = int(m[-1][0]), m[-1][1], m[-1][2], m[-1][3]
            cat = fail.split(":")[0] if fail else "spec-vs-impl"
            start = max(i for i in range(line) if rows[i]["op"] == "tracereset")
            vlib.report(ctx, sig_of(cat, flavor, op),
                        {"behaviour": events_to_behaviour(rows[start:line]), "flavor": flavor, "category": cat, "detail": fail,
                         "trace_file_line": line, "driver_seed": ctx.seed * 100 + bi, "from": "implementation trace rejected by TrieTrace.tla"})
        elif t.violated:
            raise Broken("TrieTrace: design invariant %s violated on an implementation trace:\n%s" % (t.violated, t.out[-2000:]))
        else:
            raise Broken("TrieTrace did not accept the trace (contract violation by the driver or TLC error):\n" + (t.error or "")[-2000:])
        if len(samples) < 3:
            samples.append({"implementation_trace_prefix": rows[1:7]})
    cov.update(random_traces_validated_by_TLC=validated, random_events=events)
    vlib.log("random traces: %d traces / %d events validated by TrieTrace" % (validated, events))

    # 4. streaming hasher vs full trie vs reference on random lists (types.DeriveSha)
    nl = 150 if quick else 1500
    p = vlib.run([drv, "derive", "-seed", ctx.seed, "-n", nl], timeout=3000, check=True)
    dj = json.loads(p.stdout.strip().splitlines()[-1])
    if dj["lists"] != nl:
        raise Broken("derive ran %d of %d lists" % (dj["lists"], nl))
    for m in (dj.get("mismatches") or [])[:5]:
        vlib.report(ctx, {"kind": "derivesha", "trie": "stack", "op": "derive"}, {"derive": m, "driver_seed": ctx.seed, "n": nl})
    cov.update(derivesha_lists=dj["lists"], derivesha_items=dj["items"])

    # 5. the node database: garbage collection and flushing (spec/TrieGC.tla)
    gc = gc_future.result()
    gc_pool.shutdown()
    for sig, rp in gc["violations"]:
        vlib.report(ctx, sig, rp)
    cov["tlc_runs"] += gc["runs"]
    cov["states"] += gc["states"]
    cov["transitions"] += gc["transitions"]
    cov.update(gc_flavors=GC_FLAVORS, gc_behaviours_replayed=gc["behaviours"], gc_replay_calls=gc["calls"], gc_root_probes=gc["probes"],
               gc_ops_replayed=gc["ops"], gc_derefs_of_roots_sharing_nodes_with_live_roots=gc["shared_derefs"],
               gc_same_content_committed_twice=gc["same_root_twice"], gc_random_traces_validated_by_TLC=gc["traces"],
               gc_random_events=gc["events"], gc_random=gc["random"],
               gc_lead_configs_violate="LiveRootsLoadable (MCTrieGC_lead.cfg: meta-root references not counted; MCTrieGC_lead2.cfg: uncached before the write)")
    samples += gc["samples"][:3]
    validated += gc["traces"]

    cov.update(traces_validated_against_impl=(nbeh * len(FLAVORS) + gc["behaviours"] * len(GC_FLAVORS) if not ctx.violations else 0) + validated,
               samples=samples, exhaustive=True,
               rule="every transition of the bounded Trie state graph (TLC, %s) replayed on 6 trie flavours with the spec's expected "
                    "observation and content, roots compared with rebuilt tries and a yellow-paper reference; %d seeded random traces "
                    "validated by TrieTrace.tla; %d DeriveSha lists" % (emit_cfg, sum(b[0] for b in batches), nl))
    vlib.write_evidence(ctx, "model_checking", cov, [
        "Keccak-256 is collision free (the spec identifies a node hash with the node's structure)",
        "a proof database is content-addressed: the verifier's key-value view maps hash(blob) -> blob (as les/snap build it)",
        "the empty trie has no proof nodes: VerifyProof reports an error instead of proving absence (specified: EmptyTrieHasNoProof)",
        "StackTrie is specified for prefix-free key sets inserted in ascending order only",
        "node database: specified through the interface - a root loads from Trie.Commit until its last meta-root reference is dropped, and for ever "
        "once Database.Commit / Cap(0) returned nil; Trie.Commit only on a handle whose base root is alive; references between tries "
        "(Reference(storage root, account node)), partial Cap(limit > 0), the clean cache and concurrent use are out of scope",
        "TLC, the Go runtime, rlp and crypto packages are trusted",
    ])


def replay(ctx, path):
    j = json.loads(Path(path).read_text())
    rp = j["replay"]
    drv = vlib.go_build("triedrv")
    seed = rp.get("driver_seed", j.get("seed", 1))
    if "gc_behaviour" in rp:
        f = ctx.work / "gc-one.ndjson"
        f.write_text(json.dumps(rp["gc_behaviour"]) + "\n")
        resf = ctx.work / "gc-one.json"
        vlib.run([drv, "gc", "-in", f, "-out", resf, "-seed", seed, "-flavor", rp["flavor"]], check=True)
        rj = json.loads(resf.read_text())
        for m in (rj.get("violations") or []):
            vlib.report(ctx, gc_sig(m["cat"], m["flavor"], m["op"]), {"gc_behaviour": m["behaviour_ops"], "flavor": m["flavor"], "step": m["step"],
                                                                         "category": m["cat"], "detail": m["detail"], "driver_seed": seed})
        print(json.dumps(rj["flavors"][rp["flavor"]]))
        return
    if "gc_random" in rp:
        g = rp["gc_random"]
        info, rows, t = gc_random(ctx, drv, g["seed"], g["n"], g["depth"], "replay")
        _, _, bad = gc_trace_verdict(info, rows, t, g["seed"], g["n"], g["depth"])
        if bad:
            vlib.report(ctx, bad[0], bad[1])
        print(json.dumps(info))
        return
    if "derive" in rp:
        p = vlib.run([drv, "derive", "-seed", seed, "-n", rp["n"]], check=True)
        dj = json.loads(p.stdout.strip().splitlines()[-1])
        for m in (dj.get("mismatches") or [])[:5]:
            vlib.report(ctx, {"kind": "derivesha", "trie": "stack", "op": "derive"}, {"derive": m, "driver_seed": seed, "n": rp["n"]})
        print(json.dumps(dj)[:2000])
        return
    f = ctx.work / "one.ndjson"
    f.write_text(json.dumps(rp["behaviour"]) + "\n")
    rj = run_replay(ctx, drv, f, ctx.work / "one.json", seed, 8, 1, flavor=rp.get("flavor"))
    report_replay_violations(ctx, rj, seed)
    print(json.dumps(rj["flavors"]))
