"""C16 — every address has one zone and one ledger, respected by all state
(spec/Addr.tla case table + tiny state, harness/cmd/addrdrv)."""
import json
from pathlib import Path
import vlib
from vlib import Broken
from props.C03 import build_driver


def signature(m):
    if m["kind"] == "classification":
        return {"kind": "classification", "path": m["path"], "node00": m["node"] == "zoneA", "what": m["detail"].split(" addr=")[0]}
    if m["kind"] == "qiout":
        fc = m["detail"].split(" ")[0].split("=")[-1] if m["detail"].startswith("follows-cropped=") else "n/a"
        return {"kind": "qiout", "wellformed": m["path"] == "len20", "expected": m["expected"], "got": m["got"], "follows_cropped": fc.lower() != "false"}
    if m["kind"] in ("trie-extra", "trie-missing"):
        return {"kind": m["kind"], "via": m["path"]}
    return {"kind": m["kind"], "via": m["path"], "expected": m["expected"], "got": m["got"]}


def report_mismatches(ctx, rj):
    for m in (rj.get("mismatches") or []):
        if m["kind"] in ("driver", "panic", "construct-error"):
            raise Broken("addrdrv could not execute a behaviour: %s" % json.dumps(m)[:3000])
        vlib.report(ctx, signature(m), {"behaviour": m["beh"], "instseed": m["seed"], "step": m["step"], "node": m["node"],
                                        "kind": m["kind"], "path": m["path"], "class": m["class"],
                                        "expected": m["expected"], "got": m["got"], "detail": m["detail"]})


def run(ctx):
    quick = ctx.quick
    drv = build_driver(ctx, "addrdrv")
    cov = {}
    # design level + emission in one exhaustive TLC run: invariants of the case table hold, every transition printed
    emit_cfg = "MCAddr_emit3.cfg" if quick else "MCAddr_emit4.cfg"
    er = vlib.tlc_must_pass(ctx, "MCAddr", emit_cfg, workers=8, timeout=3000, seed=ctx.seed)
    cov.update(states=er.distinct, transitions=er.generated, tlc_depth=er.depth, tlc_cfg=emit_cfg)
    vlib.log("TLC %s: %d distinct / %d generated, depth %d, %.0fs" % (emit_cfg, er.distinct, er.generated, er.depth, er.wall))
    if not quick:
        r = vlib.tlc_must_pass(ctx, "MCAddr", "MCAddr_big.cfg", workers=8, timeout=3000, seed=ctx.seed)
        cov.update(deep_states=r.distinct, deep_transitions=r.generated, deep_cfg="MCAddr_big.cfg")
        vlib.log("TLC MCAddr_big.cfg: %d distinct / %d generated, %.0fs" % (r.distinct, r.generated, r.wall))
    beh = ctx.work / "behaviours.ndjson"
    with open(beh, "w") as f:
        for s in er.printed:
            f.write(s + "\n")
    nbeh = len(er.printed)
    if nbeh < 5000:
        raise Broken("TLC emitted only %d behaviours" % nbeh)
    inst = 2 if quick else 8
    res = ctx.work / "replay.json"
    p = vlib.run([drv, "replay", "-in", beh, "-out", res, "-seed", ctx.seed, "-inst", inst], timeout=6000, check=True)
    rj = json.loads(res.read_text())
    if rj["behaviours"] != nbeh:
        raise Broken("driver read %d of %d behaviours" % (rj["behaviours"], nbeh))
    for op in ("classify", "touch", "evmcall", "create", "qiout"):
        if rj["ops"].get(op, 0) == 0:
            raise Broken("no %s step was executed" % op)
    report_mismatches(ctx, rj)
    vlib.log("replay: %d evaluations, %d distinct classes, %.0fs" % (rj["evaluations"], rj["distinct_classes"], p.wall))
    samples = []
    with open(beh) as f:
        for i, line in enumerate(f):
            if i in (nbeh // 7, nbeh // 2, nbeh - 11):
                samples.append({"behaviour_from_TLC_with_specified_outcomes": json.loads(line)})
    samples.append({"classes_exercised": rj["classes"][:: max(1, len(rj["classes"]) // 12)]})
    cov.update(evaluations=rj["evaluations"], distinct_nontrivial=rj["distinct_classes"], behaviours_replayed=nbeh,
               instantiations_per_behaviour=inst, ops_replayed=rj["ops"], exhaustive=True,
               rule="TLC enumerates EVERY transition of the bounded Addr.tla graph (%s): node location x address class (zone byte, ledger, zero) x "
                    "construction path / state mutator / EVM call / CREATE kind / Qi output length and mode, with the outcome the spec defines; "
                    "each is instantiated %d times with seeded random addresses of that class (boundary bytes included) on the real constructors, "
                    "decoders, StateDB, EVM and ProcessQiTx; after every state step the committed account trie is walked leaf by leaf and the UTXO "
                    "records are scanned; a class is DISTINCT by (op, node, path|mutator|kind|length+mode, zone byte class, ledger, zero, outcome) "
                    "and counted only when its comparison was executed" % (emit_cfg, inst),
               samples=samples)
    vlib.write_evidence(ctx, "exploration", cov, [
        "keccak256 / secp256k1 / protobuf / RLP libraries are trusted",
        "the StateDB API takes common.InternalAddress (a bare [20]byte): mutators are driven with raw casts, i.e. the createObject guard itself is "
        "what keeps out-of-scope accounts out; external->internal conversions are Address.InternalAddress / InternalAndQuaiAddress / "
        "InternalAndQiAddress, checked in every classification",
        "ProcessQiTx runs on a memory database with a stub ChainContext, prime terminus number 0 (pre-KawPow rules); the Qi wrapping mode is not exercised",
        "account trie contents are read by committing a Copy() of the StateDB (Dump filters out-of-scope accounts itself and cannot serve as an oracle)",
    ])


def replay(ctx, path):
    j = json.loads(Path(path).read_text())
    rp = j["replay"]
    drv = build_driver(ctx, "addrdrv")
    f = ctx.work / "one.ndjson"
    f.write_text(json.dumps(rp["behaviour"]) + "\n")
    out = ctx.work / "one.json"
    vlib.run([drv, "replay", "-in", f, "-out", out, "-seed", j.get("seed", 1), "-instseed", rp["instseed"]], check=True)
    rj = json.loads(out.read_text())
    report_mismatches(ctx, rj)
    print(json.dumps({"evaluations": rj["evaluations"], "mismatches": len(rj.get("mismatches") or [])}))
