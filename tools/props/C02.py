"""C02 — Quai ledger: executing a transaction never creates value (spec/EvmValue.tla, harness/cmd/evmdrv).

This module also holds the machinery shared with C05 (same specification, same driver); tools/props/C05.py calls
run_check(ctx) with its own property id.  Every violation is attributed to the property (or properties) it concerns and
each check reports only its own."""
import json, os, random, re, threading
from concurrent.futures import ThreadPoolExecutor
from pathlib import Path
import vlib
from vlib import Broken

_lock = threading.Lock()


def report(ctx, sig, obj):
    with _lock:
        return vlib.report(ctx, sig, obj)


SEND = {"ETX", "CONVERT", "XCALL", "UNWRAP", "CLAIM"}
C02_INVS = {"NoNegative", "NoCreation", "ExactUnlessBurn", "EtxBacked", "ChargeWithinBounds",
            "FailedTxTouchesOnlyPayer", "FailedEtxTouchesNothing", "TypeOK"}
C05_INVS = {"AllOrNothing", "StackDiscipline", "IndexFresh", "BlockOutboundIsConcatOfSurvivors"}

# named deviations of the specification (= where the real code leaves the property) -> property -> signature
# reported when the real code reproduces them; everything else that differs is an ordinary violation
DEVIATIONS = {
    ("ETX", "accesslist-rlp"): {"C05": {"op": "ETX", "exit": "accesslist-rlp"}},
    ("ETX", "cache-overflow"): {"C05": {"op": "ETX", "exit": "cache-overflow"}},
    ("ETX", "ineligible"): {"C05": {"op": "ETX", "exit": "ineligible"}},
    ("CONVERT", "cache-overflow"): {"C05": {"op": "CONVERT", "exit": "cache-overflow"}},
    ("UNWRAP", "cache-overflow"): {"C05": {"op": "UNWRAP", "exit": "cache-overflow"}},
    ("CLAIM", "cache-overflow"): {"C05": {"op": "CLAIM", "exit": "cache-overflow"}},
    ("ETX", "prefork-wrap"): {"C05": {"op": "ETX", "exit": "prefork-wrap"}, "C02": {"op": "ETX", "exit": "prefork-wrap"}},
    ("CONVERT", "prefork-wrap"): {"C05": {"op": "CONVERT", "exit": "prefork-wrap"}, "C02": {"op": "CONVERT", "exit": "prefork-wrap"}},
    # ("CREATE", "create-codestore-oog") is attributed per occurrence, see f5_signatures()
}

ASSUMPTIONS = [
    "gas inside a transaction is not modelled: the driver allots gas generously; a frame whose creator was starved by a failing CREATE (63/64 rule) may only end",
    "ETX-cache index classes 65535/65536 are reached by pre-filling EVM.ETXCache from the tracer (65536 ETXs cannot be paid for within one block)",
    "eligibility of destination zones is stubbed (zone 0-1 eligible, zone 0-2 not): the deployed topology has a single zone",
    "frame kinds: CALL, DELEGATECALL, CALLCODE, STATICCALL (read-only context incl. write protection of ETX/CONVERT/CREATE/SELFDESTRUCT/value CALL/SSTORE/LOG and the lockup contract's own refusal), CREATE, CREATE2 (one created address per behaviour; the driver supplies a CREATE2 salt whose address lies in this zone); targets of the call kinds are accounts of this zone's Quai ledger (a foreign target is an out-of-gas halt in gasCall)",
    "precompiled contracts: one (bn256ScalarMul, whose account exists) as target of top-level transactions and of CALL, with value 0 / > 0, succeeding, failing by input and failing by gas; the other precompiles and the other call kinds towards them, SSTORE refunds and access-list enforcement (bypassed while tracing) are outside the model",
    "coinbase-lockup records of the pre-state are committed in the database and the block batch has the pending view on (as StateProcessor.Process / the worker set it up); a quarter of the random scenarios stage them in the batch instead; consecutive transactions of a behaviour share the batch (one block)",
    "conversion / coinbase-lockup INBOUND ETXs (handled by StateProcessor.Process, not ApplyTransaction) are outside the model",
    "TLC, the Go runtime and the memory database are trusted",
]


# --------------------------------------------------------------------------------------------- helpers

def check_constants(drv):
    """the conformance configurations hard-code protocol numbers; they must be the ones the code uses"""
    p = vlib.run([drv, "params"], check=True)
    par = json.loads(p.stdout.strip().splitlines()[-1])
    want = {"Rent": par["rent"], "TxGas": par["txgas"], "IntrinsicGas": par["intrinsic"]}
    if par["etxgas"] != par["txgas"]:
        raise Broken("params.ETXGas != params.TxGas: the specification's XGasClass thresholds assume they are equal")
    for cfg in ["EvmValueTrace.cfg", "MCEvmValue_emit_ops.cfg", "MCEvmValue_emit_frames.cfg", "MCEvmValue_emit_xframes.cfg", "MCEvmValue_emit_claim.cfg"]:
        txt = (vlib.SPEC / cfg).read_text()
        for k, v in want.items():
            m = re.search(r"^\s*%s = (\d+)" % k, txt, re.M)
            if not m or int(m.group(1)) != v:
                raise Broken("%s: %s is %s in the configuration but %s in go-quai; regenerate the conformance configurations"
                             % (cfg, k, m.group(1) if m else None, v))
    return par


def classes_of_mismatch(action, why):
    ps = set()
    if action in SEND or action == "abort" or why.startswith(("ETX cache", "recorded ETX", "outbound ETX", "status word")):
        ps.add("C05")
    if action not in SEND or why.startswith(("balances", "native", "gasUsed", "result", "action", "accounts", "implementation")):
        ps.add("C02")
    return ps


def why_kind(why):
    return why.split(":")[0][:60]


def f5_signatures(steps, i):
    """steps[i] is a `retoog` step (creation failing with ErrCodeStoreOutOfGas, not reverted).  Returns {property: signature}
    for the properties this occurrence violates: C02 if it ends a failed creation TRANSACTION that moved value,
    C05 if that transaction's receipt dropped ETXs whose debits were kept."""
    out = {}
    if i + 1 >= len(steps) or steps[i + 1]["a"] != "txend" or steps[i + 1]["res"] != "failed":
        return out                      # a nested CREATE: the failure is reported to the program; concerns C12
    end = steps[i + 1]
    j = i
    while j >= 0 and steps[j]["a"] not in ("txbegin", "etxstage"):
        j -= 1
    before = None
    if j >= 0 and steps[j].get("pre"):
        before = steps[j]["pre"]["bal"]
    else:                               # implementation traces: the observation preceding the transaction
        k = j - 1
        while k >= 0 and not (steps[k]["cmp"] == 1 or steps[k]["a"] == "tracereset"):
            k -= 1
        if k >= 0:
            before = steps[k]["obs"]["bal"]
    payer = end["x"]
    if before and any(end["obs"]["bal"][a] != before[a] for a in before if a != payer):
        out["C02"] = {"op": "CREATE", "exit": "create-codestore-oog"}
    pf = steps[j]["c"].get("pf", 0) if j >= 0 else 0
    if end["c"].get("dropped", 0) > 0 or (steps[i]["obs"]["netx"] - pf > 0 and not end["out"]):
        out["C05"] = {"op": "CREATE", "exit": "codestore-oog-drops-etx"}
    return out


def report_deviation(ctx, op, exit_, steps, i, where):
    """the real code reproduced a named deviation: a violation of the property, listed in known-findings.json"""
    if op in ("retoog", "CREATE"):
        sigs = f5_signatures(steps, i)
    else:
        sigs = DEVIATIONS.get((op, exit_))
        if sigs is None:
            raise Broken("the specification reports an unknown deviation %s/%s" % (op, exit_))
    if ctx.id in sigs:
        key = "%s/%s" % (sigs[ctx.id]["op"], sigs[ctx.id]["exit"])
        with _lock:
            d = ctx.cov.setdefault("deviations_reproduced_on_real_code", {})
            d[key] = d.get(key, 0) + 1
        report(ctx, sigs[ctx.id], {"behaviour": steps, "step": i, "source": where})


def printed_lines(r):
    return [json.loads(s) for s in r.printed]


# --------------------------------------------------------------------------------------------- spec -> code

def emit_and_replay(ctx, drv, cfg, sample=None, timeout=3000):
    """TLC enumerates the bounded state graph and prints every completed transaction history; the driver replays them"""
    r = vlib.tlc_must_pass(ctx, "MCEvmValue", cfg, workers=8, timeout=timeout)
    behs = r.printed
    if len(behs) < 20:
        raise Broken("%s emitted only %d behaviours" % (cfg, len(behs)))
    total = len(behs)
    if sample and total > sample:
        rnd = random.Random(ctx.seed)
        behs = rnd.sample(behs, sample)
    tag = cfg.replace(".cfg", "")
    f = ctx.work / ("beh-%s.ndjson" % tag)
    f.write_text("\n".join(behs) + "\n")
    out = ctx.work / ("replay-%s.json" % tag)
    vlib.run([drv, "replay", "-in", f, "-out", out, "-workers", 8], timeout=timeout, check=True)
    res = json.loads(out.read_text())
    if res["harness_errors"]:
        raise Broken("driver could not execute a behaviour of %s: %s" % (cfg, res["harness_errors"][0][:1500]))
    if res["behaviours"] != len(behs):
        raise Broken("driver replayed %d of %d behaviours" % (res["behaviours"], len(behs)))
    bad = set()
    for m in res["mismatches"] or []:
        bad.add(m["behaviour"])
        for pid in classes_of_mismatch(m["action"], m["reason"]):
            if pid == ctx.id:
                report(ctx, {"kind": "spec-vs-code", "a": m["action"], "why": why_kind(m["reason"])},
                            {"behaviour": m["behaviour_steps"], "step": m["step"], "reason": m["reason"], "expected": m["expected"],
                             "got": m["got"], "cfg": cfg})
    if res["mismatches_not_listed"]:
        vlib.log("%d further mismatching behaviours not listed" % res["mismatches_not_listed"])
    # every behaviour without a mismatch reproduced all the named deviations it passes through
    ndev = 0
    if not res["mismatches_not_listed"]:
        for bi, line in enumerate(behs):
            if bi in bad or '"dev":"' not in line:
                continue
            steps = json.loads(line)
            for i, s in enumerate(steps):
                d = s.get("dev", "-")
                if d and d != "-":
                    ndev += 1
                    report_deviation(ctx, s["a"], d, steps, i, cfg)
    incon = len(res.get("inconclusive_gas") or [])
    if incon > len(behs) // 20:
        raise Broken("%d of %d behaviours of %s ran out of allotted gas" % (incon, len(behs), cfg))
    return dict(cfg=cfg, tlc=r, emitted=total, replayed=len(behs), events=res["events_compared"], ok=len(behs) - len(bad) - incon,
                inconclusive=incon, deviation_steps=ndev, actions=res["actions"], sample_line=behs[len(behs) // 2])


# --------------------------------------------------------------------------------------------- code -> spec

def scenario_slices(rows):
    starts = [i for i, r in enumerate(rows) if r["a"] == "tracereset"]
    return starts + [len(rows)]


def validate_trace(ctx, drv, n, depth, tag, seed, timeout=3000):
    """seeded random programs run on the real code; TLC validates the event log against the specification and evaluates
    the invariants on the implementation's states"""
    tr = ctx.work / ("evmtrace-%s.ndjson" % tag)
    args = {"seed": seed, "n": n, "depth": depth}
    p = vlib.run([drv, "random", "-seed", seed, "-n", n, "-depth", depth, "-out", tr, "-workers", 8], timeout=timeout, check=True)
    info = json.loads(p.stdout.strip().splitlines()[-1])
    if info["harness_errors"]:
        raise Broken("driver error in random mode: " + info["harness_errors"][0][:1500])
    rows = vlib.read_ndjson(tr)
    bounds = scenario_slices(rows)

    def scen_of(line):          # 1-based trace line -> (scenario index, first row, last row)
        k = max(i for i in range(len(bounds) - 1) if bounds[i] < line)
        return k, bounds[k], bounds[k + 1]

    validated, offset, rounds, own = 0, 0, 0, 0
    explained = set()            # trace lines (1-based, global) at which TLC reported a named deviation
    covered = []                 # [first, last) ranges of trace lines (1-based, global) TLC walked through without a problem
    cur = rows
    # (a scenario with a problem is reported and skipped; at most 6 problems that concern this property, 30 in all)
    while cur and own < 6 and rounds < 30:
        rounds += 1
        text = "".join(json.dumps(r, separators=(",", ":")) + "\n" for r in cur)
        t = vlib.tlc(ctx, "EvmValueTrace", "EvmValueTrace.cfg", workers=1, timeout=timeout, tag="EvmValueTrace-%s-%d" % (tag, rounds),
                     files={"evmtrace.ndjson": text})
        for d in printed_lines(t):
            gl = d["l"] + offset
            explained.add(gl)
            k, a, b = scen_of(gl)
            report_deviation(ctx, d["op"], d["exit"], rows[a:b], gl - 1 - a if d["op"] != "CREATE" else gl - 1 - a,
                             {"random": dict(args, scenario=k)})
        if t.ok:
            validated += len([r for r in cur if r["a"] == "tracereset"])
            covered.append((offset + 1, len(rows) + 1))
            cur = []
            break
        # first problem: an observation that differs, an invariant that fails on the implementation's state, or an
        # event that is no enabled action of the specification
        line, what, inv = None, None, None
        m = re.search(r"mismatch = <<\s*(\d+),\s*\"(\w+)\"", t.out[t.out.rfind("mismatch = <<"):] if "mismatch = <<" in t.out else "")
        stopped = re.search(r'"trace-stopped-after-line", (\d+), (\d+)', t.out)
        if t.violated == "ObservationsConform" and m:
            line, what = int(m.group(1)), "trace-vs-spec"
        elif t.violated:
            ls = re.findall(r"^/\\ l = (\d+)", t.out, re.M)
            line, what, inv = (int(ls[-1]) - 1 if ls else 1), "invariant", t.violated
        elif stopped:
            line, what = int(stopped.group(1)) + 1, "trace-rejected"
        else:
            raise Broken("EvmValueTrace failed without a verdict:\n" + (t.error or t.out[-3000:]))
        gl = line + offset
        line = min(max(gl, 1), len(rows))
        k, a, b = scen_of(line)
        ev = rows[line - 1]
        if what == "invariant":
            props = {"C02"} if inv in C02_INVS else {"C05"} if inv in C05_INVS else {"C02", "C05"}
            sig = {"kind": "invariant-on-implementation-state", "inv": inv, "a": ev["a"]}
        elif what == "trace-vs-spec":
            props = {"C05", "C02"} if ev["a"] in SEND else {"C02"}
            sig = {"kind": "trace-vs-spec", "a": ev["a"]}
        else:
            props = {"C05", "C02"} if ev["a"] in SEND or ev["a"] == "abort" else {"C02"}
            sig = {"kind": "trace-rejected", "a": ev["a"]}
        if ctx.id in props:
            own += 1
            report(ctx, sig, {"trace": rows[a:b], "trace_line_in_scenario": line - a, "random": dict(args, scenario=k),
                                   "tlc": (t.out[-2500:] if what != "trace-vs-spec" else t.out[t.out.rfind("mismatch = <<"):][:2500])})
        validated += k - len([1 for i in bounds[:-1] if i < offset])      # scenarios of this round in front of the offender
        covered.append((offset + 1, line))
        # continue behind the offending scenario
        offset = b
        cur = rows[b:]
    # native verdicts of the driver (math/big) must be explained by a named deviation the specification reported
    prefork = set()
    for gl in explained:
        if rows[gl - 1].get("aon") == "etx-carries-more-than-debited":
            prefork.add(scen_of(gl)[0])
    # (only where TLC got to: behind an offending event, and behind the sixth offending scenario, the named deviations of
    # the specification were not reported, so a native verdict there cannot be told from a known deviation)
    if cur:
        vlib.log("%d offending scenarios: %d trace lines behind the last one were not validated" % (rounds, len(cur)))
    for i, r in enumerate(rows):
        gl = i + 1
        if not any(a <= gl < b for a, b in covered):
            continue
        if r.get("aon", "ok") != "ok" and gl not in explained and ctx.id == "C05":
            k, a, b = scen_of(gl)
            report(ctx, {"kind": "native-all-or-nothing", "a": r["a"], "why": r["aon"]},
                        {"trace": rows[a:b], "trace_line_in_scenario": gl - a, "random": dict(args, scenario=k)})
        if r.get("nat", "ok") != "ok" and ctx.id == "C02":
            k, a, b = scen_of(gl)
            if r["nat"].startswith("value-created") and k in prefork:
                continue            # the ETX carrying 2^256-1 after a wrapped pre-fork debit: reported as that deviation
            report(ctx, {"kind": "native-conservation", "a": r["a"], "why": why_kind(r["nat"])},
                        {"trace": rows[a:b], "trace_line_in_scenario": gl - a, "reason": r["nat"], "random": dict(args, scenario=k)})
    sample = rows[bounds[1]:bounds[2]][:12] if len(bounds) > 2 else rows[:12]
    return dict(scenarios=n, validated=validated, events=len(rows), txs=info["txs"], stats=info["stats"], sample=sample)


# --------------------------------------------------------------------------------------------- the check

def driver():
    """the driver built against /repo's working tree; VERIF_EVMDRV names a pre-built binary instead (mutation experiments
    on a private copy of the repository, so that concurrent users of /repo are not disturbed)"""
    return os.environ.get("VERIF_EVMDRV") or vlib.go_build("evmdrv")


def run_check(ctx):
    quick = ctx.quick
    drv = driver()
    par = check_constants(drv)
    cov = ctx.cov
    cov.update(protocol_numbers=par)

    # Plans.  The conformance configurations (real protocol numbers) check the invariants AND emit every completed
    # transaction, so one TLC run serves the design-level check and the spec -> code direction.
    if quick:
        design, strict = [], []
        emits = [[("MCEvmValue_emit_ops.cfg", 5000), ("MCEvmValue_emit_f5.cfg", None)], [("MCEvmValue_emit_frames_q.cfg", 4000)],
                 # the other frame kinds (DELEGATECALL / CALLCODE / STATICCALL / CREATE2, depth 2 and 3, two operations per frame)
                 # and the twice-claimed lockup: small universes, replayed completely
                 [("MCEvmValue_emit_xframes.cfg", None), ("MCEvmValue_emit_xframes3.cfg", None)],
                 [("MCEvmValue_emit_xframes_ops2.cfg", None), ("MCEvmValue_emit_claim.cfg", None), ("MCEvmValue_emit_precompile.cfg", None)]]
        chunks, depth = [(600, ctx.seed)], 4
    else:
        design = ["MCEvmValue_frames_small.cfg", "MCEvmValue_frames_big.cfg", "MCEvmValue_ops_small.cfg", "MCEvmValue_gas_small.cfg",
                  "MCEvmValue_xframes_small.cfg", "MCEvmValue_xframes_big.cfg"]
        strict = [("MCEvmValue_strict.cfg", "AllOrNothingStrict"), ("MCEvmValue_strict_stack.cfg", "StackDisciplineStrict")]
        emits = [[("MCEvmValue_emit_ops_big.cfg", 40000), ("MCEvmValue_emit_ops.cfg", None)],
                 [("MCEvmValue_emit_frames.cfg", 60000), ("MCEvmValue_emit_f5.cfg", None), ("MCEvmValue_emit_multi.cfg", 20000)],
                 [("MCEvmValue_emit_xframes.cfg", None), ("MCEvmValue_emit_xframes3.cfg", None)],
                 [("MCEvmValue_emit_xframes_ops2.cfg", None), ("MCEvmValue_emit_claim.cfg", None), ("MCEvmValue_emit_precompile.cfg", None)]]
        chunks, depth = [(2500, ctx.seed * 1000 + i) for i in range(3)], 5

    def emit_chain(plans):
        return [emit_and_replay(ctx, drv, cfg, sample) for cfg, sample in plans]

    def random_chain():
        return [validate_trace(ctx, drv, cn, depth, "r%d" % i, seed) for i, (cn, seed) in enumerate(chunks)]

    def design_chain(cfgs):
        # small-number universes, exhaustive
        return [vlib.tlc_must_pass(ctx, "MCEvmValue", c, workers=6, timeout=6000) for c in cfgs]

    def strict_chain():
        # the strict forms of the invariants: TLC must produce the counterexamples that became the named deviations
        return [vlib.tlc(ctx, "MCEvmValue", c, workers=4, timeout=3000) for c, _ in strict]

    with ThreadPoolExecutor(max_workers=8) as ex:
        fe = [ex.submit(emit_chain, pl) for pl in emits]
        fr = ex.submit(random_chain)
        big = [c for c in design if "big" in c]
        fd = [ex.submit(design_chain, big), ex.submit(design_chain, [c for c in design if c not in big])]
        fs = ex.submit(strict_chain)
        emitted = [e for f in fe for e in f.result()]
        traces = fr.result()
        runs = fd[0].result() + fd[1].result()
        design = big + [c for c in design if c not in big]
        sruns = fs.result()

    states = sum(r.distinct for r in runs)
    trans = sum(r.generated for r in runs)
    cov["design_runs"] = {}
    for c, r in zip(design, runs):
        vlib.log("TLC %s: %d distinct / %d generated, depth %d, %.0fs" % (c, r.distinct, r.generated, r.depth, r.wall))
        cov["design_runs"][c] = {"states": r.distinct, "transitions": r.generated, "depth": r.depth, "wall_s": round(r.wall, 1)}
    for (c, inv), r in zip(strict, sruns):
        if r.violated != inv:
            raise Broken("%s: TLC did not produce the counterexample for %s (violated=%s)\n%s" % (c, inv, r.violated, (r.error or "")[-1500:]))
        cov.setdefault("strict_counterexamples_found_by_TLC", []).append(inv)

    replayed, rep_ok, samples = 0, 0, []
    cov["replay"] = {}
    for e in emitted:
        cfg = e["cfg"]
        states += e["tlc"].distinct
        trans += e["tlc"].generated
        replayed += e["replayed"]
        rep_ok += e["ok"]
        cov["replay"][cfg] = {k: e[k] for k in ("emitted", "replayed", "events", "ok", "inconclusive", "deviation_steps", "actions")}
        cov["replay"][cfg].update(tlc_states=e["tlc"].distinct, tlc_transitions=e["tlc"].generated, tlc_depth=e["tlc"].depth,
                                  tlc_wall_s=round(e["tlc"].wall, 1))
        vlib.log("TLC %s: %d distinct / %d generated, %.0fs; replay: %d behaviours (%d emitted), %d events compared, %d conform" %
                 (cfg, e["tlc"].distinct, e["tlc"].generated, e["tlc"].wall, e["replayed"], e["emitted"], e["events"], e["ok"]))
        if len(samples) < 2:
            st = json.loads(e["sample_line"])
            samples.append({"behaviour_from_TLC": [{k: s[k] for k in ("a", "x", "y", "v", "g", "p", "c") if k in s} for s in st]})

    validated = 0
    cov["random"] = []
    for i, tv in enumerate(traces):
        validated += tv["validated"]
        cov["random"].append({k: tv[k] for k in ("scenarios", "validated", "events", "txs", "stats")})
        vlib.log("random seed %d: %d scenarios, %d events, %d validated by TLC" % (chunks[i][1], tv["scenarios"], tv["events"], tv["validated"]))
        if i == 0:
            samples.append({"implementation_trace_prefix": [{k: s[k] for k in ("a", "x", "y", "v", "g", "p", "c", "res") if k in s}
                                                            for s in tv["sample"]]})
    cov.update(states=states, transitions=trans, traces_validated_against_impl=rep_ok + validated,
               behaviours_replayed=replayed, behaviours_conform=rep_ok, random_scenarios_validated_by_TLC=validated,
               samples=samples,
               rule="every completed transaction of the bounded EvmValue state graphs (TLC) compiled to bytecode and executed with "
                    "core.ApplyTransaction on a real StateDB, every step's observation compared; seeded random programs (depth <= %d) "
                    "logged from the real code and validated by EvmValueTrace.tla with the %s invariants evaluated on the "
                    "implementation's states; conservation / all-or-nothing additionally evaluated natively (math/big)" % (depth, ctx.id))
    if ctx.id == "C05":
        chain_layer_c05(ctx, cov)
    vlib.write_evidence(ctx, "model_checking", cov, ASSUMPTIONS)


def chain_layer_c05(ctx, cov):
    """C05's last sentence on a real node: blocks with SEVERAL ETX-emitting transactions (conversions) are assembled by the worker (one EVM per
    transaction) and validated by StateProcessor.Process (one EVM shared by all transactions of the block); the receipts the node stored must
    record, transaction by transaction and in execution order, exactly the block's committed outbound list (without the protocol's coinbase
    ETXs), and the node must accept its own blocks (the receipt root commits to the recorded ETXs)."""
    import shutil
    import zonechain as zc
    drv = vlib.go_build("chaindrv")
    dbdir = zc.scratch(ctx)
    try:
        sub = dbdir / "c05chain"; sub.mkdir()
        tr, info = zc.run_chaindrv(ctx, drv, "c05-chain", ctx.seed * 100 + 5, 24 if ctx.quick else 90, sub, extra=["-trimdepth", 4, "-primesiblings", 6])
        for pr in info.get("problems") or []:
            if pr["kind"] in ("receipts-do-not-record-the-committed-outbound-set", "own-block-rejected", "prime-sibling-scenario-block-refused"):
                vlib.report(ctx, {"kind": "chain-" + pr["kind"]}, {"seed": ctx.seed * 100 + 5, "problem": pr, "trace": str(tr)})
        if not ctx.violations and info.get("receipt_etx_checks", 0) < 8:
            raise Broken("chain layer compared the receipts of only %d blocks" % info.get("receipt_etx_checks", 0))
        cov.update(chain_blocks_with_receipts_compared=info.get("receipt_etx_checks", 0))
    finally:
        shutil.rmtree(dbdir, ignore_errors=True)
    zc.check_aborted(ctx)


def run(ctx):
    run_check(ctx)


def replay(ctx, path):
    """re-executes the recorded scenario on the real code"""
    j = json.loads(Path(path).read_text())
    rp = j["replay"]
    drv = driver()
    if "behaviour" in rp:
        f = ctx.work / "one.ndjson"
        f.write_text(json.dumps(rp["behaviour"]) + "\n")
        out = ctx.work / "one.json"
        vlib.run([drv, "replay", "-in", f, "-out", out, "-workers", 1], check=True)
        res = json.loads(out.read_text())
        for m in res["mismatches"] or []:
            if ctx.id in classes_of_mismatch(m["action"], m["reason"]):
                report(ctx, {"kind": "spec-vs-code", "a": m["action"], "why": why_kind(m["reason"])}, m)
            print("MISMATCH step %d (%s): %s" % (m["step"], m["action"], m["reason"]))
        if not res["mismatches"]:
            for i, s in enumerate(rp["behaviour"]):
                if s.get("dev", "-") not in ("-", ""):
                    print("deviation reproduced: %s/%s at step %d" % (s["a"], s["dev"], i))
                    report_deviation(ctx, s["a"], s["dev"], rp["behaviour"], i, "replay")
        print(json.dumps({k: res[k] for k in ("behaviours", "txs", "events_compared", "harness_errors")}))
    elif "random" in rp:
        a = rp["random"]
        tr = ctx.work / "re.ndjson"
        vlib.run([drv, "random", "-seed", a["seed"], "-n", a["n"], "-depth", a["depth"], "-out", tr, "-workers", 8], check=True)
        rows = vlib.read_ndjson(tr)
        b = scenario_slices(rows)
        sc = rows[b[a["scenario"]]:b[a["scenario"] + 1]]
        text = "".join(json.dumps(r, separators=(",", ":")) + "\n" for r in sc)
        t = vlib.tlc(ctx, "EvmValueTrace", "EvmValueTrace.cfg", workers=1, timeout=600, files={"evmtrace.ndjson": text})
        for d in printed_lines(t):
            print("deviation reproduced: %s/%s at trace line %d" % (d["op"], d["exit"], d["l"]))
            report_deviation(ctx, d["op"], d["exit"], sc, d["l"] - 1, "replay")
        if not t.ok:
            print("TLC: violated=%s" % t.violated)
            report(ctx, dict(j["signature"]), {"trace": sc, "tlc": t.out[-2500:]})
        for r in sc:
            if r.get("aon", "ok") != "ok" or r.get("nat", "ok") != "ok":
                print("native verdict at %s: aon=%s nat=%s" % (r["a"], r.get("aon"), r.get("nat")))
    else:
        raise Broken("replay file has neither a behaviour nor a random scenario")
