"""Shared machinery for the checks bound to spec/ZoneChain.tla (C06, C10, C11, C07)."""
import json, os, random, re, shutil, tempfile
from pathlib import Path
import vlib
from vlib import Broken


def scratch(ctx):
    base = Path("/dev/shm") if Path("/dev/shm").is_dir() and os.access("/dev/shm", os.W_OK) else ctx.work
    return Path(tempfile.mkdtemp(prefix="verif-%s-" % ctx.id, dir=base))


def design_run(ctx, cfg, timeout=1800):
    r = vlib.tlc_must_pass(ctx, "MCZoneChain", cfg, workers=16, timeout=timeout)
    vlib.log("TLC %s: %d distinct / %d generated, depth %d, %.0fs" % (cfg, r.distinct, r.generated, r.depth, r.wall))
    return r


def lead_run(ctx, cfg, expect_invariant):
    """A configuration in which the specification (modelling the code as it is) is EXPECTED to violate a
    property: the counterexample is a lead that the binding then tries to reproduce on the real code."""
    r = vlib.tlc(ctx, "MCZoneChain", cfg, workers=8, timeout=900)
    found = r.violated == expect_invariant
    return {"cfg": cfg, "expected_violation": expect_invariant, "found_by_TLC": found, "states": r.distinct}


def shapes(ctx, limit, seed):
    """All block-tree / head-switch shapes of the bounded model (TLC), as driver scripts."""
    r = vlib.tlc_must_pass(ctx, "MCZoneChain", "MCZoneChain_shapes.cfg", workers=8, timeout=900)
    seen, out = set(), []
    for s in r.printed:
        hist = json.loads(s)
        steps = []
        for h in hist:
            if h["op"] == "mine":
                steps.append({"op": "mine", "p": h["p"]})
            elif h["op"] == "sethead":
                steps.append({"op": "sethead", "b": h["b"]})
        key = json.dumps(steps)
        nsh = sum(1 for x in steps if x["op"] == "sethead")
        nm = sum(1 for x in steps if x["op"] == "mine")
        if key in seen or nm < 2 or nsh < 2:
            continue
        seen.add(key)
        out.append(steps)
    rnd = random.Random(seed)
    rnd.shuffle(out)
    total = len(out)
    out = out[:limit]
    return out, total, r


def run_chaindrv(ctx, drv, tag, seed, steps, dbdir, extra=(), shapes_list=None, timeout=1500):
    tr = ctx.work / ("zctrace-%s.ndjson" % tag)
    args = [drv, "random", "-seed", seed, "-steps", steps, "-out", tr, "-dir", dbdir] + list(extra)
    if shapes_list is not None:
        sf = ctx.work / ("shapes-%s.ndjson" % tag)
        vlib.write_ndjson(sf, shapes_list)
        args += ["-shapes", sf]
    p = vlib.run(args, timeout=timeout)
    if p.returncode != 0:
        raise Broken("chaindrv failed (%d): %s\n%s" % (p.returncode, p.stdout[-1500:], p.stderr[-1500:]))
    info = json.loads(p.stdout.strip().splitlines()[-1])
    if info.get("aborted"):
        vlib.log("scenario aborted by the node:", info["aborted"][:300])
        ctx.aborted = getattr(ctx, "aborted", []) + [info["aborted"]]
    return tr, info


def check_aborted(ctx):
    """A scenario the real node could not continue (own block refused, warm-up impossible) must be explained by a reported
    violation; otherwise the check has no verdict."""
    if getattr(ctx, "aborted", None) and not ctx.violations and not ctx.known_hits:
        raise Broken("scenario aborted without a detected violation: %s" % ctx.aborted[0][:500])


def validate_trace(ctx, tag, tr, timeout=3600):
    """TLC validates the implementation trace against ZoneChainTrace.tla.  Returns (ok, mismatch tuple or None)."""
    t = vlib.tlc(ctx, "ZoneChainTrace", "ZoneChainTrace.cfg", workers=1, timeout=timeout, tag="ZCTrace-" + tag,
                 files={"zctrace.ndjson": Path(tr).read_text()})
    if t.ok:
        return True, None, t
    if t.violated == "ImageConforms":
        m = re.findall(r"mismatch = (<<.*?>>)\n", t.out, re.S)
        txt = m[-1] if m else "?"
        line = re.match(r"<<(\d+), \"([\w-]+)\"", txt)
        return False, {"line": int(line.group(1)) if line else 0, "what": line.group(2) if line else "?", "detail": txt[:400]}, t
    if t.violated in ("ReorgEqualsFreshReplay", "CommitmentEqualsContent", "SpentAtMostOnce", "AcceptedBlocksValid"):
        return False, {"line": 0, "what": t.violated, "detail": "invariant evaluated on implementation-derived state"}, t
    raise Broken("ZoneChainTrace run failed: violated=%s\n%s" % (t.violated, (t.error or t.out)[-2500:]))


def sample_events(tr, n=3):
    rows = vlib.read_ndjson(tr)
    keep = [r for r in rows if r["op"] == "sethead" or r.get("sp")][:n]
    for r in keep:
        r["utxo"] = r["utxo"][:12]
        if "cr" in r:
            r["cr"] = r["cr"][:12]
    return keep


def spend_at_trim_depth(tr, trim_depth=4):
    """Does the trace contain a block that spends an output in exactly the block that trims it (created trim_depth blocks
    earlier on the same chain and marked trimmable)?  Returns the event or None."""
    rows = vlib.read_ndjson(tr)
    mines = {r["b"]: r for r in rows if r["op"] == "mine"}
    for b, r in sorted(mines.items()):
        if not r["sp"]:
            continue
        a, steps = b, 0
        while steps < trim_depth and a in mines:
            a = mines[a]["p"]
            steps += 1
        if steps == trim_depth and a in mines and set(mines[a]["tm"]) & set(r["sp"]):
            return {"block": b, "height": r["h"], "spent": sorted(set(mines[a]["tm"]) & set(r["sp"])), "created_in_block": a}
    return None
